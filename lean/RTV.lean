-- Root of the `RTV` library: the Lean 4 model of Recognizers-Text (Python) and its property theorems.
import RTV.Props.C16
