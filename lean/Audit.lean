import Lean
/-!
Audit tool: `lake env lean --run Audit.lean RTV.Props.C16 [more modules]`
For every theorem declared in the given (already compiled) modules prints one line
  THEOREM <module> <name> AXIOMS <comma separated axioms>
and for every non-theorem declaration that is an axiom / opaque / unsafe / partial definition prints
  SUSPECT <module> <name> <kind>
The .olean files are what the kernel accepted; `sorry` shows up as the axiom `sorryAx`.
-/
open Lean

def isInternal (n0 : Name) : Bool :=
  -- a `private theorem` is a user theorem: audit it under its user-facing name (only the `_private.<module>.0` prefix is dropped)
  let n := (privateToUserName? n0).getD n0
  n.isInternal || n.components.any fun c => match c with
    | .str _ s => s.startsWith "_" || s.startsWith "match_" || s.startsWith "proof_" || s.startsWith "eq_" || s == "brecOn" || s == "below"
        || s == "injEq" || s == "inj" || s == "sizeOf_spec" || s == "noConfusion" || s == "noConfusionType" || s.endsWith "_sizeOf_spec"
        || s == "ctorIdx" || s.startsWith "ofNat_" || s == "toCtorIdx" || s == "ctorElim" || s.startsWith "ctorElim"
    | _ => false

unsafe def main (args : List String) : IO UInt32 := do
  enableInitializersExecution
  initSearchPath (← findSysroot)
  let mods := args.map String.toName
  let env ← importModules (mods.toArray.map fun m => {module := m}) {} (trustLevel := 0) (loadExts := true)
  let ctx : Core.Context := {fileName := "<audit>", fileMap := default}
  for m in mods do
    let some idx := env.getModuleIdx? m | do IO.eprintln s!"module {m} not found"; return 2
    let mut names : Array Name := #[]
    for (n, _) in env.constants.map₁.toList do
      if env.getModuleIdxFor? n == some idx then names := names.push n
    let sorted := names.qsort (fun a b => a.toString < b.toString)
    for n in sorted do
      let some ci := env.find? n | continue
      match ci with
      | .thmInfo _ =>
        if isInternal n then continue
        let (axsA, _) ← (collectAxioms n : CoreM _).toIO ctx {env}
        let axs := axsA.toList.map toString |>.mergeSort
        IO.println s!"THEOREM {m} {n} AXIOMS {",".intercalate axs}"
      | .axiomInfo _ => IO.println s!"SUSPECT {m} {n} axiom"
      | .opaqueInfo v => if !isInternal n then IO.println s!"SUSPECT {m} {n} opaque{if v.isUnsafe then "-unsafe" else ""}"
      | .defnInfo v => if v.safety != .safe && !isInternal n then IO.println s!"SUSPECT {m} {n} def-{repr v.safety}"
      | _ => pure ()
  return 0
