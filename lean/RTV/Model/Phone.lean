import RTV.Model.Seq
/-
`Phone` — mirrors `BasePhoneNumberExtractor.extract` (recognizers_sequence/sequence/extractors.py): the pre-check, the
ten-regex `SequenceExtractor.extract`, and the post-processing loop (digit-count filters, SSN filter, forbidden suffix,
false-positive prefix, boundary markers with the international-dialling-prefix re-span, forbidden prefix markers, the
hexadecimal mask filter).  Every regex outcome the loop consults is a parameter (`PhoneOracle`), so the theorems hold
for any of them; the driver plugs in the regenerated regexes.
-/
namespace RTV.Phone
open RTV.Py RTV.Re RTV.Match RTV.Seq

/-- what the post-processing asks of regexes and tables -/
structure PhoneOracle where
  isDigit : Nat → Bool                    -- str.isdigit
  isLower : Nat → Bool                    -- str.islower (one character)
  isSpace : Nat → Bool                    -- str.isspace (for .strip())
  ssn : Str → Bool                        -- ssn_filter_regex.search(text) is not None
  fpPrefix : Option (Str → Bool)          -- config.false_positive_prefix_regex (None in the base configuration) .search(front)
  fmtInd : Str → Bool                     -- format_indicator_regex.search(text)
  intl : Str → Option (Nat × Nat)         -- international_dialing_prefix_regex.search(front): span
  colonOk : Str → Bool                    -- colon_prefix_check_regex.search(front) is not None
  forbiddenPrefix : List Nat              -- config.forbidden_prefix_markers

def boundaryMarkers : List Nat := [45, 46, 47, 43, 35, 42]          -- - . / + # *
def specialBoundaryMarkers : List Nat := [45, 32]                   -- '-', ' '
def forbiddenSuffixMarkers : List Nat := [47, 43, 35, 42, 58, 37]   -- / + # * : %
def colonMarkers : List Nat := [58]

def countDigits (O : PhoneOracle) (t : Str) : Nat := (t.filter O.isDigit).length

/-- `text.split(' ')` -/
def splitSpace : Str → Str → List Str
  | [], cur => [cur]
  | c :: r, cur => if c = 32 then cur :: splitSpace r [] else splitSpace r (cur ++ [c])

/-- the `count_digits(er.text) == 15` block: `flag` after the loop -/
def flag15 (O : PhoneOracle) (t : Str) : Bool :=
  let rec go : List Str → Bool
    | [] => false
    | sp :: rest => if countDigits O sp = 4 || countDigits O sp = 3 then go rest else true
  go (splitSpace t [])

inductive Verdict
  | drop
  | keep
  | respan (start len : Nat) (text : Str)
deriving Repr, DecidableEq

/-- the `continue`s before the prefix logic: too few digits / SSN shape; 16 digits without `+`; 15 digits in groups of
3–4; a forbidden suffix marker right after; a false-positive prefix before (all side-effect free, so their order does
not matter) -/
def rejected (O : PhoneOracle) (source : Str) (er : ER) : Bool :=
  let d := countDigits O er.text
  ((d < 7 && er.data != "ITPhoneNumber") || O.ssn er.text) ||
  (d = 16 && er.text.head? != some 43) ||
  (d = 15 && flag15 O er.text = false) ||
  (er.start + er.len < source.length && forbiddenSuffixMarkers.contains (source.getD (er.start + er.len) 0)) ||
  (match O.fpPrefix with | some f => f (sliceI source 0 ((er.start : Int) - 1)) | none => false)

/-- the `if er.start != 0:` block and the final `ret.append(er)` -/
def judgeBoundary (O : PhoneOracle) (source : Str) (er : ER) : Verdict :=
  let ch := (index source ((er.start : Int) - 1)).getD 0
  let front := sliceI source 0 ((er.start : Int) - 1)
  if er.start ≠ 0 then
    if boundaryMarkers.contains ch then
      if specialBoundaryMarkers.contains ch && O.fmtInd er.text && er.start ≥ 2 then
        let gap := source.getD (er.start - 2) 0
        if O.isDigit gap then
          match O.intl front with
          | some (ms, me) =>
            let len := er.len + me - ms + 1
            .respan ms len (strip O.isSpace (sliceI source ms (ms + len)))
          | none => .drop
        else if O.isLower gap then .drop
        else .keep
      else .drop
    else if O.forbiddenPrefix.contains ch then
      if colonMarkers.contains ch then (if O.colonOk front then .keep else .drop) else .drop
    else .keep
  else .keep

/-- one iteration of the `for er in extract_results` loop -/
def judge (O : PhoneOracle) (source : Str) (er : ER) : Verdict :=
  if rejected O source er then .drop else judgeBoundary O source er

def applyVerdict (er : ER) : Verdict → List ER
  | .drop => []
  | .keep => [er]
  | .respan st len text => [{ er with start := st, len := len, text := text }]

/-- the mask loop: `er.start < m.start() or er.end > m.end()` with `er.end = start + length - 1` -/
def maskKeep (masks : List (Nat × Nat)) (er : ER) : Bool :=
  masks.all fun m => er.start < m.1 || (er.start : Int) + er.len - 1 > m.2

/-- the post-processing of `BasePhoneNumberExtractor.extract` on the results of `super().extract(source)` -/
def postProcess (O : PhoneOracle) (masks : List (Nat × Nat)) (source : Str) (ers : List ER) : List ER :=
  (ers.flatMap fun er => applyVerdict er (judge O source er)).filter (maskKeep masks)

end RTV.Phone
