import RTV.Model.Re
import RTV.Model.Span
/-!
`NumExtract` — the number EXTRACTION front end for digit literals (C03).  Mirrors

* `recognizers_number/number/extractors.py`  `BaseNumberExtractor.extract`: `regex.finditer` of every entry of
  `self.regexes` (leftmost, non-overlapping: `RTV.Re.findAll`), the `matched[]` union sweep with its exact-span
  `src_match` lookup, the negative-term widening (`regex.finditer(self._negative_number_terms, source[0:start])`, first
  match ending at `start`) and `_filter_ambiguity` (`RTV.Span.numExtract` is the sweep; here its parameters are computed
  from regexes), and `_generate_format_regex`;
* `recognizers_number/resources/base_numbers.py`  `BaseNumbers.IntegerRegexDefinition`, `DoubleRegexDefinition`,
  `PlaceHolderDefault`: the f-strings as functions from the marks / place holder to a regex AST in the translator's
  normal form (right-nested, `eps`-terminated sequences) — `RTV.Props.C03Extract` proves the regenerated ASTs
  (RTV/Gen/NumRegex*.lean: the pattern texts of the real extractor objects) are exactly these.

The regex lists are data (`Ext`, regenerated): the DIGIT FAMILY of a culture's extractor = its `IntegerNum` / `DoubleNum`
entries that consume digits, white space and punctuation only.  Import-free apart from RTV models.
-/
namespace RTV.NumExtract
open RTV.Py RTV.Re RTV.Span

/-- One extractor's data: digit family `(index in self.regexes, regex)`, `ReVal.val` of every entry,
`_negative_number_terms`, `ambiguity_filters_dict` as `(key, value)`. -/
structure Ext where
  fam : List (Nat × RE)
  tags : List String
  neg : Option RE
  amb : List (RE × RE)

/-- all `finditer` matches, regex by regex (the order of `matches_list` / `match_source`); tag = index of the regex -/
def matchesOf (T : Tables) (s : Array Nat) (fam : List (Nat × RE)) : List M :=
  fam.flatMap fun p => (findAll T s p.2).map fun ab => (⟨ab.1, ab.2 - ab.1, p.1⟩ : M)

/-- `next((m for m in regex.finditer(self._negative_number_terms, source[0:start]) if m.end() == start), None)` -/
def negSpan (T : Tables) (src : Str) (neg : Option RE) (start : Nat) : Option (Nat × Nat) :=
  match neg with
  | none => none
  | some r => (findAll T (src.take start).toArray r).find? fun ab => ab.2 == start

/-- `_filter_ambiguity`: for every item whose key is found, the matches of its value regex -/
def ambMatches (T : Tables) (s : Array Nat) (amb : List (RE × RE)) : List (List (Nat × Nat)) :=
  amb.filterMap fun kv => if searches T s kv.1 then some (findAll T s kv.2) else none

/-- `BaseNumberExtractor.extract` with `self.regexes` = the digit family. `sp` = `str.isspace`. -/
def extract (T : Tables) (sp : Nat → Bool) (e : Ext) (src : Str) : List ER :=
  let s := src.toArray
  numExtract sp src (matchesOf T s e.fam) (negSpan T src e.neg) (ambMatches T s e.amb)

/-- the sweep alone (no negative terms, no ambiguity filters): what the theorems of `RTV.Props.C03Extract` unfold -/
def extractCore (T : Tables) (sp : Nat → Bool) (fam : List (Nat × RE)) (src : Str) : List ER :=
  numExtract sp src (matchesOf T src.toArray fam) (fun _ => none) []

/-! ### `BaseNumbers.*RegexDefinition` and `_generate_format_regex` as AST builders -/

-- no correspondence: integerRegexDefinition doubleRegexDefinition generateFormatRegex numbersWithPlaceHolderOf doubleDecimalPointOf and their parts (dig … decPhOf): regex constructors; theorems gen_integer_definitions / gen_double_definitions / generate_format_regex_cases (Props/C03Extract) and the shape checks of Props/C03ExtractPlain (`decide`, re-checked every run) equate their output with the regex ASTs regenerated from the working tree (RTV/Gen/NumRegex), which the driver runs (nx.find / nx.extract)
/-- `\d` -/
def dig : RE := .cls [.digit] false
/-- a literal character (no case variants: marks and signs) -/
def chr (c : Nat) : RE := .cls [.range c c] false
/-- `\s*` -/
def blanks : RE := .repU (.seq (.cls [.space] false) .eps) 0 true
/-- `\d+` -/
def digits1 : RE := .repU (.seq dig .eps) 1 true
/-- `\d{3}` -/
def dig3 : RE := .rep (.seq dig .eps) 3 3 true
/-- `\d{1,3}` -/
def dig13 : RE := .rep (.seq dig .eps) 1 3 true
/-- `[\.,]` -/
def dotComma : RE := .cls [.range 46 46, .range 44 44] false

/-- `(?<!\d+\s*)` -/
def notAfterNumber : RE := .look false true (.seq digits1 (.seq blanks .eps))
/-- `(?<!\d+[\.,])` -/
def notAfterMark : RE := .look false true (.seq digits1 (.seq dotComma .eps))

/-- `(((?<!\d+\s*)-\s*)|((?<=\b)(?<!\d+[\.,])))` — the sign / boundary prefix shared by both definitions
(group numbers 1, 2, 3 as in the pattern) -/
def signPrefix : RE :=
  .grp 1 (.seq (.alt
    (.seq (.grp 2 (.seq notAfterNumber (.seq (chr 45) (.seq blanks .eps)))) .eps)
    (.seq (.grp 3 (.seq (.look false false (.seq .wordB .eps)) (.seq notAfterMark .eps))) .eps)) .eps)

/-- `({thousandsmark}\d{3})` as group number `g`; `mark` = the translated (escaped) mark, one character -/
def group3 (g : Nat) (mark : Nat) : RE := .grp g (.seq (chr mark) (.seq dig3 .eps))

/-- `BaseNumbers.IntegerRegexDefinition(placeholder, thousandsmark)`:
`(((?<!\d+\s*)-\s*)|((?<=\b)(?<!\d+[\.,])))\d{1,3}({thousandsmark}\d{3})+(?={placeholder})` -/
def integerRegexDefinition (placeholder : RE) (thousandsmark : Nat) : RE :=
  .seq signPrefix (.seq dig13 (.seq (.repU (.seq (group3 4 thousandsmark) .eps) 1 true)
    (.seq (.look true false (.seq placeholder .eps)) .eps)))

/-- `BaseNumbers.DoubleRegexDefinition(placeholder, thousandsmark, decimalmark)`:
`(…sign…)\d{1,3}(({thousandsmark}\d{3})+{decimalmark}|({decimalmark}\d{3})+{thousandsmark})\d+(?={placeholder})` -/
def doubleRegexDefinition (placeholder : RE) (thousandsmark decimalmark : Nat) : RE :=
  .seq signPrefix (.seq dig13 (.seq
    (.grp 4 (.seq (.alt
      (.seq (.repU (.seq (group3 5 thousandsmark) .eps) 1 true) (.seq (chr decimalmark) .eps))
      (.seq (.repU (.seq (group3 6 decimalmark) .eps) 1 true) (.seq (chr thousandsmark) .eps))) .eps))
    (.seq digits1 (.seq (.look true false (.seq placeholder .eps)) .eps))))

/-- `BaseNumbers.PlaceHolderDefault = '(?=\D)|\b'` (English) -/
def placeHolderDefault : RE := .alt (.seq (.look true false (.seq (.cls [.ndigit] false) .eps)) .eps) (.seq .wordB .eps)
/-- `<Lang>Numeric.PlaceHolderDefault = '\D|\b'` (the other cultures) -/
def placeHolderDefaultEu : RE := .alt (.seq (.cls [.ndigit] false) .eps) (.seq .wordB .eps)
/-- `PlaceHolderPureNumber = '\b'` -/
def placeHolderPure : RE := .wordB

/-- `LongFormatType(thousands_mark, decimals_mark)` -/
structure LongFormatType where
  thousandsMark : Nat
  decimalsMark : Option Nat

/-- `_generate_format_regex(format_type, placeholder)` (`regex.escape` of a one-character mark is that character) -/
def generateFormatRegex (ft : LongFormatType) (placeholder : RE) : RE :=
  match ft.decimalsMark with
  | none => integerRegexDefinition placeholder ft.thousandsMark
  | some d => doubleRegexDefinition placeholder ft.thousandsMark d

/-! ### NumbersWithPlaceHolder / DoubleDecimalPointRegex of the cultures that share the plain sign prefix

`(((?<!{lb1})-\s*)|{b2})\d+(?!{nla})(?={placeholder})` and `(…)\d+[{marks}]\d+(?!{nla})(?={placeholder})`: the
look-behind body `lb1`, the boundary part `b2`, the negative look-ahead body `nla` and the mark class differ per culture
and are read off the regenerated AST by the projections below (`plainShapeOK`, `decimalShapeOK` check that the AST IS the
template applied to its own projections). -/

/-- `(?<=\b)` -/
def afterBoundary : RE := .look false false (.seq .wordB .eps)

/-- `(((?<!{lb1})-\s*)|{b2})` -/
def signPrefixOf (lb1 b2 : RE) : RE :=
  .grp 1 (.seq (.alt
    (.seq (.grp 2 (.seq (.look false true lb1) (.seq (chr 45) (.seq blanks .eps)))) .eps)
    (.seq b2 .eps)) .eps)

/-- `{sign}\d+(?!{nla})(?={placeholder})` -/
def numbersWithPlaceHolderOf (lb1 b2 nla ph : RE) : RE :=
  .seq (signPrefixOf lb1 b2) (.seq digits1 (.seq (.look true true nla) (.seq (.look true false (.seq ph .eps)) .eps)))

/-- `{sign}\d+[{marks}]\d+(?!{nla})(?={placeholder})` -/
def doubleDecimalPointOf (lb1 b2 : RE) (marks : List Item) (nla ph : RE) : RE :=
  .seq (signPrefixOf lb1 b2) (.seq digits1 (.seq (.cls marks false) (.seq digits1
    (.seq (.look true true nla) (.seq (.look true false (.seq ph .eps)) .eps)))))

/-- `(?<=\b)` alone, or `((?<=\b)(?<!{lb2}))` as group 3 -/
def boundaryWith (lb2 : Option RE) : RE :=
  match lb2 with
  | none => afterBoundary
  | some b => .grp 3 (.seq afterBoundary (.seq (.look false true b) .eps))

def lb1Of : RE → RE
  | .seq (.grp _ (.seq (.alt (.seq (.grp _ (.seq (.look _ _ x) _)) _) _) _)) _ => x
  | _ => .eps

def lb2Of : RE → Option RE
  | .seq (.grp _ (.seq (.alt _ (.seq (.grp _ (.seq _ (.seq (.look _ _ x) _))) _)) _)) _ => some x
  | _ => none

def plainNlaOf : RE → RE
  | .seq _ (.seq _ (.seq (.look _ _ x) _)) => x
  | _ => .eps

def plainPhOf : RE → RE
  | .seq _ (.seq _ (.seq _ (.seq (.look _ _ (.seq x _)) _))) => x
  | _ => .eps

def decMarksOf : RE → List Item
  | .seq _ (.seq _ (.seq (.cls m _) _)) => m
  | _ => []

def decNlaOf : RE → RE
  | .seq _ (.seq _ (.seq _ (.seq _ (.seq (.look _ _ x) _)))) => x
  | _ => .eps

def decPhOf : RE → RE
  | .seq _ (.seq _ (.seq _ (.seq _ (.seq _ (.seq (.look _ _ (.seq x _)) _))))) => x
  | _ => .eps

/-! ### what may FOLLOW a literal (carrier contract of `RTV.Props.C03Extract`, audit item 13)

The entries of an extractor list that are outside the digit family (`\d+\s*(k|M|T|G|b)`, `\d+\s+{RoundNumberIntegerRegex}`,
`\d+\s+dozen`, `\d+\s+(over|in|out of)\s+…`) read a WORD after the literal.  `follow` = that culture's regenerated word
list (RTV/Gen/NumFollow.lean), `lower` = the simple lower-case mapping. -/

/-- the first word of the text after a literal: skip `\s*`, take the run of `\w` characters -/
def firstWord (T : Tables) (post : Str) : Str := (post.dropWhile T.space).takeWhile T.word

/-- the first word after the literal (lower-cased) is one of the words that continue a literal -/
def isFollower (T : Tables) (lower : Nat → Nat) (follow : List Str) (post : Str) : Bool :=
  follow.contains ((firstWord T post).map lower)

end RTV.NumExtract
