/-
L1 `Re` — a small regular-expression AST and a backtracking matcher that returns **all end positions in
priority order**, i.e. the order in which Python's `re` / `regex` (version 0 behaviour) would try them:
`seq` = flatMap, `alt` = left before right, a greedy repeat tries one more iteration before stopping, a lazy one
stops first.  The first element of `ends` is therefore the match a backtracking engine reports for a given start.

Enough for BaseIp.Ipv4Regex / Ipv6Regex, BaseGUID.GUIDRegex, the boolean True/False/Tokenizer regexes and simple
TIMEX-like patterns: literals and classes (ranges, negation, `\d \w \s` and their complements), sequence,
alternation, bounded / unbounded greedy / lazy repeats, (capturing) groups, `\b \B ^ $ \Z`, look-ahead and
look-behind.  IGNORECASE is *not* a matcher feature: the translator (harness/translate/regexes.py) expands every
literal / class under the flag to the set of code points the `regex` module accepts for it.

The character tables behind `\d \w \s` are a parameter (`Tables`): theorems quantify over them or fix them by
hypothesis, the driver plugs in the tables exported from the running `regex` module (RTV/Gen/Regexes.lean).

Strings are `Array Nat` of code points here (O(1) indexing in the compiled driver). Import-free and total:
bounded repeats recurse on the bound, unbounded ones use `size + 1` as the bound (bodies that can match the
empty string under an unbounded repeat are rejected by the translator).
-/
namespace RTV.Re

/-- Character tables of the regex engine. -/
structure Tables where
  digit : Nat → Bool
  word : Nat → Bool
  space : Nat → Bool

/-- `\d` = ASCII digits, `\w` = ASCII alphanumerics and `_`, `\s` = ASCII white space (what `re.ASCII` means). -/
def asciiTables : Tables where
  digit c := 48 ≤ c && c ≤ 57
  word c := (48 ≤ c && c ≤ 57) || (65 ≤ c && c ≤ 90) || (97 ≤ c && c ≤ 122) || c == 95
  space c := (9 ≤ c && c ≤ 13) || c == 32

/-- One item of a character class. -/
inductive Item
  | range (lo hi : Nat)
  | digit | word | space          -- `\d \w \s`
  | ndigit | nword | nspace       -- `\D \W \S`
deriving DecidableEq, Repr, Inhabited

def Item.test (T : Tables) (c : Nat) : Item → Bool
  | .range lo hi => lo ≤ c && c ≤ hi
  | .digit => T.digit c
  | .word => T.word c
  | .space => T.space c
  | .ndigit => !T.digit c
  | .nword => !T.word c
  | .nspace => !T.space c

/-- `[items]` / `[^items]` applied to one code point. -/
def clsTest (T : Tables) (items : List Item) (neg : Bool) (c : Nat) : Bool :=
  (items.any (Item.test T c)) != neg

inductive RE
  | eps
  | cls (items : List Item) (neg : Bool)
  | seq (a b : RE)
  | alt (a b : RE)
  /-- `a{mn,mx}` (greedy) / `a{mn,mx}?` (lazy) -/
  | rep (a : RE) (mn mx : Nat) (greedy : Bool)
  /-- `a{mn,}` -/
  | repU (a : RE) (mn : Nat) (greedy : Bool)
  /-- `( … )`; `idx = 0` for a non-capturing group -/
  | grp (idx : Nat) (a : RE)
  | wordB | nwordB
  /-- `^` (no MULTILINE), `$` (end or before a final newline), `\Z` -/
  | bol | eol | eos
  /-- `(?=a)` `(?!a)` `(?<=a)` `(?<!a)` -/
  | look (ahead neg : Bool) (a : RE)
deriving DecidableEq, Repr, Inhabited

/-- code point at `i`, `0` past the end -/
def code (s : Array Nat) (i : Nat) : Nat := s.getD i 0

/-- is position `i` inside the string and a `\w` character -/
def wordAt (T : Tables) (s : Array Nat) (i : Nat) : Bool := i < s.size && T.word (code s i)

/-- `\b` at `i`: exactly one of the characters before / after `i` is a word character. -/
def isWordB (T : Tables) (s : Array Nat) (i : Nat) : Bool :=
  (i > 0 && wordAt T s (i - 1)) != wordAt T s i

/-- All ends of `a{mn,mx}` from `i`, `f` = ends of one iteration. Recursion on `mx`. -/
def repEnds (f : Nat → List Nat) (greedy : Bool) : Nat → Nat → Nat → List Nat
  | 0, mn, i => if mn = 0 then [i] else []
  | mx + 1, mn, i =>
    let more := (f i).flatMap (repEnds f greedy mx (mn - 1))
    let stop := if mn = 0 then [i] else []
    if greedy then more ++ stop else stop ++ more

/-- All end positions of a match of `r` starting at `i`, in backtracking priority order. -/
def ends (T : Tables) (s : Array Nat) : RE → Nat → List Nat
  | .eps, i => [i]
  | .cls items neg, i => if i < s.size && clsTest T items neg (code s i) then [i + 1] else []
  | .seq a b, i => (ends T s a i).flatMap (ends T s b)
  | .alt a b, i => ends T s a i ++ ends T s b i
  | .rep a mn mx g, i => repEnds (ends T s a) g mx mn i
  | .repU a mn g, i => repEnds (ends T s a) g (mn + s.size + 1) mn i
  | .grp _ a, i => ends T s a i
  | .wordB, i => if isWordB T s i then [i] else []
  | .nwordB, i => if isWordB T s i then [] else [i]
  | .bol, i => if i = 0 then [i] else []
  | .eol, i => if i = s.size || (i + 1 = s.size && code s i = 10) then [i] else []
  | .eos, i => if i = s.size then [i] else []
  | .look true neg a, i => if (ends T s a i).isEmpty = neg then [i] else []
  | .look false neg a, i =>
      if ((List.range (i + 1)).any fun k => (ends T s a k).contains i) = neg then [] else [i]

/-- `r` matches `s[i:j]` (in its context: `\b`, look-around see the whole string). -/
def Matches (T : Tables) (r : RE) (s : Array Nat) (i j : Nat) : Prop := j ∈ ends T s r i

instance : Decidable (Matches T r s i j) := by unfold Matches; exact inferInstance

/-- The end a backtracking engine reports for a match attempt at `i`. -/
def firstEnd (T : Tables) (s : Array Nat) (r : RE) (i : Nat) : Option Nat := (ends T s r i).head?

/-- `finditer`: leftmost start, first end in priority order, continue after the match (after an empty match one
position further). `fuel` bounds the number of steps (`size + 2` suffices). -/
def findAllFrom (T : Tables) (s : Array Nat) (r : RE) : Nat → Nat → List (Nat × Nat)
  | 0, _ => []
  | fuel + 1, pos =>
    if pos > s.size then []
    else match firstEnd T s r pos with
      | some j => (pos, j) :: findAllFrom T s r fuel (if j ≤ pos then pos + 1 else j)
      | none => findAllFrom T s r fuel (pos + 1)

def findAll (T : Tables) (s : Array Nat) (r : RE) : List (Nat × Nat) := findAllFrom T s r (s.size + 2) 0

/-- `pattern.search(s) is not None` -/
def searches (T : Tables) (s : Array Nat) (r : RE) : Bool :=
  (List.range (s.size + 1)).any fun i => !(ends T s r i).isEmpty

/-- Can `r` match the empty string somewhere (syntactic over-approximation; the translator refuses unbounded
repeats of such bodies, for which the engines' empty-iteration rules would matter). -/
def nullable : RE → Bool
  | .eps => true
  | .cls _ _ => false
  | .seq a b => nullable a && nullable b
  | .alt a b => nullable a || nullable b
  | .rep a mn _ _ => mn == 0 || nullable a
  | .repU a mn _ => mn == 0 || nullable a
  | .grp _ a => nullable a
  | _ => true

/-- The finite language of a regex without unbounded repeats / classes wider than `cap` code points, as the list of
strings it can match ignoring zero-width assertions (used for the boolean alternatives, C20). `none` = not finite
within the budget. Ranges are enumerated only when they are a single code point or small. -/
def Item.enum : Item → Option (List Nat)
  | .range lo hi => if hi - lo < 8 then some ((List.range (hi - lo + 1)).map (lo + ·)) else none
  | .space => some [32]          -- `\s` is represented by its one-blank instance
  | _ => none

def enumCls : List Item → Option (List Nat)
  | [] => some []
  | it :: rest => do
    let a ← it.enum
    let b ← enumCls rest
    pure (a ++ b)

def catAll (as bs : List (List Nat)) : List (List Nat) := as.flatMap fun a => bs.map fun b => a ++ b

def powLang (l : List (List Nat)) : Nat → List (List Nat)
  | 0 => [[]]
  | n + 1 => catAll l (powLang l n)

def enumLang : RE → Option (List (List Nat))
  | .eps => some [[]]
  | .cls items neg => if neg then none else (enumCls items).map fun cs => cs.map fun c => [c]
  | .seq a b => do
    let x ← enumLang a
    let y ← enumLang b
    pure (catAll x y)
  | .alt a b => do
    let x ← enumLang a
    let y ← enumLang b
    pure (x ++ y)
  | .rep a mn mx _ => do
    let x ← enumLang a
    pure ((List.range (mx + 1 - mn)).flatMap fun k => powLang x (mn + k))
  | .repU a mn _ => (enumLang a).map fun x => powLang x mn     -- minimal instance of an unbounded repeat
  | .grp _ a => enumLang a
  | .look _ _ _ => some [[]]
  | _ => some [[]]

end RTV.Re

/-! ### one capture group
`endsCap g` is `ends` that also threads the span of the last completed capture of group number `g` along every
backtracking path (what `match.span(g)` / `match.group(g)` would be for that path); `none` = the group did not
take part.  Captures inside look-around assertions are not tracked (the translator's users only ask for groups
outside them). -/
namespace RTV.Re

abbrev Cap := Option (Nat × Nat)

def repEndsCap (f : Nat → Cap → List (Nat × Cap)) (greedy : Bool) : Nat → Nat → Nat → Cap → List (Nat × Cap)
  | 0, mn, i, c => if mn = 0 then [(i, c)] else []
  | mx + 1, mn, i, c =>
    let more := (f i c).flatMap fun p => repEndsCap f greedy mx (mn - 1) p.1 p.2
    let stop := if mn = 0 then [(i, c)] else []
    if greedy then more ++ stop else stop ++ more

def endsCap (T : Tables) (s : Array Nat) (g : Nat) : RE → Nat → Cap → List (Nat × Cap)
  | .seq a b, i, c => (endsCap T s g a i c).flatMap fun p => endsCap T s g b p.1 p.2
  | .alt a b, i, c => endsCap T s g a i c ++ endsCap T s g b i c
  | .rep a mn mx gr, i, c => repEndsCap (endsCap T s g a) gr mx mn i c
  | .repU a mn gr, i, c => repEndsCap (endsCap T s g a) gr (mn + s.size + 1) mn i c
  | .grp n a, i, c => (endsCap T s g a i c).map fun p => (p.1, if n = g then some (i, p.1) else p.2)
  | r, i, c => (ends T s r i).map fun k => (k, c)

/-- `finditer` with the capture of group `g` of each reported match: `(start, end, capture)` -/
def findAllCapFrom (T : Tables) (s : Array Nat) (g : Nat) (r : RE) : Nat → Nat → List (Nat × Nat × Cap)
  | 0, _ => []
  | fuel + 1, pos =>
    if pos > s.size then []
    else match (endsCap T s g r pos none).head? with
      | some (j, c) => (pos, j, c) :: findAllCapFrom T s g r fuel (if j ≤ pos then pos + 1 else j)
      | none => findAllCapFrom T s g r fuel (pos + 1)

def findAllCap (T : Tables) (s : Array Nat) (g : Nat) (r : RE) : List (Nat × Nat × Cap) :=
  findAllCapFrom T s g r (s.size + 2) 0

end RTV.Re
