import RTV.Model.DateUtils
import RTV.Model.WellFormed
import RTV.Model.Periods
/-!
L5 `DtPeriod` — the computations of `BaseDateTimePeriodParser` (`base_datetimeperiod.py`, English configuration),
mirrored function by function with the **sub-results as inputs** (what the date / time / date-time / time-period /
duration parsers returned for the pieces of the text, which regex groups matched): `merge_two_time_points`,
`merge_date_and_time_periods` (one date + one time period), `parse_simple_cases`, `parse_specific_time_of_day`
(+ `EnglishDateTimePeriodParserConfiguration.get_matched_time_range` / `get_swift_prefix`), `parse_duration`,
`parse_relative_unit`. (`parse_date_with_period_prefix` is dead in English: `prefix_day_regex` ends in `$` and is matched
against a prefix that keeps its trailing blank, so it never matches; `parse_date_with_time_period_suffix` returns a
point, not a range. Both are monitored through the pipeline only.)

Model of the code that exists: the Python port has **no day roll** when the end time of a range is earlier than its
begin time, no "later than" adjustment, and writes the duration with `luis_time_span`, which prints a *negative* hour
count for a negative span (`PT-21H`); all of that is mirrored (`luisTimeSpanI`), and stated as witnesses in
`Props/C10DtPeriod.lean`.

Conventions: a Python `datetime` is `Cal.DateTime` (date + seconds since midnight; microseconds never arise);
`hour/minute/second` of it are `hourOf/minuteOf/secondOf`. Results are `Periods.Res` (`raises` = the Python code raises
OverflowError, `noResult` = `success = False`, `ok timex futureBegin futureEnd pastBegin pastEnd`), paired with the
`comment == 'ampm'` flag where the function sets one.
-/
namespace RTV.DtPeriod
open RTV.Cal RTV.DateUtils RTV.WF RTV.Periods

def hourOf (x : DateTime) : Nat := x.secs / 3600
def minuteOf (x : DateTime) : Nat := x.secs % 3600 / 60
def secondOf (x : DateTime) : Nat := x.secs % 60

/-- `DateUtils.safe_create_from_min_value(d.year, d.month, d.day, h, mi, s)`: `is_valid_date and is_valid_time` else the
minimum value. `is_valid_time` is `0 <= h < 24 and 0 <= mi < 60 and s >= 0` — the second is not bounded above there
(`datetime(…, second=60)` would raise); every call site passes `.second` of a datetime or `end_min ∈ {0, 59}`. -/
def withTime (d : Date) (h mi s : Nat) : DateTime :=
  if d.valid && decide (h < 24) && decide (mi < 60) then ⟨d, h * 3600 + mi * 60 + s⟩ else DateUtils.minValue

/-- `f'{n:02d}'` for every natural number -/
def pad2w (n : Nat) : Str := if n < 100 then pad2 n else natStr n

/-- `DateTimeFormatUtil.luis_time_span(begin, end)` for **any** difference `T = end − begin` in seconds (a negative
`timedelta` is normalised by CPython to `days < 0`, `0 ≤ seconds < 86400`). -/
def luisTimeSpanI (T : Int) : Str :=
  let days := T.fdiv 86400
  let secs := (T.fmod 86400).toNat
  let h := secs / 3600
  let m := secs % 3600 / 60
  let s := secs % 3600 % 60
  [80, 84] ++ (if days > 0 ∨ h > 0 then intStr (days * 24 + h) ++ [72] else []) ++
    (if m > 0 then natStr m ++ [77] else []) ++ (if s > 0 then natStr s ++ [83] else [])

/-- `end − begin` in seconds -/
def diffSecs (b e : DateTime) : Int := ((e.date.ord : Int) - b.date.ord) * 86400 + ((e.secs : Int) - b.secs)

def luisSpan (b e : DateTime) : Str := luisTimeSpanI (diffSecs b e)

/-- `s.split('T')[0]` -/
def splitT (s : Str) : Str := s.takeWhile (· ≠ 84)

/-- `(a,b,p)` -/
def triple (a b p : Str) : Str := [40] ++ a ++ [44] ++ b ++ [44] ++ p ++ [41]

/-! ### `merge_two_time_points` -/

/-- which extraction pattern the method found: two date-times; a date-time then a time; a time then a date-time -/
inductive Ends | both | beginHasDate | endHasDate
deriving DecidableEq, Repr

/-- inputs: future / past value and TIMEX of the first and of the second point (`parse_result{1,2}.value`),
`c1`/`c2` = their comment ends with `'ampm'`. Output flag: `result.comment == 'ampm'`. -/
def mergeTwoTimePoints (k : Ends) (fb pb : DateTime) (t1 : Str) (fe pe : DateTime) (t2 : Str) (c1 c2 : Bool) :
    Res × Bool :=
  let r : Res :=
    match k with
    | .both =>
      let fb' := if fe.lt fb then pb else fb          -- if future_begin > future_end: future_begin = past_begin
      let pe' := if pe.lt pb then fe else pe          -- if past_end < past_begin: past_end = future_end
      .ok (triple t1 t2 (luisSpan fb' fe)) fb' fe pb pe'
    | .beginHasDate =>
      let fe' := withTime fb.date (hourOf fe) (minuteOf fe) (secondOf fe)
      let pe' := withTime pb.date (hourOf pe) (minuteOf pe) (secondOf pe)
      .ok (triple t1 (splitT t1 ++ t2) (luisSpan fb fe')) fb fe' pb pe'
    | .endHasDate =>
      let fb' := withTime fe.date (hourOf fb) (minuteOf fb) (secondOf fb)
      let pb' := withTime pe.date (hourOf pb) (minuteOf pb) (secondOf pb)
      .ok (triple (splitT t2 ++ t1) t2 (luisSpan pb' pe)) fb' fe pb' pe
  (r, c1 && c2)

/-! ### `merge_date_and_time_periods`: one date + one time period whose TIMEX is a range -/

/-- `str.replace(c, '')` for a single character -/
def removeCh (c : Nat) (s : Str) : Str := s.filter (· ≠ c)

/-- `TimexUtil.get_range_timex_components`: strip every parenthesis, split on commas, three components or invalid -/
def rangeComponents (t : Str) : Option (Str × Str × Str) :=
  match splitOn 44 (removeCh 41 (removeCh 40 t)) with
  | [a, b, p] => some (a, b, p)
  | _ => none

/-- inputs: the date's future / past value and TIMEX; the time period's TIMEX, begin / end time of day (its future
value) and whether its comment is `'ampm'`. `noResult` stands for "falls through to `parse_simple_cases`" (TIMEX not a
range triple). -/
def mergeDateAndTimePeriod (fd pd : DateTime) (dateTimex tpTimex : Str) (bt et : DateTime) (tpAmPm : Bool) : Res × Bool :=
  if tpTimex.head? ≠ some 40 then (.noResult, false)
  else
    match rangeComponents tpTimex with
    | none => (.noResult, false)
    | some (a, b, p) =>
      let mk (d t : DateTime) : DateTime := withTime d.date (hourOf t) (minuteOf t) (secondOf t)
      (.ok (triple (dateTimex ++ a) (dateTimex ++ b) p) (mk fd bt) (mk fd et) (mk pd bt) (mk pd et),
       tpAmPm && decide (hourOf bt < 12) && decide (hourOf et < 12))

/-! ### repaired variants (`/verif/findings/dtperiod/*.diff`); the harness probes which variant the working tree follows

Each patch rolls the end (or the begin) by one day when its clock time is not after (before) the other end's, and
rewrites the date of that point's TIMEX when the date's TIMEX is definite (equals `luis_date` of the value). -/

/-- which of the three patches the tree carries -/
structure Fixes where
  beginRoll : Bool      -- dtperiod-begin-date-reversed.diff
  endRoll : Bool        -- dtperiod-end-date-reversed.diff
  periodRoll : Bool     -- dtperiod-date+period-cross-midnight.diff
deriving DecidableEq, Repr

/-- `merge_two_time_points`, begin dated, after the patch: `if future_end <= future_begin:` both ends `+ 1 day`
(OverflowError at the end of the calendar), the end's TIMEX date follows when `date_str == luis_date(future_begin)`. -/
def mergeBeginFixed (fb pb : DateTime) (t1 : Str) (fe pe : DateTime) (t2 : Str) : Res :=
  let fe0 := withTime fb.date (hourOf fe) (minuteOf fe) (secondOf fe)
  let pe0 := withTime pb.date (hourOf pe) (minuteOf pe) (secondOf pe)
  if fe0.le fb then
    match addDays fe0 1, addDays pe0 1 with
    | some fe1, some pe1 =>
      let ds := if splitT t1 = formatDate fb.date then formatDate fe1.date else splitT t1
      .ok (triple t1 (ds ++ t2) (luisSpan fb fe1)) fb fe1 pb pe1
    | _, _ => .raises
  else .ok (triple t1 (splitT t1 ++ t2) (luisSpan fb fe0)) fb fe0 pb pe0

/-- `merge_two_time_points`, end dated, after the patch: `if past_end <= past_begin:` both begins `- 1 day`, the
begin's TIMEX date follows when `date_str == luis_date(past_end)`. -/
def mergeEndFixed (fb pb : DateTime) (t1 : Str) (fe pe : DateTime) (t2 : Str) : Res :=
  let fb0 := withTime fe.date (hourOf fb) (minuteOf fb) (secondOf fb)
  let pb0 := withTime pe.date (hourOf pb) (minuteOf pb) (secondOf pb)
  if pe.le pb0 then
    match addDays fb0 (-1), addDays pb0 (-1) with
    | some fb1, some pb1 =>
      let ds := if splitT t2 = formatDate pe.date then formatDate pb1.date else splitT t2
      .ok (triple (ds ++ t1) t2 (luisSpan pb1 pe)) fb1 fe pb1 pe
    | _, _ => .raises
  else .ok (triple (splitT t2 ++ t1) t2 (luisSpan pb0 pe)) fb0 fe pb0 pe

def mergeTwoTimePointsV (fx : Fixes) (k : Ends) (fb pb : DateTime) (t1 : Str) (fe pe : DateTime) (t2 : Str) (c1 c2 : Bool) :
    Res × Bool :=
  match k with
  | .beginHasDate => if fx.beginRoll then (mergeBeginFixed fb pb t1 fe pe t2, c1 && c2) else mergeTwoTimePoints k fb pb t1 fe pe t2 c1 c2
  | .endHasDate => if fx.endRoll then (mergeEndFixed fb pb t1 fe pe t2, c1 && c2) else mergeTwoTimePoints k fb pb t1 fe pe t2 c1 c2
  | .both => mergeTwoTimePoints k fb pb t1 fe pe t2 c1 c2

/-- `merge_date_and_time_periods` after the patch: `next_day = 1 day if end_time.time() < begin_time.time() and
date_timex == luis_date(future_time)` (a DEFINITE date only: two cross-platform spec cases pin the unrolled result for
"Friday from 23 to 4"), added to both end values; then the end's TIMEX date is `luis_date` of the rolled end. -/
def mergeDateAndTimePeriodFixed (fd pd : DateTime) (dateTimex tpTimex : Str) (bt et : DateTime) (tpAmPm : Bool) : Res × Bool :=
  if tpTimex.head? ≠ some 40 then (.noResult, false)
  else
    match rangeComponents tpTimex with
    | none => (.noResult, false)
    | some (a, b, p) =>
      let mk (d t : DateTime) : DateTime := withTime d.date (hourOf t) (minuteOf t) (secondOf t)
      let c := tpAmPm && decide (hourOf bt < 12) && decide (hourOf et < 12)
      if et.secs < bt.secs ∧ dateTimex = formatDate fd.date then
        match addDays (mk fd et) 1, addDays (mk pd et) 1 with
        | some fe1, some pe1 =>
          (.ok (triple (dateTimex ++ a) (formatDate fe1.date ++ b) p) (mk fd bt) fe1 (mk pd bt) pe1, c)
        | _, _ => (.raises, false)
      else (.ok (triple (dateTimex ++ a) (dateTimex ++ b) p) (mk fd bt) (mk fd et) (mk pd bt) (mk pd et), c)

def mergeDateAndTimePeriodV (fx : Fixes) (fd pd : DateTime) (dateTimex tpTimex : Str) (bt et : DateTime) (tpAmPm : Bool) :
    Res × Bool :=
  if fx.periodRoll then mergeDateAndTimePeriodFixed fd pd dateTimex tpTimex bt et tpAmPm
  else mergeDateAndTimePeriod fd pd dateTimex tpTimex bt et tpAmPm

/-! ### `parse_simple_cases` ("from 3 to 5 pm tomorrow", "between 3 and 5 on June 20") -/

/-- the am/pm folding of the two hours: `isAm` = `am_str or desc_str.startswith('a')`, `isPm` likewise -/
def foldHours (bh eh : Nat) (isAm isPm : Bool) : Nat × Nat :=
  let (bh, eh) := if isAm then ((if bh ≥ 12 then bh - 12 else bh), (if eh ≥ 12 then eh - 12 else eh)) else (bh, eh)
  if isPm then ((if bh < 12 then bh + 12 else bh), (if eh < 12 then eh + 12 else eh)) else (bh, eh)

/-- inputs: the two hours read from the text, the am / pm flags, the date's future / past value and TIMEX -/
def simpleCases (bh0 eh0 : Nat) (isAm isPm : Bool) (fd pd : DateTime) (dateTimex : Str) : Res × Bool :=
  let (bh, eh) := foldHours bh0 eh0 isAm isPm
  let timex := triple (dateTimex ++ [84] ++ pad2w bh) (dateTimex ++ [84] ++ pad2w eh)
    ([80, 84] ++ intStr ((eh : Int) - bh) ++ [72])
  (.ok timex (withTime fd.date bh 0 0) (withTime fd.date eh 0 0) (withTime pd.date bh 0 0) (withTime pd.date eh 0 0),
   !isAm && !isPm && decide (bh ≤ 12) && decide (eh ≤ 12))

/-! ### `get_matched_time_range`, `parse_specific_time_of_day` -/

inductive Tod | morning | afternoon | evening | night
deriving DecidableEq, Repr

structure TimeRange where
  timeStr : Str
  beginHour : Nat
  endHour : Nat
  endMin : Nat
deriving DecidableEq, Repr

/-- `EnglishDateTimePeriodParserConfiguration.get_matched_time_range`: the part-of-day table -/
def Tod.range : Tod → TimeRange
  | .morning => ⟨[84, 77, 79], 8, 12, 0⟩        -- TMO
  | .afternoon => ⟨[84, 65, 70], 12, 16, 0⟩     -- TAF
  | .evening => ⟨[84, 69, 86], 16, 20, 0⟩       -- TEV
  | .night => ⟨[84, 78, 73], 20, 23, 59⟩        -- TNI

/-- "Modify time period if 'early' or 'late' exists": the first two hours / from two hours in -/
def earlyLate (v : TimeRange) (early late : Bool) : TimeRange :=
  if early then { v with endHour := v.beginHour + 2, endMin := if v.endMin = 59 then 0 else v.endMin }
  else if late then { v with beginHour := v.beginHour + 2 }
  else v

/-- `(safe_create(y, m, d, begin_hour, 0, 0), safe_create(y, m, d, end_hour, end_min, end_min))` -/
def todBegin (d : Date) (v : TimeRange) : DateTime := withTime d v.beginHour 0 0
def todEnd (d : Date) (v : TimeRange) : DateTime := withTime d v.endHour v.endMin v.endMin

/-- the exact-match branch ("this morning", "tonight", "next evening", "last night"):
`swift = get_swift_prefix(text)`, `date = (reference + timedelta(days=swift)).date()` -/
def specificTimeOfDay (ref : DateTime) (swift : Int) (tod : Tod) (early late : Bool) : Res :=
  let v := earlyLate tod.range early late
  match addDays ref swift with
  | none => .raises
  | some x =>
    let d := x.date
    .ok (formatDate d ++ v.timeStr) (todBegin d v) (todEnd d v) (todBegin d v) (todEnd d v)

/-- `get_swift_prefix` -/
def swiftPrefix (startsNext startsLast : Bool) : Int := if startsNext then 1 else if startsLast then -1 else 0

/-- the "date followed by / following a part of day" branch without a specific time period ("Tuesday morning",
"June 5 in the evening", "tomorrow night"): inputs = the date's future / past value and TIMEX -/
def dateTimeOfDay (fd pd : DateTime) (dateTimex : Str) (tod : Tod) (early late : Bool) : Res :=
  let v := earlyLate tod.range early late
  .ok (dateTimex ++ v.timeStr) (todBegin fd.date v) (todEnd fd.date v) (todBegin pd.date v) (todEnd pd.date v)

/-- the same branch when a time period sits next to the part of day ("tomorrow morning from 9 to 11"):
`pf` / `pp` = (start, end) of the time period's future / past value; the hours of the table are replaced. -/
def dateTimeOfDayPeriod (fd pd : DateTime) (dateTimex : Str) (tod : Tod) (early late : Bool)
    (pfb pfe ppb ppe : DateTime) : Res :=
  let v0 := earlyLate tod.range early late
  let (bh, eh) : Nat × Nat :=
    if pfb = ppb ∧ pfe = ppe then (hourOf pfb, hourOf pfe)
    else if hourOf pfb ≥ v0.beginHour ∨ hourOf pfe ≤ v0.endHour then (hourOf pfb, hourOf pfe)
    else (hourOf ppb, hourOf ppe)
  let v := { v0 with beginHour := bh, endHour := eh }
  let timex := triple (dateTimex ++ [84] ++ natStr bh) (dateTimex ++ [84] ++ natStr eh)
    ([80, 84] ++ intStr ((eh : Int) - bh) ++ [72])
  .ok timex (todBegin fd.date v) (todEnd fd.date v) (todBegin pd.date v) (todEnd pd.date v)

/-- `luis_date_from_datetime(x) + 'T' + luis_time_from_datetime(x)` -/
def luisPoint (x : DateTime) : Str := formatDate x.date ++ [84] ++ formatTime (hourOf x) (minuteOf x) (secondOf x)

/-! ### `parse_duration` ("last 3 hours", "next 20 minutes", "within 5 hours") -/

/-- which of the prefix / suffix tests of the method succeeded (`is_exact_match` on the text before / after the
duration); `withinAfter` is only consulted when `check_both_before_after` is set (not in English). -/
structure DurFlags where
  prevBefore : Bool
  withinBefore : Bool
  withinAfter : Bool
  futureBefore : Bool
  prevAfter : Bool
  futureAfter : Bool
  futureSuffixAfter : Bool
deriving DecidableEq, Repr

/-- `swift` = `int(float(duration.future_value))` seconds (0 when the duration has no value), `durTimex` = the
duration's TIMEX. `datetime ± timedelta` raises OverflowError outside the calendar. -/
def parseDuration (ref : DateTime) (swift : Nat) (durTimex : Str) (f : DurFlags) : Res :=
  ofOpt do
    let back : Option DateTime := addSeconds ref (-(swift : Int))
    let b ← (if f.prevBefore then back else some ref)
    let e := ref
    let e ← (if f.withinBefore then addSeconds b swift else some e)
    let e ← (if f.withinAfter then addSeconds b swift else some e)
    let e ← (if f.futureBefore then addSeconds b swift else some e)
    let b ← (if f.prevAfter then back else some b)
    let e ← (if f.futureAfter then addSeconds b swift else some e)
    let e ← (if f.futureSuffixAfter then addSeconds b swift else some e)
    pure (.ok (triple (luisPoint b) (luisPoint e) durTimex) b e b e)

/-! ### `parse_relative_unit` ("next hour", "last minute", "rest of the day") -/

inductive RelUnit | D | H | M | S
deriving DecidableEq, Repr

def RelUnit.seconds : RelUnit → Int
  | .D => 86400 | .H => 3600 | .M => 60 | .S => 1

def RelUnit.letter : RelUnit → Nat
  | .D => 68 | .H => 72 | .M => 77 | .S => 83

/-- `past` = `past_regex` found in the text (`swift = -1`). Unit `D` is "rest of the day": up to 23:59:59 of the
reference day, duration in seconds; the other units shift the begin (past) or the end (otherwise) by one unit. -/
def relativeUnit (ref : DateTime) (u : RelUnit) (past : Bool) : Res :=
  match u with
  | .D =>
    let e : DateTime := ⟨ref.date, 86399⟩     -- midnight + timedelta(days=1, seconds=-1)
    .ok (triple (luisPoint ref) (luisPoint e) ([80, 84] ++ natStr (86399 - ref.secs) ++ [83])) ref e ref e
  | u =>
    ofOpt do
      let b ← (if past then addSeconds ref (-u.seconds) else some ref)
      let e ← (if past then some ref else addSeconds ref u.seconds)
      pure (.ok (triple (luisPoint b) (luisPoint e) [80, 84, 49, u.letter]) b e b e)

end RTV.DtPeriod
