import RTV.Model.Num
/-!
Chinese and Japanese numeral generators (specification side of C04) for `n < 10000`: standard Mandarin with `零`
for skipped positions and the leading `一` dropped in 10..19; standard Japanese without `一` before 十/百/千 and
without zero filler. The harness takes its CJK inputs below 10000 from these functions (driver op `n.spellcjk`).
-/
namespace RTV.Num
open RTV.Py

/-- 零 一 二 三 四 五 六 七 八 九 -/
def cjkDigits : List Nat := [0x96F6, 0x4E00, 0x4E8C, 0x4E09, 0x56DB, 0x4E94, 0x516D, 0x4E03, 0x516B, 0x4E5D]
def cjkDigit (d : Nat) : Nat := cjkDigits.getD d 0
def cQian : Nat := 0x5343   -- 千
def cBai : Nat := 0x767E    -- 百
def cShi : Nat := 0x5341    -- 十

/-- one position of a Mandarin section: digit `d` with unit `u` (`none` for the ones), after `out` -/
def zhStep (st : Str × Bool) (d : Nat) (u : Option Nat) : Str × Bool :=
  let (out, zeroPending) := st
  if d == 0 then (out, true)
  else
    let out := if zeroPending && !out.isEmpty then out ++ [cjkDigit 0] else out
    (out ++ cjkDigit d :: (match u with | some x => [x] | none => []), false)

/-- `0 < k < 10000` -/
def zhSection (k : Nat) : Str :=
  (zhStep (zhStep (zhStep (zhStep ([], false) (k / 1000) (some cQian)) (k / 100 % 10) (some cBai))
    (k / 10 % 10) (some cShi)) (k % 10) none).1

def spellZh (n : Nat) : Str :=
  if n == 0 then [cjkDigit 0]
  else if 10 ≤ n && n < 20 then (zhSection n).drop 1
  else zhSection n

def jaPos (d : Nat) (u : Nat) : Str := if d == 0 then [] else (if d == 1 then [] else [cjkDigit d]) ++ [u]

def spellJa (n : Nat) : Str :=
  if n == 0 then [cjkDigit 0]
  else jaPos (n / 1000) cQian ++ jaPos (n / 100 % 10) cBai ++ jaPos (n / 10 % 10) cShi ++
    (if n % 10 == 0 then [] else [cjkDigit (n % 10)])

end RTV.Num
