import RTV.Model.Re
import RTV.Model.DtRes
/-!
L6 `DateFront` — the front end of `BaseDateParser.parse_basic_regex_match` (base_date.py): from the TEXT of a date
expression to the named groups `match_to_date` reads.

```
trimmed_source = source.strip()
for regexp in self.config.date_regex:
    offset = 0
    match = regex.search(regexp, trimmed_source)
    if match is None:
        match = regex.search(regexp, self.config.date_token_prefix + trimmed_source)
        offset = len(self.config.date_token_prefix)
    if match and match.start() == offset and len(match.group()) == len(trimmed_source):
        result = self.match_to_date(match, reference)
        break
```

* `matchK` is the backtracking matcher of `RTV.Re` in continuation-passing form: it reports the FIRST match in the
  priority order of `RTV.Re.ends` (what a backtracking engine reports) and threads the captures of ALL numbered groups
  (`Env`: newest capture first — the value of a group is its LAST capture, and same-named groups of the `regex` module
  share one number, so a nested `(?<year>…(?<year>…))` reports the outer span).  It asks an `Oracle` for every fact about
  the text: the outcome of a character-class test at a position, whether a position holds a word character, whether it
  holds a newline.  With the oracle of a concrete string (`conc`) this is the matcher; with the oracle of an ABSTRACT
  string (`absO`: a set of candidate code points per position, the answer is `none` when the candidates disagree) the
  same function is a sound symbolic evaluation: whenever it answers, every concrete string drawn from the candidates
  gives the same answer (Lemmas/DateFront: `matchK_mono`).
* `searchO` = `regex.search` (leftmost start, first end in priority order, the captures of that path),
  `parseBasicO` = the loop above, `parseBasic` = it on a concrete text, `groupsOf` = `RegExpUtility.get_group`,
  `frontToDate` / `frontResolve` = composed with `DtRes.matchToDate` / the resolution assembly.
-/
namespace RTV.DateFront
open RTV.Re RTV.Py

/-- captures, newest first: `(group number, start, end)` -/
abbrev Env := List (Nat × Nat × Nat)

/-- what the matcher may ask about the text -/
structure Oracle where
  size : Nat
  /-- the outcome of `[items]` / `[^items]` on the character at a position (asked only below `size`) -/
  cls : Nat → List Item → Bool → Option Bool
  /-- is the character at a position a `\w` character -/
  word : Nat → Option Bool
  /-- is the character at a position a newline -/
  nl : Nat → Option Bool

/-- outcome of a match attempt: the oracle could not answer (`unk`), no match (`fail`), or the end and the captures of
the FIRST match in backtracking priority order -/
inductive R where
  | unk
  | fail
  | found (j : Nat) (e : Env)
deriving DecidableEq, Repr, Inhabited

/-- what happens after a sub-match ended at a position with some captures -/
abbrev Kont := Nat → Env → R

/-- try `a`, on failure `b` (an unknown outcome stays unknown: nothing after it can be trusted) -/
def orElse (a : R) (b : Unit → R) : R :=
  match a with
  | .fail => b ()
  | x => x

/-- branch on an oracle answer -/
def ob (o : Option Bool) (t f : Unit → R) : R :=
  match o with
  | none => .unk
  | some true => t ()
  | some false => f ()

/-- `a{mn,mx}` with continuation `k`: greedy tries one more iteration before stopping, lazy stops first
(`RTV.Re.repEnds` in continuation-passing form); `f` is the matcher of the body -/
def repK (f : Kont → Nat → Env → R) (greedy : Bool) : Nat → Nat → Kont → Nat → Env → R
  | 0, mn, k, i, e => if mn = 0 then k i e else .fail
  | mx + 1, mn, k, i, e =>
    if mn = 0 then
      if greedy then orElse (f (fun j e' => repK f greedy mx 0 k j e') i e) (fun _ => k i e)
      else orElse (k i e) (fun _ => f (fun j e' => repK f greedy mx 0 k j e') i e)
    else f (fun j e' => repK f greedy mx (mn - 1) k j e') i e

def anyK (f : Nat → R) : List Nat → R
  | [] => .fail
  | x :: xs => orElse (f x) (fun _ => anyK f xs)

def wordAtO (O : Oracle) (i : Nat) : Option Bool := if i < O.size then O.word i else some false

/-- `\b` at `i` -/
def isWordBO (O : Oracle) (i : Nat) : Option Bool :=
  match (if i > 0 then wordAtO O (i - 1) else some false) with
  | none => none
  | some a =>
    match wordAtO O i with
    | none => none
    | some b => some (a != b)

/-- `$` without MULTILINE at `i`: the end, or just before a final newline -/
def eolO (O : Oracle) (i : Nat) : Option Bool :=
  if i = O.size then some true else if i + 1 = O.size then O.nl i else some false

/-- The backtracking matcher in continuation-passing form: `matchK O r k i e` = the first outcome, in the priority order
of `RTV.Re.ends` (`alt`: left before right, greedy repeat: one more iteration before stopping), of matching `r` at `i`
and then running `k` at the end; a failing continuation makes the matcher backtrack. Captures made inside look-around
assertions are dropped (the translator refuses tracked groups there). -/
def matchK (O : Oracle) : RE → Kont → Nat → Env → R
  | .eps, k, i, e => k i e
  | .cls items neg, k, i, e =>
    if i < O.size then ob (O.cls i items neg) (fun _ => k (i + 1) e) (fun _ => .fail) else .fail
  | .seq a b, k, i, e => matchK O a (fun j e' => matchK O b k j e') i e
  | .alt a b, k, i, e => orElse (matchK O a k i e) (fun _ => matchK O b k i e)
  | .rep a mn mx g, k, i, e => repK (matchK O a) g mx mn k i e
  | .repU a mn g, k, i, e => repK (matchK O a) g (mn + O.size + 1) mn k i e
  | .grp n a, k, i, e => matchK O a (fun j e' => k j (if n = 0 then e' else (n, i, j) :: e')) i e
  | .wordB, k, i, e => ob (isWordBO O i) (fun _ => k i e) (fun _ => .fail)
  | .nwordB, k, i, e => ob (isWordBO O i) (fun _ => .fail) (fun _ => k i e)
  | .bol, k, i, e => if i = 0 then k i e else .fail
  | .eol, k, i, e => ob (eolO O i) (fun _ => k i e) (fun _ => .fail)
  | .eos, k, i, e => if i = O.size then k i e else .fail
  | .look true neg a, k, i, e =>
    match matchK O a (fun j _ => .found j []) i e with
    | .unk => .unk
    | .found _ _ => if neg then .fail else k i e
    | .fail => if neg then k i e else .fail
  | .look false neg a, k, i, e =>
    match anyK (fun s => matchK O a (fun j _ => if j = i then .found j [] else .fail) s e) (List.range (i + 1)) with
    | .unk => .unk
    | .found _ _ => if neg then .fail else k i e
    | .fail => if neg then k i e else .fail

/-- a reported match -/
structure MatchG where
  start : Nat
  stop : Nat
  env : Env
deriving DecidableEq, Repr, Inhabited

/-- `regex.search`: the leftmost start with a match, the first end in priority order, the captures of that path -/
def searchFromO (O : Oracle) (r : RE) : Nat → Nat → Option (Option MatchG)
  | 0, _ => some none
  | fuel + 1, pos =>
    if pos > O.size then some none
    else
      match matchK O r (fun j e => .found j e) pos [] with
      | .unk => none
      | .fail => searchFromO O r fuel (pos + 1)
      | .found j e => some (some ⟨pos, j, e⟩)

def searchO (O : Oracle) (r : RE) : Option (Option MatchG) := searchFromO O r (O.size + 1) 0

/-- the outcome of the loop: index of the accepting regex, whether the accepted match was found on the prefixed text,
the match -/
structure Hit where
  idx : Nat
  prefixed : Bool
  m : MatchG
deriving DecidableEq, Repr, Inhabited

/-- one pass of the loop body for the regex `r`: `some (prefixed, match)` when `r` accepts (the `break`), `none` when the
loop goes on. `OT` answers about the trimmed text, `OP` about prefix + trimmed text. -/
def stepO (OT OP : Oracle) (prefixLen : Nat) (r : RE) : Option (Option (Bool × MatchG)) :=
  match searchO OT r with
  | none => none
  | some (some m) =>
    if m.start = 0 ∧ m.stop - m.start = OT.size then some (some (false, m)) else some none
  | some none =>
    match searchO OP r with
    | none => none
    | some (some m) =>
      if m.start = prefixLen ∧ m.stop - m.start = OT.size then some (some (true, m)) else some none
    | some none => some none

/-- the loop of `parse_basic_regex_match`; a regex the translator could not express (`none` in the list) makes the
answer unknown. -/
def parseBasicO (OT OP : Oracle) (prefixLen : Nat) : List (Option RE) → Nat → Option (Option Hit)
  | [], _ => some none
  | none :: _, _ => none
  | some r :: rest, k =>
    match stepO OT OP prefixLen r with
    | none => none
    | some (some (p, m)) => some (some ⟨k, p, m⟩)
    | some none => parseBasicO OT OP prefixLen rest (k + 1)

/-- the oracle of a concrete string -/
def conc (T : Tables) (s : Array Nat) : Oracle where
  size := s.size
  cls p items neg := some (clsTest T items neg (code s p))
  word p := some (T.word (code s p))
  nl p := some (code s p == 10)

def allSame : List Bool → Option Bool
  | [] => none
  | b :: r => if r.all (· == b) then some b else none

/-- the oracle of an abstract string: candidates per position; an answer only when all candidates agree -/
def absO (T : Tables) (a : Array (List Nat)) : Oracle where
  size := a.size
  cls p items neg := allSame ((a.getD p []).map (clsTest T items neg))
  word p := allSame ((a.getD p []).map T.word)
  nl p := allSame ((a.getD p []).map (· == 10))

/-- last capture of group `g` -/
def capOf (env : Env) (g : Nat) : Option (Nat × Nat) := (env.find? (·.1 == g)).map (·.2)

/-- `RegExpUtility.get_group(match, name)`: the text of the group's last capture, `''` when it did not take part -/
def groupText (s : Str) (env : Env) (g : Nat) : Str :=
  match capOf env g with
  | some (a, b) => (s.drop a).take (b - a)
  | none => []

/-- group numbers of the translator: year 1, month 2, day 3, fullyear 4 -/
def groupsOf (s : Str) (env : Env) : RTV.DtRes.DateGroups :=
  { year := groupText s env 1, month := groupText s env 2, day := groupText s env 3, fullYear := groupText s env 4 }

/-- `parse_basic_regex_match` up to the call of `match_to_date`: which regex accepted, on which text, the groups -/
def parseBasic (T : Tables) (u : RTV.DtRes.Uni) (pre : Str) (rs : List (Option RE)) (source : Str) :
    Option (Option (Hit × RTV.DtRes.DateGroups)) :=
  let t := strip u.isSpace source
  match parseBasicO (conc T t.toArray) (conc T (pre ++ t).toArray) pre.length rs 0 with
  | none => none
  | some none => some none
  | some (some h) => some (some (h, groupsOf (if h.prefixed then pre ++ t else t) h.m.env))

/-- `parse_basic_regex_match(source, reference)`: `DateTimeResolutionResult()` when no regex accepts -/
def frontToDate (T : Tables) (u : RTV.DtRes.Uni) (cfg : RTV.DtRes.DateCfg) (pre : Str) (rs : List (Option RE))
    (source : Str) (writtenYear : Int) (ref : RTV.DtRes.DT) : Except String RTV.DtRes.Res :=
  match parseBasic T u pre rs source with
  | none => .error "unsupported-regex"
  | some none => .ok {}
  | some (some (_, g)) => RTV.DtRes.matchToDate u cfg g writtenYear ref

/-- date entity from its text: `parse_basic_regex_match` → `BaseDateParser.parse` → `_date_time_resolution` (the later
sub-parsers of `parse` run only when this one does not succeed: then the answer here is the unsuccessful slot). -/
def frontResolve (T : Tables) (u : RTV.DtRes.Uni) (cfg : RTV.DtRes.DateCfg) (pre : Str) (rs : List (Option RE))
    (source : Str) (writtenYear : Int) (ref : RTV.DtRes.DT) : Except String (Option (List RTV.DtRes.Value)) := do
  RTV.DtRes.dateTimeResolution u (RTV.DtRes.toSlot .date (← frontToDate T u cfg pre rs source writtenYear ref))

/-! ## The layouts of the C06 contract (specification side)

`contracts/C06.json["layouts"]["en-us"]` lists templates such as `{mon} {dord}, {y}`; the translator emits them as token
lists (RTV/Gen/DateLayoutsEn.lean).  `renderL` is the text of a date in a layout, as harness/corr/c06.py `render` writes
it. -/

inductive Tok
  | lit (c : Nat)
  /-- `{y}` four-digit year, `{m}` / `{d}` unpadded, `{m02}` / `{d02}` zero-padded, `{mon}` month name, `{abbr}`
  three-letter abbreviation, `{dord}` English ordinal day (`1st`, `22nd`, `13th` …) -/
  | y | m | m02 | d | d02 | mon | abbr | dord
deriving DecidableEq, Repr, Inhabited

/-- `'%02d' % n` -/
def pad2 (n : Nat) : Str := if n < 10 then 48 :: RTV.DtRes.decStr n else RTV.DtRes.decStr n

/-- `'th' if 11 <= d % 100 <= 13 else {1: 'st', 2: 'nd', 3: 'rd'}.get(d % 10, 'th')` -/
def ordSuffix (d : Nat) : Str :=
  if 11 ≤ d % 100 ∧ d % 100 ≤ 13 then [116, 104]
  else if d % 10 = 1 then [115, 116] else if d % 10 = 2 then [110, 100] else if d % 10 = 3 then [114, 100] else [116, 104]

/-- the month names / abbreviations of the contract -/
structure Names where
  mon : List Str
  abbr : List Str

def Tok.render (N : Names) : Tok → Nat → Nat → Nat → Str
  | .lit c, _, _, _ => [c]
  | .y, yy, _, _ => RTV.DtRes.decStr yy
  | .m, _, mm, _ => RTV.DtRes.decStr mm
  | .m02, _, mm, _ => pad2 mm
  | .d, _, _, dd => RTV.DtRes.decStr dd
  | .d02, _, _, dd => pad2 dd
  | .mon, _, mm, _ => N.mon.getD (mm - 1) []
  | .abbr, _, mm, _ => N.abbr.getD (mm - 1) []
  | .dord, _, _, dd => RTV.DtRes.decStr dd ++ ordSuffix dd

/-- which group a token feeds: 0 literal, 1 year, 2 month, 3 day (the translator's group numbers) -/
def Tok.kind : Tok → Nat
  | .lit _ => 0
  | .y => 1
  | .m | .m02 | .mon | .abbr => 2
  | .d | .d02 | .dord => 3

def renderL (N : Names) (L : List Tok) (yy mm dd : Nat) : Str := L.flatMap fun t => t.render N yy mm dd

end RTV.DateFront
