import RTV.Model.Re
import RTV.Model.DtRes
/-!
L6 `DateFront` — the front end of `BaseDateParser.parse_basic_regex_match` (base_date.py): from the TEXT of a date
expression to the named groups `match_to_date` reads.

```
trimmed_source = source.strip()
for regexp in self.config.date_regex:
    offset = 0
    match = regex.search(regexp, trimmed_source)
    if match is None:
        match = regex.search(regexp, self.config.date_token_prefix + trimmed_source)
        offset = len(self.config.date_token_prefix)
    if match and match.start() == offset and len(match.group()) == len(trimmed_source):
        result = self.match_to_date(match, reference)
        break
```

* `endsO` is the backtracking matcher of `RTV.Re` (`ends`: all end positions in priority order) that also threads the
  captures of ALL numbered groups along every path (`Env`: newest capture first — the value of a group is its LAST
  capture, and same-named groups of the `regex` module share one number, so a nested `(?<year>…(?<year>…))` reports the
  outer span).  It asks an `Oracle` for every fact about the text: the outcome of a character-class test at a position,
  whether a position holds a word character, whether it holds a newline.  With the oracle of a concrete string (`conc`)
  this is the matcher; with the oracle of an ABSTRACT string (`absO`: a set of candidate code points per position, the
  answer is `none` when the candidates disagree) the same function is a sound symbolic evaluation: whenever it answers
  `some l`, every concrete string drawn from the candidates gives `l` (Lemmas/DateFront: `endsO_mono`).
* `searchO` = `regex.search` (leftmost start, first end in priority order, the captures of that path),
  `parseBasicO` = the loop above, `parseBasic` = it on a concrete text, `groupsOf` = `RegExpUtility.get_group`,
  `frontToDate` / `frontResolve` = composed with `DtRes.matchToDate` / the resolution assembly.
-/
namespace RTV.DateFront
open RTV.Re RTV.Py

/-- captures, newest first: `(group number, start, end)` -/
abbrev Env := List (Nat × Nat × Nat)

/-- what the matcher may ask about the text -/
structure Oracle where
  size : Nat
  /-- the outcome of `[items]` / `[^items]` on the character at a position (asked only below `size`) -/
  cls : Nat → List Item → Bool → Option Bool
  /-- is the character at a position a `\w` character -/
  word : Nat → Option Bool
  /-- is the character at a position a newline -/
  nl : Nat → Option Bool

def flatMapO {α β : Type} (f : α → Option (List β)) : List α → Option (List β)
  | [] => some []
  | x :: xs =>
    match f x with
    | none => none
    | some a =>
      match flatMapO f xs with
      | none => none
      | some b => some (a ++ b)

def anyO {α : Type} (f : α → Option Bool) : List α → Option Bool
  | [] => some false
  | x :: xs =>
    match f x with
    | none => none
    | some true => some true
    | some false => anyO f xs

/-- `a{mn,mx}` from `i`: greedy tries one more iteration before stopping, lazy stops first (`RTV.Re.repEnds`) -/
def repO (f : Nat → Env → Option (List (Nat × Env))) (greedy : Bool) :
    Nat → Nat → Nat → Env → Option (List (Nat × Env))
  | 0, mn, i, e => some (if mn = 0 then [(i, e)] else [])
  | mx + 1, mn, i, e =>
    match f i e with
    | none => none
    | some l =>
      match flatMapO (fun p => repO f greedy mx (mn - 1) p.1 p.2) l with
      | none => none
      | some more =>
        let stop := if mn = 0 then [(i, e)] else []
        some (if greedy then more ++ stop else stop ++ more)

def wordAtO (O : Oracle) (i : Nat) : Option Bool := if i < O.size then O.word i else some false

/-- `\b` at `i` -/
def isWordBO (O : Oracle) (i : Nat) : Option Bool :=
  match (if i > 0 then wordAtO O (i - 1) else some false) with
  | none => none
  | some a =>
    match wordAtO O i with
    | none => none
    | some b => some (a != b)

/-- `$` without MULTILINE at `i`: the end, or just before a final newline -/
def eolO (O : Oracle) (i : Nat) : Option Bool :=
  if i = O.size then some true else if i + 1 = O.size then O.nl i else some false

/-- All `(end, captures)` of a match of `r` starting at `i`, in backtracking priority order; `none` = the oracle could
not answer a question that was asked. Captures made inside look-around assertions are dropped (the translator refuses
tracked groups there). -/
def endsO (O : Oracle) : RE → Nat → Env → Option (List (Nat × Env))
  | .eps, i, e => some [(i, e)]
  | .cls items neg, i, e =>
    if i < O.size then
      match O.cls i items neg with
      | none => none
      | some b => some (if b then [(i + 1, e)] else [])
    else some []
  | .seq a b, i, e =>
    match endsO O a i e with
    | none => none
    | some l => flatMapO (fun p => endsO O b p.1 p.2) l
  | .alt a b, i, e =>
    match endsO O a i e with
    | none => none
    | some x =>
      match endsO O b i e with
      | none => none
      | some y => some (x ++ y)
  | .rep a mn mx g, i, e => repO (endsO O a) g mx mn i e
  | .repU a mn g, i, e => repO (endsO O a) g (mn + O.size + 1) mn i e
  | .grp n a, i, e =>
    match endsO O a i e with
    | none => none
    | some l => some (l.map fun p => (p.1, if n = 0 then p.2 else (n, i, p.1) :: p.2))
  | .wordB, i, e => (isWordBO O i).map fun b => if b then [(i, e)] else []
  | .nwordB, i, e => (isWordBO O i).map fun b => if b then [] else [(i, e)]
  | .bol, i, e => some (if i = 0 then [(i, e)] else [])
  | .eol, i, e => (eolO O i).map fun b => if b then [(i, e)] else []
  | .eos, i, e => some (if i = O.size then [(i, e)] else [])
  | .look true neg a, i, e =>
    match endsO O a i e with
    | none => none
    | some l => some (if l.isEmpty = neg then [(i, e)] else [])
  | .look false neg a, i, e =>
    match anyO (fun k => (endsO O a k e).map fun l => l.any fun p => p.1 == i) (List.range (i + 1)) with
    | none => none
    | some b => some (if b = neg then [] else [(i, e)])

/-- a reported match -/
structure MatchG where
  start : Nat
  stop : Nat
  env : Env
deriving DecidableEq, Repr, Inhabited

/-- `regex.search`: the leftmost start with a match, the first end in priority order, its captures -/
def searchFromO (O : Oracle) (r : RE) : Nat → Nat → Option (Option MatchG)
  | 0, _ => some none
  | fuel + 1, pos =>
    if pos > O.size then some none
    else
      match endsO O r pos [] with
      | none => none
      | some [] => searchFromO O r fuel (pos + 1)
      | some (p :: _) => some (some ⟨pos, p.1, p.2⟩)

def searchO (O : Oracle) (r : RE) : Option (Option MatchG) := searchFromO O r (O.size + 1) 0

/-- the outcome of the loop: index of the accepting regex, whether the accepted match was found on the prefixed text,
the match -/
structure Hit where
  idx : Nat
  prefixed : Bool
  m : MatchG
deriving DecidableEq, Repr, Inhabited

/-- one pass of the loop body for the regex `r`: `some (prefixed, match)` when `r` accepts (the `break`), `none` when the
loop goes on. `OT` answers about the trimmed text, `OP` about prefix + trimmed text. -/
def stepO (OT OP : Oracle) (prefixLen : Nat) (r : RE) : Option (Option (Bool × MatchG)) :=
  match searchO OT r with
  | none => none
  | some (some m) =>
    if m.start = 0 ∧ m.stop - m.start = OT.size then some (some (false, m)) else some none
  | some none =>
    match searchO OP r with
    | none => none
    | some (some m) =>
      if m.start = prefixLen ∧ m.stop - m.start = OT.size then some (some (true, m)) else some none
    | some none => some none

/-- the loop of `parse_basic_regex_match`; a regex the translator could not express (`none` in the list) makes the
answer unknown. -/
def parseBasicO (OT OP : Oracle) (prefixLen : Nat) : List (Option RE) → Nat → Option (Option Hit)
  | [], _ => some none
  | none :: _, _ => none
  | some r :: rest, k =>
    match stepO OT OP prefixLen r with
    | none => none
    | some (some (p, m)) => some (some ⟨k, p, m⟩)
    | some none => parseBasicO OT OP prefixLen rest (k + 1)

/-- the oracle of a concrete string -/
def conc (T : Tables) (s : Array Nat) : Oracle where
  size := s.size
  cls p items neg := some (clsTest T items neg (code s p))
  word p := some (T.word (code s p))
  nl p := some (code s p == 10)

def allSame : List Bool → Option Bool
  | [] => none
  | b :: r => if r.all (· == b) then some b else none

/-- the oracle of an abstract string: candidates per position; an answer only when all candidates agree -/
def absO (T : Tables) (a : Array (List Nat)) : Oracle where
  size := a.size
  cls p items neg := allSame ((a.getD p []).map (clsTest T items neg))
  word p := allSame ((a.getD p []).map T.word)
  nl p := allSame ((a.getD p []).map (· == 10))

/-- last capture of group `g` -/
def capOf (env : Env) (g : Nat) : Option (Nat × Nat) := (env.find? (·.1 == g)).map (·.2)

/-- `RegExpUtility.get_group(match, name)`: the text of the group's last capture, `''` when it did not take part -/
def groupText (s : Str) (env : Env) (g : Nat) : Str :=
  match capOf env g with
  | some (a, b) => (s.drop a).take (b - a)
  | none => []

/-- group numbers of the translator: year 1, month 2, day 3, fullyear 4 -/
def groupsOf (s : Str) (env : Env) : RTV.DtRes.DateGroups :=
  { year := groupText s env 1, month := groupText s env 2, day := groupText s env 3, fullYear := groupText s env 4 }

/-- `parse_basic_regex_match` up to the call of `match_to_date`: which regex accepted, on which text, the groups -/
def parseBasic (T : Tables) (u : RTV.DtRes.Uni) (pre : Str) (rs : List (Option RE)) (source : Str) :
    Option (Option (Hit × RTV.DtRes.DateGroups)) :=
  let t := strip u.isSpace source
  match parseBasicO (conc T t.toArray) (conc T (pre ++ t).toArray) pre.length rs 0 with
  | none => none
  | some none => some none
  | some (some h) => some (some (h, groupsOf (if h.prefixed then pre ++ t else t) h.m.env))

/-- `parse_basic_regex_match(source, reference)`: `DateTimeResolutionResult()` when no regex accepts -/
def frontToDate (T : Tables) (u : RTV.DtRes.Uni) (cfg : RTV.DtRes.DateCfg) (pre : Str) (rs : List (Option RE))
    (source : Str) (writtenYear : Int) (ref : RTV.DtRes.DT) : Except String RTV.DtRes.Res :=
  match parseBasic T u pre rs source with
  | none => .error "unsupported-regex"
  | some none => .ok {}
  | some (some (_, g)) => RTV.DtRes.matchToDate u cfg g writtenYear ref

/-- date entity from its text: `parse_basic_regex_match` → `BaseDateParser.parse` → `_date_time_resolution` (the later
sub-parsers of `parse` run only when this one does not succeed: then the answer here is the unsuccessful slot). -/
def frontResolve (T : Tables) (u : RTV.DtRes.Uni) (cfg : RTV.DtRes.DateCfg) (pre : Str) (rs : List (Option RE))
    (source : Str) (writtenYear : Int) (ref : RTV.DtRes.DT) : Except String (Option (List RTV.DtRes.Value)) := do
  RTV.DtRes.dateTimeResolution u (RTV.DtRes.toSlot .date (← frontToDate T u cfg pre rs source writtenYear ref))

end RTV.DateFront
