import RTV.Model.Py
import RTV.Model.Re
import RTV.Model.Preprocess
/-!
`CultureCfg` — the decision-expression language the culture parser CONFIGURATION methods are translated into
(harness/translate/cultureconfig.py reads `<culture>/*_parser_config.py` with `ast` on every run and emits
`RTV/Gen/CultureCfg*.lean`), and its total evaluator.

The methods (`get_swift_day`, `get_swift_month`, `get_swift_year`, `get_swift_prefix`, `is_future`, `is_last_cardinal`,
`is_week_only`, `get_hour`, `get_matched_now_timex`, `get_matched_timex_range`, …) are small decision functions over the
trimmed lower-cased text: `if / elif / else` chains of `endswith / startswith / in / == / regex.search / any(... for o in
list)` returning ints, bools, strings, `None` or a small record (`MatchedTimex(True, 'PRESENT_REF')`).  The translator
executes the statements symbolically (assignments are substituted, `if` splits the path, `self.f(x)` is inlined), so a
method becomes ONE decision tree `VE` whose conditions are `BE`, whose leaves are field expressions `FE`.

Four layered sorts (no mutual recursion, everything structurally recursive and computable):
* `SE` string expressions  (`source.strip().lower()`, `.replace(a, b)`, `re.sub('[ \']', '', s)`, `s[:-1]`)
* `IE` integer expressions (`hour - 12`)
* `BE` conditions; Python values used only for their truth (`regex.search(...)`, `a or b`) are conditions too — the
  translator records for such a method that only the truth value of the result is compared (`truthy`)
* `VE` the decision tree.

Python semantics mirrored: `str.strip()` (the `isspace` table), `str.lower()` (full Unicode lower-casing per code
point, U+0130 expands; the final-sigma context rule is not modelled), `str.replace`, slice clamping, `x in [..]`,
`sub in text`, `pattern.search / match / fullmatch` through the backtracking matcher of `RTV.Re` on the regex translated
from the pattern text the configuration object holds (IGNORECASE expanded by the translator).
-/
namespace RTV.CultureCfg
open RTV.Py

/-- the character tables the evaluator depends on (the driver and the theorems plug in the regenerated ones) -/
structure Tabs where
  isSpace : Nat → Bool
  lowerC : Nat → Str
  re : RTV.Re.Tables

/-- the call: string parameters and int parameters of the method, each in parameter order -/
structure Env where
  strs : List Str
  ints : List Int

inductive SE
  | arg (n : Nat)
  | lit (s : Str)
  | strip (e : SE)
  | lower (e : SE)
  | replace (e : SE) (a b : Str)
  /-- `re.sub('[abc]', '', e)`: delete every listed code point -/
  | delChars (e : SE) (cs : List Nat)
  /-- `e[a:b]` (`none` = bound omitted) -/
  | slice (e : SE) (a b : Option Int)
deriving DecidableEq, Repr, Inhabited

inductive IE
  | arg (n : Nat)
  | lit (i : Int)
  | add (a b : IE)
  | sub (a b : IE)
  | mul (a b : IE)
  | neg (a : IE)
  | len (e : SE)
deriving DecidableEq, Repr, Inhabited

inductive Cmp
  | lt | le | gt | ge | eq | ne
deriving DecidableEq, Repr, Inhabited

inductive BE
  | lit (b : Bool)
  | eq (a b : SE)
  | endsWith (s t : SE)
  | startsWith (s t : SE)
  /-- `needle in hay` -/
  | contains (hay needle : SE)
  /-- `s in [..]` / `s in (..)` -/
  | inList (s : SE) (l : List Str)
  /-- `any(s == o for o in l)`, `any(s.endswith(o) …)`, `any(s.startswith(o) …)`, `any(o in s …)` -/
  | anyEq (s : SE) (l : List Str)
  | anyEnds (s : SE) (l : List Str)
  | anyStarts (s : SE) (l : List Str)
  | anyIn (s : SE) (l : List Str)
  /-- `pattern.search(s)` / `.match(s)` / `.fullmatch(s)` as a truth value -/
  | reSearch (r : RTV.Re.RE) (s : SE)
  | reMatch (r : RTV.Re.RE) (s : SE)
  | reFull (r : RTV.Re.RE) (s : SE)
  /-- truth of a `str` -/
  | nonEmpty (s : SE)
  | icmp (op : Cmp) (a b : IE)
  | and (a b : BE)
  | or (a b : BE)
  | not (a : BE)
deriving DecidableEq, Repr, Inhabited

/-- one returned field -/
inductive FE
  | int (e : IE)
  | bool (e : BE)
  | str (e : SE)
  | none
deriving DecidableEq, Repr, Inhabited

inductive VE
  | ite (c : BE) (a b : VE)
  | ret (f : FE)
  /-- a record (`MatchedTimex(matched, timex)`, …): fields in declaration order -/
  | record (fs : List FE)
deriving DecidableEq, Repr, Inhabited

inductive Atom
  | int (i : Int)
  | bool (b : Bool)
  | str (s : Str)
  | none
deriving DecidableEq, Repr, Inhabited

inductive Val
  | one (a : Atom)
  | record (fs : List Atom)
deriving DecidableEq, Repr, Inhabited

/-- a translated method -/
structure Method where
  /-- `<culture directory>/<Class>.<method>` -/
  name : String
  nStr : Nat
  nInt : Nat
  /-- only the truth value of the result is meaningful (the Python code returns a match object / `None` / `a or b`) -/
  truthy : Bool
  body : VE
deriving Repr, Inhabited

/-! ### evaluator -/

def delCharsS (cs : List Nat) (s : Str) : Str := s.filter fun c => !cs.contains c

/-- `needle in hay` for strings -/
def containsStr (hay needle : Str) : Bool := (findFrom hay needle 0).isSome

def optInt (o : Option Int) (dflt : Int) : Int := o.getD dflt

/-- `s[a:b]` with omitted bounds -/
def sliceO (s : Str) (a b : Option Int) : Str :=
  sliceI s (optInt a 0) (match b with | some x => x | none => (s.length : Int))

def SE.eval (T : Tabs) (env : Env) : SE → Str
  | .arg n => env.strs.getD n []
  | .lit s => s
  | .strip e => RTV.Py.strip T.isSpace (e.eval T env)
  | .lower e => RTV.Preprocess.lowerWith T.lowerC (e.eval T env)
  | .replace e a b => RTV.Preprocess.replace (e.eval T env) a b
  | .delChars e cs => delCharsS cs (e.eval T env)
  | .slice e a b => sliceO (e.eval T env) a b

def IE.eval (T : Tabs) (env : Env) : IE → Int
  | .arg n => env.ints.getD n 0
  | .lit i => i
  | .add a b => a.eval T env + b.eval T env
  | .sub a b => a.eval T env - b.eval T env
  | .mul a b => a.eval T env * b.eval T env
  | .neg a => - a.eval T env
  | .len e => ((e.eval T env).length : Int)

def Cmp.test (a b : Int) : Cmp → Bool
  | .lt => decide (a < b)
  | .le => decide (a ≤ b)
  | .gt => decide (a > b)
  | .ge => decide (a ≥ b)
  | .eq => decide (a = b)
  | .ne => decide (a ≠ b)

def searchRe (T : Tabs) (r : RTV.Re.RE) (s : Str) : Bool := RTV.Re.searches T.re s.toArray r
def matchRe (T : Tabs) (r : RTV.Re.RE) (s : Str) : Bool := !(RTV.Re.ends T.re s.toArray r 0).isEmpty
def fullRe (T : Tabs) (r : RTV.Re.RE) (s : Str) : Bool := (RTV.Re.ends T.re s.toArray r 0).contains s.length

def BE.eval (T : Tabs) (env : Env) : BE → Bool
  | .lit b => b
  | .eq a b => a.eval T env == b.eval T env
  | .endsWith s t => RTV.Py.endsWith (s.eval T env) (t.eval T env)
  | .startsWith s t => RTV.Py.startsWith (s.eval T env) (t.eval T env)
  | .contains h n => containsStr (h.eval T env) (n.eval T env)
  | .inList s l => l.contains (s.eval T env)
  | .anyEq s l => l.any fun o => s.eval T env == o
  | .anyEnds s l => l.any fun o => RTV.Py.endsWith (s.eval T env) o
  | .anyStarts s l => l.any fun o => RTV.Py.startsWith (s.eval T env) o
  | .anyIn s l => l.any fun o => containsStr (s.eval T env) o
  | .reSearch r s => searchRe T r (s.eval T env)
  | .reMatch r s => matchRe T r (s.eval T env)
  | .reFull r s => fullRe T r (s.eval T env)
  | .nonEmpty s => !(s.eval T env).isEmpty
  | .icmp op a b => op.test (a.eval T env) (b.eval T env)
  | .and a b => a.eval T env && b.eval T env
  | .or a b => a.eval T env || b.eval T env
  | .not a => !a.eval T env

def FE.eval (T : Tabs) (env : Env) : FE → Atom
  | .int e => .int (e.eval T env)
  | .bool e => .bool (e.eval T env)
  | .str e => .str (e.eval T env)
  | .none => .none

def VE.eval (T : Tabs) (env : Env) : VE → Val
  | .ite c a b => if c.eval T env then a.eval T env else b.eval T env
  | .ret f => .one (f.eval T env)
  | .record fs => .record (fs.map (FE.eval T env))

/-- Python truth of a returned value -/
def Atom.truth : Atom → Bool
  | .int i => i != 0
  | .bool b => b
  | .str s => !s.isEmpty
  | .none => false

def Val.truth : Val → Bool
  | .one a => a.truth
  | .record _ => true

def Method.run (T : Tabs) (m : Method) (strs : List Str) (ints : List Int) : Val := m.body.eval T ⟨strs, ints⟩

/-- call with one text -/
def Method.on (T : Tabs) (m : Method) (text : Str) : Val := m.run T [text] []

/-! ### what a method can return, whatever the text (abstract evaluation: string parameters unknown)

`closed` expressions do not read a string parameter; conditions that are closed are decided from the int parameters
alone, the others may go either way.  `VE.possible` lists the values of all reachable leaves, `none` when a reachable
leaf depends on the text.  Soundness (`RTV.CultureCfg.possible_sound`) is proved in Lemmas/CultureCfg.lean. -/

def SE.closed : SE → Bool
  | .arg _ => false
  | .lit _ => true
  | .strip e => e.closed
  | .lower e => e.closed
  | .replace e _ _ => e.closed
  | .delChars e _ => e.closed
  | .slice e _ _ => e.closed

def IE.closed : IE → Bool
  | .arg _ => true
  | .lit _ => true
  | .add a b => a.closed && b.closed
  | .sub a b => a.closed && b.closed
  | .mul a b => a.closed && b.closed
  | .neg a => a.closed
  | .len e => e.closed

def BE.closed : BE → Bool
  | .lit _ => true
  | .eq a b => a.closed && b.closed
  | .endsWith s t => s.closed && t.closed
  | .startsWith s t => s.closed && t.closed
  | .contains h n => h.closed && n.closed
  | .inList s _ => s.closed
  | .anyEq s _ => s.closed
  | .anyEnds s _ => s.closed
  | .anyStarts s _ => s.closed
  | .anyIn s _ => s.closed
  | .reSearch _ s => s.closed
  | .reMatch _ s => s.closed
  | .reFull _ s => s.closed
  | .nonEmpty s => s.closed
  | .icmp _ a b => a.closed && b.closed
  | .and a b => a.closed && b.closed
  | .or a b => a.closed && b.closed
  | .not a => a.closed

def FE.closed : FE → Bool
  | .int e => e.closed
  | .bool e => e.closed
  | .str e => e.closed
  | .none => true

/-- three-valued truth of a condition when only the int parameters are known -/
def BE.abs (T : Tabs) (ints : List Int) : BE → Option Bool
  | .and a b =>
    match a.abs T ints, b.abs T ints with
    | some false, _ => some false
    | _, some false => some false
    | some true, some true => some true
    | _, _ => none
  | .or a b =>
    match a.abs T ints, b.abs T ints with
    | some true, _ => some true
    | _, some true => some true
    | some false, some false => some false
    | _, _ => none
  | .not a => (a.abs T ints).map (!·)
  | e => if e.closed then some (e.eval T ⟨[], ints⟩) else none

def VE.possible (T : Tabs) (ints : List Int) : VE → Option (List Val)
  | .ite c a b =>
    match c.abs T ints with
    | some true => a.possible T ints
    | some false => b.possible T ints
    | none => do
      let x ← a.possible T ints
      let y ← b.possible T ints
      pure (x ++ y)
  | .ret f => if f.closed then some [.one (f.eval T ⟨[], ints⟩)] else none
  | .record fs => if fs.all FE.closed then some [.record (fs.map (FE.eval T ⟨[], ints⟩))] else none

/-! ### syntactic queries used by the theorems on the regenerated tables -/

/-- all `(r, s)` regex tests of a condition -/
def BE.regexes : BE → List RTV.Re.RE
  | .reSearch r _ => [r]
  | .reMatch r _ => [r]
  | .reFull r _ => [r]
  | .and a b => a.regexes ++ b.regexes
  | .or a b => a.regexes ++ b.regexes
  | .not a => a.regexes
  | _ => []

/-- the string literals a condition compares the text with -/
def BE.words : BE → List Str
  | .eq _ (.lit s) => [s]
  | .endsWith _ (.lit s) => [s]
  | .startsWith _ (.lit s) => [s]
  | .contains _ (.lit s) => [s]
  | .inList _ l => l
  | .anyEq _ l => l
  | .anyEnds _ l => l
  | .anyStarts _ l => l
  | .anyIn _ l => l
  | .and a b => a.words ++ b.words
  | .or a b => a.words ++ b.words
  | .not a => a.words
  | _ => []

def FE.words : FE → List Str
  | .bool e => e.words
  | _ => []

def FE.regexes : FE → List RTV.Re.RE
  | .bool e => e.regexes
  | _ => []

def VE.words : VE → List Str
  | .ite c a b => c.words ++ a.words ++ b.words
  | .ret f => f.words
  | .record fs => fs.flatMap FE.words

def VE.regexes : VE → List RTV.Re.RE
  | .ite c a b => c.regexes ++ a.regexes ++ b.regexes
  | .ret f => f.regexes
  | .record fs => fs.flatMap FE.regexes

def VE.size : VE → Nat
  | .ite _ a b => 1 + a.size + b.size
  | _ => 1


/-! ### instances of a regex (for the theorems "the culture's own next / last / this words …")

`sampleLang keep cap r`: strings of the language of `r` ignoring zero-width assertions — every alternative, every
member of a small class that `keep` accepts (the theorems keep the code points that are their own lower-casing: the
classes were expanded for IGNORECASE by the translator), optional parts present and absent, `x*` as zero and one
iteration, `x+` / `x{n,}` as the minimal number of iterations, `\s` as one blank, `\d` as `1`, `\w` as `a`.
Branches that need a negated class yield nothing.  Not a complete enumeration: a finite family of instances. -/

def sampleItem (keep : Nat → Bool) : RTV.Re.Item → List Nat
  | .range lo hi =>
    if hi - lo < 8 then ((List.range (hi - lo + 1)).map (lo + ·)).filter keep else (if keep lo then [lo] else [])
  | .digit => [49]
  | .space => [32]
  | .word => [97]
  | _ => []

def sampleCls (keep : Nat → Bool) (items : List RTV.Re.Item) : List Nat := (items.flatMap (sampleItem keep)).eraseDups

def sampleLang (keep : Nat → Bool) (cap : Nat) : RTV.Re.RE → List Str
  | .eps => [[]]
  | .cls items neg => if neg then [] else (sampleCls keep items).map fun c => [c]
  | .seq a b => (RTV.Re.catAll (sampleLang keep cap a) (sampleLang keep cap b)).take cap
  | .alt a b => sampleLang keep cap a ++ sampleLang keep cap b
  | .rep a mn mx _ =>
    let x := sampleLang keep cap a
    ((RTV.Re.powLang x mn) ++ (if mn < mx then RTV.Re.powLang x (mn + 1) else [])).take cap
  | .repU a mn _ =>
    let x := sampleLang keep cap a
    ((RTV.Re.powLang x mn) ++ (if mn = 0 then x else [])).take cap
  | .grp _ a => sampleLang keep cap a
  | _ => [[]]

/-- code points that are their own lower-casing (without `ſ` U+017F and `ı` U+0131, which IGNORECASE adds to `s` / `i`) -/
def lowerStable (T : Tabs) (c : Nat) : Bool := T.lowerC c == [c] && c != 383 && c != 305

/-- the instances the theorems use -/
def wordsOf (T : Tabs) (r : RTV.Re.RE) : List Str := (sampleLang (lowerStable T) 400 r).eraseDups

/-! ### a method with one of its regexes replaced (labelled variants: the pre-fix form of a repaired configuration is
the regenerated method with the regex it used to hold put back) -/

def BE.substRe (old new : RTV.Re.RE) : BE → BE
  | .reSearch r s => .reSearch (if r = old then new else r) s
  | .reMatch r s => .reMatch (if r = old then new else r) s
  | .reFull r s => .reFull (if r = old then new else r) s
  | .and a b => .and (a.substRe old new) (b.substRe old new)
  | .or a b => .or (a.substRe old new) (b.substRe old new)
  | .not a => .not (a.substRe old new)
  | e => e

def FE.substRe (old new : RTV.Re.RE) : FE → FE
  | .bool e => .bool (e.substRe old new)
  | f => f

def VE.substRe (old new : RTV.Re.RE) : VE → VE
  | .ite c a b => .ite (c.substRe old new) (a.substRe old new) (b.substRe old new)
  | .ret f => .ret (f.substRe old new)
  | .record fs => .record (fs.map (FE.substRe old new))

def Method.withRe (m : Method) (old new : RTV.Re.RE) : Method := { m with body := m.body.substRe old new }

end RTV.CultureCfg
