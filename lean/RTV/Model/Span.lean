import RTV.Model.Py
import RTV.Model.Match
/-!
L2 `Span` — span algebra of the recognisers (C01, C12). Mirrors, function by function:

* `recognizers_text/extractor.py`            `ExtractResult.end / overlap / cover`
* `recognizers_number/number/extractors.py`  `BaseNumberExtractor.extract` (matched[] union sweep, negative-term
  widening, `_filter_ambiguity`), `BasePercentageExtractor.extract` with `__preprocess_with_number_extracted`
  (number masking + position map) and `__post_processing`, `BaseMergedNumberExtractor.extract` grouping
* `recognizers_sequence/sequence/extractors.py` `SequenceExtractor.extract`, `BaseIpExtractor.extract`,
  the prefix re-spanning of `BasePhoneNumberExtractor.extract`
* `recognizers_date_time/date_time/utilities.py` `Token.length`, `merge_all_tokens`
* `recognizers_date_time/date_time/base_merged.py` `BaseMergedExtractor.add_to`, `try_merge_modifier_token`,
  the modifier push / pop of `BaseMergedParser.parse`
* `recognizers_number_with_unit/number_with_unit/models.py` `AbstractNumberWithUnitModel.parse` (`b_add` filter)
* every `Model.parse`: `end = start + length - 1`

The regex engine is a *parameter* everywhere: a sweep takes the list of match spans the engine reported (in the
order the code iterates them), a modifier merge takes the match facts. Strings are code-point lists.
Import-free apart from RTV models, so the driver compiles.
-/
namespace RTV.Span
open RTV.Py

/-- Python `source[start:start+length]` for non-negative `start`, `length` (clamped at the end). -/
def sl (s : Str) (start len : Nat) : Str := (s.drop start).take len

/-- `ExtractResult` as far as span arithmetic sees it; `tag` stands for `data`/`type`. -/
structure ER where
  start : Nat
  len : Nat
  text : Str
  tag : Nat
deriving DecidableEq, Repr, Inhabited

/-- `ExtractResult.end` (can be `start - 1` for an empty result, `-1` at offset 0). -/
def ER.end (e : ER) : Int := (e.start : Int) + (e.len : Int) - 1

/-- `self.overlap(other)`: `(not self.start > other.end) and (not other.start > self.end)`. -/
def overlap (a b : ER) : Bool :=
  (!decide ((a.start : Int) > b.end)) && (!decide ((b.start : Int) > a.end))

/-- `self.cover(other)` — note the direction: true iff **other strictly covers self**. -/
def cover (self other : ER) : Bool :=
  (decide (other.start < self.start) && decide (other.end ≥ self.end)) ||
  (decide (other.start ≤ self.start) && decide (other.end > self.end))

/-- Half-open character ranges do not meet. -/
def Disjoint (a b : ER) : Prop := a.start + a.len ≤ b.start ∨ b.start + b.len ≤ a.start

instance (a b : ER) : Decidable (Disjoint a b) := by unfold Disjoint; infer_instance

/-! ## The `matched[]` union sweep -/

/-- A regex match as the sweeps see it: `m.start()`, `len(m.group())`, and which regex (data value) it came from. -/
structure M where
  start : Nat
  len : Nat
  tag : Nat
deriving DecidableEq, Repr, Inhabited

/-- `matched[i]` after marking every match. -/
def matchedAt (ms : List M) (i : Nat) : Bool := ms.any fun m => decide (m.start ≤ i) && decide (i < m.start + m.len)

/-- The scan `last = -1; for i in range(n): if not matched[i]: last = i elif i+1 == n or not matched[i+1]: emit
(last+1, i-last)`. State: position `i`, `start = last + 1`; `fuel` = remaining iterations. -/
def runsGo (f : Nat → Bool) (n : Nat) : Nat → Nat → Nat → List (Nat × Nat)
  | 0, _, _ => []
  | fuel + 1, i, start =>
    if !f i then runsGo f n fuel (i + 1) (i + 1)
    else if i + 1 == n || !f (i + 1) then (start, i + 1 - start) :: runsGo f n fuel (i + 1) start
    else runsGo f n fuel (i + 1) start

/-- Maximal runs of marked positions, as `(start, length)`, left to right. -/
def runs (f : Nat → Bool) (n : Nat) : List (Nat × Nat) := runsGo f n n 0 0

/-- `next((x for x in match_source if x.start() == start and x.end() - x.start() == length), None)`:
`match_source` is a dict keyed by match objects (identity hash), i.e. the list of matches in insertion order. -/
def srcMatch (ms : List M) (start len : Nat) : Option M :=
  ms.find? fun m => m.start == start && m.len == len

/-- `_filter_item`: the result survives iff no ambiguity match intersects it. Matches as `(start, end)`. -/
def filterItem (amb : List (Nat × Nat)) (e : ER) : Bool :=
  !(amb.any fun m => decide (m.1 < e.start + e.len) && decide (m.2 > e.start))

/-- `_filter_ambiguity` given, per dictionary item whose key regex was found, the matches of its value regex
(items with no match are skipped by `if matches and len(matches)`, which filtering with `[]` reproduces). -/
def filterAmbiguity (ambs : List (List (Nat × Nat))) (ers : List ER) : List ER :=
  ambs.foldl (fun acc amb => acc.filter (filterItem amb)) ers

/-- `BaseNumberExtractor.extract`. `sp` = `str.isspace`; `ms` = all `regex.finditer` matches, regex by regex;
`neg start` = the span `regex.search(self._negative_number_terms, source[0:start])` reported (`none` when the
extractor has no negative terms or nothing matched); `ambs` as in `filterAmbiguity`. -/
def numExtract (sp : Nat → Bool) (src : Str) (ms : List M) (neg : Nat → Option (Nat × Nat))
    (ambs : List (List (Nat × Nat))) : List ER :=
  if (strip sp src).isEmpty then []
  else
    let found := (runs (matchedAt ms) src.length).filterMap fun (start, length) =>
      match srcMatch ms start length with
      | none => none
      | some m =>
        match neg start with
        | some (a, b) => some ⟨a, length + b - a, strip sp (sl src a (length + b - a)), m.tag⟩
        | none => some ⟨start, length, strip sp (sl src start length), m.tag⟩
    filterAmbiguity ambs found

/-- `SequenceExtractor.extract` (`ms` = the matches that passed `_is_valid_match`). -/
def seqExtract (sp : Nat → Bool) (src : Str) (ms : List M) : List ER :=
  if src.isEmpty then []
  else
    (runs (matchedAt ms) src.length).filterMap fun (start, length) =>
      match srcMatch ms start length with
      | none => none
      | some m => some ⟨start, length, strip sp (sl src start length), m.tag⟩

/-- `BaseIpExtractor.extract`: the same sweep with the `::` guards, abstracted as `skip start length`. -/
def ipExtractWith (sp : Nat → Bool) (skip : Nat → Nat → Bool) (src : Str) (ms : List M) : List ER :=
  if src.isEmpty then []
  else
    (runs (matchedAt ms) src.length).filterMap fun (start, length) =>
      if skip start length then none
      else match srcMatch ms start length with
        | none => none
        | some m => some ⟨start, length, strip sp (sl src start length), m.tag⟩

/-- The concrete `::` guards of `BaseIpExtractor.extract` (`Constants.IPV6_ELLIPSIS = "::"`), including the
second guard's `list(source)[start - 1]` (sic: not `i + 1`; Python wraps `-1` to the last character). -/
def ipSkip (k : RTV.Match.CharClass) (src : Str) (start length : Nat) : Bool :=
  let sub := strip k.isSpace (sl src start length)
  let i := start + length - 1
  let at' (j : Int) : Nat := (index src j).getD 0
  let wordy (c cj : Nat) : Bool := k.isDigit c || (k.isAlpha c && !RTV.Match.isCJK cj)
  if startsWith sub [58, 58] && (decide (start > 0) && wordy (at' ((start : Int) - 1)) (at' ((start : Int) - 1))) then true
  else if endsWith sub [58, 58] && (decide (i + 1 < src.length) && wordy (at' (i + 1)) (at' ((start : Int) - 1))) then true
  else false

def ipExtract (k : RTV.Match.CharClass) (src : Str) (ms : List M) : List ER :=
  ipExtractWith k.isSpace (ipSkip k src) src ms

/-! ## Percentage: number masking, position map, restoring -/

/-- `match[j]`: index of the first number result covering position `j` (`none` = `-1`). -/
def owner (nums : List ER) (j : Nat) : Option Nat :=
  nums.findIdx? fun e => decide (e.start ≤ j) && decide (j < e.start + e.len)

/-- `__preprocess_with_number_extracted` as one pass: positions with the same `match[]` value form a part; a
text part is copied (map: identity), a number part is replaced by the dummy token (map: the part's start).
Emits `(character, original position)`; `prev` = `match[i-1]` (`none` at `i = 0`). -/
def maskGo (own : Nat → Option Nat) (tok : Str) : Nat → Str → Option (Option Nat) → List (Nat × Nat)
  | _, [], _ => []
  | i, c :: rest, prev =>
    let o := own i
    if prev == some o then
      match o with
      | none => (c, i) :: maskGo own tok (i + 1) rest (some o)
      | some _ => maskGo own tok (i + 1) rest (some o)
    else
      match o with
      | none => (c, i) :: maskGo own tok (i + 1) rest (some o)
      | some _ => tok.map (fun t => (t, i)) ++ maskGo own tok (i + 1) rest (some o)

/-- masked source and `position_map` (as a list indexed by masked position, last entry `len(source)`). -/
def maskNumbers (src : Str) (nums : List ER) (tok : Str) : Str × List Nat :=
  let cells := maskGo (owner nums) tok 0 src none
  (cells.map (·.1), cells.map (·.2) ++ [src.length])

/-- `__post_processing` on one result (span part): through the position map when both ends are keys. -/
def restore (sp : Nat → Bool) (origin : Str) (pm : List Nat) (e : ER) : ER :=
  match pm[e.start]?, pm[e.start + e.len]? with
  | some os, some oe => ⟨os, oe - os, strip sp (sl origin os (oe - os)), e.tag⟩
  | _, _ => e

/-- `BasePercentageExtractor.extract` given the number extractor's results on `origin` and the percentage
regexes' matches on the masked source. -/
def pctExtract (sp : Nat → Bool) (origin : Str) (nums : List ER) (tok : Str) (ms : List M) : List ER :=
  let (masked, pm) := maskNumbers origin nums tok
  let results := (runs (matchedAt ms) masked.length).map fun (start, length) =>
    (⟨start, length, strip sp (sl masked start length), 0⟩ : ER)
  results.map (restore sp origin pm)

/-! ## `BaseMergedNumberExtractor.extract` grouping (span part)

`join i` = "results `i` and `i+1` fall in the same group" (both `Integer*`, round-number lock matched, middle is
blank or a connector). Merged result: from the group's first start to the last member's end, text re-sliced
(not stripped); a singleton group keeps its own result. -/
def groupGo (src : Str) (join : Nat → Bool) : Nat → Option ER → List ER → List ER
  | _, none, [] => []
  | _, some g, [] => [g]
  | i, none, e :: rest => groupGo src join (i + 1) (some e) rest
  | i, some g, e :: rest =>
    if join (i - 1) then
      let stop := e.start + e.len
      groupGo src join (i + 1) (some ⟨g.start, stop - g.start, sl src g.start (stop - g.start), g.tag⟩) rest
    else g :: groupGo src join (i + 1) (some e) rest

def mergedNumberGroups (src : Str) (join : Nat → Bool) (ers : List ER) : List ER := groupGo src join 0 none ers

/-! ## `merge_all_tokens` -/

/-- `Token(start, end)`; `id` identifies the object (its metadata travels with it). -/
structure Tk where
  start : Nat
  stop : Nat
  id : Nat
deriving DecidableEq, Repr, Inhabited

/-- `Token.length`. -/
def Tk.length (t : Tk) : Nat := if t.start > t.stop then 0 else t.stop - t.start

/-- The inner `for index, m_token in enumerate(merged_tokens)` loop for one `token`: returns the updated list
and the `add` flag. The three `if`s are evaluated in sequence inside one iteration, the loop breaks at the top
of the next iteration once `add` is false. -/
def mergeInto : List Tk → Tk → List Tk × Bool
  | [], _ => ([], true)
  | m :: rest, t =>
    let c1 := decide (t.start ≥ m.start) && decide (t.stop ≤ m.stop)
    let c2 := decide (m.start < t.start) && decide (t.start < m.stop)
    let c3 := decide (t.start ≤ m.start) && decide (t.stop ≥ m.stop)
    if c1 || c2 || c3 then ((if c3 then t else m) :: rest, false)
    else
      let r := mergeInto rest t
      (m :: r.1, r.2)

def mergeStep (merged : List Tk) (t : Tk) : List Tk :=
  let r := mergeInto merged t
  if r.2 then r.1 ++ [t] else r.1

/-- insert after every element whose key is ≤ the new one (keeps equal keys in arrival order). -/
def insertTk (t : Tk) : List Tk → List Tk
  | [] => [t]
  | x :: r => if x.start ≤ t.start then x :: insertTk t r else t :: x :: r

/-- `sorted(tokens, key=lambda x: x.start)`: a stable sort (here: insertion sort, left to right). -/
def sortTokens (ts : List Tk) : List Tk := ts.foldl (fun acc t => insertTk t acc) []

def mergeTokens (ts : List Tk) : List Tk := (sortTokens ts).foldl mergeStep []

/-- `merge_all_tokens(tokens, source, name)`: result `tag` = the surviving token's `id`. -/
def mergeAllTokens (src : Str) (ts : List Tk) : List ER :=
  (mergeTokens ts).map fun t => ⟨t.start, t.length, sl src t.start t.length, t.id⟩

/-! ## `BaseMergedExtractor.add_to` -/

/-- remove every destination `value` strictly covers and put `value` where the first of them was
(`temp_dst.insert(first_index, value)`: everything before `first_index` is kept, so the index is unchanged). -/
def insertAtFirst (p : ER → Bool) (v : ER) : List ER → List ER
  | [] => []
  | d :: r => if p d then v :: r.filter (fun x => !p x) else d :: insertAtFirst p v r

/-- one iteration of `for value in source` (`skip` = `SKIP_FROM_TO_MERGE and should_skip_from_merge(value)`). -/
def addOne (skip : ER → Bool) (dst : List ER) (v : ER) : List ER :=
  if skip v then dst
  else if !(dst.any fun d => overlap d v) then dst ++ [v]
  else if dst.any (fun d => overlap d v && cover d v) then insertAtFirst (fun d => overlap d v && cover d v) v dst
  else dst

def addTo (skip : ER → Bool) (dst src : List ER) : List ER := src.foldl (addOne skip) dst

/-- hypothesis of the positive theorem for one value: when the value is going to be inserted (it strictly
covers some destination it overlaps) it must strictly cover **every** destination it overlaps. -/
def NoCrossing (dst : List ER) (v : ER) : Prop :=
  (∃ d ∈ dst, overlap d v = true ∧ cover d v = true) → ∀ d ∈ dst, overlap d v = true → cover d v = true

instance (dst : List ER) (v : ER) : Decidable (NoCrossing dst v) := by unfold NoCrossing; infer_instance

/-- the hypothesis for a whole `add_to` call: `NoCrossing` at every step, against the list as it is then. -/
def NoCrossingAll (skip : ER → Bool) : List ER → List ER → Prop
  | _, [] => True
  | dst, v :: rest => (skip v = false → NoCrossing dst v) ∧ NoCrossingAll skip (addOne skip dst v) rest

instance decNoCrossingAll (skip : ER → Bool) : ∀ (src dst : List ER), Decidable (NoCrossingAll skip dst src)
  | [], _ => isTrue trivial
  | v :: rest, dst => by
    unfold NoCrossingAll
    exact @instDecidableAnd _ _ _ (decNoCrossingAll skip rest _)

/-! ## `AbstractNumberWithUnitModel.parse`: the `b_add` filter inside the nested loops -/

/-- a parse result as the filter sees it (`end = start + length - 1` is computed by `modelEnd`). -/
structure MR where
  start : Int
  stop : Int      -- inclusive `end`
  id : Nat
deriving DecidableEq, Repr, Inhabited

/-- `Model.parse`: `end = start + length - 1`. -/
def modelEnd (start len : Int) : Int := start + len - 1

/-- `b_add = not [x for x in extraction_results if m.start <= x.start and m.end >= x.end]`. -/
def bAdd (acc : List MR) (m : MR) : Bool :=
  !(acc.any fun x => decide (m.start ≤ x.start) && decide (m.stop ≥ x.stop))

def nwuAdd (acc : List MR) (m : MR) : List MR := if bAdd acc m then acc ++ [m] else acc

/-- the whole double loop: `parse_results` accumulates over the (extractor, parser) items and is re-scanned
after every item. `items` = parse results per item, flattened as the code flattens list values. -/
def nwuParseGo : List (List MR) → List MR → List MR → List MR
  | [], _, acc => acc
  | item :: rest, prs, acc =>
    let prs' := prs ++ item
    nwuParseGo rest prs' (prs'.foldl nwuAdd acc)

def nwuParse (items : List (List MR)) : List MR := nwuParseGo items [] []

/-- repaired variant of the filter: a candidate is also dropped when an accepted result contains it. -/
def bAddSym (acc : List MR) (m : MR) : Bool :=
  !(acc.any fun x => (decide (m.start ≤ x.start) && decide (m.stop ≥ x.stop)) ||
    (decide (x.start ≤ m.start) && decide (x.stop ≥ m.stop)))

def nwuAddSym (acc : List MR) (m : MR) : List MR := if bAddSym acc m then acc ++ [m] else acc

def nwuParseGoSym : List (List MR) → List MR → List MR → List MR
  | [], _, acc => acc
  | item :: rest, prs, acc =>
    let prs' := prs ++ item
    nwuParseGoSym rest prs' (prs'.foldl nwuAddSym acc)

def nwuParseSym (items : List (List MR)) : List MR := nwuParseGoSym items [] []

/-! ## Modifier tokens: `try_merge_modifier_token`, `add_mod` suffix, `BaseMergedParser.parse` push / pop -/

/-- span + text of an `ExtractResult` / `DateTimeParseResult` with Python ints. -/
structure Sp where
  start : Int
  len : Int
  text : Str
deriving DecidableEq, Repr, Inhabited

/-- `try_merge_modifier_token`, prefix branch: `before_str = source[0:start]`, `token.index` is an index **into
`before_str.strip()`**, `mod_len = len(before_str) - token.index` (so leading blanks of the query are counted
as part of the modifier: C# uses `TrimEnd`, the port uses `strip`). -/
def mergeModPrefix (src : Str) (e : Sp) (tokenIndex : Nat) : Sp :=
  let beforeLen : Int := (sliceI src 0 e.start).length
  let modLen := beforeLen - tokenIndex
  let start := e.start - modLen
  let len := e.len + modLen
  ⟨start, len, sliceI src start (start + len)⟩

/-- the `suffix_after_regex` branch of `add_mod`: `extract_result.length += mod_length`. -/
def mergeModSuffix (src : Str) (e : Sp) (modLength : Nat) : Sp :=
  let len := e.len + modLength
  ⟨e.start, len, sliceI src e.start (e.start + len)⟩

/-- Push in `BaseMergedParser.parse` for a modifier found at the beginning (`match_is_after = False`,
no `around`): `start += m; length -= m; text = text[m:]`, `mod_str = match.group()` = `text[i:i+l]` where
`m = match.length`… the code adds `before_match.length` only (not `index + length`). -/
def pushPrefix (e : Sp) (mIndex mLen : Nat) : Sp × Str :=
  (⟨e.start + mLen, e.len - mLen, sliceI e.text mLen e.text.length⟩, sl e.text mIndex mLen)

/-- Pop: `length += len(mod_str); start -= len(mod_str); text = mod_str + text`. -/
def popPrefix (r : Sp) (mod : Str) : Sp := ⟨r.start - mod.length, r.len + mod.length, mod ++ r.text⟩

/-- Push for a modifier found at the end (`match_is_after = True`): `length -= m; text = text[0:length]`. -/
def pushSuffix (e : Sp) (mIndex mLen : Nat) : Sp × Str :=
  (⟨e.start, e.len - mLen, sliceI e.text 0 (e.len - mLen)⟩, sl e.text mIndex mLen)

/-- Pop (`has_before` with `match_is_after`, `has_date_after`): `length += len(mod_str); text = text + mod_str`. -/
def popSuffix (r : Sp) (mod : Str) : Sp := ⟨r.start, r.len + mod.length, r.text ++ mod⟩

/-- the prefix re-spanning of `BasePhoneNumberExtractor.extract` (international dialling prefix found in
`front = source[0:start-1]` at `[ms, me)`): `start = ms; length += me - ms + 1; text = source[..].strip()`. -/
def phoneRespan (sp : Nat → Bool) (src : Str) (e : ER) (ms me : Nat) : ER :=
  let len := e.len + me - ms + 1
  ⟨ms, len, strip sp (sl src ms len), e.tag⟩

end RTV.Span
