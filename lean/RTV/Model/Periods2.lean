import RTV.Model.Periods
import RTV.Model.Durations
/-!
L5 `Periods2` — what was left of `BaseDatePeriodParser` (`base_dateperiod.py`) and the `DateContext` class
(`utilities.py`), mirrored function by function with the **regex / sub-parser outcomes as inputs**:

* `DateContext`: `is_empty`, `swift_date_object`, `process_date_entity_resolution` / `_parsing_result`,
  `process_date_period_entity_resolution` (`__set_date_range_with_context` turns the two lists into two dicts — recorded
  as the flag `dict`, because `_parse_complex_date_period` reads them with `.get`), `__set_date_with_context`,
  `sync_year` / `sync_year_resolution`, `TimexUtil.set_timex_with_context` (`str.replace('XXXX', str(year))`, no zero
  padding), the year scan of `get_year_context` (its two early-outs are dead in the Python port: `hasattr(match, 'success')`
  is False for a `regex` match, so the text is ALWAYS scanned for years);
* `_merge_two_times_points` with its year context and the Feb-29 year sync, and its "now" branch;
* `__parse_single_time_point`, `_parse_complex_date_period`, `TimexUtil.generate_date_period_timex(_unit_count)` (type 1
  divides by 7 with true division: the week count is a `float`, printed by `repr`);
* `_parse_base_date_period`: the order of the sixteen sub-parsers (first success wins, an exception of an earlier one
  escapes), the context step at its end; `parse`: result assembly;
* `__parse_decade` as it is in the tree (never succeeds: `Pattern.match(text, True)` starts at position 1,
  `match.success` / `True.success` raise AttributeError) and `decadeFixed`, the computation the function's text spells
  out (integer division, string building as in the C# original) — the specification a repair has to meet; the
  correspondence probes which of the two the working tree follows;
* `__parse_week_of_date`, `__parse_month_of_date`, and the `_inclusive_end_period = True` variants of month-with-year,
  year, week of month, week of year, duration.
`none` / `.raises` = the Python code raises.
-/
namespace RTV.Periods2
open RTV.Cal RTV.DateUtils RTV.WF RTV.Periods

/-! ## outcomes -/

/-- the four values of a period resolution: future `[begin, end]`, past `[begin, end]` -/
structure Vals where
  fb : DateTime
  fe : DateTime
  pb : DateTime
  pe : DateTime
deriving DecidableEq, Repr

/-- What a sub-parser of `_parse_base_date_period` yields: an exception, `success = False`, or `success = True` with a
TIMEX, possibly values (`__parse_season` sets none) and `mod`. -/
inductive Out
  | raises
  | noResult
  | ok (timex : Str) (vals : Option Vals) (mod : Str)
deriving DecidableEq, Repr

def Out.ofRes : Res → Out
  | .raises => .raises
  | .noResult => .noResult
  | .ok t fb fe pb pe => .ok t (some ⟨fb, fe, pb, pe⟩) []

def Out.success : Out → Bool
  | .ok _ _ _ => true
  | _ => false

/-- a resolved date (`DateTimeResolutionResult` of the date parser): TIMEX, future value, past value -/
structure DateRes where
  timex : Str
  future : DateTime
  past : DateTime
deriving DecidableEq, Repr

/-! ## `DateContext` -/

/-- `Constants.INVALID_YEAR` -/
def invalidYear : Int := -2147483648

/-- `DateContext.is_empty` -/
def ctxEmpty (year : Int) : Bool := year == invalidYear

/-- `s.replace('XXXX', new)`: leftmost, non-overlapping -/
def replaceXXXX (new : Str) : Str → Str
  | 88 :: 88 :: 88 :: 88 :: rest => new ++ replaceXXXX new rest
  | c :: rest => c :: replaceXXXX new rest
  | [] => []

/-- `TimexUtil.set_timex_with_context`: `timex.replace('XXXX', str(context.year))` -/
def setTimexWithContext (t : Str) (year : Int) : Str := replaceXXXX (Periods.intStr year) t

/-- `DateContext.swift_date_object(begin, end)`: one year earlier when the begin lies after the end -/
def swiftDateObject (b e : DateTime) : Option DateTime :=
  if e.lt b then addDelta b (-1) 0 0 else some b

/-- `DateContext.__set_date_with_context(original_date, year=-1)`: the marker `min_value` is kept; otherwise month and
day are copied into the context year (or the given one) by `safe_create_from_min_value` — a day that does not exist
there (29 February) gives the marker. -/
def setDateWithContext (ctxYear : Int) (x : DateTime) (year : Int := -1) : DateTime :=
  if x = DateUtils.minValue then x
  else safeCreateFromMinValue (if year == -1 then ctxYear else year) x.date.m x.date.d

/-- `process_date_entity_resolution` (= `process_date_entity_parsing_result` for the fields used later) -/
def processDateEntity (ctxYear : Int) (r : DateRes) : DateRes :=
  if ctxEmpty ctxYear then r
  else ⟨setTimexWithContext r.timex ctxYear, setDateWithContext ctxYear r.future, setDateWithContext ctxYear r.past⟩

/-- `process_date_period_entity_resolution` on a successful result → `(result, the values are dicts now)`; `none` = it
raises (`None[0]` for a result without values). -/
def processDatePeriod (ctxYear : Int) (timex : Str) (vals : Option Vals) (mod : Str) : Option (Out × Bool) :=
  if ctxEmpty ctxYear then some (.ok timex vals mod, false)
  else match vals with
    | none => none
    | some v => some (.ok (setTimexWithContext timex ctxYear)
        (some ⟨setDateWithContext ctxYear v.fb, setDateWithContext ctxYear v.fe,
               setDateWithContext ctxYear v.pb, setDateWithContext ctxYear v.pe⟩) mod, true)

/-- The year scan of `get_year_context`: `years` = `get_year_from_text` of every `year_regex` match of the text, in
order. One common year → that year; a second, different year resets to INVALID (and a later year is taken again). -/
def yearContextFold (years : List Int) : Int :=
  years.foldl (fun ctx y =>
    if y != invalidYear then (if ctx == invalidYear then y else if ctx != y then invalidYear else ctx) else ctx) invalidYear

def isFeb29 (x : DateTime) : Bool := x.date.m == 2 && x.date.d == 29

/-- `sync_year_resolution` -/
def syncYearResolution (ctxYear : Int) (r : DateRes) (futureYear pastYear : Int) : DateRes :=
  ⟨r.timex, setDateWithContext ctxYear r.future futureYear, setDateWithContext ctxYear r.past pastYear⟩

/-- `sync_year(pr1, pr2)` -/
def syncYear (ctxYear : Int) (r1 r2 : DateRes) : DateRes × DateRes :=
  if ctxEmpty ctxYear then
    if isFeb29 r1.future then (r1, syncYearResolution ctxYear r2 r1.future.date.y r1.past.date.y)
    else if isFeb29 r2.future then (syncYearResolution ctxYear r1 r2.future.date.y r2.past.date.y, r2)
    else (r1, r2)
  else (r1, r2)

/-! ## `_merge_two_times_points` with the year context -/

/-- The branch for two extracted dates. `futureMatchStart` = `future_regex.match(first date text)` is a match: the code
then reads `.success` of a `regex` match and raises. `r1`, `r2` = what the date parser made of the two dates. -/
def mergeCtx (futureMatchStart : Bool) (ctxYear : Int) (r1 r2 : DateRes) : Res :=
  if futureMatchStart then .raises
  else
    let p1 := processDateEntity ctxYear r1
    let p2 := processDateEntity ctxYear r2
    let q := if ctxEmpty ctxYear && (isFeb29 p1.future || isFeb29 p2.future) then syncYear ctxYear p1 p2 else (p1, p2)
    mergeTwoTimePoints q.1.future q.1.past q.1.timex q.2.future q.2.past q.2.timex

/-- `_parse_now_as_date`: TIMEX = the reference's date, value = its midnight -/
def nowAsDate (ref : DateTime) : DateRes :=
  let v := safeCreateFromMinValue ref.date.y ref.date.m ref.date.d
  ⟨luisOf ref, v, v⟩

/-- The "now" branch ("between now and May 5"): one extracted date and a `now_regex` match; `dateFirst` = the date
starts before the "now" word. No context, no year sync. -/
def mergeWithNow (ref : DateTime) (dateFirst : Bool) (d : DateRes) : Res :=
  let n := nowAsDate ref
  let (a, b) := if dateFirst then (d, n) else (n, d)
  mergeTwoTimePoints a.future a.past a.timex b.future b.past b.timex

/-! ## `_parse_complex_date_period` -/

/-- what `__parse_single_time_point` meets: no date extracted; `week_with_week_day_range_regex` matches (the code reads
`.success` of a `regex` match: AttributeError); the date parser returns no value (`None.future_value`); a date. -/
inductive SingleIn
  | noDate
  | weekMatch
  | noValue
  | date (r : DateRes)
deriving DecidableEq, Repr

/-- `__parse_single_time_point(text, reference, date_context)`: outer `none` = raises, inner `none` = `success = False`.
The TIMEX gets a leading `(`. A `DateContext` object is always truthy, so the context step always runs. -/
def parseSingleTimePoint (ctxYear : Int) : SingleIn → Option (Option DateRes)
  | .noDate => some none
  | .weekMatch => none
  | .noValue => none
  | .date r => some (some (processDateEntity ctxYear ⟨[40] ++ r.timex, r.future, r.past⟩))

/-- `(end - begin).days` of two datetimes (floor of the difference in days) -/
def daysBetween (b e : DateTime) : Int :=
  Int.fdiv (((e.date.ord : Int) - b.date.ord) * 86400 + ((e.secs : Int) - b.secs)) 86400

/-- `str(n / 7)` for an `int` `n`: true division, `repr` of the binary64 quotient -/
def div7Str (n : Int) : Str :=
  match RTV.Durations.Dbl.ofQ (decide (n < 0)) n.natAbs 7 with
  | some x => RTV.Durations.reprDbl x
  | none => []

/-- `TimexUtil.generate_date_period_timex(begin, end, timex_type, alternative_begin, alternative_end)` for the types
0 (days), 1 (weeks), 2 (months). The `datetime.now() == …` disjunct is taken to be False. -/
def generateDatePeriodTimex (b e : DateTime) (ty : Nat) (ab ae : DateTime) : Str :=
  let equal := daysBetween b e == daysBetween ab ae
  let count : Str :=
    if equal then
      (if ty == 0 then Periods.intStr (daysBetween b e)
       else if ty == 1 then div7Str (daysBetween b e)
       else Periods.intStr (((e.date.y : Int) - b.date.y) * 12 + ((e.date.m : Int) - b.date.m)))
    else [88, 88]
  [40] ++ luisOf b ++ [44] ++ luisOf e ++ [44, 80] ++ count ++ [if ty == 0 then 68 else if ty == 1 then 87 else 77, 41]

/-- one end of a complex period: what `__parse_single_time_point` meets on its text and what the chain of
`_parse_base_date_period` yields on it (consulted only when the former does not succeed; before the context step). -/
structure EndIn where
  single : SingleIn
  period : Out
deriving DecidableEq, Repr

/-- → outer `none` = raises; `(future, past, is_specific_date, by_week)`; unresolved = inner `none`. -/
def resolveEnd (ctxYear : Int) (e : EndIn) : Option (Option (DateTime × DateTime × Bool × Bool)) :=
  match parseSingleTimePoint ctxYear e.single with
  | none => none
  | some (some r) => some (some (r.future, r.past, true, false))
  | some none =>
    match e.period with
    | .raises => none
    | .noResult => some none
    | .ok t vals mod =>
      match processDatePeriod ctxYear t vals mod with
      | some (.ok t' (some v) _, true) => some (some (v.fb, v.pb, false, hasSub t' [45, 87]))
      | _ => none          -- lists, not dicts (empty context): `.get` raises; no values: `None[0]` / `None.get` raise

/-- `_parse_complex_date_period` after `complex_dateperiod_regex` matched (`matched = false`: no result). -/
def complexDatePeriod (matched : Bool) (ctxYear : Int) (s e : EndIn) : Res :=
  if !matched then .noResult
  else
    match resolveEnd ctxYear s, resolveEnd ctxYear e with
    | some rs, some re =>
      let mn := DateUtils.minValue
      let (fb, pb, sp1, w1) := rs.getD (mn, mn, false, false)
      let (fe, pe, sp2, w2) := re.getD (mn, mn, false, false)
      let fb' : Option DateTime := if fe.lt fb then (if ctxEmpty ctxYear then some pb else swiftDateObject fb fe) else some fb
      let pb' : Option DateTime := if pe.lt pb then swiftDateObject pb pe else some pb
      match fb', pb' with
      | some fb', some pb' =>
        let ty : Nat := if sp1 || sp2 then 0 else if w1 || w2 then 1 else 2
        .ok (generateDatePeriodTimex fb' fe ty pb' pe) fb' fe pb' pe
      | _, _ => .raises
    | _, _ => .raises

/-! ## `_parse_base_date_period`: the order of the sub-parsers; `parse` -/

/-- first success wins; an exception of an earlier sub-parser escapes; later ones are not run -/
def firstSuccess : List Out → Out
  | [] => .noResult
  | .raises :: _ => .raises
  | .noResult :: rest => firstSuccess rest
  | r :: _ => r

/-- index of the sub-parser that answered -/
def answerIndex : List Out → Option Nat
  | [] => none
  | .raises :: _ => none
  | .noResult :: rest => (answerIndex rest).map (· + 1)
  | _ :: _ => some 0

/-- the sixteen sub-parsers in the order `_parse_base_date_period` tries them -/
inductive Sub
  | monthWithYear | simpleCase | oneWordPeriod | mergeTwoTimePoints | year | weekOfMonth | weekOfYear | halfYear
  | quarter | season | whichWeek | weekOfDate | monthOfDate | decade | datePointWithAgoAndLater | duration
deriving DecidableEq, Repr

def Sub.order : List Sub :=
  [.monthWithYear, .simpleCase, .oneWordPeriod, .mergeTwoTimePoints, .year, .weekOfMonth, .weekOfYear, .halfYear,
   .quarter, .season, .whichWeek, .weekOfDate, .monthOfDate, .decade, .datePointWithAgoAndLater, .duration]

/-- `_parse_base_date_period(text, reference, date_context)`: `outs` = the outcomes of the sub-parsers in `Sub.order`;
`ctx = none` is `date_context = None`. → `(result, values are dicts)`; `none` = raises. -/
def parseBaseDatePeriod (outs : List Out) (ctx : Option Int) : Option (Out × Bool) :=
  match firstSuccess outs with
  | .raises => none
  | .noResult => some (.noResult, false)
  | .ok t vals mod =>
    match ctx with
    | none => some (.ok t vals mod, false)
    | some y => processDatePeriod y t vals mod

/-- `DateTimeParseResult` of `parse`: `value` (None or the inner result with its resolution dicts) and `timex_str` -/
structure Parsed where
  hasValue : Bool
  timexStr : Str
  future : Option (Str × Str)
  past : Option (Str × Str)
  mod : Str
deriving DecidableEq, Repr

/-- `BaseDatePeriodParser.parse`: `typeOK` = the extract result carries the parser's type; `base` = outcome of
`_parse_base_date_period`, `complex` = of `_parse_complex_date_period` (run only when the former has no success).
Resolution dicts `{startDate, endDate}` = `format_date` of the values, `{}` when there are none. `none` = raises. -/
def parseTop (typeOK : Bool) (base complex : Out) : Option Parsed :=
  if !typeOK then some ⟨false, [], none, none, []⟩
  else
    let pick : Option Out :=
      match base with
      | .raises => none
      | .ok t v m => some (.ok t v m)
      | .noResult => (match complex with | .raises => none | o => some o)
    pick.map fun o =>
      match o with
      | .ok t (some v) m =>
        ⟨true, t, some (formatDate v.fb.date, formatDate v.fe.date), some (formatDate v.pb.date, formatDate v.pe.date), m⟩
      | .ok t none m => ⟨true, t, none, none, m⟩
      | _ => ⟨false, [], none, none, []⟩

/-! ## `__parse_decade` -/

/-- The function as it is in the tree. `decadeMatchAt1` = `decade_with_century_regex.match(text, True)` is a match (the
second argument is `pos`: matching starts at index 1) — then `match.success` raises; `relativeExact` =
`RegExpUtility.is_exact_match(relative_decade_regex, text, True)` (a `bool`) — `True.success` raises. It never succeeds. -/
def parseDecade (decadeMatchAt1 relativeExact : Bool) : Out :=
  if decadeMatchAt1 then .raises else if relativeExact then .raises else .noResult

/-- What the regexes and tables hand to the decade computation: "the 1990s" = `.century 19 90`, "the nineties" /
"the '90s" = `.bare 90`, "the two thousands" = `.special 2000` (`special_decade_cases`), "the next 2 decades" =
`.relative 2` (`swift = get_swift_day_or_month × number`). -/
inductive DecadeIn
  | century (firstTwo : Nat) (decade : Nat)
  | bare (decade : Nat)
  | special (value : Nat)
  | relative (swift : Int)
deriving DecidableEq, Repr

/-- `XX` ++ two digits for the open-century TIMEX (`"XX" + decade`) -/
def xxYear (n : Int) : Str := [88, 88] ++ Periods.intStr n

/-- The computation `__parse_decade` spells out, with integer division where the C# original has it: `[Jan 1 of begin_year, Jan 1 of begin_year + 10·|swift|)`, TIMEX
`(begin,end,P<10·|swift|>Y)`; without a century in the text the century is open (`XX90`) and future / past take the next
/ previous occurrence relative to the reference. -/
def decadeFixed (ref : DateTime) (i : DecadeIn) : Res :=
  let refCentury : Int := (ref.date.y : Int) / 100
  let (firstTwo, decade, inputCentury, swift) : Int × Int × Bool × Int :=
    match i with
    | .century c d => ((c : Int), (d : Int), true, 1)
    | .bare d => (refCentury, (d : Int), false, 1)
    | .special v => ((v : Int) / 100, (v : Int) % 100, true, 1)
    | .relative sw =>
      let bd : Int := ((ref.date.y : Int) % 100) / 10
      let bd := if sw < 0 then bd + sw else if sw > 0 then bd + 1 else bd
      (refCentury, bd * 10, true, sw)
  let beginYear : Int := firstTwo * 100 + decade
  let total : Int := 10 * (if swift == 0 then 1 else swift.natAbs)
  let (bl, el) : Str × Str :=
    if inputCentury then (luis (some beginYear) 1 1, luis (some (beginYear + total)) 1 1)
    else (xxYear decade ++ [45] ++ pad2 1 ++ [45] ++ pad2 1, xxYear (decade + total) ++ [45] ++ pad2 1 ++ [45] ++ pad2 1)
  let timex := [40] ++ bl ++ [44] ++ el ++ [44, 80] ++ Periods.intStr total ++ [89, 41]
  let start := mk beginYear 1 1
  let futureYear := if !inputCentury && start.lt ref then beginYear + 100 else beginYear
  let pastYear := if !inputCentury && ref.le start then beginYear - 100 else beginYear
  .ok timex (mk futureYear 1 1) (mk (futureYear + total) 1 1) (mk pastYear 1 1) (mk (pastYear + total) 1 1)

/-! ## `__parse_week_of_date`, `__parse_month_of_date` -/

/-- `__get_week_range_from_date(seed)`: Monday of the seed's week, + 7 days (6 when inclusive) -/
def weekRangeFromDate (incl : Bool) (seed : DateTime) : Option (DateTime × DateTime) :=
  (this seed 1).bind fun b => (addDays b (if incl then 6 else 7)).map fun e => (b, e)

/-- `__parse_week_of_date` after its guards (week-of regex found, exactly one date): TIMEX of the date -/
def weekOfDate (incl : Bool) (d : DateRes) : Res :=
  match weekRangeFromDate incl d.future, weekRangeFromDate incl d.past with
  | some f, some p => .ok d.timex f.1 f.2 p.1 p.2
  | _, _ => .raises

/-- `__get_month_range_from_date(seed)`: `safe_create_from_value(min_value, year, month + 1, 1)` for the end — month 13
for a December seed, which is not a date: the end is the marker `min_value`. -/
def monthRangeFromDate (seed : DateTime) : DateTime × DateTime :=
  (safeCreateFromValue DateUtils.minValue seed.date.y seed.date.m 1,
   safeCreateFromValue DateUtils.minValue seed.date.y (seed.date.m + 1) 1)

def monthOfDate (d : DateRes) : Res :=
  let f := monthRangeFromDate d.future
  let p := monthRangeFromDate d.past
  .ok d.timex f.1 f.2 p.1 p.2

/-! ## `_inclusive_end_period = True` -/

/-- `__parse_month_with_year` with the flag: `end = begin + 1 month + datedelta(days = -1 | 0)` -/
def monthWithYearI (incl : Bool) (ref : DateTime) (month : Nat) (year : Option Int) (swift : Int) : Res :=
  let yr : Option Int := match year with
    | some y => some y
    | none => if swift < 1 then none else some ((ref.date.y : Int) + swift)
  match yr with
  | none => .noResult
  | some y =>
    let b := mk y month 1
    ofOpt ((addDelta b 0 1 0).bind fun e1 => (addDelta e1 0 0 (if incl then -1 else 0)).map fun e =>
      .ok (pad4 y.toNat ++ [45] ++ pad2 month) b e b e)

/-- `_parse_year` with the flag -/
def parseYearI (incl : Bool) (year : Int) : Res :=
  let b := mk year 1 1
  let e := mk (year + 1) 1 1
  if incl then ofOpt ((addDelta e 0 0 (-1)).map fun e' => .ok (pad4 year.toNat) b e' b e')
  else .ok (pad4 year.toNat) b e b e

/-- `_get_week_of_month` with the flag (`days_to_add = 6 | 7`) -/
def getWeekOfMonthI (incl : Bool) (ref : DateTime) (cardinal : Int) (month : Nat) (year : Int) (noYear : Bool) : Res :=
  ofOpt do
    let seed0 ← computeDate cardinal 1 month year
    let isLast := cardinal == 5
    let (cardinal, seed) ← (if seed0.date.m ≠ month then (addDelta seed0 0 0 (-7)).map fun s => (cardinal - 1, s)
                            else some (cardinal, seed0))
    let back (d : DateTime) : Option DateTime := if d.date.m ≠ month then addDelta d 0 0 (-7) else some d
    let future ← (if noYear && seed.lt ref then (computeDate cardinal 1 month (year + 1)).bind back else some seed)
    let past ← (if noYear && ref.le seed then (computeDate cardinal 1 month (year - 1)).bind back else some seed)
    let adjusted : Int := if isLast then 5 else cardinal
    let timex := (if noYear then sXXXX else pad4 year.toNat) ++ [45] ++ pad2 month ++ [45, 87] ++ pad2 adjusted.toNat
    let fe ← addDelta future 0 0 (if incl then 6 else 7)
    let pe ← addDelta past 0 0 (if incl then 6 else 7)
    pure (.ok timex future fe past pe)

/-- `_parse_duration` prefix forms with the flag: `end_date + timedelta(days=-1)` after the `begin ≠ end` test -/
def durationPeriodI (incl : Bool) (ref : DateTime) (mode : DurMode) (u : PerUnit) (n : Nat) : Res :=
  match durationPeriod ref mode u n with
  | .ok _ b e _ _ =>
    if incl then
      ofOpt ((addDays e (-1)).map fun e' =>
        let cnt := match mode with | .inConn => 1 | _ => n
        .ok ([40] ++ luisOf b ++ [44] ++ luisOf e' ++ [44, 80] ++ natStr cnt ++ [u.letter, 41]) b e' b e')
    else durationPeriod ref mode u n
  | r => r

end RTV.Periods2
