import RTV.Model.WellFormed
import RTV.Gen.DurationMaps
/-!
L5 `Durations` — `BaseDurationParser` (`base_duration.py`) beyond "N unit", and `BaseSetParser` (`base_set.py`), mirrored
function by function with the **regex outcomes as inputs** (which pattern matched, what its named groups held, how many
numbers the cardinal extractor found, what the number parser handed over as a `Decimal`).

What is inside the model: the Python number tower the parser runs on — `float(Decimal)`, `float('3.25')`, `float + float`,
`float > 1000`, `QueryProcessor.float_or_int`, `int * int`, `float * int`, `str(int)`, `repr(float)` — as a software
IEEE-754 binary64 (finite values; round-to-nearest-even done in exact integer arithmetic; `repr` = shortest decimal that
reads back, CPython's fixed / exponent layout), the `unit_map` / `unit_value_map` / `double_numbers` look-ups (the first two
from the regenerated tables `RTV.Gen.durationRows`), the guards (`len(ers) != 1`, `num > 1000 and unit in [Y, MON, W]`,
`source_unit not in unit_map`), the TIMEX assembly `f'P{is_time}{num}{unit[0]}'` (quirk: `unit[0]` is the FIRST CHARACTER of
the unit code — `MON` gives `M`, but `10Y` (decade) gives `1` and `2W` (fortnight) gives `2`), the value
`float_or_int(num * unit_value_map[source_unit])`, the order of the four paths of `parse_number_with_unit`, the three of
`parse_implicit_duration`, `parse` (resolution strings `str(value)`), and for the set parser `parse_each_unit` (with its
fall-through from the periodic form to the each-unit form and `timex.replace('1', '2')` for "every other"),
`parse_each_duration`, `parser_time_everyday`, `parse_each`, `parse`.

What is NOT in the Python tree: a `parse_merged_duration`. The extractor merges "1 hour 30 minutes" into one result, the
parser has no path for it (`parse_number_space_unit` sees two numbers and gives up; see `Props/C10Durations`), the entity
comes out with TIMEX `''` and value `not resolved`. `inf` / `nan` arithmetic (amounts ≥ 2^1024) is not modelled: `.raises`.
-/
namespace RTV.Durations
open RTV.WF

/-! ## binary64, finite values: `± num / den` with `den` a power of two -/

structure Dbl where
  neg : Bool
  num : Nat
  den : Nat
deriving DecidableEq, Repr

/-- round-half-even of `q + r/d` (`r < d`) to an integer -/
def roundHE (q r d : Nat) : Nat := if 2 * r > d ∨ (2 * r = d ∧ q % 2 = 1) then q + 1 else q

/-- rounding at the scale `2^-sh` (the result is a multiple of `2^-sh`) -/
def roundDown (n d sh : Nat) : Nat × Nat := (roundHE (n * 2 ^ sh / d) (n * 2 ^ sh % d) d, 2 ^ sh)

/-- the scale for `n / d < 2^53`: the quotient at that scale lies in `[2^52, 2^53)` (53-bit significand), or the scale is
the subnormal quantum `2^-1074` -/
def shiftOf (n d : Nat) : Nat :=
  let sh0 := d.log2 + 52 - n.log2
  min (if n * 2 ^ sh0 / d < 2 ^ 52 then sh0 + 1 else sh0) 1074

/-- rounding at the scale `2^t` for `n / d ≥ 2^53`; `none` = overflow (the rounded value is ≥ 2^1024) -/
def roundBig (n d : Nat) : Option (Nat × Nat) :=
  let t0 := n.log2 - d.log2 - 52
  let t := if n / (d * 2 ^ t0) < 2 ^ 52 then t0 - 1 else t0
  let D := d * 2 ^ t
  let q := roundHE (n / D) (n % D) D
  if q * 2 ^ t ≥ 2 ^ 1024 then none else some (q * 2 ^ t, 1)

/-- The binary64 nearest to `n / d` (`d > 0`), ties to even, as `(num, den)` with `den` a power of two; `none` = overflow. -/
def roundQ (n d : Nat) : Option (Nat × Nat) :=
  if n = 0 then some (0, 1)
  else if n.log2 ≤ d.log2 + 52 then some (roundDown n d (shiftOf n d))
  else roundBig n d

/-- lowest terms of `n / d` for `d` a power of two (so that a value has ONE representation) -/
def norm2 : Nat → Nat → Nat → Nat × Nat
  | 0, n, d => (n, d)
  | f + 1, n, d => if n % 2 = 0 ∧ d % 2 = 0 then norm2 f (n / 2) (d / 2) else (n, d)

def Dbl.ofQ (neg : Bool) (n d : Nat) : Option Dbl :=
  (roundQ n d).map fun p => ⟨neg, (norm2 1100 p.1 p.2).1, (norm2 1100 p.1 p.2).2⟩

/-- `==` on floats (`-0.0 == 0.0`) -/
def Dbl.eqv (a b : Dbl) : Bool :=
  (a.num == 0 && b.num == 0) || (a.neg == b.neg && a.num * b.den == b.num * a.den)

/-- `float(n)` for a non-negative `int` -/
def Dbl.ofNat (n : Nat) : Option Dbl := Dbl.ofQ false n 1

/-- `a + b` -/
def Dbl.add (a b : Dbl) : Option Dbl :=
  let an := a.num * b.den
  let bn := b.num * a.den
  let den := a.den * b.den
  if a.neg = b.neg then Dbl.ofQ a.neg (an + bn) den
  else if an ≥ bn then Dbl.ofQ a.neg (an - bn) den else Dbl.ofQ b.neg (bn - an) den

/-- `a * k` for an `int` `k ≥ 0`: the int is converted to float first (rounded if it needs more than 53 bits) -/
def Dbl.mulNat (a : Dbl) (k : Nat) : Option Dbl :=
  (Dbl.ofNat k).bind fun kf => Dbl.ofQ a.neg (a.num * kf.num) (a.den * kf.den)

/-- `a > 1000` -/
def Dbl.gt1000 (a : Dbl) : Bool := !a.neg && a.num > 1000 * a.den

/-- A `decimal.Decimal` as the number parser hands it over: `(-1)^neg × coeff × 10^exp` (`Decimal.as_tuple()`). -/
structure Dec where
  neg : Bool
  coeff : Nat
  exp : Int
deriving Repr

/-- `float(Decimal)`: correctly rounded -/
def Dbl.ofDec (x : Dec) : Option Dbl :=
  if x.exp ≥ 0 then Dbl.ofQ x.neg (x.coeff * 10 ^ x.exp.toNat) 1 else Dbl.ofQ x.neg x.coeff (10 ^ (-x.exp).toNat)

/-- `float(s)` for the text of the `num` group of `number_combined_with_unit`, `\d+(\.\d*)?`; anything else → `none`
(`ValueError`). -/
def floatOfStr (s : Str) : Option Dbl :=
  match spanDigits s with
  | (ip, []) => if ip = [] then none else (digits ip).bind fun a => Dbl.ofQ false a 1
  | (ip, 46 :: fp) =>
    if ip = [] ∨ !fp.all isDigit then none
    else
      match digits ip with
      | none => none
      | some a =>
        let b := fp.foldl (fun acc c => acc * 10 + (c - 48)) 0
        Dbl.ofQ false (a * 10 ^ fp.length + b) (10 ^ fp.length)
  | _ => none

/-! ## Python numbers: `int` or `float` -/

inductive Num
  | int (v : Int)
  | flt (x : Dbl)
deriving DecidableEq, Repr

/-- `QueryProcessor.float_or_int(x)` for a float `x`: `float(x) if x % 1 else int(x)` — an integral float becomes an
exact `int`, anything else stays the float. -/
def floatOrInt (x : Dbl) : Num :=
  if x.num % x.den = 0 then .int (if x.neg then -((x.num / x.den : Nat) : Int) else ((x.num / x.den : Nat) : Int))
  else .flt x

/-- `float_or_int(num * k)` for `num` an `int` or a `float` and `k` the `int` of `unit_value_map` -/
def mulNum (n : Num) (k : Nat) : Option Num :=
  match n with
  | .int v => some (.int (v * k))
  | .flt x => (x.mulNat k).map floatOrInt

/-! ### `repr(float)` -/

def findZ (n d : Nat) : Nat → Nat → Nat
  | 0, z => z
  | f + 1, z => if n * 10 ^ z ≥ d then z else findZ n d f (z + 1)

/-- `⌊log10 (n/d)⌋` for `n, d > 0` (fuel 400: binary64 goes down to 10^-324) -/
def log10Floor (n d : Nat) : Int :=
  if n ≥ d then (((natStr (n / d)).length - 1 : Nat) : Int) else -((findZ n d 400 1 : Nat) : Int)

/-- `n/d` correctly rounded (half-even) to `p` significant decimal digits: `(D, t)` with value `D × 10^t`,
`10^(p-1) ≤ D < 10^p` -/
def roundDec (n d p : Nat) : Nat × Int :=
  let t : Int := log10Floor n d - ((p - 1 : Nat) : Int)
  let N := if t ≥ 0 then n else n * 10 ^ (-t).toNat
  let D := if t ≥ 0 then d * 10 ^ t.toNat else d
  let q := roundHE (N / D) (N % D) D
  if q = 10 ^ p then (10 ^ (p - 1), t + 1) else (q, t)

/-- does the decimal `D × 10^t` read back (`float(str)`) as `n/d`? -/
def readsBack (n d : Nat) (c : Nat × Int) : Bool :=
  let r := if c.2 ≥ 0 then roundQ (c.1 * 10 ^ c.2.toNat) 1 else roundQ c.1 (10 ^ (-c.2).toNat)
  match r with
  | some (a, b) => a * d == n * b
  | none => false

/-- the first precision `p, p+1, …` (at most `fuel` tries) whose rounding reads back -/
def shortest (n d : Nat) : Nat → Nat → Option (Nat × Int)
  | 0, _ => none
  | fuel + 1, p => if readsBack n d (roundDec n d p) then some (roundDec n d p) else shortest n d fuel (p + 1)

def stripZeros : Nat → Nat → Int → Nat × Int
  | 0, D, t => (D, t)
  | f + 1, D, t => if D ≠ 0 ∧ D % 10 = 0 then stripZeros f (D / 10) (t + 1) else (D, t)

def zeros (k : Nat) : Str := List.replicate k 48

/-- CPython `float_repr_style = 'short'`, format code `r`: digits `ds` (no trailing zeros), decimal point position `decpt`
(value = `0.ds × 10^decpt`); exponent layout iff `decpt ≤ -4` or `decpt > 16`. -/
def layout (ds : Str) (decpt : Int) : Str :=
  if decpt ≤ -4 ∨ decpt > 16 then
    let e := decpt - 1
    let es := natStr e.natAbs
    ds.take 1 ++ (if ds.length > 1 then 46 :: ds.drop 1 else []) ++ [101, if e < 0 then 45 else 43] ++
      (if es.length < 2 then 48 :: es else es)
  else if decpt ≤ 0 then [48, 46] ++ zeros (-decpt).toNat ++ ds
  else if decpt.toNat ≥ ds.length then ds ++ zeros (decpt.toNat - ds.length) ++ [46, 48]
  else ds.take decpt.toNat ++ [46] ++ ds.drop decpt.toNat

/-- `repr(x)` -/
def reprDbl (x : Dbl) : Str :=
  if x.num = 0 then (if x.neg then [45] else []) ++ [48, 46, 48]
  else
    let c := (shortest x.num x.den 17 1).getD (roundDec x.num x.den 17)
    let (D, t) := stripZeros 20 c.1 c.2
    let ds := natStr D
    (if x.neg then [45] else []) ++ layout ds ((ds.length : Int) + t)

def intStr (v : Int) : Str := if v < 0 then 45 :: natStr v.natAbs else natStr v.toNat

/-- `str(n)` / `f'{n}'` -/
def numStr : Num → Str
  | .int v => intStr v
  | .flt x => reprDbl x

/-! ## configuration -/

structure Cfg where
  unitMap : List (Str × Str)
  unitValueMap : List (Str × Nat)
  doubleNumbers : List (Str × Dbl)
  /-- variant switch `fix: duration unit codes`: the TIMEX is built by `_duration_timex` (numeric prefix of the unit code
  multiplied out, `WE` / `WD` kept whole) instead of `f'P{is_time}{num}{unit[0]}'` -/
  fixUnit : Bool := false
  /-- variant switch `fix: duration value`: `_exact_product` (the float amount's printed decimal times the unit length,
  rounded once) instead of the float product `num * unit_value_map[source_unit]` -/
  fixValue : Bool := false
  /-- variant switch `fix: duration unit codes, exact multiple` (only read when `fixUnit`): inside `_duration_timex` the
  amount is multiplied by the code's numeric prefix with `_exact_product` instead of the float product `num * k` -/
  fixUnitExact : Bool := false

def lookup {β : Type} (m : List (Str × β)) (k : Str) : Option β := (m.find? fun p => p.1 == k).map (·.2)

/-- the regenerated tables of one culture (rows whose unit code is one of Y MON W D H M S and that have a length) -/
def rowsOf (culture : Str) : List (Str × Str × Nat) :=
  (RTV.Gen.durationRows.filter fun r => r.1 == culture).map fun r => r.2

/-- `extra` = the rows of the configuration that are not in the regenerated table (unit codes `10Y`, `2W`, `WE`, `WD`,
`3MON`, `6MON`; `none` = the spelling has no entry in `unit_value_map`) -/
def cfgOf (culture : Str) (extra : List (Str × Str × Option Nat)) (dn : List (Str × Dbl))
    (fixUnit : Bool := false) (fixValue : Bool := false) (fixUnitExact : Bool := false) : Cfg :=
  { fixUnit := fixUnit, fixValue := fixValue, fixUnitExact := fixUnitExact,
    unitMap := (rowsOf culture).map (fun r => (r.1, r.2.1)) ++ extra.map (fun r => (r.1, r.2.1)),
    unitValueMap := (rowsOf culture).map (fun r => (r.1, r.2.2)) ++ extra.filterMap (fun r => r.2.2.map fun v => (r.1, v)),
    doubleNumbers := dn }

def sY : Str := [89]
def sMON : Str := [77, 79, 78]
def sW : Str := [87]
def sH : Str := [72]
def sM : Str := [77]
def sS : Str := [83]

/-- `is_less_than_day(unit)`: `unit in [H, M, S]` -/
def isLessThanDay (unit : Str) : Bool := unit == sH || unit == sM || unit == sS

/-- what a `parse_*` function yields -/
inductive Res
  | fail                                   -- `success = False`
  | ok (timex : Str) (value : Num)         -- `timex`, `future_value = past_value`
  | raises                                 -- KeyError / IndexError / ValueError (or inf / nan, not modelled)
deriving DecidableEq, Repr

def Res.success : Res → Bool
  | .ok _ _ => true
  | _ => false

def sWE : Str := [87, 69]
def sWD : Str := [87, 68]

/-- `regex.match(r'(\d+)(.+)', unit)`: the leading run of digits (greedy, giving one back when nothing follows) as an
`int`, and the rest — `none` when the code does not start with a digit or is a single digit -/
def splitCode (unit : Str) : Option (Nat × Str) :=
  match spanDigits unit with
  | ([], _) => none
  | (ds, []) => if ds.length < 2 then none else (digits ds.dropLast).map fun k => (k, ds.drop (ds.length - 1))
  | (ds, rest) => (digits ds).map fun k => (k, rest)

/-- `f'P{is_time}{num}{unit[0]}'` (the tree before `fix: duration unit codes`) -/
def timexOld (n : Num) (c : Nat) (rest : Str) : Str :=
  [80] ++ (if isLessThanDay (c :: rest) then [84] else []) ++ numStr n ++ [c]

/-- the decimal `repr(x)` denotes, as a rational (`Fraction(repr(num))`) -/
def reprQ (x : Dbl) : Nat × Nat :=
  let c := (shortest x.num x.den 17 1).getD (roundDec x.num x.den 17)
  if c.2 ≥ 0 then (c.1 * 10 ^ c.2.toNat, 1) else (c.1, 10 ^ (-c.2).toNat)

/-- `float_or_int(_exact_product(num, k))` (after `fix: duration value`): an `int` amount is multiplied exactly, a float
amount is multiplied as the decimal it prints as and rounded once -/
def mulNumFixed (n : Num) (k : Nat) : Option Num :=
  match n with
  | .int v => some (.int (v * k))
  | .flt x => (Dbl.ofQ x.neg ((reprQ x).1 * k) (reprQ x).2).map floatOrInt

/-- `_duration_timex(num, unit)` (after the fix): `none` = the multiplication overflowed (not modelled). `exact = false` is
the first version of the helper (`float_or_int(num * k)`, a float product: `0.14 decades` → `P1.4000000000000001Y`),
`exact = true` the follow-up (`float_or_int(_exact_product(num, k))`). -/
def timexFixed (exact : Bool) (n : Num) (unit : Str) : Option Str :=
  let render (n : Num) (u : Str) : Str :=
    [80] ++ (if isLessThanDay u then [84] else []) ++ numStr n ++ (if u = sWE ∨ u = sWD then u else u.take 1)
  match splitCode unit with
  | some (k, u) => (if exact then mulNumFixed n k else mulNum n k).map fun n' => render n' u
  | none => some (render n unit)

def timexOf (cfg : Cfg) (n : Num) (c : Nat) (rest : Str) : Option Str :=
  if cfg.fixUnit then timexFixed cfg.fixUnitExact n (c :: rest) else some (timexOld n c rest)

def valueOf (cfg : Cfg) (n : Num) (secs : Nat) : Option Num :=
  if cfg.fixValue then mulNumFixed n secs else mulNum n secs

/-- The tail every path shares: `source_unit not in unit_map → fail`; the guard (only where `guard`);
`num = float_or_int(num)`; the TIMEX (`timexOf`: `f'P{is_time}{num}{unit[0]}'`, or `_duration_timex` in the repaired
variant); `value = float_or_int(num * unit_value_map[source_unit])` (`valueOf`: or `_exact_product`). -/
def assemble (cfg : Cfg) (num : Option Dbl) (sourceUnit : Str) (guard : Bool) : Res :=
  match num with
  | none => .raises
  | some num =>
    match lookup cfg.unitMap sourceUnit with
    | none => .fail
    | some unit =>
      if guard && num.gt1000 && (unit == sY || unit == sMON || unit == sW) then .fail
      else
        let n := floatOrInt num
        match unit with
        | [] => .raises
        | c :: rest =>
          match timexOf cfg n c rest with
          | none => .raises
          | some timex =>
            match lookup cfg.unitValueMap sourceUnit with
            | none => .raises
            | some secs =>
              match valueOf cfg n secs with
              | none => .raises
              | some v => .ok timex v

/-- `parse_number_with_unit_and_suffix(text)`: `sufNum` = the `suffix_num` group of the `suffix_and_regex` match in the
text (`none` = no match, `some []` = group empty); the result is `double_numbers.get(num, 0)` or `0` — `none` stands for
the `int` 0 (adding it changes nothing). -/
def suffixAmount (cfg : Cfg) (sufNum : Option Str) : Option Dbl :=
  match sufNum with
  | none => none
  | some g => lookup cfg.doubleNumbers g

def addSuffix (x : Option Dbl) (s : Option Dbl) : Option Dbl :=
  match x, s with
  | some x, some s => x.add s
  | x, none => x
  | none, _ => none

/-- `parse_number_space_unit`: `ersCount = len(cardinal_extractor.extract(source))`, `value = number_parser.parse(er).value`,
`fu` = the `unit` group of the `followed_unit` match on the text after the number (`none` = no match; then the unit is `''`),
`sufNum` as in `suffixAmount`, read in the `suffix` group of that match. No magnitude guard on this path. -/
def numberSpaceUnit (cfg : Cfg) (ersCount : Nat) (value : Dec) (fu : Option Str) (sufNum : Option Str) : Res :=
  if ersCount ≠ 1 then .fail
  else
    let sourceUnit := fu.getD []
    match lookup cfg.unitMap sourceUnit with
    | none => .fail
    | some _ => assemble cfg (addSuffix (Dbl.ofDec value) (suffixAmount cfg sufNum)) sourceUnit false

/-- `parse_number_combined_unit`: `m` = (`num` group, `unit` group) of the `number_combined_with_unit` match; `sufNum` read
in the whole text. Guard: more than 1000 years / months / weeks → no result. -/
def numberCombinedUnit (cfg : Cfg) (m : Option (Str × Str)) (sufNum : Option Str) : Res :=
  match m with
  | none => .fail
  | some (numText, unit) =>
    match floatOfStr numText with
    | none => .raises
    | some x => assemble cfg (addSuffix (some x) (suffixAmount cfg sufNum)) unit true

/-- `parse_an_unit`: `m` = (`half` group non-empty, `unit` group) of the `an_unit_regex` match or else of the
`half_date_unit_regex` match. `num = (0.5 if half else 1) + suffix`. -/
def anUnit (cfg : Cfg) (m : Option (Bool × Str)) (sufNum : Option Str) : Res :=
  match m with
  | none => .fail
  | some (half, unit) =>
    assemble cfg (addSuffix (some (if half then ⟨false, 1, 2⟩ else ⟨false, 1, 1⟩)) (suffixAmount cfg sufNum)) unit false

/-- `parse_in_exact_number_unit`: "few" / "some" / "several" / "a couple of" are all `float(3)`; the guard is there. -/
def inexactNumberUnit (cfg : Cfg) (m : Option Str) : Res :=
  match m with
  | none => .fail
  | some unit => assemble cfg (some ⟨false, 3, 1⟩) unit true

/-- `get_result_from_regex(pattern, source, num)` with `num = 1` or `0.5` -/
def resultFromRegex (cfg : Cfg) (m : Option Str) (half : Bool) : Res :=
  match m with
  | none => .fail
  | some unit => assemble cfg (some (if half then ⟨false, 1, 2⟩ else ⟨false, 1, 1⟩)) unit false

/-- everything the regex front end tells the parser about one text -/
structure Front where
  ersCount : Nat
  value : Dec
  fu : Option Str
  fuSuf : Option Str
  comb : Option (Str × Str)
  an : Option (Bool × Str)
  inexact : Option Str
  srcSuf : Option Str          -- `suffix_and_regex` searched in the whole text
  allUnit : Option Str         -- `all_date_unit_regex`
  halfUnit : Option Str        -- `half_date_unit_regex`
  fuWhole : Option Str         -- `followed_unit` searched in the whole text

def orElse (a : Res) (b : Unit → Res) : Res :=
  match a with
  | .fail => b ()
  | r => r

/-- `parse_number_with_unit`: the four paths in order, the first that succeeds (an exception propagates) -/
def parseNumberWithUnit (cfg : Cfg) (f : Front) : Res :=
  orElse (numberSpaceUnit cfg f.ersCount f.value f.fu f.fuSuf) fun _ =>
  orElse (numberCombinedUnit cfg f.comb f.srcSuf) fun _ =>
  orElse (anUnit cfg f.an f.srcSuf) fun _ =>
  inexactNumberUnit cfg f.inexact

/-- `parse_implicit_duration`: "all day" (1), "half day" (0.5), a bare unit (1) -/
def parseImplicit (cfg : Cfg) (f : Front) : Res :=
  orElse (resultFromRegex cfg f.allUnit false) fun _ =>
  orElse (resultFromRegex cfg f.halfUnit true) fun _ =>
  resultFromRegex cfg f.fuWhole false

/-- `parse` for an extract result of type duration: `(timex_str, resolution['duration'])`; a text no path takes comes out
with TIMEX `''` and no value (the merged parser prints `not resolved`). -/
def parse (cfg : Cfg) (f : Front) : Option (Str × Option Str) :=
  match orElse (parseNumberWithUnit cfg f) (fun _ => parseImplicit cfg f) with
  | .ok t v => some (t, some (numStr v))
  | .fail => some ([], none)
  | .raises => none

/-! ## `BaseSetParser` -/

def sSetPrefix : Str := [83, 101, 116, 58, 32]   -- 'Set: '

/-- a `DateTimeResolutionResult` of the set parser: `success`, `timex`, `future_value`, `past_value` -/
structure SetRes where
  success : Bool
  timex : Str
  future : Str
  past : Str
deriving DecidableEq, Repr

def SetRes.none : SetRes := ⟨false, [], [], []⟩
def setOf (timex : Str) : SetRes := ⟨true, timex, sSetPrefix ++ timex, sSetPrefix ++ timex⟩

/-- `str.replace('1', '2')` -/
def replace12 (s : Str) : Str := s.map fun c => if c = 49 then 50 else c

/-- the each-unit match of `parse_each_unit`: the whole text matched, the `unit` group, whether it is a key of
`unit_map`, `get_matched_unit_timex(unit)` (`none` = not matched), whether the `other` group is non-empty -/
structure EachUnit where
  full : Bool
  unit : Str
  inUnitMap : Bool
  unitTimex : Option Str
  other : Bool

/-- `parse_each_unit`: `periodic` = `none` if `periodic_regex` does not match at the start, else
`get_matched_daily_timex(source)`. The periodic branch does not return: the each-unit branch runs after it and may
overwrite it; when its `get_matched_unit_timex` fails, whatever the periodic branch set is returned. -/
def parseEachUnit (periodic : Option (Option Str)) (each : Option EachUnit) : Option SetRes :=
  let r1 : Option SetRes :=          -- `none` = returned early with the empty result
    match periodic with
    | none => some SetRes.none
    | some none => none
    | some (some t) => some (setOf t)
  match r1 with
  | none => some SetRes.none
  | some r =>
    match each with
    | none => some r
    | some e =>
      if e.full && e.unit ≠ [] && e.inUnitMap then
        match e.unitTimex with
        | none => some r
        | some t => some (setOf (if e.other then replace12 t else t))
      else some r

/-- `parse_each_duration`: exactly one duration, nothing after it, the each-prefix matches before it; the TIMEX is the
duration parser's `timex_str` — also when that is `''` (an unparsed duration still "succeeds"). -/
def parseEachDuration (ersCount : Nat) (afterEmpty : Bool) (prefixMatch : Bool) (durTimex : Str) : SetRes :=
  if ersCount ≠ 1 ∨ !afterEmpty then SetRes.none
  else if prefixMatch then setOf durTimex else SetRes.none

/-- `parser_time_everyday` -/
def parseTimeEveryday (ersCount : Nat) (eachDayMatch : Bool) (timeTimex : Str) : SetRes :=
  if ersCount ≠ 1 then SetRes.none
  else if eachDayMatch then setOf timeTimex else SetRes.none

/-- `parse_each(extractor, parser, …)`: `each` / `weekday` = `none` if the pattern does not occur, else (number of extract
results on the trimmed text, whether the first covers it entirely, the TIMEX the parser gives it). The second branch
overwrites `er` but never clears `success`: `er[0]` on an empty list raises (`none`). -/
def parseEach (each weekday : Option (Nat × Bool × Str)) : Option SetRes :=
  let s1 : Bool := match each with | some (n, full, _) => n == 1 && full | none => false
  let s2 : Bool := match weekday with | some (n, full, _) => n == 1 && full | none => false
  let er : Option (Nat × Str) :=
    match weekday with
    | some (n, _, t) => some (n, t)
    | none => match each with | some (n, _, t) => some (n, t) | none => none
  if s1 || s2 then
    match er with
    | some (n, t) => if n = 0 then none else some (setOf t)
    | none => none
  else some SetRes.none

/-- `parse`: the first sub-parser that succeeds; `(timex_str, future_resolution['set'], past_resolution['set'])` -/
def setFirst : List SetRes → SetRes
  | [] => SetRes.none
  | r :: rest => if r.success then r else setFirst rest

/-! ## the seven-unit specification the theorems compare with -/

/-- the amount a TIMEX `P[T]<amount><U>` and a value denote, as exact rationals -/
def Num.toQ : Num → Bool × Nat × Nat
  | .int v => (decide (v < 0), v.natAbs, 1)
  | .flt x => (x.neg, x.num, x.den)

end RTV.Durations
