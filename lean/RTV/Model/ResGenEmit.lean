import RTV.Model.ResGen
/-
L12 `ResGen` (continued) — a reference emitter for the whole resource generator
(/repo/Python/libraries/resource-generator/lib/code_writer.py: every writer, `to_python_type`, `create_entry`,
`generate_code`; lib/base_code_generator.py: `generate`'s assembly of the file text) and an evaluator that maps
the emitted text of a definition back to a value (f-strings with replacement fields resolved in an environment,
plain and raw string literals, `dict([...])` entries, lists).
Strings are lists of code points; no `String` is used so that everything reduces in the kernel.
-/
namespace RTV.ResGen

/-! ## Python helpers -/

/-- `sep.join(xs)` -/
def join (sep : Str) : List Str → Str
  | [] => []
  | [x] => x
  | x :: y :: r => x ++ sep ++ join sep (y :: r)

def natStrFuel : Nat → Nat → Str → Str
  | 0, _, acc => acc
  | f + 1, n, acc => if n < 10 then (48 + n) :: acc else natStrFuel f (n / 10) ((48 + n % 10) :: acc)
/-- `str(n)` for a non-negative int -/
def natStr (n : Nat) : Str := natStrFuel (n + 1) n []
/-- `str(i)` for an int -/
def intStr (i : Int) : Str := if i < 0 then 45 :: natStr i.natAbs else natStr i.natAbs

def hex4 (n : Nat) : Str := [hexDigit (n / 4096 % 16), hexDigit (n / 256 % 16), hexDigit (n / 16 % 16), hexDigit (n % 16)]

/-- one character of `json.dumps(s)` (default `ensure_ascii=True`): everything outside `' '..'~'` is escaped,
code points above U+FFFF as a UTF-16 surrogate pair. -/
def jsonAsciiChar (c : Nat) : Str :=
  if c = 34 then [92, 34]
  else if c = 92 then [92, 92]
  else if c = 10 then [92, 110]
  else if c = 13 then [92, 114]
  else if c = 9 then [92, 116]
  else if c = 8 then [92, 98]
  else if c = 12 then [92, 102]
  else if 32 ≤ c ∧ c ≤ 126 then [c]
  else if c < 65536 then [92, 117] ++ hex4 c
  else
    let v := c - 65536
    [92, 117] ++ hex4 (55296 + v / 1024 % 1024) ++ [92, 117] ++ hex4 (56320 + v % 1024)

/-- `json.dumps(s)` for a `str` -/
def jsonDumps (s : Str) : Str := [34] ++ s.flatMap jsonAsciiChar ++ [34]

/-! ## code_writer.py -/

def tLong : Str := [108, 111, 110, 103]
def tFloat : Str := [102, 108, 111, 97, 116]
def tChar : Str := [99, 104, 97, 114]
def tString : Str := [115, 116, 114, 105, 110, 103]
def tBool : Str := [98, 111, 111, 108]
def sTrue : Str := [84, 114, 117, 101]
def sFalse : Str := [70, 97, 108, 115, 101]

/-- `to_python_type` -/
def toPythonType (t : Str) : Str :=
  if t = tLong then tFloat else if t = tChar then tString else if t = tBool then tBool else t

/-- `create_entry(entry, entry_type)` (the entry is a `str`: a YAML scalar's text) -/
def createEntry (entry : Str) (entryType : Str) : Str :=
  let p := toPythonType entryType
  if p = tString then createEntryString entry
  else if p = tBool then (if entry = [] then sFalse else sTrue)     -- str(bool(entry))
  else entry

/-- `DefaultWriter(name, str(token)).write()` : `Name = '…'` -/
def defaultWrite (name definition : Str) : Str := name ++ [32, 61, 32, 39] ++ sanitize definition [] ++ [39]

/-- `BooleanWriter.write()` : `Name = True` -/
def boolWrite (name : Str) (b : Bool) : Str := name ++ [32, 61, 32] ++ (if b then sTrue else sFalse)

/-- `SimpleRegexWriter` / `NestedRegexWriter` `.write()` : `Name = f'…'` -/
def regexWrite (name definition : Str) (refs : List Str) : Str :=
  name ++ [32, 61, 32, 102, 39] ++ sanitize definition refs ++ [39]

def indent4 : Str := [32, 32, 32, 32]
def sReturnF : Str := [114, 101, 116, 117, 114, 110, 32, 102, 39]     -- return f'

/-- `ParamsRegexWriter.write()` : `\ndef Name(p, q):\n    return f'…'` -/
def paramsWrite (name definition : Str) (params : List Str) : Str :=
  [10, 100, 101, 102, 32] ++ name ++ [40] ++ join [44, 32] params ++ [41, 58, 10] ++ indent4 ++ sReturnF ++
    sanitize definition params ++ [39]

/-- value of a `!dictionary` entry as yaml_parser hands it over: a scalar's text or the texts of a sequence -/
inductive DictVal
  | scalar (s : Str)
  | list (xs : List Str)
  deriving DecidableEq, Repr

/-- the value part of a `DictionaryWriter` entry -/
def dictValue (valueType : Str) : DictVal → Str
  | .list xs => [91] ++ join [44, 32] (xs.map jsonDumps) ++ [93]
  | .scalar s => createEntry s valueType

/-- `f'({key}, {value})'` -/
def dictEntry (keyType valueType : Str) (kv : Str × DictVal) : Str :=
  [40] ++ createEntry kv.1 keyType ++ [44, 32] ++ dictValue valueType kv.2 ++ [41]

def sDictOpen : Str := [32, 61, 32, 100, 105, 99, 116, 40, 91]   -- " = dict(["

/-- separator between entries: `,\n` followed by `len(name + ' = dict([')` blanks -/
def dictSep (name : Str) : Str := [44, 10] ++ List.replicate (name.length + 9) 32

/-- `DictionaryWriter.write()` -/
def dictWrite (name keyType valueType : Str) (entries : List (Str × DictVal)) : Str :=
  name ++ sDictOpen ++ join (dictSep name) (entries.map (dictEntry keyType valueType)) ++ [93, 41]

/-- one `ArrayWriter` entry: `r'…'` with every apostrophe preceded by a backslash (no quotes for non-string types) -/
def arrayEntry (valueType : Str) (e : Str) : Str :=
  let q : Str := if toPythonType valueType = tString then [39] else []
  [114] ++ q ++ replaceChar 39 [92, 39] e ++ q

/-- `ArrayWriter.write()` -/
def arrayWrite (name valueType : Str) (entries : List Str) : Str :=
  name ++ [32, 61, 32, 91] ++ join [44, 32] (entries.map (arrayEntry valueType)) ++ [93]

/-- what yaml_parser produces for one top-level key of a Patterns YAML -/
inductive Token
  | simpleRegex (d : Str)
  | nestedRegex (d : Str) (refs : List Str)
  | paramsRegex (d : Str) (params : List Str)
  | dictionary (keyType valueType : Str) (entries : List (Str × DictVal))
  | list (type_ : Str) (entries : List Str)
  | plainList (entries : List Str)          -- an untagged YAML sequence of strings
  | bool (b : Bool)
  | defaultStr (s : Str)                    -- an untagged scalar that YAML resolves to a str (or `!char`)
  | defaultInt (i : Int)                    -- an untagged scalar that YAML resolves to an int
  deriving DecidableEq, Repr

/-- `generate_code`'s dispatch followed by `.write()` -/
def writeToken (name : Str) : Token → Str
  | .simpleRegex d => regexWrite name d []
  | .nestedRegex d refs => regexWrite name d refs
  | .paramsRegex d ps => paramsWrite name d ps
  | .dictionary kt vt es => dictWrite name kt vt es
  | .list t es => arrayWrite name t es
  | .plainList es => arrayWrite name tString es
  | .bool b => boolWrite name b
  | .defaultStr s => defaultWrite name s
  | .defaultInt i => defaultWrite name (intStr i)

/-! ## base_code_generator.py -/

/-- the characters `str.splitlines()` splits at (besides `\r\n`) -/
def isLineBreak (c : Nat) : Bool :=
  c = 10 || c = 13 || c = 11 || c = 12 || c = 28 || c = 29 || c = 30 || c = 133 || c = 8232 || c = 8233

/-- `str.splitlines()`; `acc` is the current line reversed, `cr` = the previous character was a carriage return
(a line feed directly after it belongs to the same line break) -/
def splitlinesAux : Str → Bool → Str → List Str
  | acc, _, [] => if acc = [] then [] else [acc.reverse]
  | acc, cr, c :: rest =>
    if cr && c = 10 then splitlinesAux acc false rest
    else if isLineBreak c then acc.reverse :: splitlinesAux [] (c = 13) rest
    else splitlinesAux (c :: acc) false rest

def splitlines (s : Str) : List Str := splitlinesAux [] false s

/-- the lines `generate` writes for one block -/
def blockLines (block : Str) : Str :=
  (splitlines block).flatMap fun l => if l = [] then [10] else indent4 ++ l ++ [10]

/-- `generate`: the text of the generated module. `hc` = `HEADER_COMMENT`. -/
def assemble (hc header footer : Str) (blocks : List Str) : Str :=
  hc ++ [10, 10] ++ header ++ [10] ++ blocks.flatMap blockLines ++ footer ++ [10]

def generateModule (hc header footer : Str) (defs : List (Str × Token)) : Str :=
  assemble hc header footer (defs.map fun d => writeToken d.1 d.2)

/-! ## Evaluator: emitted text → value -/

def isNameChar (c : Nat) : Bool :=
  (65 ≤ c && c ≤ 90) || (97 ≤ c && c ≤ 122) || (48 ≤ c && c ≤ 57) || c = 95 || c = 46

def isIdentStart (c : Nat) : Bool := (65 ≤ c && c ≤ 90) || (97 ≤ c && c ≤ 122) || c = 95
def isIdentChar (c : Nat) : Bool := isIdentStart c || (48 ≤ c && c ≤ 57)

/-- `ident(.ident)*` over ASCII letters, digits, `_`; `start` = the next character must start an identifier -/
def validRefAux : Bool → Str → Bool
  | start, [] => !start
  | true, c :: rest => isIdentStart c && validRefAux false rest
  | false, c :: rest => if c = 46 then validRefAux true rest else isIdentChar c && validRefAux false rest

/-- the replacement-field expressions the evaluator understands: a name or a dotted name -/
def validRef (r : Str) : Bool := validRefAux true r

def prepend (v : Str) (r : Option (Str × Str)) : Option (Str × Str) := r.map fun p => (v ++ p.1, p.2)

/-- the value of a replacement field `{name}` followed by the rest `k` of the literal -/
def fieldValue (e : Str → Option Str) (name : Str) (k : Option (Str × Str)) : Option (Str × Str) :=
  if validRef name then (e name).bind fun v => prepend v k else none

/-- state of the literal reader -/
inductive Mode
  | norm                       -- ordinary text
  | esc                        -- directly after a backslash
  | uni (k v : Nat)            -- inside `\uXXXX`: `k` hex digits read, value so far `v`
  | lb                         -- directly after a single `{` (f-string)
  | rb                         -- directly after a single `}` (f-string)
  | field (acc : Str)          -- inside a replacement field, `acc` = the reversed text read so far
  deriving DecidableEq, Repr

/-- Body of a single-line Python string literal delimited by `q`, up to and including the closing quote:
`some (value, rest of the input)`. `env = none`: a plain literal; `env = some e`: an f-string whose replacement
fields are names / dotted names looked up in `e` (`{{`, `}}` are literal braces). One character per step.
Escapes: `\\ \' \" \n \r \t \b \f \uXXXX`; `\a \v \x \N \U`, octal escapes and backslash-newline are outside
the modelled fragment (`none`), as are `\{`/`\}` in an f-string; any other `\c` keeps its backslash (as Python does).
A raw line break ends the modelled fragment. -/
def pStr (env : Option (Str → Option Str)) (q : Nat) : Mode → Str → Option (Str × Str)
  | _, [] => none
  | .norm, c :: rest =>
    if c = q then some ([], rest)
    else if c = 10 ∨ c = 13 then none
    else if c = 92 then pStr env q .esc rest
    else if env.isSome ∧ c = 123 then pStr env q .lb rest
    else if env.isSome ∧ c = 125 then pStr env q .rb rest
    else prepend [c] (pStr env q .norm rest)
  | .esc, e :: rest =>
    if e = 92 then prepend [92] (pStr env q .norm rest)
    else if e = 39 then prepend [39] (pStr env q .norm rest)
    else if e = 34 then prepend [34] (pStr env q .norm rest)
    else if e = 110 then prepend [10] (pStr env q .norm rest)
    else if e = 114 then prepend [13] (pStr env q .norm rest)
    else if e = 116 then prepend [9] (pStr env q .norm rest)
    else if e = 98 then prepend [8] (pStr env q .norm rest)
    else if e = 102 then prepend [12] (pStr env q .norm rest)
    else if e = 117 then pStr env q (.uni 0 0) rest
    else if e = 97 ∨ e = 118 ∨ e = 120 ∨ e = 78 ∨ e = 85 ∨ (48 ≤ e ∧ e ≤ 55) ∨ e = 10 ∨ e = 13 then none
    else if env.isSome ∧ (e = 123 ∨ e = 125) then none
    else prepend [92, e] (pStr env q .norm rest)
  | .uni k v, c :: rest =>
    match hexVal c with
    | none => none
    | some h => if k = 3 then prepend [v * 16 + h] (pStr env q .norm rest) else pStr env q (.uni (k + 1) (v * 16 + h)) rest
  | .lb, c :: rest =>
    if c = 123 then prepend [123] (pStr env q .norm rest)
    else if isNameChar c then pStr env q (.field [c]) rest
    else none
  | .rb, c :: rest => if c = 125 then prepend [125] (pStr env q .norm rest) else none
  | .field acc, c :: rest =>
    if c = 125 then
      match env with
      | none => none
      | some e => fieldValue e acc.reverse (pStr env q .norm rest)
    else if isNameChar c then pStr env q (.field (c :: acc)) rest
    else none

/-- Body of a raw literal `r'…'` up to and including the closing quote: no escape processing; a backslash
and the character after it are both kept and that character cannot close the literal (`esc` = directly after a
backslash). -/
def pRaw (q : Nat) : Bool → Str → Option (Str × Str)
  | _, [] => none
  | true, c :: rest => if c = 10 ∨ c = 13 then none else prepend [c] (pRaw q false rest)
  | false, c :: rest =>
    if c = q then some ([], rest)
    else if c = 10 ∨ c = 13 then none
    else if c = 92 then prepend [92] (pRaw q true rest)
    else prepend [c] (pRaw q false rest)

/-- the whole input must have been consumed -/
def whole : Option (Str × Str) → Option Str
  | some (v, []) => some v
  | _ => none

/-- value of the f-string `f'<body>'` -/
def evalFE (env : Str → Option Str) (body : Str) : Option Str := whole (pStr (some env) 39 .norm (body ++ [39]))

/-- value of the plain literal `'<body>'` -/
def evalSQ (body : Str) : Option Str := whole (pStr none 39 .norm (body ++ [39]))

/-- a definition read the way the YAML author meant it: literal characters and references `{R}` -/
inductive Item
  | lit (c : Nat)
  | ref (r : Str)
  deriving DecidableEq, Repr

/-- split a definition into literal characters and references: `{R}` is a reference exactly when `R` is one of
the listed names (the first listed name that fits), everything else — including any other brace — is literal.
`skip` = characters still to be dropped (the rest of a reference just recognised). -/
def scanAux (refs : List Str) : Nat → Str → List Item
  | _, [] => []
  | k + 1, _ :: rest => scanAux refs k rest
  | 0, c :: rest =>
    if c = 123 then
      match refs.find? (fun r => (r ++ [125]).isPrefixOf rest) with
      | some r => .ref r :: scanAux refs (r.length + 1) rest
      | none => .lit c :: scanAux refs 0 rest
    else .lit c :: scanAux refs 0 rest

def scan (refs : List Str) (d : Str) : List Item := scanAux refs 0 d

/-- replace every reference by its value in `env` (`none` when a reference is unbound) -/
def substItems (env : Str → Option Str) : List Item → Option Str
  | [] => some []
  | .lit c :: rest => (substItems env rest).map (c :: ·)
  | .ref r :: rest =>
    (env r).bind fun v => (substItems env rest).map (v ++ ·)

/-- what the YAML author wrote: every `{R}` with `R` one of the listed references stands for the referenced
value, everything else is literal text. -/
def subst (env : Str → Option Str) (refs : List Str) (d : Str) : Option Str := substItems env (scan refs d)

/-- environment lookup in an association list (the most recent binding first) -/
def lookup (env : List (Str × Str)) (n : Str) : Option Str :=
  match env with
  | [] => none
  | (k, v) :: rest => if k = n then some v else lookup rest n

/-- Python numeric literal `-?digits` or `-?digits.digits` → (mantissa, number of decimals); an integer literal with
a redundant leading zero is not valid Python. -/
def digitsVal : Str → Option Nat
  | [] => none
  | s => s.foldl (fun acc c => acc.bind fun a => if 48 ≤ c ∧ c ≤ 57 then some (a * 10 + (c - 48)) else none) (some 0)

def evalNum (s : Str) : Option (Int × Nat) :=
  let (neg, t) := match s with
    | 45 :: t => (true, t)
    | t => (false, t)
  let ip := t.takeWhile (· ≠ 46)
  let fp := t.drop (ip.length + 1)
  let sign : Int := if neg then -1 else 1
  if t.length = ip.length then
    -- integer
    match digitsVal ip with
    | some n => if ip.length > 1 ∧ ip.head? = some 48 ∧ n ≠ 0 then none else some (sign * n, 0)
    | none => none
  else
    match digitsVal ip, digitsVal fp with
    | some a, some b => some (sign * (a * 10 ^ fp.length + b : Nat), fp.length)
    | _, _ => none

/-- values of evaluated definitions -/
inductive Val
  | str (s : Str)
  | bool (b : Bool)
  | num (mant : Int) (decimals : Nat)
  | list (xs : List Str)
  | other (text : Str)                -- an expression outside the modelled fragment, kept as text
  deriving DecidableEq, Repr

def stripPrefix (p s : Str) : Option Str := if p.isPrefixOf s then some (s.drop p.length) else none

/-- the items of a `[ "…", "…" ]` list after the opening bracket (json.dumps output, read as Python literals) -/
def pJsonItems : Nat → Str → Option (List Str × Str)
  | 0, _ => none
  | fuel + 1, s =>
    match s with
    | 34 :: body =>
      match pStr none 34 .norm body with
      | some (v, 44 :: 32 :: rest) => (pJsonItems fuel rest).map fun p => (v :: p.1, p.2)
      | some (v, 93 :: rest) => some ([v], rest)
      | _ => none
    | _ => none

/-- a value inside a dict entry or on the right of `=` : `"…"`, `[…]`, or an unquoted token up to `stop` -/
def pValue (stop : Nat) (s : Str) : Option (Val × Str) :=
  match s with
  | 34 :: body => (pStr none 34 .norm body).map fun p => (.str p.1, p.2)
  | 91 :: 93 :: rest => some (.list [], rest)
  | 91 :: rest => (pJsonItems (rest.length + 1) rest).map fun p => (.list p.1, p.2)
  | _ =>
    let tok := s.takeWhile (· ≠ stop)
    let rest := s.drop tok.length
    if tok = sTrue then some (.bool true, rest)
    else if tok = sFalse then some (.bool false, rest)
    else match evalNum tok with
      | some (m, e) => some (.num m e, rest)
      | none => some (.other tok, rest)

/-- one `(key, value)` entry of a `dict([...])` argument: the pair and the rest of the input -/
def pDictEntry (s : Str) : Option ((Val × Val) × Str) :=
  match s with
  | 40 :: s1 =>
    match pValue 44 s1 with
    | some (k, 44 :: 32 :: s2) =>
      match pValue 41 s2 with
      | some (v, 41 :: s3) => some ((k, v), s3)
      | _ => none
    | _ => none
  | _ => none

/-- what follows an entry: the end `])`, or `,\n`, blanks and the next entry -/
def afterEntry (kv : Val × Val) (rest : Str) (next : Str → Option (List (Val × Val))) : Option (List (Val × Val)) :=
  match rest with
  | [93, 41] => some [kv]
  | 44 :: 10 :: s4 => (next (s4.dropWhile (· = 32))).map (kv :: ·)
  | _ => none

/-- the entries of `dict([(k, v),\n   (k, v)])` after `dict([` -/
def pDictEntries : Nat → Str → Option (List (Val × Val))
  | 0, _ => none
  | fuel + 1, s =>
    match pDictEntry s with
    | some (kv, rest) => afterEntry kv rest (pDictEntries fuel)
    | none => none

/-- the entries of `[r'…', r'…']` after `[` -/
def pRawItems : Nat → Str → Option (List Str)
  | 0, _ => none
  | fuel + 1, s =>
    match s with
    | 114 :: 39 :: body =>
      match pRaw 39 false body with
      | some (v, [93]) => some [v]
      | some (v, 44 :: 32 :: rest) => (pRawItems fuel rest).map (v :: ·)
      | _ => none
    | _ => none

/-- evaluated definition -/
inductive DefVal
  | val (v : Val)
  | dict (es : List (Val × Val))
  | func (params : List Str) (body : Str)      -- `def Name(params): return f'body'`
  deriving DecidableEq, Repr

def splitOn (sep : Str) : Nat → Str → Str → List Str
  | 0, acc, _ => [acc.reverse]
  | _ + 1, acc, [] => [acc.reverse]
  | fuel + 1, acc, c :: rest =>
    if sep ≠ [] ∧ sep.isPrefixOf (c :: rest) then acc.reverse :: splitOn sep fuel [] ((c :: rest).drop sep.length)
    else splitOn sep fuel (c :: acc) rest

/-- `def Name(p, q):\n    return f'…'` after `\ndef ` -/
def evalFuncDef (t : Str) : Option (Str × DefVal) :=
  let name := t.takeWhile isIdentChar
  match t.drop name.length with
  | 40 :: t1 =>
    let ps := t1.takeWhile (· ≠ 41)
    match stripPrefix ([41, 58, 10] ++ indent4 ++ sReturnF) (t1.drop ps.length) with
    | some body =>
      match body.reverse with
      | 39 :: b => some (name, .func (if ps = [] then [] else splitOn [44, 32] (ps.length + 1) [] ps) b.reverse)
      | _ => none
    | none => none
  | _ => none

/-- the right-hand side of `Name = …` -/
def evalRhs (env : Str → Option Str) (rhs : Str) : Option DefVal :=
  match rhs with
  | 102 :: 39 :: body => (whole (pStr (some env) 39 .norm body)).map fun v => .val (.str v)
  | 39 :: body => (whole (pStr none 39 .norm body)).map fun v => .val (.str v)
  | 100 :: 105 :: 99 :: 116 :: 40 :: 91 :: es =>
    if es = [93, 41] then some (.dict []) else (pDictEntries (es.length + 1) es).map .dict
  | 91 :: 114 :: items => (pRawItems (items.length + 2) (114 :: items)).map fun l => .val (.list l)
  | [91, 93] => some (.val (.list []))
  | _ =>
    if rhs = sTrue then some (.val (.bool true))
    else if rhs = sFalse then some (.val (.bool false))
    else none

/-- `Name = <rhs>` -/
def evalAssign (env : Str → Option Str) (text : Str) : Option (Str × DefVal) :=
  let name := text.takeWhile isIdentChar
  match text.drop name.length with
  | 32 :: 61 :: 32 :: rhs => (evalRhs env rhs).map fun v => (name, v)
  | _ => none

/-- Evaluate the text of one emitted definition (as produced by `writeToken`) in an environment of earlier
definitions: `some (name, value)`; `none` = not of the emitted shapes / not a valid literal. -/
def evalDef (env : Str → Option Str) (text : Str) : Option (Str × DefVal) :=
  match text with
  | 10 :: 100 :: 101 :: 102 :: 32 :: t => evalFuncDef t
  | _ => evalAssign env text

/-- the text of a block as it stands in the generated file, without the class indent: `generate` re-splits the
writer's text with `str.splitlines()` and writes the lines one by one, so every line-break character the text
contains (U+0085, U+2028, … inside a definition) becomes a line feed. -/
def fileText (text : Str) : Str := join [10] (splitlines text)

/-- the value of a definition as the generated module holds it -/
def evalBlock (env : Str → Option Str) (text : Str) : Option (Str × DefVal) := evalDef env (fileText text)

/-- calling an evaluated `def Name(params): return f'body'` with positional arguments: the parameters are the
only names in scope that the body can mention (a class attribute is not visible inside the function). -/
def callFunc (params : List Str) (body : Str) (args : List Str) : Option Str :=
  if params.length = args.length then evalFE (lookup (params.zip args)) body else none

end RTV.ResGen
