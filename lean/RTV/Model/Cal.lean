/-
L5 `Cal` (core) — the proleptic Gregorian calendar exactly as CPython's `datetime` implements it
(`Lib/_pydatetime.py`: `_is_leap`, `_days_before_year`, `_days_in_month`, `_days_before_month`, `_ymd2ord`,
`_ord2ymd`, `weekday`, `isoweekday`, `isocalendar`), `timedelta` day arithmetic, and the `datedelta` shim
(`/verif/harness/shims/datedelta`). Import-free. Higher layers (`DateUtils`, resolvers, Timex) build on this file.

Conventions: a date is `(y, m, d)` with `1 ≤ y ≤ 9999`; ordinals are CPython ordinals (0001-01-01 ↦ 1);
weekdays: `weekday` Monday = 0 … Sunday = 6 (Python `date.weekday()`), `isoWeekday` Monday = 1 … Sunday = 7.
-/
namespace RTV.Cal

structure Date where
  y : Nat
  m : Nat
  d : Nat
deriving DecidableEq, Repr, Inhabited

def isLeap (y : Nat) : Bool := y % 4 == 0 && (y % 100 != 0 || y % 400 == 0)

/-- `_days_before_year(year)`: number of days before January 1st of `year` (year ≥ 1). -/
def daysBeforeYear (y : Nat) : Nat :=
  let y' := y - 1
  y' * 365 + y' / 4 - y' / 100 + y' / 400

/-- `_DAYS_IN_MONTH` with February patched for leap years. -/
def daysInMonth (y m : Nat) : Nat :=
  match m with
  | 1 => 31 | 2 => if isLeap y then 29 else 28 | 3 => 31 | 4 => 30 | 5 => 31 | 6 => 30
  | 7 => 31 | 8 => 31 | 9 => 30 | 10 => 31 | 11 => 30 | 12 => 31
  | _ => 0

/-- `_DAYS_BEFORE_MONTH[m]` (non-leap). -/
def daysBeforeMonthTbl (m : Nat) : Nat :=
  match m with
  | 1 => 0 | 2 => 31 | 3 => 59 | 4 => 90 | 5 => 120 | 6 => 151
  | 7 => 181 | 8 => 212 | 9 => 243 | 10 => 273 | 11 => 304 | 12 => 334
  | _ => 0

/-- `_days_before_month(year, month)`. -/
def daysBeforeMonth (y m : Nat) : Nat :=
  daysBeforeMonthTbl m + (if m > 2 && isLeap y then 1 else 0)

/-- `datetime(y, m, d)` accepts exactly these. -/
def Date.valid (x : Date) : Bool :=
  1 ≤ x.y && x.y ≤ 9999 && 1 ≤ x.m && x.m ≤ 12 && 1 ≤ x.d && x.d ≤ daysInMonth x.y x.m

/-- `_ymd2ord`. -/
def Date.ord (x : Date) : Nat := daysBeforeYear x.y + daysBeforeMonth x.y x.m + x.d

def daysInYear (y : Nat) : Nat := if isLeap y then 366 else 365

/-- `_ord2ymd(n)` transcribed from CPython (400/100/4/1-year cycles, then the month estimate `(n+50) >> 5`). -/
def Date.ofOrd (n : Nat) : Date :=
  let n := n - 1
  let n400 := n / 146097
  let n := n % 146097
  let year := n400 * 400 + 1
  let n100 := n / 36524
  let n := n % 36524
  let n4 := n / 1461
  let n := n % 1461
  let n1 := n / 365
  let n := n % 365
  let year := year + n100 * 100 + n4 * 4 + n1
  if n1 == 4 || n100 == 4 then ⟨year - 1, 12, 31⟩
  else
    let leapyear := n1 == 3 && (n4 != 24 || n100 == 3)
    let month := (n + 50) / 32
    let preceding := daysBeforeMonthTbl month + (if month > 2 && leapyear then 1 else 0)
    if preceding > n then
      let month := month - 1
      let preceding := preceding - (if month == 2 && leapyear then 29 else daysInMonth 1 month)
      ⟨year, month, n - preceding + 1⟩
    else ⟨year, month, n - preceding + 1⟩

/-- `date.weekday()` of an ordinal: Monday = 0. -/
def weekdayOrd (n : Nat) : Nat := (n + 6) % 7
/-- `date.isoweekday()`: Monday = 1 … Sunday = 7. -/
def isoWeekdayOrd (n : Nat) : Nat := (n + 6) % 7 + 1

def Date.weekday (x : Date) : Nat := weekdayOrd x.ord
def Date.isoWeekday (x : Date) : Nat := isoWeekdayOrd x.ord

/-- `date + timedelta(days=k)` on ordinals; `none` = OverflowError (outside 0001-01-01..9999-12-31). -/
def maxOrd : Nat := 3652059
def addDaysOrd (n : Nat) (k : Int) : Option Nat :=
  let r : Int := (n : Int) + k
  if 1 ≤ r ∧ r ≤ maxOrd then some r.toNat else none

def Date.addDays (x : Date) (k : Int) : Option Date := (addDaysOrd x.ord k).map Date.ofOrd

/-- `_isoweek1monday(year)`: ordinal of the Monday starting ISO week 1 of `year`. -/
def isoWeek1Monday (y : Nat) : Nat :=
  let firstday := (⟨y, 1, 1⟩ : Date).ord
  let firstweekday := (firstday + 6) % 7
  let week1monday := firstday - firstweekday
  if firstweekday > 3 then week1monday + 7 else week1monday

/-- `date.isocalendar()` → (ISO year, ISO week, ISO weekday). -/
def isoCalendar (x : Date) : Nat × Nat × Nat :=
  let today := x.ord
  let wk (year : Nat) : Int × Nat :=
    let w1 := isoWeek1Monday year
    let diff : Int := (today : Int) - w1
    (diff.fdiv 7, (diff.fmod 7).toNat)
  let (week, day) := wk x.y
  if week < 0 then
    let (week, day) := wk (x.y - 1)
    (x.y - 1, week.toNat + 1, day + 1)
  else if week ≥ 52 ∧ today ≥ isoWeek1Monday (x.y + 1) then
    (x.y + 1, 1, day + 1)
  else (x.y, week.toNat + 1, day + 1)

/-- The `datedelta` shim, `date + datedelta(years, months, days)`: years, then months, then days; a day that does
not exist rolls forward to the 1st of the next month when the month/year delta is positive and back to the last
day of the month when it is negative. `none` = ValueError/OverflowError (year outside 1..9999). -/
def datedeltaAdd (x : Date) (years months days : Int) : Option Date :=
  -- years
  let y1 : Int := x.y + years
  let (m1, d1) : Nat × Nat :=
    if years ≠ 0 ∧ x.m = 2 ∧ x.d = 29 ∧ !(isLeap y1.toNat) then
      (if years > 0 then (3, 1) else (2, 28))
    else (x.m, x.d)
  -- months
  let (y2, m2, d2) : Int × Nat × Nat :=
    if months ≠ 0 then
      let total : Int := y1 * 12 + ((m1 : Int) - 1) + months
      let yy := total.fdiv 12
      let mm := (total.fmod 12).toNat + 1
      let dim := if 1 ≤ yy ∧ yy ≤ 9999 then daysInMonth yy.toNat mm else 31
      if d1 > dim then
        if months > 0 then
          (if mm + 1 > 12 then (yy + 1, 1, 1) else (yy, mm + 1, 1))
        else (yy, mm, dim)
      else (yy, mm, d1)
    else (y1, m1, d1)
  if 1 ≤ y2 ∧ y2 ≤ 9999 then
    let r : Date := ⟨y2.toNat, m2, d2⟩
    if r.valid then (if days = 0 then some r else r.addDays days) else none
  else none

/-- A datetime: a date plus seconds since midnight (microseconds are never produced by the modelled code). -/
structure DateTime where
  date : Date
  secs : Nat
deriving DecidableEq, Repr, Inhabited

def DateTime.lt (a b : DateTime) : Bool := a.date.ord < b.date.ord || (a.date.ord == b.date.ord && a.secs < b.secs)
def DateTime.le (a b : DateTime) : Bool := a.date.ord < b.date.ord || (a.date.ord == b.date.ord && a.secs ≤ b.secs)

end RTV.Cal
