import RTV.Model.Py
import RTV.Model.Re
import RTV.Model.Match
/-
`Seq` — mirrors recognizers_sequence/sequence/extractors.py (`SequenceExtractor.extract`, `BaseIpExtractor.extract`),
sequence/parsers.py (`BaseIpParser.drop_leading_zeros`) and sequence/english/parsers.py (`GUIDParser.score_guid`).
The regexes are parameters (the driver and the theorems plug in the regenerated `RTV.Gen.*Regex`).
-/
namespace RTV.Seq
open RTV.Py RTV.Re RTV.Match

/-- `ExtractResult` as far as the sequence models use it. `data` = the `val` of the `ReVal` that matched. -/
structure ER where
  start : Nat
  len : Nat
  text : Str
  data : String
deriving Repr, DecidableEq, Inhabited

/-- a regex match span with the `ReVal.val` of its regex: `(start, end, val)` -/
abbrev Span := Nat × Nat × String

/-- `matched[k]` after the marking loops: some match covers position `k`. -/
def covered (ms : List Span) (k : Nat) : Bool := ms.any fun (a, b, _) => a ≤ k && k < b

/-- `next((x for x in iter(match_source) if x.start() == start and x.end() - x.start() == length), None)` then
`match_source.get(src_match)`: first match (dict insertion order = order of `ms`) with exactly this span. -/
def srcMatch (ms : List Span) (start len : Nat) : Option String :=
  (ms.find? fun (a, b, _) => a == start && b - a == len).map fun (_, _, v) => v

def ellipsis : Str := [58, 58]   -- Constants.IPV6_ELLIPSIS = "::"

/-- `str.isdigit(c) or (str.isalpha(c) and not is_cjk(d))` -/
def glued (K : CharClass) (c d : Nat) : Bool := K.isDigit c || (K.isAlpha c && !isCJK d)

/-- the tail of the loop body: unless skipped by an ellipsis check, report the span if some match has exactly it -/
def emitAt (skip : Bool) (ms : List Span) (start length : Nat) (substring : Str) : List ER :=
  if skip then []
  else match srcMatch ms start length with
    | some v => [⟨start, length, substring, v⟩]
    | none => []

/-- The second loop of `BaseIpExtractor.extract` / `SequenceExtractor.extract` (`ip = false`): `i` runs over the
positions, `start = last + 1`.  `rest = n - i` is the structural counter. -/
def sweepGo (ip : Bool) (K : CharClass) (s : Str) (ms : List Span) : Nat → Nat → Nat → List ER
  | 0, _, _ => []
  | rest + 1, i, start =>
    if !covered ms i then sweepGo ip K s ms rest (i + 1) (i + 1)
    else if i + 1 == s.length || !covered ms (i + 1) then
      let length := i + 1 - start
      let substring := strip K.isSpace (sliceI s start (start + length))
      let skip :=
        ip && (
          if startsWith substring ellipsis && (start > 0 &&
              glued K (s.getD (start - 1) 0) (s.getD (start - 1) 0)) then true
          else if endsWith substring ellipsis && (i + 1 < s.length &&
              -- the code passes `list(source)[start - 1]` (not `[i + 1]`) to is_cjk; for start = 0 that is source[-1]
              glued K (s.getD (i + 1) 0) ((index s ((start : Int) - 1)).getD 0)) then true
          else false)
      emitAt skip ms start length substring ++ sweepGo ip K s ms rest (i + 1) start
    else sweepGo ip K s ms rest (i + 1) start

def ipSweep (K : CharClass) (s : Str) (ms : List Span) : List ER :=
  if s.length = 0 then [] else sweepGo true K s ms s.length 0 0

def seqSweep (K : CharClass) (s : Str) (ms : List Span) : List ER :=
  if s.length = 0 then [] else sweepGo false K s ms s.length 0 0

def tagged (v : String) (l : List (Nat × Nat)) : List Span := l.map fun (a, b) => (a, b, v)

/-- `BaseIpExtractor.extract`: regexes `[ipv4 → "ipv4", ipv6 → "ipv6"]`, `finditer` each, sweep. -/
def ipExtract (T : Tables) (K : CharClass) (v4 v6 : RE) (s : Str) : List ER :=
  ipSweep K s (tagged "ipv4" (findAll T s.toArray v4) ++ tagged "ipv6" (findAll T s.toArray v6))

/-- `BaseGUIDExtractor` (inherits `SequenceExtractor.extract`; `_is_valid_match` is always true). -/
def guidExtract (T : Tables) (K : CharClass) (g : RE) (s : Str) : List ER :=
  seqSweep K s (tagged "Guid" (findAll T s.toArray g))

/-! ### `BaseIpParser.drop_leading_zeros` -/

/-- `number if number == '0' else number.lstrip('0')`, then `'0' if not number`. -/
def normNumber (number : Str) : Str :=
  let n := if number = [48] then number else stripLeft (· == 48) number
  if n.isEmpty then [48] else n

/-- The loop: `result`, `number` are the accumulators, the list is the rest of the text. The flush at the last
character (`i == len(text) - 1`) happens only in the `else` branch, as in the code. -/
def dropGo : Str → Str → Str → Str
  | result, _number, [] => result
  | result, number, c :: rest =>
    if c = 46 || c = 58 then
      let result := if number ≠ [] then result ++ normNumber number else result
      dropGo (result ++ [c]) [] rest
    else
      let number := number ++ [c]
      if rest.isEmpty then dropGo (result ++ normNumber number) number rest
      else dropGo result number rest

def dropLeadingZeros (text : Str) : Str := dropGo [] [] text

/-! ### `GUIDParser.score_guid` -/

/-- `pure_digit_regex = '^\d*$'` (written in the code, not in a resource) -/
def pureDigitRe : RE := .seq .bol (.seq (.repU (.seq (.cls [.digit] false) .eps) 0 true) (.seq .eol .eps))

/-- Integer score before the final `/ (upper - lower)`; the code returns `scoreGuid / 100`. -/
def scoreGuid (T : Tables) (element : RE) (text : Str) : Int :=
  let spans := findAll T text.toArray element
  let ms := (spans.map fun (a, b) => sliceI text a b).filter (· ≠ [])
  let pure := searches T text.toArray pureDigitRe
  let score : Int := ms.foldl (fun (sc : Int) m =>
    let sc := sc - (if findFrom text m 0 = some 0 then 10 else 0)
    let sc := sc - (if m.contains 45 then 0 else 10)
    sc - (if pure then 15 else 0)) 100
  max (min score 100) 0

end RTV.Seq
