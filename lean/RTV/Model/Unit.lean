/-
L10 `Unit` — mirrors recognizers_number_with_unit/number_with_unit:
  utilities.py  `DictionaryUtility.bind_dictionary` / `bind_units_string`
  parsers.py    `NumberWithUnitParser.parse` (unit-key assembly around the relative number position, bracket
                removal, connector token, exact-then-lower-cased lookup), `BaseCurrencyParser` ISO lookup / fake ISO
                rule, `__merge_compound_unit` amount arithmetic (Decimal after the fix: exact)
Strings are lists of code points; dictionaries are association lists in insertion order (Python dict).
Import-free.
-/
namespace RTV.Unit

abbrev Str := List Nat
abbrev Dict := List (Str × Str)     -- insertion-ordered, keys unique by construction

def dget (d : Dict) (k : Str) : Option Str :=
  match d with
  | [] => none
  | (k', v) :: rest => if k' = k then some v else dget rest k

def dhas (d : Dict) (k : Str) : Bool := (dget d k).isSome

/-- `str.split('|')` -/
def splitBar : Str → List Str
  | [] => [[]]
  | c :: rest =>
    if c = 124 then [] :: splitBar rest
    else match splitBar rest with
      | [] => [[c]]          -- unreachable: splitBar never returns []
      | w :: ws => (c :: w) :: ws

def stripLeft (sp : Nat → Bool) : Str → Str
  | [] => []
  | c :: r => if sp c then stripLeft sp r else c :: r

/-- `str.strip()` with the interpreter's whitespace predicate as a parameter -/
def strip (sp : Nat → Bool) (s : Str) : Str := (stripLeft sp (stripLeft sp s).reverse).reverse

/-- `bind_units_string(source_dictionary, key, source)`: every non-empty token of `source.strip().split('|')` that is
not yet a key is bound to `key` (first writer wins). -/
def bindTokens (d : Dict) (key : Str) : List Str → Dict
  | [] => d
  | t :: ts => if t = [] ∨ dhas d t then bindTokens d key ts else bindTokens (d ++ [(t, key)]) key ts

def bindUnitsString (sp : Nat → Bool) (d : Dict) (key source : Str) : Dict :=
  bindTokens d key (splitBar (strip sp source))

/-- `bind_dictionary(dictionary, source_dictionary)`: entries with an empty key are skipped. -/
def bindDictionary (sp : Nat → Bool) (dictionary : Dict) (d : Dict) : Dict :=
  dictionary.foldl (fun d kv => if kv.1 = [] then d else bindUnitsString sp d kv.1 kv.2) d

/-- `add_dict_to_unit_map` called for each table in order. -/
def buildUnitMap (sp : Nat → Bool) (tables : List Dict) : Dict :=
  tables.foldl (fun d t => bindDictionary sp t d) []

/-! ### unit-key assembly (the `while i <= len(key)` loop of `NumberWithUnitParser.parse`) -/

/-- `__add_if_not_contained(keys, new_key)`: append unless `new_key` is a substring of an existing key. -/
def isInfix (needle hay : Str) : Bool :=
  (List.range (hay.length + 1)).any fun i => (hay.drop i).take needle.length = needle

def addIfNotContained (keys : List Str) (k : Str) : List Str :=
  if keys.any (fun x => isInfix k x) then keys else keys ++ [k]

/-- The loop, index `i` (as `Int`, because `number_result.start` is −1 when there is no number), remaining fuel.
State: `build` = unit_key_build, `keys`. `numStart`/`numLen`: the relative position of the number. -/
def keyLoop (sp : Nat → Bool) (key : Str) (numStart : Int) (numLen : Nat) :
    Nat → Int → Str → List Str → List Str
  | 0, _, _, keys => keys
  | fuel + 1, i, build, keys =>
    if i > key.length then keys
    else if i = key.length then
      if build ≠ [] then addIfNotContained keys (strip sp build) else keys
    else if i = numStart then
      let keys' := if build ≠ [] then addIfNotContained keys (strip sp build) else keys
      let build' := if build ≠ [] then [] else build
      let i' : Int := if numLen ≠ 0 then numStart + numLen - 1 else i
      keyLoop sp key numStart numLen fuel (i' + 1) build' keys'
    else
      keyLoop sp key numStart numLen fuel (i + 1) (build ++ [key.getD i.toNat 0]) keys

def unitKeys (sp : Nat → Bool) (key : Str) (numStart : Int) (numLen : Nat) : List Str :=
  keyLoop sp key numStart numLen (key.length + 2) 0 [] []

def startsWith (s p : Str) : Bool := s.take p.length = p
def endsWith (s p : Str) : Bool := p.length ≤ s.length && s.drop (s.length - p.length) = p

/-- `__delete_brackets_if_exists` -/
def deleteBrackets (u : Str) : Str :=
  let has := (startsWith u [40] && endsWith u [41]) || (startsWith u [91] && endsWith u [93]) ||
             (startsWith u [123] && endsWith u [125]) || (startsWith u [60] && endsWith u [62])
  if has then (u.drop 1).take (u.length - 1 - 1) else u

/-- The unit lookup of `NumberWithUnitParser.parse` for a source text whose number sits at (`numStart`,`numLen`),
without the `half` special case: last key, connector stripping, bracket removal, exact lookup then lower-cased.
`lower` is the interpreter's `str.lower` (parameter). `none` = no unit value (the model result is dropped);
an IndexError on `unit_keys[-1]` (no key at all) is also `none` — the model swallows the exception. -/
def parseUnit (sp : Nat → Bool) (lower : Str → Str) (unitMap : Dict) (connector : Str)
    (text : Str) (numStart : Int) (numLen : Nat) : Option Str :=
  match (unitKeys sp text numStart numLen).getLast? with
  | none => none
  | some last =>
    let norm := lower last
    let (last, norm) :=
      if connector ≠ [] ∧ startsWith norm connector then
        (strip sp (last.drop connector.length), strip sp (norm.drop connector.length))
      else (last, norm)
    let last := deleteBrackets last
    let norm := deleteBrackets norm
    if text ≠ [] ∧ unitMap ≠ [] then
      match dget unitMap last with
      | some u => if u ≠ [] then some u else none
      | none => match dget unitMap norm with
        | some u => if u ≠ [] then some u else none
        | none => none
    else none

/-! ### the whole `NumberWithUnitParser.parse`: unit lookup + the number part (`value.number`, `resolution_str`) -/

/-- `half_result` as the parser sees it: its text and length, and the `resolution_str` the internal number parser gives
for it (`none` = Python `None`) -/
structure Half where
  text : Str
  len : Nat
  res : Option Str
deriving DecidableEq, Repr

inductive ParseOut where
  | noValue                                                      -- `ret.value` stays `None` (the model drops the result)
  | unitValue (number : Option Str) (unit : Str) (resolution : Str)  -- `UnitValue(number, unit)`, `ret.resolution_str`
  | indexError                                                   -- `unit_keys[-1]` on an empty list
  | typeError                                                    -- `None + str` / `str + None` in the half branch
deriving DecidableEq, Repr

/-- `str(None)` inside the f-string -/
def pyNone : Str := [78, 111, 110, 101]

/-- `last_unit[:-1 * half_result.length]` (`[:-0]` is `[:0]`) -/
def dropHalf (last : Str) (h : Half) : Str :=
  if isInfix h.text last then (if h.len = 0 then [] else last.take (last.length - h.len)) else last

/-- the unit lookup of `parse` once the last key is known (the body of `parseUnit` after `unit_keys[-1]`) -/
def lookupUnit (sp : Nat → Bool) (lower : Str → Str) (unitMap : Dict) (connector : Str) (text : Str) (last : Str) :
    Option Str :=
  let norm := lower last
  let (last, norm) :=
    if connector ≠ [] ∧ startsWith norm connector then
      (strip sp (last.drop connector.length), strip sp (norm.drop connector.length))
    else (last, norm)
  let last := deleteBrackets last
  let norm := deleteBrackets norm
  if text ≠ [] ∧ unitMap ≠ [] then
    match dget unitMap last with
    | some u => if u ≠ [] then some u else none
    | none => match dget unitMap norm with
      | some u => if u ≠ [] then some u else none
      | none => none
  else none

/-- `NumberWithUnitParser.parse` for an extract result that carries a number (`data` an ExtractResult, or the
`[number, half]` pair of the Chinese half expansion). `numRes` = `resolution_str` of `internal_number_parser.parse(number)`
(`none` when the number has no text or the parser gives `None`) — the number parser is the C03/C04 model, a parameter
here. Same unit lookup as `parseUnit` (proved: `parseFull_unit`). -/
def parseFull (sp : Nat → Bool) (lower : Str → Str) (unitMap : Dict) (connector : Str)
    (text : Str) (numStart : Int) (numLen : Nat) (numRes : Option Str) (half : Option Half) : ParseOut :=
  match (unitKeys sp text numStart numLen).getLast? with
  | none => .indexError
  | some last =>
    let last := match half with
      | some h => dropHalf last h
      | none => last
    match lookupUnit sp lower unitMap connector text last with
    | some u =>
      match half with
      | none => .unitValue numRes u (strip sp (numRes.getD pyNone ++ [32] ++ u))
      | some h =>
        match numRes, h.res with
        | some r, some hr => .unitValue (some (r ++ hr.drop 1)) u (strip sp (r ++ hr.drop 1 ++ [32] ++ u))
        | _, _ => .typeError
    | none => .noValue

/-- `BaseCurrencyParser.parse` (simple case): the ISO code attached to a unit; a code starting with `_` is a fake
ISO code and yields a plain UnitValue (no `isoCurrency` key). Result: `none` = no isoCurrency key,
`some none` = key present with value None, `some (some c)` = the code. -/
def isoOf (nameToIso : Dict) (unit : Str) : Option (Option Str) :=
  match dget nameToIso unit with
  | some code => if code ≠ [] ∧ startsWith code [95] then none else (if code = [] then some none else some (some code))
  | none => some none

/-! ### compound amounts: `N <main> M <fraction>` ↦ N + M / ratio, exact decimal arithmetic.
A decimal is `num / 10^scale`. -/

structure DecQ where
  num : Nat
  scale : Nat
deriving DecidableEq, Repr

/-- value as a pair (numerator, denominator) -/
def DecQ.den (d : DecQ) : Nat := 10 ^ d.scale

/-- `N + M / ratio` for ratio = 10^k (every entry of `CurrencyFractionalRatios` that is a power of ten):
exact, as `Decimal` computes it. -/
def addFraction (n m : DecQ) (k : Nat) : DecQ :=
  let s := max n.scale (m.scale + k)
  ⟨n.num * 10 ^ (s - n.scale) + m.num * 10 ^ (s - (m.scale + k)), s⟩

end RTV.Unit
