/-
L12 `ResGen` — the escaping functions of the resource generator
(/repo/Python/libraries/resource-generator/lib/code_writer.py: `sanitize`, `create_entry`) and an evaluator for
the Python string literals they are emitted into (`f'…'` for regexes, `"…"` for dictionary entries).
Strings are lists of code points. Import-free.
-/
namespace RTV.ResGen

abbrev Str := List Nat

/-- `str.replace(old, new)` for a non-empty `old`: leftmost, non-overlapping (fuel = length of the input). -/
def replaceFuel (old new : Str) : Nat → Str → Str
  | 0, s => s
  | _ + 1, [] => []
  | fuel + 1, c :: rest =>
    if old ≠ [] ∧ (c :: rest).take old.length = old then
      new ++ replaceFuel old new fuel ((c :: rest).drop old.length)
    else c :: replaceFuel old new fuel rest

def replace (s old new : Str) : Str := replaceFuel old new (s.length + 1) s

/-- Single-character `str.replace(c, new)`. -/
def replaceChar (c : Nat) (new : Str) (s : Str) : Str := s.flatMap fun x => if x = c then new else [x]

def hexDigit (n : Nat) : Nat := if n < 10 then 48 + n else 87 + n   -- lower-case, as json.dumps prints

/-- `json.dumps(value, ensure_ascii=False)[1:-1]`: the JSON string escapes of CPython's encoder. -/
def jsonEscapeChar (c : Nat) : Str :=
  if c = 34 then [92, 34]            -- "  -> \"
  else if c = 92 then [92, 92]       -- \  -> \\
  else if c = 10 then [92, 110]      -- \n
  else if c = 13 then [92, 114]      -- \r
  else if c = 9 then [92, 116]       -- \t
  else if c = 8 then [92, 98]        -- \b
  else if c = 12 then [92, 102]      -- \f
  else if c < 32 then [92, 117, 48, 48, hexDigit (c / 16), hexDigit (c % 16)]   -- \u00XX
  else [c]

def jsonEscape (s : Str) : Str := s.flatMap jsonEscapeChar

/-- `sanitize(value, None, tokens)`:
`value.replace('{','{{').replace('}','}}')`, then for every token `value.replace('{'+token+'}', token)`, then the
JSON escapes, then `.replace("'", "\\'")`. -/
def sanitize (value : Str) (tokens : List Str) : Str :=
  let v := replaceChar 125 [125, 125] (replaceChar 123 [123, 123] value)
  let v := tokens.foldl (fun v t => replace v ([123] ++ t ++ [125]) t) v
  replaceChar 39 [92, 39] (jsonEscape v)

/-- `create_entry(entry, 'string')`: `'"' + entry.replace('\\','\\\\').replace('"','\\"') + '"'`. -/
def createEntryString (entry : Str) : Str :=
  [34] ++ replaceChar 34 [92, 34] (replaceChar 92 [92, 92] entry) ++ [34]

def hexVal (c : Nat) : Option Nat :=
  if 48 ≤ c ∧ c ≤ 57 then some (c - 48)
  else if 97 ≤ c ∧ c ≤ 102 then some (c - 87)
  else if 65 ≤ c ∧ c ≤ 70 then some (c - 55)
  else none

/-- Body of a (non-raw, single-line) Python string literal → its value: backslash escapes as Python processes
them (`\\ \' \" \n \r \t \b \f \uXXXX`; an unrecognised escape keeps the backslash). With `fstr := true`, `{{`/`}}`
are literal braces and a single brace is an error here (replacement fields are handled by `evalFWith`).
`quote` is the delimiter: an unescaped occurrence ends the literal (error here). `none` = not a valid literal. -/
def evalLit (fstr : Bool) (quote : Nat) : Nat → Str → Option Str
  | 0, _ => none
  | _ + 1, [] => some []
  | fuel + 1, c :: rest =>
    if c = 92 then
      match rest with
      | [] => none
      | e :: rest2 =>
        if e = 92 then (evalLit fstr quote fuel rest2).map (92 :: ·)
        else if e = 39 then (evalLit fstr quote fuel rest2).map (39 :: ·)
        else if e = 34 then (evalLit fstr quote fuel rest2).map (34 :: ·)
        else if e = 110 then (evalLit fstr quote fuel rest2).map (10 :: ·)
        else if e = 114 then (evalLit fstr quote fuel rest2).map (13 :: ·)
        else if e = 116 then (evalLit fstr quote fuel rest2).map (9 :: ·)
        else if e = 98 then (evalLit fstr quote fuel rest2).map (8 :: ·)
        else if e = 102 then (evalLit fstr quote fuel rest2).map (12 :: ·)
        else if e = 117 then
          match rest2 with
          | a :: b :: c' :: d :: rest' =>
            match hexVal a, hexVal b, hexVal c', hexVal d with
            | some a, some b, some c', some d =>
              (evalLit fstr quote fuel rest').map ((a * 4096 + b * 256 + c' * 16 + d) :: ·)
            | _, _, _, _ => none
          | _ => none
        else (evalLit fstr quote fuel (e :: rest2)).map (92 :: ·)
    else if c = quote ∨ c = 10 then none
    else if fstr = true ∧ (c = 123 ∨ c = 125) then
      match rest with
      | [] => none
      | x :: rest' => if x = c then (evalLit fstr quote fuel rest').map (c :: ·) else none
    else (evalLit fstr quote fuel rest).map (c :: ·)

/-- value of `f'<body>'` without replacement fields -/
def evalF (body : Str) : Option Str := evalLit true 39 (body.length + 1) body
/-- value of `"<body>"` given the full literal including its quotes -/
def evalDQ (lit : Str) : Option Str :=
  match lit with
  | 34 :: rest =>
    match rest.reverse with
    | 34 :: body => evalLit false 34 (rest.length + 1) body.reverse
    | _ => none
  | _ => none

end RTV.ResGen
