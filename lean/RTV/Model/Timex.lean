import RTV.Model.TimexRe
import RTV.Model.Cal
/-!
L7 `Timex` (part 2) — `datatypes_timex_expression`: `Timex` (timex.py), `Time` (time.py), `TimexParsing`,
`TimexInference`, `TimexFormat`, `TimexDateHelpers.fixed_format_number`, and the part of `TimexHelpers` that
`TimexFormat.format` reaches (`expand_datetime_range`, `timex_date_add`, `timex_time_add`, `clone_*`).
The resolvers are in `RTV/Model/TimexResolve.lean`.

The package is dynamically typed and the same field holds `int`, `Decimal` or `float` depending on the path
(`result.year = start.year + duration.years` stores a `Decimal` in `year`; `Time.from_seconds` stores a `float`
in `second`).  `Num` models exactly the values that occur:
* `int i`;
* `dec neg c e` — a finite `Decimal` (sign, coefficient, exponent) with `str()` = `Decimal.__str__` in full
  (plain and scientific notation), `+` and `int *` exact — **where the model stops**: a result with more than 28
  significant digits (the default context would round) is `Err.unmodelled`, as is `%`, `/` on a `Decimal`;
* `flt i` — a `float` with an integral value (`Time.from_seconds` of whole seconds), `str()` = `i.0`.
Python exceptions are values of `Err`; `Err.unmodelled` marks the few places where the model declines to
answer (the correspondence counts them and compares nothing there).
Import-free (core Lean, `RTV.Model.*`).
-/
namespace RTV.Timex
open RTV.Py RTV.Cal

inductive Err
  | typeError | attributeError | valueError | overflowError
  /-- the call does not return (`TimexConstraintsHelper.collapse` ran out of fuel) -/
  | hang
  /-- the model declines to answer (see the header) -/
  | unmodelled
deriving DecidableEq, Repr, Inhabited

abbrev R := Except Err

/-! ## numbers and their printing -/

def nstrAux : Nat → Nat → Str → Str
  | 0, _, acc => acc
  | f + 1, n, acc => if n < 10 then (48 + n) :: acc else nstrAux f (n / 10) ((48 + n % 10) :: acc)

/-- `str(n)` for a natural number (own structural definition, so that the kernel can compute with it). -/
def nstr (n : Nat) : Str := nstrAux (n + 1) n []

def istr (i : Int) : Str := if i < 0 then 45 :: nstr i.natAbs else nstr i.toNat

inductive Num
  | int (i : Int)
  | dec (neg : Bool) (c : Nat) (e : Int)
  | flt (i : Int)
deriving DecidableEq, Repr, Inhabited

/-- `Decimal.__str__` (`_pydecimal.Decimal.__str__`, `eng=False`) for a finite number. -/
def decStr (neg : Bool) (c : Nat) (e : Int) : Str :=
  let ds := nstr c
  let len : Int := ds.length
  let leftdigits : Int := e + len
  let dotplace : Int := if e ≤ 0 ∧ leftdigits > -6 then leftdigits else 1
  let intpart : Str :=
    if dotplace ≤ 0 then [48]
    else if dotplace ≥ len then ds ++ List.replicate (dotplace - len).toNat 48
    else ds.take dotplace.toNat
  let fracpart : Str :=
    if dotplace ≤ 0 then 46 :: (List.replicate (-dotplace).toNat 48 ++ ds)
    else if dotplace ≥ len then []
    else 46 :: ds.drop dotplace.toNat
  let x : Int := leftdigits - dotplace
  let exp : Str := if x = 0 then [] else 69 :: (if x < 0 then 45 :: nstr x.natAbs else 43 :: nstr x.toNat)
  (if neg then [45] else []) ++ intpart ++ fracpart ++ exp

/-- `str(x)` / `'{}'.format(x)` -/
def Num.str : Num → Str
  | .int i => istr i
  | .dec n c e => decStr n c e
  | .flt i => istr i ++ [46, 48]

/-- `bool(x)` -/
def Num.truthy : Num → Bool
  | .int i => i != 0
  | .dec _ c _ => c != 0
  | .flt i => i != 0

def pow10 (n : Nat) : Nat := 10 ^ n

/-- numeric value as a fraction `num / 10^k` -/
def Num.scaled : Num → Int × Nat
  | .int i => (i, 0)
  | .flt i => (i, 0)
  | .dec n c e =>
    let s : Int := if n then -1 else 1
    if e ≥ 0 then (s * (c * pow10 e.toNat : Nat), 0) else (s * c, (-e).toNat)

/-- `x == k` for an `int` k (numeric equality across int / Decimal / float) -/
def Num.eqInt (x : Num) (k : Int) : Bool :=
  let (n, s) := x.scaled
  n == k * (pow10 s : Nat)

/-- `x > k` -/
def Num.gtInt (x : Num) (k : Int) : Bool :=
  let (n, s) := x.scaled
  n > k * (pow10 s : Nat)

/-- `int(x)`: truncation toward zero -/
def Num.toInt (x : Num) : Int :=
  let (n, s) := x.scaled
  Int.tdiv n (pow10 s : Nat)

def numDigits (c : Nat) : Nat := (nstr c).length

/-- exact `Decimal + Decimal` at the smaller exponent; `unmodelled` where the context (prec 28) would round or
where CPython's zero-operand exponent clamp could apply. -/
def decAdd (n1 : Bool) (c1 : Nat) (e1 : Int) (n2 : Bool) (c2 : Nat) (e2 : Int) : R Num :=
  let e := min e1 e2
  if (e1 - e).toNat > 28 ∨ (e2 - e).toNat > 28 then throw .unmodelled else
  let v1 : Int := (if n1 then -1 else 1) * (c1 * pow10 (e1 - e).toNat : Nat)
  let v2 : Int := (if n2 then -1 else 1) * (c2 * pow10 (e2 - e).toNat : Nat)
  let s := v1 + v2
  if numDigits s.natAbs > 28 then throw .unmodelled
  else if s = 0 then pure (.dec (n1 && n2) 0 e)
  else pure (.dec (decide (s < 0)) s.natAbs e)

/-- `a + b` -/
def Num.add : Num → Num → R Num
  | .int a, .int b => pure (.int (a + b))
  | .int a, .flt b => pure (.flt (a + b))
  | .flt a, .int b => pure (.flt (a + b))
  | .flt a, .flt b => pure (.flt (a + b))
  | .flt _, .dec .. => throw .typeError
  | .dec .., .flt _ => throw .typeError
  | .int a, .dec n c e => decAdd (decide (a < 0)) a.natAbs 0 n c e
  | .dec n c e, .int a => decAdd n c e (decide (a < 0)) a.natAbs 0
  | .dec n1 c1 e1, .dec n2 c2 e2 => decAdd n1 c1 e1 n2 c2 e2

/-- `k * x` for an `int` k -/
def Num.mulInt (k : Int) : Num → R Num
  | .int a => pure (.int (k * a))
  | .flt a => pure (.flt (k * a))
  | .dec n c e =>
    let c' := k.natAbs * c
    if numDigits c' > 28 then throw .unmodelled else pure (.dec (n != decide (k < 0)) c' e)

/-- `None`/number as Python prints it -/
def sNone : Str := [78, 111, 110, 101]
def optStr : Option Num → Str
  | none => sNone
  | some x => x.str

/-- `str.rjust(size, '0')` -/
def rjust0 (size : Nat) (s : Str) : Str := List.replicate (size - s.length) 48 ++ s

/-- `TimexDateHelpers.fixed_format_number(n, size)` = `str(n).rjust(size, '0')` -/
def fixedFormat (n : Option Num) (size : Nat) : Str := rjust0 size (optStr n)

/-- `(x1 and x2 and … and xn) is not None` -/
def andChainNotNone : List (Option Num) → Bool
  | [] => true
  | [x] => x.isSome
  | x :: rest =>
    match x with
    | none => false
    | some v => if v.truthy then andChainNotNone rest else true

def truthyO : Option Num → Bool
  | none => false
  | some v => v.truthy

def truthyS : Option Str → Bool
  | none => false
  | some s => !s.isEmpty

/-! ## `Time` and `Timex` -/

structure Time where
  hour : Num
  minute : Num
  second : Num
deriving DecidableEq, Repr, Inhabited

structure Timex where
  now : Bool := false
  years : Option Num := none
  months : Option Num := none
  weeks : Option Num := none
  days : Option Num := none
  hours : Option Num := none
  minutes : Option Num := none
  seconds : Option Num := none
  year : Option Num := none
  month : Option Num := none
  dayOfMonth : Option Num := none
  dayOfWeek : Option Num := none
  season : Option Str := none
  weekOfYear : Option Num := none
  /-- `False` by default, `True` from the pattern, `None` after `clone_duration` -/
  weekend : Option Bool := some false
  weekOfMonth : Option Num := none
  partOfDay : Option Str := none
  /-- the `__time` attribute shared by the `hour`/`minute`/`second` properties -/
  time : Option Time := none
deriving DecidableEq, Repr, Inhabited

def Timex.hour (t : Timex) : Option Num := t.time.map (·.hour)
def Timex.minute (t : Timex) : Option Num := t.time.map (·.minute)
def Timex.second (t : Timex) : Option Num := t.time.map (·.second)

/-- `timex.hour = v`: a value creates `Time(v, 0, 0)` or updates the hour; `None` deletes the whole `__time`. -/
def Timex.setHour (t : Timex) : Option Num → Timex
  | none => { t with time := none }
  | some v => match t.time with
    | none => { t with time := some ⟨v, .int 0, .int 0⟩ }
    | some tm => { t with time := some { tm with hour := v } }

def Timex.setMinute (t : Timex) : Option Num → Timex
  | none => { t with time := none }
  | some v => match t.time with
    | none => { t with time := some ⟨.int 0, v, .int 0⟩ }
    | some tm => { t with time := some { tm with minute := v } }

def Timex.setSecond (t : Timex) : Option Num → Timex
  | none => { t with time := none }
  | some v => match t.time with
    | none => { t with time := some ⟨.int 0, .int 0, v⟩ }
    | some tm => { t with time := some { tm with second := v } }

/-- `Timex(hour=h, minute=m, second=s, …)`: `__init__` assigns `hour`, `minute`, `second` in this order through
the property setters (so `Timex(hour=5)` ends with no time at all: `minute=None` deletes it). -/
def Timex.initTime (t : Timex) (h m s : Option Num) : Timex := ((t.setHour h).setMinute m).setSecond s

def Timex.fromDate (d : Date) : Timex :=
  { year := some (.int d.y), month := some (.int d.m), dayOfMonth := some (.int d.d) }

def Timex.fromDateTime (d : Date) (h m s : Nat) : Timex :=
  (Timex.fromDate d).initTime (some (.int h)) (some (.int m)) (some (.int s))

def Timex.fromTime (tm : Time) : Timex :=
  ({} : Timex).initTime (some tm.hour) (some tm.minute) (some tm.second)

/-- `Timex.clone` (copies `hour`, `minute`, `second` through the setters: same `Time`, a fresh object). -/
def Timex.clone (t : Timex) : Timex :=
  ({ t with time := none }).initTime t.hour t.minute t.second

/-! ## parsing -/

/-- `int(s)` for a string of Nd digits -/
def parseNatDv (dv : Nat → Option Nat) (s : Str) : Nat :=
  s.foldl (fun acc c => acc * 10 + (dv c).getD 0) 0

/-- `Decimal(s)` for a string of the language `\d*\.?\d+` -/
def parseDecimal (dv : Nat → Option Nat) (s : Str) : Num :=
  let ip := takeDigits dv s
  let rest := s.drop ip.length
  let fp := match rest with
    | 46 :: r => r
    | _ => []
  .dec false (parseNatDv dv (ip ++ fp)) (-(fp.length : Int))

def sY : Str := [89]
def sM : Str := [77]
def sW : Str := [87]
def sD : Str := [68]
def sH : Str := [72]
def sS : Str := [83]

/-- `assign_date_duration` / `assign_time_duration` -/
def Timex.assignDuration (dv : Nat → Option Nat) (t : Timex) (src : Caps) (isDate : Bool) : Timex :=
  match dictGet src (if isDate then .dateUnit else .timeUnit), dictGet src .amount with
  | some u, some a =>
    let v := some (parseDecimal dv a)
    if isDate then
      if u = sY then { t with years := v } else if u = sM then { t with months := v }
      else if u = sW then { t with weeks := v } else if u = sD then { t with days := v } else t
    else
      if u = sH then { t with hours := v } else if u = sM then { t with minutes := v }
      else if u = sS then { t with seconds := v } else t
  | _, _ => t

/-- `Timex.assign_properties(source)`: keys in dict order -/
def Timex.assign (dv : Nat → Option Nat) (t : Timex) (src : Caps) : Timex :=
  src.foldl (fun t kv =>
    let iv : Option Num := some (.int (parseNatDv dv kv.2))
    match kv.1 with
    | .year => { t with year := iv }
    | .month => { t with month := iv }
    | .dayOfMonth => { t with dayOfMonth := iv }
    | .dayOfWeek => { t with dayOfWeek := iv }
    | .season => { t with season := some kv.2 }
    | .weekOfYear => { t with weekOfYear := iv }
    | .weekend => { t with weekend := some true }
    | .weekOfMonth => { t with weekOfMonth := iv }
    | .hour => t.setHour iv
    | .minute => t.setMinute iv
    | .second => t.setSecond iv
    | .partOfDay => { t with partOfDay := some kv.2 }
    | .dateUnit => t.assignDuration dv src true
    | .timeUnit => t.assignDuration dv src false
    | .amount => t) t

def extractDuration (cfg : Cfg) (s : Str) (t : Timex) : Timex :=
  t.assign cfg.dv (extract cfg.dv cfg.period s)

def indexOf (c : Nat) : Str → Option Nat
  | [] => none
  | x :: r => if x = c then some 0 else (indexOf c r).map (· + 1)

def extractDateTime (cfg : Cfg) (s : Str) (t : Timex) : Timex :=
  match indexOf 84 s with
  | none => t.assign cfg.dv (extract cfg.dv cfg.date s)
  | some i =>
    let d := extract cfg.dv cfg.date (s.take i)
    let e := dictMerge d (extract cfg.dv cfg.time (s.drop i))
    t.assign cfg.dv e

/-- `str.split(',')` -/
def splitComma : Str → List Str
  | [] => [[]]
  | c :: r =>
    match splitComma r with
    | [] => [[]]
    | h :: t => if c = 44 then [] :: h :: t else (c :: h) :: t

def extractStartEndRange (cfg : Cfg) (s : Str) (t : Timex) : Timex :=
  match splitComma ((s.drop 1).take (s.length - 2)) with
  | [a, _, c] => extractDuration cfg c (extractDateTime cfg a t)
  | _ => t

def sPresentRef : Str := [80, 82, 69, 83, 69, 78, 84, 95, 82, 69, 70]

/-- `TimexParsing.parse_string(timex, obj)` -/
def parseInto (cfg : Cfg) (s : Str) (t : Timex) : Timex :=
  if s = sPresentRef then { t with now := true }
  else if s.head? = some 80 then extractDuration cfg s t
  else if s.head? = some 40 ∧ s.getLast? = some 41 then extractStartEndRange cfg s t
  else extractDateTime cfg s t

/-- `Timex(s)` -/
def parse (cfg : Cfg) (s : Str) : Timex := parseInto cfg s {}

/-! ## inference -/

structure Types where
  present : Bool := false
  definite : Bool := false
  date : Bool := false
  daterange : Bool := false
  duration : Bool := false
  time : Bool := false
  timerange : Bool := false
  datetime : Bool := false
  datetimerange : Bool := false
deriving DecidableEq, Repr, Inhabited

/-- `__is_duration`: `is not None` tests (since fix b6d61daf1; before it, Python truthiness made `P0D` no duration) -/
def isDuration (t : Timex) : Bool :=
  t.years.isSome || t.months.isSome || t.weeks.isSome || t.days.isSome || t.hours.isSome ||
    t.minutes.isSome || t.seconds.isSome

def isTime (t : Timex) : Bool := t.time.isSome

def isDate (t : Timex) : Bool := (t.month.isSome && t.dayOfMonth.isSome) || truthyO t.dayOfWeek

def isDateRange (t : Timex) : Bool :=
  (t.year.isSome && t.dayOfMonth.isNone) || (t.year.isSome && t.month.isSome && t.dayOfMonth.isNone) ||
    (t.month.isSome && t.dayOfMonth.isNone) || truthyS t.season || truthyO t.weekOfYear || truthyO t.weekOfMonth

def isDefinite (t : Timex) : Bool := t.year.isSome && t.month.isSome && t.dayOfMonth.isSome

/-- `TimexInference.infer` -/
def infer (t : Timex) : Types :=
  let present := t.now
  let definite := isDefinite t
  let date := isDate t || present
  let daterange0 := isDateRange t
  let duration := isDuration t
  let time := isTime t || present
  let timerange := t.partOfDay.isSome || (time && duration)
  let datetime := date && time
  let daterange := daterange0 || (date && duration)
  let datetimerange := (datetime && duration) || (date && timerange)
  { present, definite, date, daterange, duration, time, timerange, datetime, datetimerange }

/-! ## the helpers `format` needs -/

/-- `TimexHelpers.clone_datetime` -/
def cloneDatetime (t : Timex) : Timex :=
  { t.clone with years := none, months := none, weeks := none, days := none, hours := none, minutes := none,
                 seconds := none }

/-- `TimexHelpers.clone_duration` -/
def cloneDuration (t : Timex) : Timex :=
  { t.clone with year := none, month := none, dayOfMonth := none, dayOfWeek := none, weekOfYear := none,
                 weekOfMonth := none, season := none, time := none, weekend := none, partOfDay := none }

/-- `date(y, m, d)` / `datetime(y, m, d, 0, 0, 0)` on field values: needs three `int`s (TypeError for `Decimal`,
`float`, `None`) that form a valid date (ValueError). -/
def mkDate (y m d : Option Num) : R Date :=
  match y, m, d with
  | some (.int y), some (.int m), some (.int d) =>
    if 0 ≤ y ∧ 0 ≤ m ∧ 0 ≤ d then
      let x : Date := ⟨y.toNat, m.toNat, d.toNat⟩
      if x.valid then pure x else throw .valueError
    else throw .valueError
  | _, _, _ => throw .typeError

/-- `d + timedelta(days=k)` -/
def addDays (d : Date) (k : Int) : R Date :=
  if k.natAbs > 999999999 then throw .overflowError else
  match d.addDays k with
  | some r => pure r
  | none => throw .overflowError

/-- an `int` field (the integer arithmetic of `timex_date_add` / `timex_time_add` / `add_time` is modelled for `int`
fields only: `None` is Python's TypeError, a `Decimal`/`float` field is `unmodelled`) -/
def needInt : Option Num → R Int
  | none => throw .typeError
  | some (.int i) => pure i
  | some _ => throw .unmodelled

/-- `calendar.isleap` on any `int` -/
def isLeapInt (y : Int) : Bool := y.fmod 4 == 0 && (y.fmod 100 != 0 || y.fmod 400 == 0)

/-- `calendar.monthrange(y, m)[1]` for `1 ≤ m ≤ 12` -/
def monthLen (y m : Int) : Int :=
  if m = 2 then (if isLeapInt y then 29 else 28)
  else if m = 4 ∨ m = 6 ∨ m = 9 ∨ m = 11 then 30 else 31

def optAdd (a : Option Num) (b : Num) : R Num :=
  match a with
  | none => throw .typeError
  | some a => a.add b

/-- `TimexHelpers.timex_date_add(start, duration)` -/
def timexDateAdd (start duration : Timex) : R Timex := do
  let durationDays : Option Num ←
    match duration.days, duration.weeks with
    | none, some w => (Num.mulInt 7 w).map some
    | d, _ => pure d
  if truthyO start.dayOfWeek then
    let e := start.clone
    if truthyO duration.days then
      let v ← optAdd e.dayOfWeek (duration.days.getD (.int 0))
      return { e with dayOfWeek := some v }
    else return e
  if start.month.isSome ∧ start.dayOfMonth.isSome then
    if truthyO durationDays then
      let k := (durationDays.getD (.int 0)).toInt
      if truthyO start.year then
        let d ← mkDate start.year start.month start.dayOfMonth
        let d ← addDays d k
        return { year := some (.int d.y), month := some (.int d.m), dayOfMonth := some (.int d.d) }
      else
        let d ← mkDate (some (.int 2001)) start.month start.dayOfMonth
        let d ← addDays d k
        return { month := some (.int d.m), dayOfMonth := some (.int d.d) }
    if truthyO duration.years ∧ truthyO start.year then
      let y ← optAdd start.year (duration.years.getD (.int 0))
      return { year := some y, month := start.month, dayOfMonth := start.dayOfMonth }
    if truthyO duration.months ∧ truthyO start.month then
      -- fix 2eecbadfd: months carry into the year, the day is clamped to the month's length
      let sm ← needInt start.month
      let months : Int := sm - 1 + (duration.months.getD (.int 0)).toInt
      let yr : Option Num ← match start.year with
        | none => pure none
        | some y => (y.add (.int (months.fdiv 12))).map some
      let mo : Int := months.fmod 12 + 1
      let yy : Int ← match yr with
        | some v => if v.truthy then needInt (some v) else pure 2001
        | none => pure 2001
      let dom ← needInt start.dayOfMonth
      return { year := yr, month := some (.int mo), dayOfMonth := some (.int (min dom (monthLen yy mo))) }
    return start
  return start

/-- `TimexHelpers.timex_time_add(start, duration)` (since fix 0f14e3017 minutes carry into hours arithmetically
and then go through the same day roll-over as hours) -/
def timexTimeAdd (start duration : Timex) : R Timex := do
  if duration.hours.isSome ∨ duration.minutes.isSome then
    let r := start.clone
    let r ← match duration.hours with
      | some dh => do
        let h ← needInt r.hour
        pure (r.setHour (some (.int (h + dh.toInt))))
      | none => do
        let m ← needInt r.minute
        let minute : Int := m + (duration.minutes.getD (.int 0)).toInt
        let h ← needInt r.hour
        pure ((r.setHour (some (.int (h + minute.fdiv 60)))).setMinute (some (.int (minute.fmod 60))))
    let h ← needInt r.hour
    if h > 23 then
      let days : Int := h.fdiv 24
      let r := r.setHour (some (.int (h.fmod 24)))
      if andChainNotNone [r.year, r.month, r.dayOfMonth] then
        let d ← mkDate r.year r.month r.dayOfMonth
        let d ← addDays d days
        return { r with year := some (.int d.y), month := some (.int d.m), dayOfMonth := some (.int d.d) }
      match r.dayOfWeek with
      | some w =>
        let v ← w.add (.int days)
        return { r with dayOfWeek := some v }
      | none => return r
    else return r
  else return start

/-- `TimexHelpers.timex_datetime_add` -/
def timexDatetimeAdd (start duration : Timex) : R Timex := do
  let a ← timexDateAdd start duration
  timexTimeAdd a duration

structure TimexRange where
  start : Timex
  «end» : Timex
  duration : Option Timex := none
deriving Repr, Inhabited

/-- `TimexHelpers.expand_datetime_range(timex)` -/
def expandDatetimeRange (t : Timex) : R TimexRange := do
  if (infer t).duration then
    let start := cloneDatetime t
    let duration := cloneDuration t
    let e ← timexDatetimeAdd start duration
    return ⟨start, e, some duration⟩
  else
    match t.year with
    | some y =>
      match t.month with
      | some m =>
        -- fix 755e719dd: December ends on January 1st of the next year (before: month 13 of the same year)
        if m.eqInt 12 then
          let y1 ← y.add (.int 1)
          return ⟨{ year := some y, month := some m, dayOfMonth := some (.int 1) },
                  { year := some y1, month := some (.int 1), dayOfMonth := some (.int 1) }, none⟩
        else
          let m1 ← m.add (.int 1)
          return ⟨{ year := some y, month := some m, dayOfMonth := some (.int 1) },
                  { year := some y, month := some m1, dayOfMonth := some (.int 1) }, none⟩
      | none =>
        let y1 ← y.add (.int 1)
        return ⟨{ year := some y, month := some (.int 1), dayOfMonth := some (.int 1) },
                { year := some y1, month := some (.int 1), dayOfMonth := some (.int 1) }, none⟩
    | none => return ⟨{}, {}, none⟩

/-! ## formatting -/

def sXXXX : Str := [88, 88, 88, 88]
def sWXX : Str := [87, 88, 88]

def formatDuration (t : Timex) : Str :=
  if t.years.isSome then 80 :: optStr t.years ++ [89]
  else if t.months.isSome then 80 :: optStr t.months ++ [77]
  else if t.weeks.isSome then 80 :: optStr t.weeks ++ [87]
  else if t.days.isSome then 80 :: optStr t.days ++ [68]
  else if t.hours.isSome then 80 :: 84 :: optStr t.hours ++ [72]
  else if t.minutes.isSome then 80 :: 84 :: optStr t.minutes ++ [77]
  else if t.seconds.isSome then 80 :: 84 :: optStr t.seconds ++ [83]
  else []

def eq0 : Option Num → Bool
  | none => false
  | some x => x.eqInt 0

def formatTime (t : Timex) : Str :=
  if eq0 t.minute && eq0 t.second then 84 :: fixedFormat t.hour 2
  else if eq0 t.second then 84 :: fixedFormat t.hour 2 ++ 58 :: fixedFormat t.minute 2
  else 84 :: fixedFormat t.hour 2 ++ 58 :: fixedFormat t.minute 2 ++ 58 :: fixedFormat t.second 2

def formatDate (t : Timex) : Str :=
  if andChainNotNone [t.year, t.month, t.dayOfMonth] then
    fixedFormat t.year 4 ++ 45 :: fixedFormat t.month 2 ++ 45 :: fixedFormat t.dayOfMonth 2
  else if t.month.isSome ∧ t.dayOfMonth.isSome then
    sXXXX ++ 45 :: fixedFormat t.month 2 ++ 45 :: fixedFormat t.dayOfMonth 2
  else if t.dayOfWeek.isSome then sXXXX ++ 45 :: sWXX ++ 45 :: optStr t.dayOfWeek
  else []

def formatDateRange (t : Timex) : Str :=
  if t.year.isSome ∧ t.weekOfYear.isSome ∧ t.weekend = some true then
    fixedFormat t.year 4 ++ [45, 87] ++ fixedFormat t.weekOfYear 2 ++ [45, 87, 69]
  else if t.year.isSome ∧ t.weekOfYear.isSome then
    fixedFormat t.year 4 ++ [45, 87] ++ fixedFormat t.weekOfYear 2
  else if t.year.isSome ∧ t.season.isSome then fixedFormat t.year 4 ++ 45 :: t.season.getD []
  else if truthyS t.season then t.season.getD []
  else if t.year.isSome ∧ t.month.isSome then fixedFormat t.year 4 ++ 45 :: fixedFormat t.month 2
  else if truthyO t.year then fixedFormat t.year 4
  else if t.month.isSome ∧ t.weekOfMonth.isSome ∧ t.dayOfWeek.isSome then
    sXXXX ++ 45 :: fixedFormat t.month 2 ++ 45 :: sWXX ++ 45 :: optStr t.weekOfMonth ++ 45 :: optStr t.dayOfWeek
  else if t.month.isSome ∧ t.weekOfMonth.isSome then
    -- `XXXX-MM-Wnn`, the form the parser reads (fix 127911630; before: `XXXX-MM-WXX-n`, which no pattern accepts)
    sXXXX ++ 45 :: fixedFormat t.month 2 ++ 45 :: 87 :: fixedFormat t.weekOfMonth 2
  else if truthyO t.month then sXXXX ++ 45 :: fixedFormat t.month 2
  else []

def formatTimeRange (t : Timex) : Str :=
  match t.partOfDay with
  | some p => 84 :: p
  | none => []

/-- `TimexFormat.format` with the recursion through `expand_datetime_range` bounded by fuel (the pieces of a
range carry no duration / only a duration, so depth 2 is all the code can reach; `formatT` uses fuel 3). -/
def formatFuel : Nat → Timex → R Str
  | 0, _ => throw .unmodelled
  | fuel + 1, t => do
    let ty := infer t
    if ty.present then return sPresentRef
    if (ty.datetimerange || ty.daterange || ty.timerange) && ty.duration then
      let r ← expandDatetimeRange t
      let a ← formatFuel fuel r.start
      let b ← formatFuel fuel r.end
      let c ← match r.duration with
        | some d => formatFuel fuel d
        | none => pure sNone
      return 40 :: a ++ 44 :: b ++ 44 :: c ++ [41]
    if ty.datetimerange then return formatDate t ++ formatTimeRange t
    if ty.daterange then return formatDateRange t
    if ty.timerange then return formatTimeRange t
    if ty.datetime then return formatDate t ++ formatTime t
    if ty.duration then return formatDuration t
    if ty.date then return formatDate t
    if ty.time then return formatTime t
    return []

/-- `Timex.timex_value()` -/
def formatT (t : Timex) : R Str := formatFuel 3 t

end RTV.Timex
