import RTV.Model.Dec
/-!
L4 `Num` — mirrors recognizers_number/number/parsers.py (`BaseNumberParser`) and the per-culture
parser configurations:

* `digitalValue`  = `_get_digital_value` (with `__skip_non_decimal_separator`), under `@precision(15)` → the
  precision is a parameter `p`;
* `digitResolution` = `_digit_number_parse` (no `digital_number_regex` hit: power 1) followed by the formatting of
  `parse` (`culture_info.format`); `percentResolution` = `BasePercentageParser.parse`'s suffix rule;
* `getIntValue` = `__get_int_value`: end-flag scan, the stack algorithm, the round-number recursion;
* `resolveComposite` = the three `resolve_composite_number` implementations (en/de/it/nl, fr/pt, es);
* `normalizeTokenSetEn` = English `normalize_token_set`;
* `cjkIntValue` = `CJKNumberParser.get_int_value` after its regex pre-checks (no dozen / pair / sign).

The regex tokenisation (`text_number_regex`, extractors) is outside the model: the model starts from token lists.
Values inside `__get_int_value` are Python ints and `Decimal`s with exponent 0; they are modelled as `Nat` (exact as
long as every intermediate value has at most `p` digits — `Props/C04` proves the results are `< 10^15`).
Import-free.
-/
namespace RTV.Num
open RTV.Py RTV.Dec

inductive Err
  | indexError      -- IndexError (pop from empty list, [0] of an empty list)
  | zeroDiv         -- decimal.DivisionByZero / InvalidOperation of x/0
  | invalid         -- decimal.InvalidOperation of Decimal(c) / ValueError of int(s)
  | keyError
deriving DecidableEq, Repr

/-- What the code asks about a character: `c.isdigit()` and `Decimal(c)` (`none` = raises). -/
structure DigitTab where
  isDigit : Nat → Bool
  value : Nat → Option Nat

/-- ASCII-only instance (used in closed examples; the driver uses the interpreter's Unicode table). -/
def asciiDigits : DigitTab where
  isDigit c := 48 ≤ c && c ≤ 57
  value c := if 48 ≤ c && c ≤ 57 then some (c - 48) else none

/-- The separator configuration `_get_digital_value` reads from the parser configuration. -/
structure SepCfg where
  decSep : Nat
  nonDecSep : Nat
  multiDec : Bool         -- config.is_multi_decimal_separator_culture
  nonStdVariant : Bool    -- culture_info.code in config.non_standard_separator_variants
deriving DecidableEq, Repr

def NBSP : Nat := 0x202F    -- Constants.NO_BREAK_SPACE (narrow no-break space)

/-- last index of the decimal separator, last and first index of the non-decimal separator (the `enumerate`
loop; `elif`: a character equal to both counts as decimal separator). -/
def scanSeps (dec non : Nat) : Str → Nat → (Option Nat × Option Nat × Option Nat) → (Option Nat × Option Nat × Option Nat)
  | [], _, st => st
  | c :: r, i, (ld, ln, fn) =>
    if c == dec then scanSeps dec non r (i + 1) (some i, ln, fn)
    else if c == non then scanSeps dec non r (i + 1) (ld, some i, if fn.isNone then some i else fn)
    else scanSeps dec non r (i + 1) (ld, ln, fn)

/-- The separators in force and `has_single_separator`, after the multi-decimal-separator pre-processing. -/
def effectiveSeps (c : SepCfg) (s : Str) : Nat × Nat × Bool :=
  if c.multiDec then
    let (dec, non) := if c.nonStdVariant then (c.nonDecSep, c.decSep) else (c.decSep, c.nonDecSep)
    let (ld, ln, fn) := scanSeps dec non s 0 (none, none, none)
    -- ((ld < 0 <= ln) or (ln < 0 <= ld)) and first_non == last_non      (first_non = sys.maxsize if absent)
    if ((ld.isNone && ln.isSome) || (ln.isNone && ld.isSome)) && (fn.isSome && fn == ln) then (dec, non, true)
    else
      match ld, ln with
      | some a, some b => if a < b then (non, dec, false) else (dec, non, false)
      | _, _ => (dec, non, false)
  else (c.decSep, c.nonDecSep, false)

/-- `__skip_non_decimal_separator` -/
def skipNonDecimal (multiDec : Bool) (ch distEnd distStart : Nat) (hasSingle : Bool) (prev non : Nat) : Bool :=
  let r := ch == non
  if multiDec && hasSingle then
    if distEnd != 4 || (prev == 48 && distStart == 1) || distStart > 3 then false else r
  else r

structure DVState where
  tmp : Dec := Dec.zero
  scale : Dec := Dec.ofNat 10
  hasDec : Bool := false
  negative : Bool := false
  stack : List Dec := []      -- call_stack, most recent first
deriving Repr

/-- `len(s) - len(s.lstrip('- '))`: length of the leading run of signs / spaces. -/
def leadLen : Str → Nat
  | c :: r => if c == 45 || c == 32 then leadLen r + 1 else 0
  | [] => 0

/-- The main loop of `_get_digital_value`: `i` = index of `c`, `prev` = previous character (0 at the start),
`lead` = offset of the first character after a leading sign (`distance_start = i - lead`; where `i < lead` the
character is a sign or a space, never a separator that the multi-decimal rule concerns, so truncated subtraction
gives the same answers as Python's negative distance). -/
def dvLoop (p : Nat) (tab : DigitTab) (multiDec fraction : Bool) (dec non : Nat) (hasSingle : Bool) (len lead : Nat) :
    Str → Nat → Nat → DVState → Except Err DVState
  | [], _, _, st => .ok st
  | c :: r, i, prev, st =>
    let skippable := skipNonDecimal multiDec c (len - i) (i - lead) hasSingle prev non
    if !fraction && (c == 32 || c == NBSP || skippable) then dvLoop p tab multiDec fraction dec non hasSingle len lead r (i + 1) c st
    else if c == 32 || c == 47 then
      dvLoop p tab multiDec fraction dec non hasSingle len lead r (i + 1) c { st with stack := st.tmp :: st.stack, tmp := Dec.zero }
    else if tab.isDigit c then
      match tab.value c with
      | none => .error .invalid
      | some d =>
        if st.hasDec then
          dvLoop p tab multiDec fraction dec non hasSingle len lead r (i + 1) c
            { st with tmp := Dec.add p st.tmp (Dec.mul p st.scale (Dec.ofNat d)),
                      scale := Dec.mul p st.scale Dec.pointOne }
        else
          dvLoop p tab multiDec fraction dec non hasSingle len lead r (i + 1) c
            { st with tmp := Dec.add p (Dec.mul p st.tmp st.scale) (Dec.ofNat d) }
    else if c == dec || (!skippable && c == non) then
      dvLoop p tab multiDec fraction dec non hasSingle len lead r (i + 1) c { st with hasDec := true, scale := Dec.pointOne }
    else if c == 45 then
      dvLoop p tab multiDec fraction dec non hasSingle len lead r (i + 1) c { st with negative := true }
    else dvLoop p tab multiDec fraction dec non hasSingle len lead r (i + 1) c st

/-- The part of `_get_digital_value` after the loop: `call_stack.append(tmp)`, the fraction quotient, the sum of the
stack, the power, the sign. -/
def dvFinish (p : Nat) (fraction : Bool) (st : DVState) (power : Nat) : Except Err Dec := do
  let stack := st.tmp :: st.stack                       -- call_stack.append(tmp); head = last pushed
  let (cal, rest) ←
    if fraction then
      match stack with
      | deno :: mole :: rest =>
        match Dec.div p mole deno with
        | none => Except.error Err.zeroDiv
        | some q => pure (Dec.add p Dec.zero q, rest)
      | _ => Except.error Err.indexError
    else pure (Dec.zero, stack)
  let cal := rest.reverse.foldl (fun acc n => Dec.add p acc n) cal      -- `for n in call_stack` (oldest first)
  let cal := Dec.mul p cal (Dec.ofNat power)
  pure (if st.negative then Dec.mul p cal (Dec.ofInt (-1)) else cal)

/-- `_get_digital_value(digits_str, power)` under `@precision(prec=p)`. -/
def digitalValue (p : Nat) (tab : DigitTab) (c : SepCfg) (s : Str) (power : Nat) : Except Err Dec := do
  let fraction := s.contains 47
  let (dec, non, hasSingle) := effectiveSeps c s
  let st ← dvLoop p tab c.multiDec fraction dec non hasSingle s.length (leadLen s) s 0 0 {}
  dvFinish p fraction st power

/-- `_digit_number_parse` + `parse` on a digit literal that contains no round-number word / multiplier suffix
and no negative *term*: resolution string. -/
def digitResolution (p : Nat) (tab : DigitTab) (c : SepCfg) (lf : Option (Nat × Nat)) (text : Str) : Except Err Str := do
  let v ← digitalValue p tab c text 1
  pure (Dec.format lf v)

/-- `BasePercentageParser.parse`: the number's resolution string, stripped, with `%` appended unless present. -/
def percentSuffix (isSpace : Nat → Bool) (res : Str) : Str :=
  if res.isEmpty then res
  else
    let t := strip isSpace res
    if endsWith t [37] then res else t ++ [37]

def percentResolution (p : Nat) (tab : DigitTab) (c : SepCfg) (lf : Option (Nat × Nat)) (isSpace : Nat → Bool)
    (numberText : Str) : Except Err Str := do
  let r ← digitResolution p tab c lf numberText
  pure (percentSuffix isSpace r)

/-- `CJKNumberParser.per_parse`, branch `'Num' in source.data` without a k/M/G/T multiplier, on the text in front
of the percent sign: `get_digit_value` (sign strip, `float(_get_digital_value(...))`, negate) and
`__format(value) + '%'` — the value is a Python float here. `negSigns` = the single characters the culture's
`negative_number_sign_regex` accepts at the start. -/
def cjkPercentResolution (p : Nat) (tab : DigitTab) (c : SepCfg) (lf : Option (Nat × Nat)) (negSigns : List Nat)
    (text : Str) : Except Err Str := do
  let neg := match text with
    | ch :: _ => negSigns.contains ch
    | [] => false
  let body := if neg then text.drop 1 else text
  let v ← digitalValue p tab c body 1
  let v := if neg then Dec.negate v else v
  pure (Dec.formatStr lf (Dec.floatRepr v) ++ [37])

/-! ### `__get_int_value` -/

inductive ResolveKind
  | hyphen      -- English, German, Italian, Dutch
  | greedyGt    -- French, Portuguese
  | greedyPos   -- Spanish
deriving DecidableEq, Repr

structure LangCfg where
  cardinal : List (Str × Nat)
  ordinal : List (Str × Nat)
  round : List (Str × Nat)
  writtenIntSep : List Str       -- written_integer_separator_texts
  resolve : ResolveKind

def lookup (m : List (Str × Nat)) (k : Str) : Option Nat :=
  match m with
  | [] => none
  | (a, v) :: r => if a == k then some v else lookup r k

def hasKey (m : List (Str × Nat)) (k : Str) : Bool := (lookup m k).isSome

/-- `str.split('-')` -/
def splitHyphen (s : Str) : List Str := Dec.splitOn [45] s

/-- French / Portuguese greedy scan. State: i, str_builder (reversed), value, final, last_good. -/
def greedyGt (card : List (Str × Nat)) (s : Array Nat) : Nat → Nat → List Nat → Nat → Nat → Nat → Nat
  | 0, _, _, _, final, _ => final
  | fuel + 1, i, sb, value, final, lastGood =>
    if i < s.size then
      let sb := s[i]! :: sb
      let (lastGood, value) :=
        match lookup card sb.reverse with
        | some v => if v > value then (i, v) else (lastGood, value)
        | none => (lastGood, value)
      if i + 1 == s.size then greedyGt card s fuel (lastGood + 1) [] 0 (final + value) (lastGood + 1)
      else greedyGt card s fuel (i + 1) sb value final lastGood
    else final

/-- Spanish greedy scan. -/
def greedyPos (card : List (Str × Nat)) (s : Array Nat) : Nat → Nat → List Nat → Nat → Nat → Nat → Nat
  | 0, _, _, _, final, _ => final
  | fuel + 1, i, sb, value, final, lastGood =>
    if i < s.size then
      let sb := s[i]! :: sb
      let (lastGood, value) :=
        match lookup card sb.reverse with
        | some v => if v > 0 then (i, v) else (lastGood, value)
        | none => (lastGood, value)
      if i + 1 == s.size then greedyPos card s fuel (lastGood + 1) [] 0 (final + value) (lastGood + 1)
      else greedyPos card s fuel (i + 1) sb value final lastGood
    else final

/-- `config.resolve_composite_number(number_str)` -/
def resolveComposite (c : LangCfg) (s : Str) : Nat :=
  match c.resolve with
  | .hyphen =>
    if s.contains 45 then
      (splitHyphen s).foldl (fun acc w =>
        match lookup c.ordinal w with
        | some v => acc + v
        | none => match lookup c.cardinal w with
          | some v => acc + v
          | none => acc) 0
    else match lookup c.ordinal s with
      | some v => v
      | none => (lookup c.cardinal s).getD 0
  | .greedyGt =>
    match lookup c.ordinal s with
    | some v => v
    | none => match lookup c.cardinal s with
      | some v => v
      | none => greedyGt c.cardinal s.toArray ((s.length + 1) * (s.length + 1) + 1) 0 [] 0 0 0
  | .greedyPos =>
    match lookup c.ordinal s with
    | some v => v
    | none => match lookup c.cardinal s with
      | some v => v
      | none => greedyPos c.cardinal s.toArray ((s.length + 1) * (s.length + 1) + 1) 0 [] 0 0 0

/-- Right-to-left end-flag scan over a list (`ef` enters from the right): flags and the final `end_flag`. -/
def scanR (round : List (Str × Nat)) : List Str → Nat → List Bool × Nat
  | [], ef => ([], ef)
  | t :: ts, ef =>
    let (fs, e) := scanR round ts ef
    match lookup round t with
    | some r => if e > r then (false :: fs, e) else (true :: fs, r)
    | none => (false :: fs, e)

/-- `is_end` and `end_flag` of `__get_int_value`. Two variants of the code are modelled (DESIGN 2.5):
`fx = false`: the scan is `range(len - 1, 0, -1)` — index 0 is never examined (the code as first found, a mis-port
of the C# loop `i >= 0`); `fx = true`: `range(len - 1, -1, -1)` (findings/num/int-value-leading-round.diff).
The correspondence probes which variant the working tree follows. -/
def endFlags (fx : Bool) (round : List (Str × Nat)) : List Str → List Bool × Nat
  | [] => ([], 1)
  | t :: ts => if fx then scanR round (t :: ts) 1 else let (fs, e) := scanR round ts 1; (false :: fs, e)

/-- Python `str.isdigit()` of a token and `int(token)`. -/
def tokenInt (tab : DigitTab) (s : Str) : Option (Except Err Nat) :=
  if s.isEmpty || !s.all tab.isDigit then none
  else some (s.foldl (fun acc c => do
    let a ← acc
    match tab.value c with
    | some d => pure (a * 10 + d)
    | none => Except.error Err.invalid) (pure 0))

/-- The `end_flag == 1` branch: the stack walk. `stack` has the top first; `oldSym` starts as `''`. -/
def stackWalk (tab : DigitTab) (c : LangCfg) : List Str → List Nat → Str → Except Err (List Nat)
  | [], stack, _ => .ok stack
  | m :: rest, stack, oldSym =>
    let card := lookup c.cardinal m
    let ord := lookup c.ordinal m
    if card.isSome || ord.isSome then
      match ord with
      | some frac =>
        match stack with
        | intPart :: below =>
          if intPart ≥ frac then stackWalk tab c rest ((intPart + frac) :: below) m
          else stackWalk tab c rest [(intPart + below.foldl (· + ·) 0) * frac] m
        | [] => stackWalk tab c rest [frac] m
      | none =>
        let v := card.getD 0
        if oldSym = [45] then
          match stack with
          | top :: below => stackWalk tab c rest ((top + v) :: below) m
          | [] => .error .indexError
        else
          match c.writtenIntSep with
          | [] => .error .indexError
          | sep0 :: _ =>
            if oldSym = sep0 || stack.length < 2 then stackWalk tab c rest (v :: stack) m
            else
              match stack with
              | a :: b :: below => stackWalk tab c rest ((a + v + b) :: below) m
              | _ => stackWalk tab c rest stack m      -- unreachable (length ≥ 2)
    else
      match tokenInt tab m with
      | some (.ok n) => stackWalk tab c rest (n :: stack) m
      | some (.error e) => .error e
      | none =>
        let cv := resolveComposite c m
        if cv != 0 then stackWalk tab c rest (cv :: stack) m else stackWalk tab c rest stack m

def stackEval (tab : DigitTab) (c : LangCfg) (toks : List Str) : Except Err Nat := do
  let st ← stackWalk tab c toks [] []
  pure (st.foldl (· + ·) 0)

/-- Result of the fuelled recursion: a value, a Python exception, or "ran out of fuel" (a modelling artefact:
every recursive call is on a strictly shorter list, so `length + 3` never runs out). -/
inductive Res
  | ok (n : Nat)
  | err (e : Err)
  | fuel
deriving DecidableEq, Repr

def Res.ofExcept : Except Err Nat → Res
  | .ok n => .ok n
  | .error e => .err e

/-- `a + b` / `m * a` on results, left operand evaluated first. -/
def Res.add : Res → Res → Res
  | .ok a, .ok b => .ok (a + b)
  | .ok _, r => r
  | r, _ => r

def Res.scale (m : Nat) : Res → Res
  | .ok a => .ok (m * a)
  | r => r

/-- The `else` branch: walk tokens with their flags; `cur` = tokens since the last end word (reversed).
At an end word: `mul_value * part_value` with `part_value = __get_int_value(matches[last_index:i])`
(`fx = false`: whenever `i != 0`, so an empty slice counts 0; `fx = true`: whenever `i != last_index`, an empty
slice counts 1); at the end the remainder, if any. -/
def segGo (fx : Bool) (rec : List Str → Res) (round : List (Str × Nat)) : List (Str × Bool) → List Str → Res
  | [], cur => if cur.isEmpty then .ok 0 else rec cur.reverse
  | (t, true) :: rest, cur =>
    Res.add (Res.scale ((lookup round t).getD 0) (if fx && cur.isEmpty then .ok 1 else rec cur.reverse))
      (segGo fx rec round rest [])
  | (t, false) :: rest, cur => segGo fx rec round rest (t :: cur)

/-- `__get_int_value(matches)` with recursion depth `fuel`. -/
def getIntValueF (fx : Bool) (tab : DigitTab) (c : LangCfg) : Nat → List Str → Res
  | 0, _ => .fuel
  | fuel + 1, toks =>
    let (flags, ef) := endFlags fx c.round toks
    if ef == 1 then Res.ofExcept (stackEval tab c toks)
    else segGo fx (getIntValueF fx tab c fuel) c.round (toks.zip flags) []

def getIntValue (fx : Bool) (tab : DigitTab) (c : LangCfg) (toks : List Str) : Res :=
  getIntValueF fx tab c (toks.length + 3) toks

/-- `_text_number_parse` on an already tokenised integer part without a written decimal separator:
`int_part_real + Decimal(point_part_real)` with `point_part_real = Decimal(0)`, then `culture_info.format`. -/
def textResolution (fx : Bool) (p : Nat) (tab : DigitTab) (c : LangCfg) (lf : Option (Nat × Nat)) (toks : List Str) :
    Res × Str :=
  match getIntValue fx tab c toks with
  | .ok n => (.ok n, Dec.format lf (Dec.add p (Dec.ofNat n) Dec.zero))
  | r => (r, [])

/-! ### English `normalize_token_set` -/

def normalizeTokenSetEn (ordinal : List (Str × Nat)) : Nat → List Str → List Str
  | 0, _ => []
  | _, [] => []
  | fuel + 1, t :: rest =>
    if t.contains 45 then
      match splitHyphen t with
      | [a, b] => if hasKey ordinal b then a :: b :: normalizeTokenSetEn ordinal fuel rest
                  else t :: normalizeTokenSetEn ordinal fuel rest
      | _ => t :: normalizeTokenSetEn ordinal fuel rest
    else
      match rest with
      | h :: t2 :: rest2 =>
        if h = [45] then
          if hasKey ordinal t2 then t :: t2 :: normalizeTokenSetEn ordinal fuel rest2
          else (t ++ h ++ t2) :: normalizeTokenSetEn ordinal fuel rest2
        else t :: normalizeTokenSetEn ordinal fuel rest
      | _ => t :: normalizeTokenSetEn ordinal fuel rest

/-! ### CJK `get_int_value` (after the dozen / pair / sign pre-checks and `replace_unit`) -/

structure CjkCfg where
  zeroToNine : List (Str × Nat)      -- integer-valued entries (the translator lists the others)
  roundChar : List (Str × Nat)
  roundDirect : List Str
  tenChars : List Str
  zeroChar : Str
  japanese : Bool                    -- culture_info.code == Culture.Japanese

structure CjkState where
  intValue : Nat := 0
  partValue : Nat := 0
  beforeValue : Nat := 1
  isRoundBefore : Bool := false
  roundBefore : Option Nat := none     -- -1 = none
  roundDefault : Nat := 1
  hasPrevDigits : Bool := false

/-- One pass over the characters; `round_default = round_recent / 10` is exact for the table values
(`Props/C04.cjk_round_div10`). -/
def cjkLoop (tab : DigitTab) (c : CjkCfg) : List Nat → CjkState → CjkState
  | [], st => st
  | ch :: rest, st =>
    let isLast := rest.isEmpty
    let st' : CjkState :=
      match lookup c.roundChar [ch] with
      | some rr =>
        let st1 : CjkState :=
          match st.roundBefore with
          | some rb =>
            if rr > rb then
              if st.isRoundBefore then
                { st with intValue := st.intValue + st.partValue * rr, isRoundBefore := false,
                          roundBefore := none, partValue := 0 }
              else
                let pv := st.partValue + st.beforeValue * st.roundDefault
                { st with intValue := st.intValue + pv * rr, roundBefore := none, partValue := 0 }
            else
              let pv := st.partValue + st.beforeValue * rr
              if isLast || c.roundDirect.contains [ch] then
                { st with isRoundBefore := true, roundBefore := some rr, intValue := st.intValue + pv, partValue := 0 }
              else { st with isRoundBefore := true, roundBefore := some rr, partValue := pv }
          | none =>
            let pv := st.partValue + st.beforeValue * rr
            if isLast || c.roundDirect.contains [ch] then
              { st with isRoundBefore := true, roundBefore := some rr, intValue := st.intValue + pv, partValue := 0 }
            else { st with isRoundBefore := true, roundBefore := some rr, partValue := pv }
        { st1 with roundDefault := rr / 10 }
      | none =>
        match lookup c.zeroToNine [ch] with
        | some d =>
          match rest with
          | nxt :: _ =>
            let isNotRoundNext := c.tenChars.contains [nxt] || !(hasKey c.roundChar [nxt])
            if [ch] = c.zeroChar && isNotRoundNext then { st with beforeValue := 1, roundDefault := 1 }
            else
              { st with beforeValue := if st.hasPrevDigits then st.beforeValue * 10 + d else d,
                        isRoundBefore := false }
          | [] =>
            let rd := if c.japanese || tab.isDigit ch then 1 else st.roundDefault
            let bv := if st.hasPrevDigits then st.beforeValue * 10 + d else d
            { st with roundDefault := rd, beforeValue := bv,
                      intValue := st.intValue + (st.partValue + bv * rd), partValue := 0 }
        | none => st
    cjkLoop tab c rest { st' with hasPrevDigits := tab.isDigit ch }

def cjkIntValue (tab : DigitTab) (c : CjkCfg) (s : Str) : Nat := (cjkLoop tab c s {}).intValue

end RTV.Num
