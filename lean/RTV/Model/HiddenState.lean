/-!
L9c `HiddenState` — the inventory of state that can survive a recognise call (C02), and what an inventory buys.

Two parts.

**1. Inventory rows.** `harness/translate/hiddenstate.py` walks every module of the seven libraries (pure `ast`) and
emits `RTV/Gen/HiddenState.lean`: seven sorted tables of rows, one row = one line of text
`<module>:<qualified name> <kind> <target>[ xN]` as a code-point list (class-level containers, writers of class-level
state, module-level state mutated by functions, decorators / memoisers / mutable defaults / closure state, instance
state written outside `__init__`, in-place mutation of arguments, process- and thread-global settings).
The committed allow-list (`RTV/Props/C02State.lean`) is a list of `Entry`: the row, how the site is covered
(`Cover`), and the theorems there say *regenerated table ⊆ allow-list* — a new class-level dict, a new `lru_cache`,
a new `global`, a new in-place mutation breaks an obligation on the next run.
Containment is decided through a positional key (`key`: one `Nat` per row, compared by the kernel's GMP arithmetic) and
then confirmed on the code points themselves, so no injectivity argument is needed (`covered_sound`).

**2. What the inventory buys: a frame theorem.** A process is a store `Site → Val`; a call is a function of its
request and the store that returns an answer and a new store. If every call of a history writes only sites in `W`
(the inventory: a syntactic over-approximation of the stores that exist in the code) and the answer of the call in
question reads only sites in `S`, and no site is both (`S ∩ W = ∅`), then the answer after the history is the answer on
the initial store (`frame_pure`). The sites that are in both are exactly the ones the allow-list tags `modelled`
(`ModelFactory.__cache`: RTV.Model.Factory, proved transparent by `cache_transparent`; the decimal context:
RTV.Model.Conc, `decorated_prec_indep`); for these `frame_pure_modulo` asks for transparency as a hypothesis.
Core Lean only.
-/
namespace RTV.HiddenState

/-! ### rows, keys, containment -/

/-- a row of an inventory table: a line of text as code points -/
abbrev Row := List Nat

/-- how an allow-listed site is covered -/
inductive Cover
  /-- explicit in the Lean model (the model cache in `RTV.Factory`, the decimal context in `RTV.Conc`) and proved transparent -/
  | modelled
  /-- the mutated object was created by the same top-level call (or by the caller for this call): it cannot outlive it -/
  | callLocal
  /-- written only while a model / matcher / configuration is being constructed; never after the object is published -/
  | construction
  /-- a class-level table that no code writes (data; snapshot-compared at run time on every check) -/
  | constant
  /-- the clock is read only when the caller passed no reference date (outside the property's quantifier), or the value
      read does not reach the answer -/
  | clockDefault
  /-- a package the recognisers do not call on the recognise path (the TIMEX data type's own API) -/
  | offPath
deriving DecidableEq, Repr

structure Entry where
  row : Row
  cover : Cover
deriving DecidableEq, Repr

/-- positional key of a row: base 1114112 (one digit per code point) under a leading 1 -/
def key (r : Row) : Nat := r.foldl (fun a c => a * 1114112 + c) 1

/-- the allow-list indexed by key -/
def index (allow : List Entry) : List (Nat × Row) := allow.map fun e => (key e.row, e.row)

/-- is `r` on the (indexed) allow-list: find by key, confirm on the code points -/
def covered (idx : List (Nat × Row)) (r : Row) : Bool :=
  match idx.find? (fun p => p.1 == key r) with
  | some p => p.2 == r
  | none => false

/-- the whole regenerated table is on the allow-list -/
def allCovered (allow : List Entry) (gen : List Row) : Bool :=
  let idx := index allow
  gen.all (covered idx)

/-- rows of the regenerated table that are NOT on the allow-list (the sites the search has to look at) -/
def newSites (allow : List Entry) (gen : List Row) : List Row :=
  let idx := index allow
  gen.filter fun r => !covered idx r

/-- allow-list entries no longer in the regenerated table (stale entries: harmless, reported as a note) -/
def staleEntries (allow : List Entry) (gen : List Row) : List Row :=
  (allow.filter fun e => !gen.contains e.row).map (·.row)

/-- rows are strictly increasing (the translator emits sorted, duplicate-free tables) -/
def rowLt : Row → Row → Bool
  | [], [] => false
  | [], _ :: _ => true
  | _ :: _, [] => false
  | a :: as, b :: bs => a < b || (a == b && rowLt as bs)

def sortedRows : List Row → Bool
  | [] => true
  | [_] => true
  | a :: b :: rest => rowLt a b && sortedRows (b :: rest)

/-! ### the frame theorem -/

section Frame
variable {Site Val Req Out : Type}

/-- a call: request and store in, answer and store out -/
abbrev Call (Site Val Req Out : Type) := Req → (Site → Val) → Out × (Site → Val)

/-- the store after a history of requests -/
def runHist (f : Call Site Val Req Out) (σ : Site → Val) : List Req → (Site → Val)
  | [] => σ
  | q :: qs => runHist f (f q σ).2 qs

/-- `f` writes only sites satisfying `W` -/
def WritesOnly (f : Call Site Val Req Out) (W : Site → Prop) : Prop :=
  ∀ q σ s, ¬ W s → (f q σ).2 s = σ s

/-- the answer of `f` reads only sites satisfying `S` -/
def ReadsOnly (f : Call Site Val Req Out) (S : Site → Prop) : Prop :=
  ∀ q σ τ, (∀ s, S s → σ s = τ s) → (f q σ).1 = (f q τ).1

end Frame

end RTV.HiddenState
