import RTV.Model.Py
import RTV.Model.WellFormed
/-!
L7 `Holiday` (core) — `BaseHolidayParserConfiguration.get_day / get_last_day`, the holiday date functions (as the
translator classifies their source text, `harness/translate/holiday.py`), and `BaseHolidayParser._match2date` /
`__get_future_value` / `__get_past_value` / `parse` from the holiday key on (the regex match — which spelling, which
year, which "next/last/this" word — is an input of the model).

`none` / `Out.raises` = the Python code raises (IndexError of `[...][week]`, ValueError of `datetime(...)`).
-/
namespace RTV.Holiday
open RTV.Cal RTV.WF

/-- a holiday date function `year ↦ datetime`, by the shape of its source text -/
inductive Fn where
  /-- `datetime(year, mo, d)` -/
  | fixed (mo d : Nat)
  /-- `datetime(year, mo, get_day(year, mi, k, dow))` — `k` is a Python list index (0 = first occurrence) -/
  | nth (mo mi : Nat) (k : Int) (dow : Nat)
  /-- `datetime(year, mo, get_last_day(year, mi, dow))` -/
  | last (mo mi dow : Nat)
  /-- `DateUtils.min_value` -/
  | minValue
  /-- not one of the shapes above: the model knows nothing about it -/
  | unknown
deriving DecidableEq, Repr, Inhabited

/-- `[d for d in Calendar().itermonthdays2(year, month) if d[0] and d[1] == w]` projected to the day numbers: the days
of the month that fall on `date.weekday() == w`, ascending. -/
def monthDaysOn (y m w : Nat) : List Nat :=
  ((List.range (daysInMonth y m)).map (· + 1)).filter (fun d => (Date.mk y m d).weekday == w)

/-- `get_day(year, month, week, day_of_week)`: `…[week][0]` with Python indexing (`week = -1` is the last one);
`day_of_week` is `DayOfWeek` (Monday = 1 … Sunday = 7), compared as `day_of_week - 1` (so 0 matches nothing). -/
def getDay (y m : Nat) (week : Int) (dow : Nat) : Option Nat :=
  if dow = 0 then none else RTV.Py.index (monthDaysOn y m (dow - 1)) week

/-- `datetime(y, m, d)`; `none` = ValueError -/
def mkDate (y m d : Nat) : Option Date :=
  if (Date.mk y m d).valid then some ⟨y, m, d⟩ else none

def minDate : Date := ⟨1, 1, 1⟩

/-- the function applied to a year; `none` = it raises (also for `opaque`, which the harness never asks) -/
def Fn.eval (f : Fn) (y : Nat) : Option Date :=
  match f with
  | .fixed mo d => mkDate y mo d
  | .nth mo mi k dow => if 1 ≤ y ∧ y ≤ 9999 then (getDay y mi k dow).bind (mkDate y mo) else none
  | .last mo mi dow => if 1 ≤ y ∧ y ≤ 9999 then (getDay y mi (-1) dow).bind (mkDate y mo) else none
  | .minValue => some minDate
  | .unknown => none

/-- `dict.get(key)` on an insertion-ordered dict given as its item list (keys are unique in a dict) -/
def dictGet {β : Type} (d : List (Str × β)) (k : Str) : Option β := (d.find? (fun e => e.1 == k)).map (·.2)

structure Res where
  timex : Str
  future : Date
  past : Date
deriving DecidableEq, Repr

inductive Out where
  | raises
  | noResult          -- `success` stays False: the entity has no resolution
  | ok (r : Res)
deriving DecidableEq, Repr

def sXXXX : Str := [88, 88, 88, 88]

/-- `__get_future_value`: a holiday strictly before the reference moves to next year's -/
def futureValue (f : Fn) (value : Date) (ref : DateTime) : Option Date :=
  if DateTime.lt ⟨value, 0⟩ ref then f.eval (value.y + 1) else some value

/-- `__get_past_value`: a holiday at or after the reference moves to last year's -/
def pastValue (f : Fn) (value : Date) (ref : DateTime) : Option Date :=
  if DateTime.lt ⟨value, 0⟩ ref then some value else f.eval (value.y - 1)

/-- the year `_match2date` works with and whether the TIMEX will carry it.  `yearGroup`: `int(year_str)` when the year
group is non-empty; `swift`: `get_swift_year(order_str)` when the order group is non-empty (a swift below −1 = none of
next / last / this: no result). -/
def resolveYear (yearGroup : Option Nat) (swift : Option Int) (ref : DateTime) : Option (Int × Bool) :=
  match yearGroup, swift with
  | some y, _ => some (y, true)
  | none, some s => if s < -1 then none else some ((ref.date.y : Int) + s, true)
  | none, none => some (ref.date.y, false)

/-- `-MM-DD` of the computed date unless the key is a variable holiday with its own TIMEX tail -/
def timexTail (tdict : List (Str × Str)) (k : Str) (value : Date) : Str :=
  match dictGet tdict k with
  | some t => if t = [] then [45] ++ pad2 value.m ++ [45] ++ pad2 value.d else t
  | none => [45] ++ pad2 value.m ++ [45] ++ pad2 value.d

/-- `_match2date` once the key, its function and the year are known -/
def holidayFor (tdict : List (Str × Str)) (k : Str) (f : Fn) (year : Nat) (hasYear : Bool) (ref : DateTime) : Out :=
  match f.eval year with
  | none => .raises
  | some value =>
    if value = minDate then .ok ⟨[], minDate, minDate⟩
    else if hasYear then
      match mkDate year value.m value.d with
      | none => .raises
      | some x => .ok ⟨pad4 year ++ timexTail tdict k value, x, x⟩
    else
      match futureValue f value ref, pastValue f value ref with
      | some fu, some pa => .ok ⟨sXXXX ++ timexTail tdict k value, fu, pa⟩
      | _, _ => .raises

/-- `_match2date` from the sanitised holiday key on.  `key`: the key of `holiday_names` that lists the spelling
(`None` when no list has it). -/
def match2date (funcs : List (Str × Fn)) (tdict : List (Str × Str)) (key : Option Str) (yearGroup : Option Nat)
    (swift : Option Int) (ref : DateTime) : Out :=
  match resolveYear yearGroup swift ref with
  | none => .noResult
  | some (yearI, hasYear) =>
    match key with
    | none => .noResult
    | some k =>
      if k = [] then .noResult else
      match dictGet funcs k with
      | none => .noResult
      | some f => if yearI < 0 then .raises else holidayFor tdict k f yearI.toNat hasYear ref

/-- what the merged parser emits for a holiday entity: `parse` formats both values with `format_date`, the slot type is
`date` -/
def holidayValues (r : Res) : List Value := resolveSingle sDate r.timex (formatDate r.past) (formatDate r.future)

end RTV.Holiday
