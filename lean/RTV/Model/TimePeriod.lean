import RTV.Model.DtRes
import RTV.Model.DateUtils
import RTV.Model.WellFormed
/-!
L6 `TimePeriod` — the computations of `BaseTimePeriodParser` (`base_timeperiod.py`) that `DtRes` does not cover, and the
rest of `BaseDateTimeParser` (`base_datetime.py`), mirrored function by function with the **regex outcomes as inputs**
(which groups captured what; the boolean outcome of the am / pm description regexes, of the ago / later / in searches):

* `BaseTimePeriodParser.parse_pure_numbers` ("3 to 5 pm", "from 11 to 3am"): `numOf` (the `numbers.get(...)` /
  `if not …: int(...)` decode, with the truthiness quirk for a table value 0), `pureBranch`, `pureHours` (the am / pm
  rules), `pureResult` (TIMEX `(Tbb,Tee,PTdH)`, `+24` roll), `pureNumbers`
* `BaseTimePeriodParser.parse_specific_time` ("3:30 to 4 pm", "from 10pm to 12am"): `minutePair` (one minute capture is
  attributed to a side by a *substring* test), `descPair`, `specificCore` (the three am / pm situations), `specificTime`
* `BaseTimePeriodParser.parse_time_of_day` ("morning", "late night"): `TimexUtil.parse_time_of_day` (`timexParseTimeOfDay`),
  the English and Spanish `get_matched_timex_range` hooks, `str.replace` of the early / late word, the early / late
  window, `datetime(y, m, d, end_hour, end_min, end_min)`
* `BaseTimePeriodParser.parse`: the order of the four sub-parsers and `format_time` of the two ends (`periodParse`)
* `BaseDateTimeParser.parse_basic_regex` + the English `get_matched_now_timex` (`basicRegex`, `enNowTimex`)
* `BaseDateTimeParser.parse_special_time_of_date` / `parse_unspecific_time_of_date` (`specialTimeOfDate`; the
  `resolve_end_of_day` step is `DtRes.resolveEndOfDay`)
* `AgoLaterUtil.parse_duration_with_ago_and_later` / `get_ago_later_result` / `get_date_result` for all seven units and
  both `AgoLaterMode`s (`numOfTimex`, `getDateResultAll`, `agoLater`).

Times of a range are **seconds from the midnight of the reference's date** as `Int` (a begin on the previous day is
negative, an end on the next day is ≥ 86400); `absolute` turns an offset into the `datetime` (`none` = OverflowError at the
calendar's edge).  Variant switches (`Variant`) name the three repairs proposed for the defects this layer exposes; the
correspondence probes which variant the working tree follows.
-/
namespace RTV.TimePeriod
open RTV.Py RTV.Cal

abbrev Uni := RTV.DtRes.Uni

/-- `f'{n:02d}'` for a natural number: two digits below 100, all digits above. -/
def fmt2 (n : Nat) : Str := if n < 100 then RTV.WF.pad2 n else RTV.WF.natStr n
/-- `str(n)` -/
def natStr (n : Nat) : Str := RTV.WF.natStr n

/-- Which repairs the code under comparison contains (all `false` = the tree as found). -/
structure Variant where
  /-- `parse_specific_time`, both sides described: the right `am` test is `end_hour >= 12` (as found: `> 12`, so
  `… to 12am` ends at noon — finding `timerange-12am-end`). -/
  rightAmGe : Bool := false
  /-- `parse_specific_time` gives up when a `sec` group captured, leaving the text to `merge_two_time_points`
  (as found: the seconds are dropped — finding `timerange-seconds-dropped`). -/
  secondsBail : Bool := false
  /-- a single minute capture is attributed to the side whose span contains it (as found: substring test, so
  `from 10 to 5:10pm` starts at 10:10 — finding `timerange-minute-wrong-side`). -/
  minuteBySpan : Bool := false
deriving DecidableEq, Repr, Inhabited

/-- What a time-period parsing function yields. -/
inductive Res
  | raises (kind : String)
  | noResult
  | ok (timex comment mod : Str) (startOff endOff : Int)
deriving DecidableEq, Repr, Inhabited

def Res.success : Res → Bool
  | .ok .. => true
  | _ => false

/-- `datetime(year, month, day) + timedelta(seconds=off)` -/
def absolute (ref : DateTime) (off : Int) : Option DateTime := RTV.DateUtils.addSeconds ⟨ref.date, 0⟩ off

/-! ## the number decode shared by hours and minutes -/

/-- `v = numbers.get(s, None); if not v: v = int(s)` — a table value 0 ("zero") is falsy and falls through to `int`,
which raises on a word (`none` = ValueError). -/
def numOf (u : Uni) (numbers : List (Str × Nat)) (s : Str) : Option Nat :=
  match RTV.DtRes.lookup numbers s with
  | some v => if v ≠ 0 then some v else RTV.DtRes.pyInt u s
  | none => RTV.DtRes.pyInt u s

/-! ## `parse_pure_numbers` -/

inductive Side | am | pm | neither
deriving DecidableEq, Repr

/-- The am / pm decision: nothing is decided when the left hour carries a description; otherwise the `am` group or an
am-description on the right selects the am rule, else the `pm` group or a pm-description the pm rule. `rightAmHit` /
`rightPmHit` = outcome of `am_desc_regex` / `pm_desc__regex` on the right description. -/
def pureBranch (leftDesc rightDesc amStr pmStr : Str) (rightAmHit rightPmHit : Bool) : Side :=
  if !leftDesc.isEmpty then .neither
  else
    let rightAmValid := !rightDesc.isEmpty && rightAmHit
    let rightPmValid := !rightDesc.isEmpty && rightPmHit
    if !amStr.isEmpty || rightAmValid then .am
    else if !pmStr.isEmpty || rightPmValid then .pm
    else .neither

/-- The hour rules. am: the end is folded below 12; a begin ≥ 12 is folded when that keeps it before the end; a begin
still after the end and below 12 is moved to the evening ("11 to 3am" = 23 → 03). pm: an end below 12 is raised; the
begin is raised when it then still precedes the end ("3 to 5pm" = 15 → 17, "11 to 3pm" = 11 → 15). -/
def pureHours (side : Side) (b e : Nat) : Option (Nat × Nat) :=
  match side with
  | .am =>
    let e := if e ≥ 12 then e - 12 else e
    let b := if b ≥ 12 ∧ b - 12 < e then b - 12 else b
    let b := if 12 > b ∧ b > e then b + 12 else b
    some (b, e)
  | .pm =>
    let e := if e < 12 then e + 12 else e
    let b := if b + 12 < e then b + 12 else b
    some (b, e)
  | .neither => none

/-- `(Tbb,Tee,PTdH)` -/
def pureTimex (b e d : Nat) : Str :=
  [40, 84] ++ fmt2 b ++ [44, 84] ++ fmt2 e ++ [44, 80, 84] ++ natStr d ++ [72, 41]

/-- TIMEX and values once the hours are settled: an end not after the begin is taken on the next day. -/
def pureResult (b e : Nat) : Res :=
  let e' := if b ≥ e then e + 24 else e
  .ok (pureTimex b e (e' - b)) [] [] ((b : Int) * 3600) ((e' : Int) * 3600)

/-- `parse_pure_numbers` after the regex matched at offset 0. `hours` = the captures of group `hour`. -/
def pureNumbers (u : Uni) (numbers : List (Str × Nat)) (hours : List Str) (leftDesc rightDesc amStr pmStr : Str)
    (rightAmHit rightPmHit : Bool) : Res :=
  match hours with
  | h0 :: h1 :: _ =>
    match numOf u numbers h0, numOf u numbers h1 with
    | some b, some e =>
      match pureHours (pureBranch leftDesc rightDesc amStr pmStr rightAmHit rightPmHit) b e with
      | some (b, e) => pureResult b e
      | none => .noResult
    | _, _ => .raises "ValueError"
  | _ => .raises "IndexError"

/-! ## `parse_specific_time` -/

/-- `sub in s` -/
def contains (s sub : Str) : Bool := RTV.WF.hasSub s sub

/-- The minutes: two captures → begin and end; one capture → the side in whose text it *occurs* (`minute_str in time1`,
a substring test; with `minuteBySpan` the side whose span holds the capture, input `firstInTime1`). −1 = absent.
`none` = ValueError of `int`. -/
def minutePair (v : Variant) (u : Uni) (numbers : List (Str × Nat)) (mins : List Str) (time1 time2 : Str)
    (firstInTime1 : Bool) : Option (Int × Int) :=
  match mins with
  | m0 :: m1 :: _ =>
    match numOf u numbers m0, numOf u numbers m1 with
    | some b, some e => some ((b : Int), (e : Int))
    | _, _ => none
  | [m] =>
    let left := if v.minuteBySpan then firstInTime1 else contains time1 m
    let right := if v.minuteBySpan then !firstInTime1 else contains time2 m
    if left then (numOf u numbers m).map fun b => ((b : Int), -1)
    else if right then (numOf u numbers m).map fun e => (-1, (e : Int))
    else some (-1, -1)
  | [] => some (-1, -1)

/-- The descriptions: the `leftDesc` / `rightDesc` groups, completed from the `desc` captures by the same substring
test. -/
def descPair (leftDesc rightDesc : Str) (descs : List Str) (time1 time2 : Str) : Str × Str :=
  descs.foldl (fun (lr : Str × Str) d =>
    if contains time1 d && lr.1.isEmpty then (d, lr.2)
    else if contains time2 d && lr.2.isEmpty then (lr.1, d)
    else lr) (leftDesc, rightDesc)

def H12 : Int := 43200
def H24 : Int := 86400

/-- hour / minute of `midnight + off` -/
def offHour (off : Int) : Nat := ((off % 86400) / 3600).toNat
def offMinute (off : Int) : Nat := ((off % 3600) / 60).toNat
def offSecond (off : Int) : Nat := (off % 60).toNat

/-- The am / pm situations of `parse_specific_time` on the two datetimes (as offsets). -/
def specificShift (v : Variant) (bh eh : Nat) (la lp ra rp : Bool) (b e : Int) : Int × Int × Bool :=
  let hasLeft := la || lp
  let hasRight := ra || rp
  if hasLeft && hasRight then
    let b := if la then (if bh ≥ 12 then b - H12 else b) else (if bh < 12 then b + H12 else b)
    let e := if ra then (if (if v.rightAmGe then eh ≥ 12 else eh > 12) then e - H12 else e)
             else (if eh < 12 then e + H12 else e)
    (b, e, false)
  else if hasLeft || hasRight then
    let (b, e) : Int × Int :=
      if la then
        let b := if bh ≥ 12 then b - H12 else b
        let e := if eh < 12 ∧ e < b then e + H12 else e
        (b, e)
      else if lp then
        let b := if bh < 12 then b + H12 else b
        let e := if eh < 12 ∧ e < b then (if b - e ≥ H12 then e + H24 else e + H12) else e
        (b, e)
      else (b, e)
    let (b, e) : Int × Int :=
      if ra then
        let e := if eh ≥ 12 then e - H12 else e
        let b := if bh < 12 ∧ e < b then b - H12 else b
        (b, e)
      else if rp then
        let e := if eh < 12 then e + H12 else e
        let b := if bh < 12 then (if e < b then b - H12 else if e - b ≥ H12 then b + H12 else b) else b
        (b, e)
      else (b, e)
    (b, e, false)
  else if bh ≤ 12 ∧ eh ≤ 12 then
    let (b, e) : Int × Int := if b > e then (if bh = 12 then (b - H12, e) else (b, e + H12)) else (b, e)
    (b, e, true)
  else (b, e, false)

/-- the `T…` text of one end: with its minutes when the minute group was captured -/
def pointTimex (off : Int) (minute : Int) : Str :=
  if minute ≥ 0 then [84] ++ fmt2 (offHour off) ++ [58] ++ fmt2 (offMinute off) else [84] ++ fmt2 (offHour off)

/-- `PT…` of `parse_specific_time`: the hour and minute *fields* of `midnight + (end − begin)`. -/
def specificSpan (d : Int) : Str :=
  let dh := offHour d
  let dm := offMinute d
  if dm ≠ 0 ∧ dh ≠ 0 then [80, 84] ++ natStr dh ++ [72] ++ natStr dm ++ [77]
  else if dm ≠ 0 ∧ dh = 0 then [80, 84] ++ natStr dm ++ [77]
  else [80, 84] ++ natStr dh ++ [72]

/-- `parse_specific_time` once hours, minutes (−1 = absent) and the two descriptions are known. -/
def specificCore (v : Variant) (bh eh : Nat) (bm em : Int) (leftDesc rightDesc : Str) : Res :=
  let bmin : Int := if bm > 0 then bm else 0
  let emin : Int := if em > 0 then em else 0
  if bh > 23 ∨ eh > 23 ∨ bmin > 59 ∨ emin > 59 then .raises "ValueError"      -- datetime(y, m, d, hour=…, minute=…)
  else
    let b0 : Int := (bh : Int) * 3600 + bmin * 60
    let e0 : Int := (eh : Int) * 3600 + emin * 60
    let la := !leftDesc.isEmpty && leftDesc.head? = some 97
    let lp := !leftDesc.isEmpty && leftDesc.head? = some 112
    let ra := !rightDesc.isEmpty && rightDesc.head? = some 97
    let rp := !rightDesc.isEmpty && rightDesc.head? = some 112
    let (b, e, amb) := specificShift v bh eh la lp ra rp b0 e0
    let e := if e < b then e + H24 else e
    .ok ([40] ++ pointTimex b bm ++ [44] ++ pointTimex e em ++ [44] ++ specificSpan (e - b) ++ [41])
      (if amb then RTV.DtRes.sAmPm else []) [] b e

/-- `parse_specific_time` after the regex matched at offset 0: `hours`, `mins`, `descs` = captures of `hour`, `min`,
`desc`; `hasSec` = the `sec` group captured. -/
def specificTime (v : Variant) (u : Uni) (numbers : List (Str × Nat)) (hours mins descs : List Str)
    (time1 time2 leftDesc rightDesc : Str) (firstInTime1 hasSec : Bool) : Res :=
  if v.secondsBail && hasSec then .noResult
  else
    match hours with
    | h0 :: h1 :: _ =>
      match numOf u numbers h0, numOf u numbers h1 with
      | some bh, some eh =>
        match minutePair v u numbers mins time1 time2 firstInTime1 with
        | some (bm, em) =>
          let (l, r) := descPair leftDesc rightDesc descs time1 time2
          specificCore v bh eh bm em l r
        | none => .raises "ValueError"
      | _, _ => .raises "ValueError"
    | _ => .raises "IndexError"

/-! ## `parse_time_of_day` -/

def sTDA : Str := [84, 68, 65]
def sTMO : Str := [84, 77, 79]
def sTMI : Str := [84, 77, 73]
def sTAF : Str := [84, 65, 70]
def sTEV : Str := [84, 69, 86]
def sTDT : Str := [84, 68, 84]
def sTBH : Str := [84, 66, 72]
def sTNI : Str := [84, 78, 73]
def sTMEB : Str := [84, 77, 69, 66]
def sTMEL : Str := [84, 77, 69, 76]
def sTMED : Str := [84, 77, 69, 68]

/-- One row of the part-of-day table: (TIMEX code, begin hour, end hour, end minute). -/
structure TodRow where
  timex : Str
  beginHour : Nat
  endHour : Nat
  endMin : Nat
deriving DecidableEq, Repr, Inhabited

/-- `TimexUtil.parse_time_of_day(tod)` as its `if / elif` chain over the `Constants` codes (`MEALTIME_BRUNCH` is the same
string as `BUSINESS_HOUR`, so the brunch row is never reached). `none` = no row: `timex = None`, hours 0. -/
def timexParseTimeOfDay (tod : Str) : Option TodRow :=
  if tod = sTDA then some ⟨sTDA, 4, 8, 0⟩
  else if tod = sTMO then some ⟨sTMO, 8, 12, 0⟩
  else if tod = sTMI then some ⟨sTMI, 11, 13, 0⟩
  else if tod = sTAF then some ⟨sTAF, 12, 16, 0⟩
  else if tod = sTEV then some ⟨sTEV, 16, 20, 0⟩
  else if tod = sTDT then some ⟨sTDT, 8, 18, 0⟩
  else if tod = sTBH then some ⟨sTBH, 8, 18, 0⟩
  else if tod = sTNI then some ⟨sTNI, 20, 23, 59⟩
  else if tod = sTMEB then some ⟨sTMEB, 8, 12, 0⟩
  else if tod = sTMEL then some ⟨sTMEL, 11, 13, 0⟩
  else if tod = sTMED then some ⟨sTMED, 16, 20, 0⟩
  else none

/-- every code `parse_time_of_day` knows -/
def todCodes : List Str := [sTDA, sTMO, sTMI, sTAF, sTEV, sTDT, sTBH, sTNI, sTMEB, sTMEL, sTMED]

def anyEnds (t : Str) (terms : List String) : Bool := terms.any fun w => endsWith t (ofString w)

/-- the first part of every `get_matched_timex_range`: `source.strip().lower()` minus one trailing `s` -/
def trimTerm (u : Uni) (source : Str) : Str :=
  let t := strip u.isSpace source
  if endsWith t [115] then t.dropLast else t

/-- `EnglishTimePeriodParserConfiguration.get_matched_timex_range`: the chain of term-list tests (lists copied from
`EnglishDateTime`, tied by the unit correspondence) → the `Constants` code. -/
def enTodCode (u : Uni) (source : Str) : Option Str :=
  let t := trimTerm u source
  if anyEnds t ["morning"] then some sTMO
  else if anyEnds t ["afternoon"] then some sTAF
  else if anyEnds t ["evening"] then some sTEV
  else if t = ofString "daytime" then some sTDT
  else if anyEnds t ["night"] then some sTNI
  else if anyEnds t ["business", "hour"] then some sTBH
  else if anyEnds t ["breakfast"] then some sTMEB
  else if anyEnds t ["brunch"] then some sTBH
  else if anyEnds t ["lunch", "lunchtime"] then some sTMEL
  else if anyEnds t ["dinner", "dinnertime", "supper"] then some sTMED
  else none

/-- `SpanishTimePeriodParserConfiguration.get_matched_timex_range` -/
def esTodCode (u : Uni) (source : Str) : Option Str :=
  let t := trimTerm u source
  if anyEnds t ["madrugada"] then some sTDA
  else if anyEnds t ["mañana", "la mañana"] then some sTMO
  else if anyEnds t ["pasado mediodia", "pasado el mediodia", "pasado mediodía", "pasado el mediodía", "pasado medio dia",
                     "pasado el medio dia", "pasado medio día", "pasado el medio día"] then some sTAF
  else if anyEnds t ["tarde"] then some sTEV
  else if anyEnds t ["noche"] then some sTNI
  else none

/-- `str.replace(old, '')` for a non-empty `old` (left to right, non-overlapping); `old = ''` never occurs (the call is
guarded by `if early:`). -/
def removeAll (s old : Str) : Str :=
  if old.isEmpty then s else go (s.length + 1) s
where
  go : Nat → Str → Str
    | 0, s => s
    | _ + 1, [] => []
    | fuel + 1, c :: r =>
      if startsWith (c :: r) old then go fuel ((c :: r).drop old.length) else c :: go fuel r

/-- `parse_time_of_day`: `early` / `late` = the groups of `time_of_day_regex` ('' when the regex did not match or the group
did not capture); `range code` = the culture's `get_matched_timex_range` on the text with those words removed. The end
is `datetime(y, m, d, end_hour, end_min, end_min)` — the end *minute* is also used as the end second. -/
def timeOfDay (code : Str → Option Str) (source early late : Str) : Res :=
  let hasEarly := !early.isEmpty
  let hasLate := !late.isEmpty
  let source := if hasEarly then removeAll source early else source
  let source := if hasLate then removeAll source late else source
  let comment : Str := if hasLate then ofString "late" else if hasEarly then ofString "early" else []
  let mod : Str := if hasLate then ofString "end" else if hasEarly then ofString "start" else []
  match code source with
  | none => .noResult
  | some c =>
    match timexParseTimeOfDay c with
    | none => .raises "TypeError"          -- unreachable for the two hooks above (`tod_codes_known`)
    | some row =>
      let row : TodRow :=
        if hasEarly then { row with endHour := row.beginHour + 2, endMin := if row.endMin = 59 then 0 else row.endMin }
        else if hasLate then { row with beginHour := row.beginHour + 2 }
        else row
      if row.beginHour > 23 ∨ row.endHour > 23 ∨ row.endMin > 59 then .raises "ValueError"
      else .ok row.timex comment mod ((row.beginHour : Int) * 3600)
             ((row.endHour : Int) * 3600 + (row.endMin : Int) * 60 + (row.endMin : Int))

/-! ## `BaseTimePeriodParser.parse` -/

/-- `format_time(midnight + off)` -/
def fmtOff (off : Int) : Str := RTV.WF.formatTime (offHour off) (offMinute off) (offSecond off)

/-- The order of the sub-parsers: pure numbers, specific times, two merged time points, part of day — the first success
is the answer (an exception of an earlier one propagates). -/
def firstSuccess : List Res → Res
  | [] => .noResult
  | r :: rest =>
    match r with
    | .ok .. => r
    | .raises k => .raises k
    | .noResult => firstSuccess rest

/-- `(timex, START_TIME, END_TIME)` of the parse result (`none` = no value) -/
def periodParse (rs : List Res) : Option (Str × Str × Str) :=
  match firstSuccess rs with
  | .ok t _ _ b e => some (t, fmtOff b, fmtOff e)
  | _ => none

/-! ## `BaseDateTimeParser.parse_basic_regex` ("now") -/

def sPresentRef : Str := ofString "PRESENT_REF"
def sPastRef : Str := ofString "PAST_REF"
def sFutureRef : Str := ofString "FUTURE_REF"

/-- `EnglishDateTimeParserConfiguration.get_matched_now_timex` (`none` = `MatchedTimex(False, None)`) -/
def enNowTimex (u : Uni) (source : Str) : Option Str :=
  let t := strip u.isSpace source
  if endsWith t (ofString "now") then some sPresentRef
  else if t = ofString "recently" ∨ t = ofString "previously" then some sPastRef
  else if t = ofString "as soon as possible" ∨ t = ofString "asap" then some sFutureRef
  else none

/-- `parse_basic_regex`: `whole` = the first `now_regex` match starts at 0 and is the whole (stripped) text.
→ `(timex, future, past)`; both values are the reference itself. -/
def basicRegex (now : Str → Option Str) (source : Str) (whole : Bool) (ref : DateTime) : Option (Str × DateTime × DateTime) :=
  if whole then (now source).map fun t => (t, ref, ref) else none

/-! ## `parse_special_time_of_date` ("end of day", "end of tomorrow") -/

/-- `eod` = `unspecific_end_of_regex` found; otherwise `dateCount` = number of date entities, `specificHit` =
`specific_end_of_regex` found before or after the date, `datePr` = the date parser's `(timex, future, past)` (`none` =
`value is None`, on which the code raises AttributeError). -/
def specialTimeOfDate (eod : Bool) (ref : RTV.DtRes.DT) (dateCount : Nat) (specificHit : Bool)
    (datePr : Option (Str × RTV.DtRes.DT × RTV.DtRes.DT)) : Except String RTV.DtRes.Res :=
  if eod then .ok (RTV.DtRes.endOfToday ref)
  else if dateCount ≠ 1 then .ok {}
  else if specificHit then
    match datePr with
    | some (t, f, p) => .ok (RTV.DtRes.resolveEndOfDay t f p)
    | none => .error "Other"
  else .ok {}

/-! ## `AgoLaterUtil.parse_duration_with_ago_and_later` ("3 hours ago", "in 20 minutes", "2 weeks later") -/

inductive AUnit | D | W | MON | Y | H | M | S
deriving DecidableEq, Repr

/-- the branch `get_date_result` takes for a `unit_map` value (`none` = the final `else: return result`) -/
def unitOfCode (c : Str) : Option AUnit :=
  if c = [68] then some .D else if c = [87] then some .W else if c = [77, 79, 78] then some .MON
  else if c = [89] then some .Y else if c = [72] then some .H else if c = [77] then some .M
  else if c = [83] then some .S else none

/-- `value = reference + …` -/
def shifted (unit : AUnit) (k : Int) (ref : DateTime) : Option DateTime :=
  match unit with
  | .D => RTV.DateUtils.addDays ref k
  | .W => RTV.DateUtils.addDays ref (k * 7)
  | .MON => RTV.DateUtils.addDelta ref 0 k 0
  | .Y => RTV.DateUtils.addDelta ref k 0 0
  | .H => RTV.DateUtils.addSeconds ref (k * 3600)
  | .M => RTV.DateUtils.addSeconds ref (k * 60)
  | .S => RTV.DateUtils.addSeconds ref k

/-- `AgoLaterUtil.get_date_result(unit_str, num, reference, is_future, mode)`: `(timex, value)`; `none` = raises. -/
def getDateResultAll (unit : AUnit) (num : Nat) (ref : DateTime) (isFuture dateMode : Bool) : Option (Str × DateTime) :=
  let swift : Int := if isFuture then 1 else -1
  (shifted unit ((num : Int) * swift) ref).map fun v =>
    (if dateMode then RTV.DateUtils.luisDateOf v else RTV.DateUtils.luisDateTime v, v)

/-- `int(timex[0:len(timex) - 1].replace('P', '').replace('T', ''))` (`none` = ValueError: a decimal amount, several
units). -/
def numOfTimex (u : Uni) (timex : Str) : Option Nat :=
  RTV.DtRes.pyInt u (((sliceI timex 0 ((timex.length : Int) - 1)).filter (· ≠ 80)).filter (· ≠ 84))

/-- `AgoLaterMode.DATE` unless `pr.timex_str.__contains__("T")` -/
def dateModeOf (timexStr : Str) : Bool := !timexStr.contains 84

inductive ARes
  | raises (kind : String)
  | noResult
  | ok (timex : Str) (value : DateTime) (mod : Str)
deriving DecidableEq, Repr

/-- `parse_duration_with_ago_and_later`: `dur` = the first duration entity's `(value.timex, timex_str)` (`none` = no
duration extracted; `some none` = parsed with `value = None`), `srcUnit` = group `unit` of the first `unit_regex` match
(`none` = no match), `unitMap`, `containsAgo` / `containsLaterOrIn` = the `MatchingUtil` searches on the text after /
before the duration. -/
def agoLater (u : Uni) (dur : Option (Option (Str × Str))) (srcUnit : Option Str) (unitMap : List (Str × Str))
    (containsAgo containsLaterOrIn : Bool) (ref : DateTime) : ARes :=
  match dur with
  | none => .noResult
  | some pr =>
    match srcUnit with
    | none => .noResult
    | some su =>
      match pr with
      | none => .raises "AttributeError"
      | some (valueTimex, timexStr) =>
        match numOfTimex u valueTimex with
        | none => .raises "ValueError"
        | some num =>
          let dateMode := dateModeOf timexStr
          match (unitMap.find? (fun p => p.1 == su)).map (·.2) with
          | none => .noResult
          | some code =>
            if code.isEmpty then .noResult
            else if containsAgo then
              match unitOfCode code with
              | none => .noResult
              | some un =>
                match getDateResultAll un num ref false dateMode with
                | some (t, v) => .ok t v (ofString "before")
                | none => .raises "OverflowError"
            else if containsLaterOrIn then
              match unitOfCode code with
              | none => .noResult
              | some un =>
                match getDateResultAll un num ref true dateMode with
                | some (t, v) => .ok t v (ofString "after")
                | none => .raises "OverflowError"
            else .noResult

end RTV.TimePeriod
