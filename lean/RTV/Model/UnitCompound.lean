import RTV.Model.Unit
import RTV.Model.Dec
/-!
L10b `UnitCompound` — `BaseCurrencyParser.__merge_compound_unit` (recognizers_number_with_unit/number_with_unit/parsers.py)
on the `Dec` layer, statement by statement (audit item 2).

The method runs under `@precision(prec=15)`: `Decimal(number_string)` is exact, `Decimal(m) / Decimal(ratio)` and
`number_value + …` are `context.divide` / `context.add` of a 15-digit context (`RTV.Dec.div p`, `RTV.Dec.add p`,
ROUND_HALF_EVEN) — so `123456789012345 dollars and 14 cents` loses its cents.  Modelled: the `while idx < len(compound_unit)`
loop with its state (`count`, `result`, `number_value` — which is NOT reset when a group with an unknown main unit is
closed —, `main_unit_value`, `main_unit_iso_code`, `fraction_units_string`), the SYS_NUM branch (`+ value / 100`), the
fraction branch (`currency_fraction_code_list`, `currency_fraction_num_map`, `__check_units_string_contains`), the
re-processing of an item that does not continue the group (`continue` without `idx + 1`), `__create_currency_result`
(fake ISO codes), `__get_number_value` (a zero `Decimal` is falsy: number `None`) and the span arithmetic
`result.length = parse_result.start + parse_result.length - result.start`.
Inputs from un-modelled parts (recorded by the correspondence from the real calls): per element of `compound_result.data`
its type, span, and what `number_with_unit_parser.parse` answered for it (`value.unit`, `value.number`, or the plain
number of a SYS_NUM element).  Not modelled: `resolution_str` concatenation, `__resolve_text` (text slice).
`culture_info.format` is `RTV.Dec.format` (C03).  Imports RTV models only.
-/
namespace RTV.Unit
open RTV.Dec (Dec)

/-- one element of `compound_result.data` after `self.number_with_unit_parser.parse(extract_result)` -/
structure CItem where
  /-- `extract_result.type == Constants.SYS_UNIT_CURRENCY` -/
  isCurrency : Bool
  /-- `extract_result.type == Constants.SYS_NUM` -/
  isNum : Bool
  start : Nat
  len : Nat
  /-- `parse_result.value` is truthy and has `.unit` (a UnitValue) -/
  hasValue : Bool
  /-- `parse_result.value.unit` (`none`: no value / no such attribute / `None`) -/
  unit : Option Str
  /-- `Decimal(parse_result.value.number)` (`none`: the number is `None` or empty) -/
  number : Option Dec
  /-- `Decimal(str(parse_result.value))` of a SYS_NUM element -/
  plain : Option Dec
deriving Repr

/-- the configuration maps the method reads -/
structure CCfg where
  nameToIso : Dict                       -- currency_name_to_iso_code_map
  fractionMapping : Dict                 -- currency_fraction_mapping: ISO code -> "CODE|CODE|…"
  fractionCodeList : Dict                -- currency_fraction_code_list: fraction unit name -> CODE
  fractionNumMap : List (Str × Nat)      -- currency_fraction_num_map: fraction unit name -> ratio
  /-- `culture_info.format`'s long format (`none`: English marks) -/
  longFormat : Option (Nat × Nat)
  sp : Nat → Bool

/-- one entry of `ret.value` -/
structure CResult where
  start : Nat
  len : Nat
  /-- `value.number` (`none` = `None`) -/
  number : Option Str
  unit : Option Str
  /-- `none` = plain `UnitValue`; `some c` = `CurrencyUnitValue(…, c)` -/
  iso : Option Str
deriving DecidableEq, Repr

inductive CErr | typeError | attributeError | zeroDiv | fuel
deriving DecidableEq, Repr

def ratioOf (m : List (Str × Nat)) (k : Str) : Option Nat := (m.find? fun p => p.1 = k).map (·.2)

/-- `__get_number_value(number_value)`: `''`, and a zero Decimal, are falsy -/
def getNumberValue (c : CCfg) (nv : Option Dec) : Option Str :=
  match nv with
  | none => none
  | some d => if d.coeff == 0 then none else some (RTV.Dec.format c.longFormat d)

/-- `__create_currency_result` -/
def createCurrencyResult (c : CCfg) (start len : Nat) (iso : Option Str) (nv : Option Dec) (unit : Option Str) : CResult :=
  match iso with
  | some code => if code = [] ∨ startsWith code [95] then ⟨start, len, getNumberValue c nv, unit, none⟩
                 else ⟨start, len, getNumberValue c nv, unit, some code⟩
  | none => ⟨start, len, getNumberValue c nv, unit, none⟩

/-- `__check_units_string_contains(code, fraction_units_string)` (`none` string: `None.strip()` raises) -/
def unitsStringContains (c : CCfg) (code : Str) (s : Option Str) : Except CErr Bool :=
  match s with
  | none => .error .attributeError
  | some src => .ok (dhas (bindUnitsString c.sp [] [] src) code)

/-- `number_value + Decimal(x) / Decimal(ratio)` under the context precision `p`; `number_value == ''` raises TypeError -/
def addQuotient (p : Nat) (nv : Option Dec) (x : Dec) (ratio : Nat) : Except CErr Dec :=
  match nv with
  | none => .error .typeError
  | some n => match RTV.Dec.div p x (RTV.Dec.ofNat ratio) with
    | some q => .ok (RTV.Dec.add p n q)
    | none => .error .zeroDiv

structure CState where
  count : Nat
  /-- `result` (start, length) while a group is open -/
  result : Option (Nat × Nat)
  numberValue : Option Dec
  mainUnit : Option Str
  mainIso : Option Str
  fractionUnits : Option Str
  results : List CResult

def CState.init : CState := ⟨0, none, none, none, none, none, []⟩

/-- the `while idx < len(compound_unit)` loop; `items` = the elements from `idx` on -/
def mergeLoop (p : Nat) (c : CCfg) : Nat → List CItem → CState → Except CErr CState
  | 0, _, _ => .error .fuel
  | _, [], st => .ok st
  | fuel + 1, it :: rest, st =>
    if st.count = 0 then
      if !it.isCurrency then mergeLoop p c fuel rest st
      else
        let nv := if it.hasValue then (match it.number with | some d => some d | none => st.numberValue) else st.numberValue
        let iso := match it.unit with
          | some u => dget c.nameToIso u
          | none => none
        let isoTruthy := match iso with | some code => code ≠ [] | none => false
        if !isoTruthy then
          -- the main unit can't be recognised: close the group at once (number_value is kept!)
          let r : CResult := ⟨it.start, it.len, getNumberValue c nv, it.unit, none⟩
          mergeLoop p c fuel rest { st with result := none, numberValue := nv, mainUnit := it.unit, mainIso := iso,
                                             results := st.results ++ [r] }
        else
          let fr := match iso with | some code => dget c.fractionMapping code | none => none
          mergeLoop p c fuel rest { st with count := 1, result := some (it.start, it.len), numberValue := nv,
                                             mainUnit := it.unit, mainIso := iso, fractionUnits := fr }
    else
      if it.isNum then
        match it.plain with
        | none => .error .typeError
        | some v =>
          match addQuotient p st.numberValue v 100 with
          | .error e => .error e
          | .ok nv =>
            let res := st.result.map fun r => (r.1, it.start + it.len - r.1)
            mergeLoop p c fuel rest { st with count := st.count + 1, numberValue := some nv, result := res }
      else
        let code := match it.unit with | some u => dget c.fractionCodeList u | none => none
        let ratio := if it.hasValue then (match it.unit with | some u => ratioOf c.fractionNumMap u | none => none) else none
        let codeTruthy := match code with | some cd => cd ≠ [] | none => false
        let contains : Except CErr Bool :=
          if codeTruthy && ratio != some 0 then unitsStringContains c (code.getD []) st.fractionUnits else .ok false
        match contains with
        | .error e => .error e
        | .ok true =>
          if !it.hasValue then
            -- `number_value + 0`
            match st.numberValue with
            | none => .error .typeError
            | some n =>
              let res := st.result.map fun r => (r.1, it.start + it.len - r.1)
              mergeLoop p c fuel rest { st with count := st.count + 1, numberValue := some (RTV.Dec.add p n RTV.Dec.zero),
                                                 result := res }
          else
            match it.number, ratio with
            | some m, some r =>
              match addQuotient p st.numberValue m r with
              | .error e => .error e
              | .ok nv =>
                let res := st.result.map fun rr => (rr.1, it.start + it.len - rr.1)
                mergeLoop p c fuel rest { st with count := st.count + 1, numberValue := some nv, result := res }
            | _, _ => .error .typeError          -- `Decimal(None)`
        | .ok false =>
          -- the element does not continue the group: close it and look at the SAME element again with count = 0
          let rs := match st.result with
            | some r => st.results ++ [createCurrencyResult c r.1 r.2 st.mainIso st.numberValue st.mainUnit]
            | none => st.results
          mergeLoop p c fuel (it :: rest) { st with count := 0, numberValue := none, result := none, results := rs }

/-- `__merge_compound_unit(compound_result).value` -/
def mergeCompound (p : Nat) (c : CCfg) (items : List CItem) : Except CErr (List CResult) :=
  match mergeLoop p c (2 * items.length + 2) items CState.init with
  | .error e => .error e
  | .ok st =>
    match st.result with
    | some r => .ok (st.results ++ [createCurrencyResult c r.1 r.2 st.mainIso st.numberValue st.mainUnit])
    | none => .ok st.results

/-- the amount arithmetic alone: `Decimal(N) + Decimal(M) / Decimal(ratio)` in a `p`-digit context -/
def mergeAmount (p : Nat) (n m : Dec) (ratio : Nat) : Option Dec :=
  (RTV.Dec.div p m (RTV.Dec.ofNat ratio)).map fun q => RTV.Dec.add p n q

end RTV.Unit
