import RTV.Model.Cal
import RTV.Model.Py
/-!
L5 `DateUtils` — the date arithmetic of `recognizers_date_time/date_time/utilities.py` (`DateUtils`,
`DateTimeFormatUtil.luis_date`, `AgoLaterUtil.get_date_result`), of `BaseDateParser.parse_implicit_date`
(special days, next/this/last weekday, bare weekday; `base_date.py`) and of
`BaseDatePeriodParser._parse_one_word_period` (week / month / year branches; `base_dateperiod.py`), mirrored
function by function. Import-free apart from `RTV.Model.Cal` / `RTV.Model.Py`.

Conventions
* a Python `datetime` is `Cal.DateTime` (date + seconds since midnight). Python compares datetimes
  lexicographically; on valid dates that is `DateTime.lt/le` (comparison of ordinals, then seconds) —
  `Lemmas/Cal.lean: ord_lt_iff_lexLt`.
* `none` = the Python code raises (`OverflowError` of `date + timedelta`, `ValueError` of `datetime.replace`).
* years handed to `safe_create_*` are `Int` (the code computes `year - 1`, `year - 4`, which leave 1..9999;
  `is_valid_date` answers `False` there and the seed `min_value` is returned). Month and day are `Nat`.
* day-of-week arguments: the culture maps give Sunday = 0 (`EnglishDateTime.DayOfWeek`), the `DayOfWeek` enum
  Sunday = 7; `DateUtils.this` turns anything `< 1` into 7.
-/
namespace RTV.DateUtils
open RTV.Cal RTV.Py

/-- `datetime + timedelta(days=k)` (time of day kept). -/
def addDays (x : DateTime) (k : Int) : Option DateTime :=
  (x.date.addDays k).map fun d => { date := d, secs := x.secs }

/-- `datetime + datedelta(years, months, days)` through the shim (time of day kept). -/
def addDelta (x : DateTime) (years months days : Int) : Option DateTime :=
  (datedeltaAdd x.date years months days).map fun d => { date := d, secs := x.secs }

/-- `DateUtils.min_value = datetime(1, 1, 1, 0, 0, 0, 0)`. -/
def minValue : DateTime := ⟨⟨1, 1, 1⟩, 0⟩

/-- `DateUtils.is_valid_date`: `datetime(year, month, day)` does not raise `ValueError`. -/
def isValidDate (y : Int) (m d : Nat) : Bool :=
  decide (1 ≤ y) && decide (y ≤ 9999) && (⟨y.toNat, m, d⟩ : Date).valid

/-- `DateUtils.safe_create_from_value(seed, year, month, day)` (hour = minute = second = 0, always valid). -/
def safeCreateFromValue (seed : DateTime) (y : Int) (m d : Nat) : DateTime :=
  if isValidDate y m d then ⟨⟨y.toNat, m, d⟩, 0⟩ else seed

/-- `DateUtils.safe_create_from_min_value`. -/
def safeCreateFromMinValue (y : Int) (m d : Nat) : DateTime := safeCreateFromValue minValue y m d

/-- `DateUtils.is_leap_year`: `(year % 4 == 0) and (year % 100 != 0) or (year % 400 == 0)`. -/
def isLeapYear (y : Int) : Bool := (y % 4 == 0 && y % 100 != 0) || y % 400 == 0

/-- `DateUtils.is_Feb_29th(year, month, day)` (the year is ignored by the code). -/
def isFeb29th (m d : Nat) : Bool := m == 2 && d == 29

/-- `DateUtils.generate_dates(no_year, reference, year, month, day)` → `(future_date, past_date)`.
Faithful to the code: the candidates are *midnights* and are compared with the full reference datetime. -/
def generateDates (noYear : Bool) (ref : DateTime) (year : Int) (m d : Nat) : DateTime × DateTime :=
  let future := safeCreateFromMinValue year m d
  let past := safeCreateFromMinValue year m d
  if noYear then
    if isFeb29th m d then
      if isLeapYear year then
        if future.lt ref then (safeCreateFromMinValue (year + 4) m d, past)
        else (future, safeCreateFromMinValue (year - 4) m d)
      else
        let pastYear := year / 4 * 4                      -- `past_year >> 2 << 2`
        let pastYear := if !isLeapYear pastYear then pastYear - 4 else pastYear
        let futureYear := pastYear + 4
        let futureYear := if !isLeapYear futureYear then futureYear + 4 else futureYear
        (safeCreateFromMinValue futureYear m d, safeCreateFromMinValue pastYear m d)
    else
      let future' := if future.lt ref && isValidDate year m d then safeCreateFromMinValue (year + 1) m d else future
      let past' := if ref.le past && isValidDate year m d then safeCreateFromMinValue (year - 1) m d else past
      (future', past')
  else (future, past)

/-- The repaired variant proposed for defect `monthday-reference-time-of-day`: compare with the reference's
*date* (midnight). Everything else identical. -/
def generateDatesFixed (noYear : Bool) (ref : DateTime) (year : Int) (m d : Nat) : DateTime × DateTime :=
  generateDates noYear { date := ref.date, secs := 0 } year m d

/-- `DateUtils.this(from_date, day_of_week)`. -/
def this (fromDate : DateTime) (dow : Nat) : Option DateTime :=
  let start := fromDate.date.isoWeekday
  let target := if dow ≥ 1 then dow else 7
  addDays fromDate ((target : Int) - (start : Int))

/-- `DateUtils.next`. -/
def next (fromDate : DateTime) (dow : Nat) : Option DateTime := (this fromDate dow).bind (addDays · 7)

/-- `DateUtils.last`. -/
def last (fromDate : DateTime) (dow : Nat) : Option DateTime := (this fromDate dow).bind (addDays · (-7))

/-- `f'{n:0{w}d}'` for `n ≥ 0`. -/
def pad (w n : Nat) : Str := zfill w (natStr n)

/-- `DateTimeFormatUtil.luis_date(year, month, day)` for a real year. -/
def luisDate (y m d : Nat) : Str := pad 4 y ++ [45] ++ pad 2 m ++ [45] ++ pad 2 d

/-- `DateTimeFormatUtil.luis_date(-1, month, day)` = `XXXX-MM-DD`. -/
def luisDateNoYear (m d : Nat) : Str := [88, 88, 88, 88, 45] ++ pad 2 m ++ [45] ++ pad 2 d

def luisDateOf (x : DateTime) : Str := luisDate x.date.y x.date.m x.date.d

/-- The units `AgoLaterUtil.get_date_result` handles by calendar arithmetic (`Constants.UNIT_D/W/MON/Y`). -/
inductive DUnit | D | W | MON | Y
deriving DecidableEq, Repr

/-- `AgoLaterUtil.get_date_result(unit_str, num, reference, is_future, AgoLaterMode.DATE)` →
`(timex, value)` with `future_value = past_value = value`. -/
def getDateResult (u : DUnit) (num : Nat) (ref : DateTime) (isFuture : Bool) : Option (Str × DateTime) :=
  let swift : Int := if isFuture then 1 else -1
  let value : Option DateTime :=
    match u with
    | .D => addDays ref ((num : Int) * swift)
    | .W => addDays ref ((num : Int) * swift * 7)
    | .MON => addDelta ref 0 ((num : Int) * swift) 0
    | .Y => addDelta ref ((num : Int) * swift) 0 0
  value.map fun v => (luisDateOf v, v)

/-- `parse_implicit_date`, special-day branch ("today", "tomorrow", "yesterday", …): the swift comes from the
culture's `get_swift_day`; value = midnight of the reference's date + swift days. → `(timex, value)`. -/
def specialDay (ref : DateTime) (swift : Int) : Option (Str × DateTime) :=
  let today := safeCreateFromMinValue ref.date.y ref.date.m ref.date.d
  (addDays today swift).map fun v => (luisDateOf v, v)

/-- `parse_implicit_date`, "next <weekday>" branch → `(timex, value)`. -/
def nextWeekday (ref : DateTime) (dow : Nat) : Option (Str × DateTime) :=
  (next ref dow).map fun v => (luisDateOf v, v)
/-- "this <weekday>". -/
def thisWeekday (ref : DateTime) (dow : Nat) : Option (Str × DateTime) :=
  (this ref dow).map fun v => (luisDateOf v, v)
/-- "last <weekday>". -/
def lastWeekday (ref : DateTime) (dow : Nat) : Option (Str × DateTime) :=
  (last ref dow).map fun v => (luisDateOf v, v)

/-- `parse_implicit_date`, bare weekday branch ("Friday") → `(timex, future_value, past_value)`. -/
def bareWeekday (ref : DateTime) (dow : Nat) : Option (Str × DateTime × DateTime) :=
  (this ref dow).bind fun value0 =>
  let weekday := if dow < 1 then 7 else dow
  (if weekday < ref.date.isoWeekday then next ref weekday else some value0).bind fun value =>
  (if value.lt ref then addDays value 7 else some value).bind fun future =>
  (if ref.le value then addDays value (-7) else some value).bind fun past =>
  some ([88, 88, 88, 88, 45, 87, 88, 88, 45] ++ natStr weekday,
        safeCreateFromMinValue future.date.y future.date.m future.date.d,
        safeCreateFromMinValue past.date.y past.date.m past.date.d)

/-- `_parse_one_word_period`, week branch (`is_week_only`, no early/mid/late prefix, exclusive end):
`(timex, begin, end)`. The ISO year/week of the TIMEX are read off the Thursday of the week. -/
def weekPeriod (ref : DateTime) (swift : Int) : Option (Str × DateTime × DateTime) :=
  (this ref 4).bind fun th0 => (addDelta th0 0 0 (7 * swift)).bind fun thursday =>
  let timex := pad 4 thursday.date.y ++ [45, 87] ++ pad 2 (isoCalendar thursday.date).2.1
  (this ref 1).bind fun b0 => (addDelta b0 0 0 (7 * swift)).bind fun beginDate =>
  (this ref 7).bind fun e0 => (addDelta e0 0 0 (7 * swift)).bind fun end0 =>
  (addDelta end0 0 0 1).bind fun endDate =>
  some (timex, beginDate, endDate)

/-- `_parse_one_word_period`, month branch as it was BEFORE `fix: 'next/last month' shifts from the first of the
month` (d8aa8bf73): the month was read off `reference + datedelta(months=swift)`. Kept as the labelled pre-fix
variant (regression witness `next_month_prefix_regression`). -/
def monthPeriodPreFix (ref : DateTime) (swift : Int) : Option (Str × DateTime × DateTime) :=
  (addDelta ref 0 swift 0).bind fun temp =>
  let month := temp.date.m
  let year := temp.date.y
  let timex := pad 4 year ++ [45] ++ pad 2 month
  let start := safeCreateFromMinValue year month 1
  (addDelta (safeCreateFromMinValue year month 1) 0 1 0).bind fun endDate =>
  some (timex, start, endDate)

/-- `_parse_one_word_period`, month branch (`is_month_only`) of the current code:
`temp_date = reference.replace(day=1) + datedelta(months=swift)`. -/
def monthPeriod (ref : DateTime) (swift : Int) : Option (Str × DateTime × DateTime) :=
  monthPeriodPreFix { date := ⟨ref.date.y, ref.date.m, 1⟩, secs := ref.secs } swift

/-- `_parse_one_word_period`, year branch (`is_year_only`, no prefix). -/
def yearPeriod (ref : DateTime) (swift : Int) : Option (Str × DateTime × DateTime) :=
  (addDelta ref swift 0 0).bind fun temp =>
  let year := temp.date.y
  let beginDate := safeCreateFromMinValue year 1 1
  (addDelta (safeCreateFromMinValue year 12 31) 0 0 1).bind fun endDate =>
  some (pad 4 year, beginDate, endDate)

/-- `BaseDateTimeParser.parse_basic_regex`, "now": future = past = the reference itself. -/
def now (ref : DateTime) : DateTime × DateTime := (ref, ref)

/-- `parse_implicit_date` → `match_to_date` without a year: `year = reference.year`, `no_year = True`,
TIMEX `XXXX-MM-DD`. → `(timex, future, past)`. -/
def monthDayNoYear (ref : DateTime) (m d : Nat) : Str × DateTime × DateTime :=
  let r := generateDates true ref ref.date.y m d
  (luisDateNoYear m d, r.1, r.2)

/-! ## Extension (round 2): the code after `fix: 'next/last month' shifts from the first of the month`, the prefix /
weekend / to-date branches of `_parse_one_word_period`, `rest of the week|month|year` (`_parse_duration`), and the
hour / minute / second units of `AgoLaterUtil.get_date_result`. -/

/-- `datetime + timedelta(seconds=k)` as CPython computes it: days and seconds are renormalised, `none` =
OverflowError when the day leaves 0001-01-01..9999-12-31. -/
def addSeconds (x : DateTime) (k : Int) : Option DateTime :=
  let total : Int := (x.date.ord : Int) * 86400 + (x.secs : Int) + k
  let o := total / 86400
  let s := total % 86400
  if 1 ≤ o ∧ o ≤ (maxOrd : Int) then some ⟨Date.ofOrd o.toNat, s.toNat⟩ else none

/-- `Constants.UNIT_H / UNIT_M / UNIT_S`. -/
inductive TUnit | H | M | S
deriving DecidableEq, Repr

def TUnit.seconds : TUnit → Int
  | .H => 3600 | .M => 60 | .S => 1

/-- `DateTimeFormatUtil.luis_time(hour, minute, second)`. -/
def luisTime (secs : Nat) : Str := pad 2 (secs / 3600) ++ [58] ++ pad 2 (secs % 3600 / 60) ++ [58] ++ pad 2 (secs % 60)

/-- `DateTimeFormatUtil.luis_date_time`. -/
def luisDateTime (x : DateTime) : Str := luisDateOf x ++ [84] ++ luisTime x.secs

/-- `AgoLaterUtil.get_date_result(unit, num, reference, is_future, AgoLaterMode.DATETIME)` for hours / minutes /
seconds ("3 hours ago", "in 5 minutes"). -/
def getDateTimeResult (u : TUnit) (num : Nat) (ref : DateTime) (isFuture : Bool) : Option (Str × DateTime) :=
  let swift : Int := if isFuture then 1 else -1
  (addSeconds ref ((num : Int) * swift * u.seconds)).map fun v => (luisDateTime v, v)

/-- `DateUtils.this(reference, day_of_week) + datedelta(days=7 * swift)`. -/
def weekDay (ref : DateTime) (swift : Int) (dow : Nat) : Option DateTime :=
  (this ref dow).bind fun x => addDelta x 0 0 (7 * swift)

/-- `_parse_one_word_period`, week branch with the early / mid / late flags (`early_prefix`, `mid_prefix`,
`late_prefix`; exclusive end). For swift = 0 an early period ends at the reference at the latest and a late period
starts at the reference at the earliest. -/
def weekPeriodP (ref : DateTime) (swift : Int) (early mid late : Bool) : Option (Str × DateTime × DateTime) :=
  let wk (dow : Nat) : Option DateTime := weekDay ref swift dow
  (wk 4).bind fun thursday =>
  let timex := pad 4 thursday.date.y ++ [45, 87] ++ pad 2 (isoCalendar thursday.date).2.1
  (wk 1).bind fun begin0 =>
  (wk 7).bind fun end0 =>
  (if early then (wk 3).map fun e => (begin0, e)
   else if mid then (wk 2).bind fun b => (wk 5).map fun e => (b, e)
   else if late then (wk 4).map fun b => (b, end0)
   else some (begin0, end0)).bind fun be =>
  (addDelta be.2 0 0 1).bind fun e1 =>
  if early && swift == 0 then some (timex, be.1, if ref.lt e1 then ref else e1)
  else if late && swift == 0 then some (timex, if be.1.lt ref then ref else be.1, e1)
  else some (timex, be.1, e1)

/-- `_parse_one_word_period`, weekend branch as it was BEFORE `fix: the weekend TIMEX takes its year from the ISO year
of the Saturday` (10db50e3c): Saturday .. Monday (exclusive); the TIMEX took its year from the *reference's calendar
year* and its week number from the Saturday. Kept as the labelled pre-fix variant. -/
def weekendPeriodPreFix (ref : DateTime) (swift : Int) : Option (Str × DateTime × DateTime) :=
  (weekDay ref swift 6).bind fun beginDate =>
  (weekDay ref swift 7).bind fun end0 =>
  (addDelta end0 0 0 1).bind fun endDate =>
  some (pad 4 ref.date.y ++ [45, 87] ++ pad 2 (isoCalendar beginDate.date).2.1 ++ [45, 87, 69], beginDate, endDate)

/-- `_parse_one_word_period`, weekend branch of the current code: Saturday .. Monday (exclusive), TIMEX
`f'{begin_date.isocalendar()[0]:04d}-W{begin_date.isocalendar()[1]:02d}-WE'` (ISO year and week of the Saturday). -/
def weekendPeriod (ref : DateTime) (swift : Int) : Option (Str × DateTime × DateTime) :=
  (weekendPeriodPreFix ref swift).map fun r =>
    (pad 4 (isoCalendar r.2.1.date).1 ++ [45, 87] ++ pad 2 (isoCalendar r.2.1.date).2.1 ++ [45, 87, 69], r.2.1, r.2.2)

/-- `_parse_one_word_period`, month branch as it is after the fix (`reference.replace(day=1) +
datedelta(months=swift)`), with the early / late flags (mid changes nothing): early = `[1st, 16th)`,
late = `[16th, 1st of next month)`. -/
def monthPeriodP (ref : DateTime) (swift : Int) (early late : Bool) : Option (Str × DateTime × DateTime) :=
  (addDelta { date := ⟨ref.date.y, ref.date.m, 1⟩, secs := ref.secs } 0 swift 0).bind fun temp =>
  let month := temp.date.m
  let year := temp.date.y
  let timex := pad 4 year ++ [45] ++ pad 2 month
  let start := safeCreateFromMinValue year month 1
  (addDelta (safeCreateFromMinValue year month 1) 0 1 0).bind fun end0 =>
  if early then (addDelta (safeCreateFromMinValue year month 15) 0 0 1).map fun e => (timex, start, e)
  else if late then some (timex, safeCreateFromMinValue year month 16, end0)
  else some (timex, start, end0)

/-- `_parse_one_word_period`, year branch with the early / late flags: late starts on 1 July, early ends on 30 June
(+ 1 day, exclusive end). -/
def yearPeriodP (ref : DateTime) (swift : Int) (early late : Bool) : Option (Str × DateTime × DateTime) :=
  (addDelta ref swift 0 0).bind fun temp =>
  let year := temp.date.y
  let beginDate := if late then safeCreateFromMinValue year 7 1 else safeCreateFromMinValue year 1 1
  let end0 := if early then safeCreateFromMinValue year 6 30 else safeCreateFromMinValue year 12 31
  (addDelta end0 0 0 1).bind fun endDate =>
  some (pad 4 year, beginDate, endDate)

/-- `is_year_to_date`: `(timex, [start, end])`, future = past. -/
def yearToDate (ref : DateTime) : Str × DateTime × DateTime :=
  (pad 4 ref.date.y, safeCreateFromValue minValue ref.date.y 1 1, ref)

/-- `safe_create_from_value(seed, year, month, day, hour)` with minute = second = 0. -/
def safeCreateFromValueH (seed : DateTime) (y : Int) (m d h : Nat) : DateTime :=
  if isValidDate y m d && decide (h < 24) then ⟨⟨y.toNat, m, d⟩, h * 3600⟩ else seed

/-- `is_month_to_date` as it was BEFORE `fix: 'month to date' starts on the first of the month in its past value too`
(f19a69b3f): `(timex, future start, past start, end)`; the past value's start was built with the arguments
`(year, month, month, 1)` — day = month number, hour = 1. Kept as the labelled pre-fix variant. -/
def monthToDatePreFix (ref : DateTime) : Str × DateTime × DateTime × DateTime :=
  (pad 4 ref.date.y ++ [45] ++ pad 2 ref.date.m,
   safeCreateFromValue minValue ref.date.y ref.date.m 1,
   safeCreateFromValueH minValue ref.date.y ref.date.m ref.date.m 1,
   ref)

/-- `is_month_to_date` of the current code: `(timex, future start, past start, end)`, both starts are
`safe_create_from_value(min_value, year, month, 1)`. -/
def monthToDate (ref : DateTime) : Str × DateTime × DateTime × DateTime :=
  (pad 4 ref.date.y ++ [45] ++ pad 2 ref.date.m,
   safeCreateFromValue minValue ref.date.y ref.date.m 1,
   safeCreateFromValue minValue ref.date.y ref.date.m 1,
   ref)

/-- The units of `rest of the <unit>` (`Constants.UNIT_W / UNIT_MON / UNIT_Y`). -/
inductive RUnit | W | MON | Y
deriving DecidableEq, Repr

/-- `_parse_duration`, the `rest_of_date_regex` block with `begin_date = end_date = reference` (no duration prefix):
outer `none` = the code raises, inner `none` = no result (`success` stays False), else `(timex, begin, end)` with
TIMEX `(begin,end,P<diff>D)`. The end is an *inclusive* last day; `diff` is `end − begin` for weeks but
`end − begin + 1` for months and years (faithful to the code). -/
def restOfFin (ref endDate : DateTime) (diff : Int) (restNowSunday : Bool) : Option (Str × DateTime × DateTime) :=
  if ref ≠ endDate ∨ restNowSunday = true then
    some ([40] ++ luisDateOf ref ++ [44] ++ luisDateOf endDate ++ [44, 80] ++
            (if diff < 0 then [45] ++ natStr diff.natAbs else natStr diff.toNat) ++ [68, 41], ref, endDate)
  else none

def restOf (u : RUnit) (ref : DateTime) : Option (Option (Str × DateTime × DateTime)) :=
  match u with
  | .W =>
    let diff : Int := 7 - (ref.date.isoWeekday : Int)
    (addDays ref diff).map fun e => restOfFin ref e diff (diff == 0)
  | .MON =>
    let e := safeCreateFromMinValue ref.date.y ref.date.m (daysInMonth ref.date.y ref.date.m)
    some (restOfFin ref e ((e.date.d : Int) - ref.date.d + 1) false)
  | .Y =>
    let e := safeCreateFromMinValue ref.date.y 12 31
    some (restOfFin ref e (((e.date.ord : Int) - daysBeforeYear e.date.y) - ((ref.date.ord : Int) - daysBeforeYear ref.date.y) + 1) false)


/-- `datetime.replace(year=y)`: `none` = ValueError when the day does not exist in that year. -/
def replaceYear (x : DateTime) (y : Int) : Option DateTime :=
  if isValidDate y x.date.m x.date.d then some ⟨⟨y.toNat, x.date.m, x.date.d⟩, x.secs⟩ else none

/-- `BaseDateParser.parse_number_with_month`, the tail for a month and a (spelled-out) day without a year
(`ambiguous = True`, "february twenty second", "mayo veintiuno") as it was BEFORE `fix: a month with a spelled-out day
takes its past candidate from the previous year` (151a4ac9b): the past candidate was moved to `year + 1` when it is not
before the reference. → `(timex, future, past)`. Kept as the labelled pre-fix variant. -/
def numberWithMonthPreFix (ref : DateTime) (m d : Nat) : Option (Str × DateTime × DateTime) :=
  let date := safeCreateFromMinValue ref.date.y m d
  (if date.lt ref then replaceYear date ((date.date.y : Int) + 1) else some date).bind fun future =>
  (if ref.le date then replaceYear date ((date.date.y : Int) + 1) else some date).bind fun past =>
  some (luisDateNoYear m d, future, past)

/-- `BaseDateParser.parse_number_with_month`, the tail for a month and a (spelled-out) day without a year, current
code: future candidate `year + 1` when before the reference, past candidate `year − 1` when not before it. -/
def numberWithMonth (ref : DateTime) (m d : Nat) : Option (Str × DateTime × DateTime) :=
  let date := safeCreateFromMinValue ref.date.y m d
  (if date.lt ref then replaceYear date ((date.date.y : Int) + 1) else some date).bind fun future =>
  (if ref.le date then replaceYear date ((date.date.y : Int) - 1) else some date).bind fun past =>
  some (luisDateNoYear m d, future, past)


end RTV.DateUtils
