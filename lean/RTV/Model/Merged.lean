import RTV.Model.Span
/-!
L2b `Merged` — the span pipeline of the merged date-time extractor and the modifier handling of the merged parser.
Mirrors /repo/Python/libraries/recognizers-date-time/recognizers_date_time/date_time:

* `base_merged.py` `BaseMergedExtractor.extract`: nine (ten with `number_ending_regex_match`) `add_to` steps,
  `filter_unespecific_date_period` (removes while iterating), `_filter_ambiguity`, `add_mod`
  (`try_merge_modifier_token` prefix widening, `suffix_after_regex` extension), `check_calendar_filter_list`,
  `sorted(key=start)`;
* `chinese/merged_extractor.py` `ChineseMergedExtractor.add_to` / `move_overlap` / `add_mod`;
* `base_merged.py` `BaseMergedParser.parse`: push of the modifier(s) before the sub-parser runs, pop afterwards —
  all blocks in sequence, with the `has_around` hand-over between them.

Sub-extractor outputs and every regex outcome are parameters. Import-free apart from RTV models.
-/
namespace RTV.Merged
open RTV.Py RTV.Span

/-! ## BaseMergedExtractor.extract -/

/-- what `add_mod` does to one entity: `pre k` = a modifier token found in `before_str` at index `k`
(`mod_len = len(before_str) - k; start -= mod_len; length += mod_len`), `ext m` = `length += m` (suffix modifier);
both end with `text = source[start:start+length]`. -/
inductive ModOp
  | pre (k : Nat)
  | ext (m : Nat)
deriving DecidableEq, Repr, Inhabited

def applyMod (src : Str) (e : ER) : ModOp → ER
  | .pre k =>
    let modLen := min e.start src.length - k
    ⟨e.start - modLen, e.len + modLen, sl src (e.start - modLen) (e.len + modLen), e.tag⟩
  | .ext m => ⟨e.start, e.len + m, sl src e.start (e.len + m), e.tag⟩

/-- `add_mod` over the list (entities are mutated in place, the list keeps its order); `ops tag` = the successful
merges of the entity with that tag, in the order the code performs them. -/
def addMods (src : Str) (ops : Nat → List ModOp) (es : List ER) : List ER :=
  es.map fun e => (ops e.tag).foldl (applyMod src) e

/-- `for x in l: if p(x): l.remove(x)` — removing while iterating skips the element that slides into the freed
slot (`filter_unespecific_date_period`; results are distinct objects, `remove` drops `x` itself). -/
def removeIter (p : ER → Bool) : List ER → List ER
  | [] => []
  | x :: rest =>
    if p x then
      match rest with
      | [] => []
      | y :: r => y :: removeIter p r
    else x :: removeIter p rest

/-- stable insertion by `start` (after every element whose start is ≤). -/
def insertER (v : ER) : List ER → List ER
  | [] => [v]
  | x :: r => if x.start ≤ v.start then x :: insertER v r else v :: x :: r

/-- `sorted(result, key=lambda x: x.start)`. -/
def sortByStart (es : List ER) : List ER := es.foldl (fun acc e => insertER e acc) []

/-- the `add_to` chain: `result = add_to(result, extractor_i.extract(source))` for every sub-extractor in order. -/
def addChain (inputs : List (List ER)) : List ER := inputs.foldl (addTo fun _ => false) []

/-- `BaseMergedExtractor.extract` (default options) as a function of the sub-extractors' outputs (`inputs`, the
last one being `number_ending_regex_match`), of which entities the unspecific-period regex matches, of which
entities `_filter_ambiguity` / `check_calendar_filter_list` drop, and of the modifier merges. -/
def mergedExtract (src : Str) (inputs : List (List ER)) (unspecific ambiguous : ER → Bool)
    (ops : Nat → List ModOp) (calendar : ER → Bool) : List ER :=
  let r1 := removeIter unspecific (addChain inputs)
  let r2 := r1.filter fun e => !ambiguous e
  let r3 := addMods src ops r2
  sortByStart (r3.filter fun e => !calendar e)

/-- the chain hypothesis of C12: `NoCrossingAll` at every `add_to` step against the list as it is then. -/
def ChainNoCrossing : List ER → List (List ER) → Prop
  | _, [] => True
  | dst, l :: rest => NoCrossingAll (fun _ => false) dst l ∧ ChainNoCrossing (addTo (fun _ => false) dst l) rest

instance decChain : ∀ (inputs : List (List ER)) (dst : List ER), Decidable (ChainNoCrossing dst inputs)
  | [], _ => isTrue trivial
  | l :: rest, dst => by
    unfold ChainNoCrossing
    exact @instDecidableAnd _ _ _ (decChain rest _)

/-- two spans are nested or apart (never crossing). -/
def Laminar (a b : ER) : Prop :=
  Disjoint a b ∨ (a.start ≤ b.start ∧ b.start + b.len ≤ a.start + a.len) ∨
    (b.start ≤ a.start ∧ a.start + a.len ≤ b.start + b.len)

/-! ## ChineseMergedExtractor -/

/-- `move_overlap`: drop every destination whose text occurs in the new value's text and that shares its start
or its end with it (`includes` = the `dest.text in source.text` outcomes). -/
def moveOverlap (includes : ER → Bool) (dst : List ER) (v : ER) : List ER :=
  dst.filter fun d => !(includes d && (decide (v.start = d.start) || decide (v.start + v.len = d.start + d.len)))

/-- number of consecutive destinations from the front of `l` that overlap `v`. -/
def overlapRun (v : ER) : List ER → Nat
  | [] => 0
  | d :: r => if overlap d v then 1 + overlapRun v r else 0

/-- one iteration of the Chinese `add_to`: the FIRST overlapping destination decides; if the value is longer it
replaces that destination and the overlapping ones right behind it, `move_overlap` cleans the rest. -/
def zhAddOne (includes : ER → ER → Bool) (dst : List ER) (v : ER) : List ER :=
  match dst.findIdx? (fun d => overlap d v) with
  | none => dst ++ [v]
  | some i =>
    match dst[i]? with
    | none => dst
    | some d =>
      if v.len > d.len then
        let rmLen := 1 + overlapRun v (dst.drop (i + 1))
        let kept := dst.take i ++ dst.drop (i + rmLen)
        let moved := moveOverlap (includes v) kept v
        moved.take i ++ [v] ++ moved.drop i
      else dst

def zhAddTo (includes : ER → ER → Bool) (dst src : List ER) : List ER := src.foldl (zhAddOne includes) dst

/-! ## BaseMergedParser.parse: push / pop of the modifiers -/

/-- which branch of the `if / elif` chain fired: one of the mutually exclusive modifiers, or the
`suffix_after` branch (`2012 or later`), or none. -/
inductive Kind
  | none | before | after | since | equal | dateAfter
deriving DecidableEq, Repr, Inhabited

/-- the recorded match facts. A `ConditionalMatch` is `(index, length)` of `match.group()` inside the string it
was searched in: `kindM` in `source.text`; `aroundM` in `source.text[preLength:]` when found at the beginning, in
`source.text` after the `match_end` fallback. `kindBegin` = the before/after/since match succeeded at the
beginning (this is what sets `preLength`); `isAfter` = the single shared flag `match_is_after`. -/
structure Facts where
  kind : Kind
  kindM : Nat × Nat
  kindBegin : Bool
  around : Bool
  aroundM : Nat × Nat
  isAfter : Bool
deriving DecidableEq, Repr, Inhabited

structure PState where
  e : Sp
  modStr : Str
deriving DecidableEq, Repr, Inhabited

def preLength (f : Facts) : Nat :=
  if (f.kind == .before || f.kind == .after || f.kind == .since) && f.kindBegin then f.kindM.1 + f.kindM.2 else 0

def cutFront (e : Sp) (m : Nat) : Sp := ⟨e.start + m, e.len - m, sliceI e.text m e.text.length⟩
def cutBack (e : Sp) (m : Nat) : Sp := ⟨e.start, e.len - m, sliceI e.text 0 (e.len - m)⟩

/-- Push: the `around` block, then the before / after / since / equal / suffix-after chain, on the mutated
`source` (`ExtractResult`), accumulating `mod_str`. -/
def push (f : Facts) (e : Sp) : PState :=
  let aroundText := sliceI e.text (preLength f) e.text.length
  let s1 : PState :=
    if f.around then
      if f.isAfter then ⟨cutBack e f.aroundM.2, sl e.text f.aroundM.1 f.aroundM.2⟩
      else ⟨cutFront e (preLength f + f.aroundM.1 + f.aroundM.2), sl aroundText 0 (f.aroundM.1 + f.aroundM.2)⟩
    else ⟨e, []⟩
  let grp := sl e.text f.kindM.1 f.kindM.2
  let cut (x : Sp) : Sp := if f.isAfter then cutBack x f.kindM.2 else cutFront x f.kindM.2
  match f.kind with
  | .none => s1
  | .equal => ⟨cut s1.e, grp⟩
  | .dateAfter => ⟨cutBack s1.e f.kindM.2, grp⟩
  | _ => ⟨if f.around then s1.e else cut s1.e, grp ++ s1.modStr⟩

/-- Pop: the restore blocks in the order of the code (`has_before`, `has_after`, `has_since`, `has_around`,
`has_equal`, `has_date_after`), each guarded by `result.value`. `reset` = the first three blocks clear
`has_around` after combining the approximate modifier (the code does; `false` models a dropped reset). -/
def pop (f : Facts) (hasValue reset : Bool) (r : Sp) (modStr : Str) : Sp :=
  let n : Int := modStr.length
  let pre (r : Sp) : Sp := ⟨r.start - n, r.len + n, modStr ++ r.text⟩
  let post (r : Sp) : Sp := ⟨r.start, r.len + n, r.text ++ modStr⟩
  if !hasValue then r
  else
    let st : Sp × Bool :=
      match f.kind with
      | .before => (if f.isAfter then post r else pre r, if reset then false else f.around)
      | .after => (pre r, if reset then false else f.around)
      | .since => (pre r, if reset then false else f.around)
      | _ => (r, f.around)
    let r2 := if st.2 then pre st.1 else st.1
    let r3 := if f.kind == .equal then pre r2 else r2
    if f.kind == .dateAfter then post r3 else r3

/-- the list `add_mod` receives inside `mergedExtract` -/
def beforeMods (inputs : List (List ER)) (unspecific ambiguous : ER → Bool) : List ER :=
  (removeIter unspecific (addChain inputs)).filter fun e => !ambiguous e

/-- Boolean form of the hypothesis `ExtClear` of `mergedExtract_disjoint` (`extClearB_iff` in RTV/Props/C12.lean): no
two entities that are disjoint before `add_mod` run into each other through their modifier extensions.  The driver
evaluates it (`mg.ext`, 4th field) on every recorded `BaseMergedExtractor.extract` call. -/
def extClearB (src : Str) (ops : Nat → List ModOp) (l : List ER) : Bool :=
  l.all fun a => l.all fun b =>
    !(decide (Disjoint a b)) ||
      decide (Disjoint ((ops a.tag).foldl (applyMod src) a) ((ops b.tag).foldl (applyMod src) b))

end RTV.Merged
