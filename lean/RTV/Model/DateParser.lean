import RTV.Model.DateUtils
/-!
L5 `DateParser` — the remaining branches of `BaseDateParser` (`recognizers_date_time/date_time/base_date.py`), mirrored
function by function with the **regex outcomes as inputs** (which pattern matched, and what the culture tables / the
number parser / `get_swift_*` made of the groups):

* `parse_implicit_date`: the `on_regex` branch ("the 15th"; `onDay`), `special_day_with_num_regex` ("two days from
  tomorrow"; `specialDayWithNum`), `relative_week_day_regex` ("two mondays from now"; `relativeWeekday`),
  `for_the_regex` ("pour le 27"; `forThe`), `week_day_and_day_of_month_regex` ("Friday the 15th";
  `weekdayAndDayOfMonth`), `week_day_and_day_regex` ("Friday 15", two month-by-month searches; `weekdayAndDay`), and the
  **order** of all eleven branches (`implicitDate` over a record of regex outcomes `Matches`; the branches modelled
  earlier — special day, next / this / last / bare weekday — are `RTV.DateUtils.specialDay … bareWeekday`);
* `parse_weekday_of_month` + `_compute_date` ("first monday of june", "last friday of this month"; `weekdayOfMonth`,
  `computeDateR`);
* `parse_single_number` (`singleNumber`);
* `parse` itself: the order of the six sub-parsers (lazily: a later one is not run, hence cannot raise, once an earlier
  one succeeded) and the assembly of the result (`parseDate`, `assemble`).

Conventions: `Res.raises` = the Python code raises (`ValueError` of `datetime(...)`, `datetime.replace`,
`datetime.strptime`, `OverflowError`/`ValueError` of date arithmetic; the model's `parse` of the date-time model swallows
it and no entity is produced), `Res.noResult` = `success` stays `False`. Day-of-week arguments are the culture map's
values (Sunday = 0). Quirks kept: see each function.
-/
namespace RTV.DateParser
open RTV.Cal RTV.DateUtils RTV.Py

/-- What a date-parsing function yields: it raises, it returns `success = False`, or `(timex, future_value, past_value)`. -/
inductive Res
  | raises
  | noResult
  | ok (timex : Str) (future past : DateTime)
deriving DecidableEq, Repr

def ofOpt (o : Option Res) : Res := o.getD .raises

def Res.isOk : Res → Bool
  | .ok .. => true
  | _ => false

/-- `str(n)` for an `int`. -/
def intStr (n : Int) : Str := if n < 0 then [45] ++ natStr n.natAbs else natStr n.toNat

/-- `DateTimeFormatUtil.luis_date(-1, -1, day)` = `f'XXXX-XX-{day:02d}'`. -/
def luisDayOnly (day : Nat) : Str := [88, 88, 88, 88, 45, 88, 88, 45] ++ pad 2 day

/-- `datetime(year, month, day)`: `none` = ValueError. -/
def mkDate (y : Int) (m d : Nat) : Option DateTime :=
  if isValidDate y m d then some ⟨⟨y.toNat, m, d⟩, 0⟩ else none

/-- `x.replace(day=d)`: `none` = ValueError ("day is out of range for month"); the time of day is kept. -/
def replaceDay (x : DateTime) (d : Int) : Option DateTime :=
  if 1 ≤ d ∧ isValidDate x.date.y x.date.m d.toNat then some ⟨⟨x.date.y, x.date.m, d.toNat⟩, x.secs⟩ else none

/-- `x.replace(month=m)`: `none` = ValueError ("month must be in 1..12" / "day is out of range for month"). -/
def replaceMonth (x : DateTime) (m : Int) : Option DateTime :=
  if 1 ≤ m ∧ isValidDate x.date.y m.toNat x.date.d then some ⟨⟨x.date.y, m.toNat, x.date.d⟩, x.secs⟩ else none

/-- `x.replace(month=m, year=y)`. -/
def replaceMonthYear (x : DateTime) (m : Int) (y : Int) : Option DateTime :=
  if 1 ≤ m ∧ isValidDate y m.toNat x.date.d then some ⟨⟨y.toNat, m.toNat, x.date.d⟩, x.secs⟩ else none

/-- `DateUtils.safe_create_from_min_value(v.year, v.month, v.day)`: midnight of a datetime's date. -/
def midnightOf (v : DateTime) : DateTime := safeCreateFromMinValue v.date.y v.date.m v.date.d

/-! ### `parse_implicit_date`, `on_regex` branch: a day number on its own ("on the 15th" → text `the 15th`) -/

/-- `day = day_of_month[day_str]`. `datetime.strptime(luis_date(year, month, day), '%Y-%m-%d')` raises when the
reference's month has no such day ("the 31st" asked in February: no result at all); a `datetime` is always truthy, so
the `else` branch (month ± 1) is dead code. Otherwise both candidates start at that day of the reference's month
(midnight); the future one moves on by `datedelta(months=1)` when it is before the *full* reference datetime, the past
one back by `datedelta(months=-1)` when it is not before it. `datedelta` rolls a missing day forward to the 1st of the
following month when adding and back to the month's last day when subtracting. -/
def onDay (ref : DateTime) (day : Nat) : Res :=
  if isValidDate ref.date.y ref.date.m day then
    let d0 := safeCreateFromMinValue ref.date.y ref.date.m day
    ofOpt do
      let f ← if d0.lt ref then addDelta d0 0 1 0 else some d0
      let p ← if ref.le d0 then addDelta d0 0 (-1) 0 else some d0
      pure (.ok (luisDayOnly day) f p)
  else .raises

/-! ### `special_day_with_num_regex` ("two days from tomorrow") -/

/-- `num` = the first integer of the text (`none`: the integer extractor found nothing → `success = False`),
`swift = get_swift_day(day group)`; `value = reference + datedelta(days=num + swift)`. -/
def specialDayWithNum (ref : DateTime) (num : Option Int) (swift : Int) : Res :=
  match num with
  | none => .noResult
  | some n =>
    match addDelta ref 0 0 (n + swift) with
    | none => .raises
    | some v => .ok (luisDateOf v) (midnightOf v) (midnightOf v)

/-! ### `relative_week_day_regex` ("two mondays from now") -/

/-- `while num > 0: value = DateUtils.next(value, dow); num -= 1` (the loop counter is its own fuel). -/
def relLoop (dow : Nat) : Nat → DateTime → Option DateTime
  | 0, v => some v
  | n + 1, v => (next v dow).bind (relLoop dow n)

/-- `num` counts from the week of the reference: it is reduced by one when the reference's ISO weekday is already
past the stated one (`isoweekday() > day_of_week[...]`, Sunday = 0 in the culture map, hence always "past"); each
remaining count is one `DateUtils.next` (the stated weekday of the *following* week). A count of zero leaves the
reference's own date. -/
def relativeWeekday (ref : DateTime) (num : Option Int) (dow : Nat) : Res :=
  match num with
  | none => .noResult
  | some n =>
    let n' : Int := if ref.date.isoWeekday > dow then n - 1 else n
    match relLoop dow n'.toNat ref with
    | none => .raises
    | some v => .ok (luisDateOf v) (midnightOf v) (midnightOf v)

/-! ### `for_the_regex` ("for the 27th") and `week_day_and_day_of_month_regex` ("Friday the 15th") -/

/-- `date = datetime(year, month, day)` of the reference's month (raises when it has no such day); TIMEX `XXXX-XX-DD`. -/
def forThe (ref : DateTime) (day : Nat) : Res :=
  match mkDate ref.date.y ref.date.m day with
  | none => .raises
  | some d => .ok (luisDayOnly day) d d

/-- "Friday the 15th": the weekday is *not* looked at ("the validity of the phrase is guaranteed in the Date Extractor");
the 15th of the reference's month with a definite TIMEX. -/
def weekdayAndDayOfMonth (ref : DateTime) (day : Nat) : Res :=
  match mkDate ref.date.y ref.date.m day with
  | none => .raises
  | some d => .ok (luisDate ref.date.y ref.date.m day) d d

/-! ### `week_day_and_day_regex` ("Friday 15"): the nearest months in which the 15th is a Friday -/

/-- Outcome of a `while` loop run with fuel. -/
inductive LoopRes
  | done (v : DateTime)
  | raises
  | fuelOut
deriving DecidableEq, Repr

/-- Enough fuel for any month-by-month walk inside 0001..9999 (`Lemmas/DateParser.lean`: `futLoop_fuel`,
`pastLoop_fuel`). -/
def fuelMonths : Nat := 120001

/-- ```
while future_date.isoweekday() != week_day or future_date.day != day or future_date < reference:
    future_date += datedelta(months=1)
    if calendar.monthrange(future_date.year, future_date.month)[1] >= day:
        future_date = DateUtils.safe_create_from_value(DateUtils.min_value, future_date.year, future_date.month, day)
``` -/
def futLoop (ref : DateTime) (day dow : Nat) : Nat → DateTime → LoopRes
  | 0, _ => .fuelOut
  | fuel + 1, cur =>
    if cur.date.isoWeekday != dow || cur.date.d != day || cur.lt ref then
      match addDelta cur 0 1 0 with
      | none => .raises
      | some nx =>
        futLoop ref day dow fuel
          (if daysInMonth nx.date.y nx.date.m ≥ day then safeCreateFromValue minValue nx.date.y nx.date.m day else nx)
    else .done cur

/-- ```
while past_date.isoweekday() != week_day or past_date.day != day or past_date > reference:
    past_date += datedelta(months=-1)
    if calendar.monthrange(past_date.year, future_date.month)[1] >= day:      # sic: the *future* date's month
        past_date = DateUtils.safe_create_from_value(DateUtils.min_value, past_date.year, past_date.month, day)
```
`fm` = the month of the already computed future date. -/
def pastLoop (ref : DateTime) (day dow fm : Nat) : Nat → DateTime → LoopRes
  | 0, _ => .fuelOut
  | fuel + 1, cur =>
    if cur.date.isoWeekday != dow || cur.date.d != day || ref.lt cur then
      match addDelta cur 0 (-1) 0 with
      | none => .raises
      | some nx =>
        pastLoop ref day dow fm fuel
          (if daysInMonth nx.date.y fm ≥ day then safeCreateFromValue minValue nx.date.y nx.date.m day else nx)
    else .done cur

/-- `unitAfter` = `unit_regex` finds a unit in the text after the match ("Monday 3 weeks from now": no result).
The pivot is the stated day of the reference's month; when that month is too short the code evaluates
`datetime(year, month, day) + datedelta(months=1)` and **raises** (the constructor is handed the missing day). If the
pivot is the reference's own day and weekday, both values are that day with a definite TIMEX. Otherwise two searches
month by month. `week_day` is the culture map's value: for Sunday (0) `isoweekday() != 0` never fails and both loops
run until the date arithmetic leaves 0001..9999 and raises. The pivot `min_value` (stated day 0, or the reference in
0001-01 with day 1) makes the code return `success` with no values, on which `parse` raises `AttributeError`:
modelled as `raises`. Running out of fuel is reported as `raises` too and never happens (`weekdayAndDay_fuel`). -/
def weekdayAndDay (ref : DateTime) (unitAfter : Bool) (day dow : Nat) : Res :=
  if unitAfter then .noResult
  else
    let y := ref.date.y
    let m := ref.date.m
    let pivot? : Option DateTime :=
      if daysInMonth y m ≥ day then some (safeCreateFromMinValue y m day)
      else (mkDate y m day).bind fun x => (addDelta x 0 1 0).map midnightOf
    match pivot? with
    | none => .raises
    | some pivot =>
      if pivot = minValue then .raises
      else if day == ref.date.d && pivot.date.isoWeekday == dow then
        match mkDate y m day with
        | none => .raises
        | some d => .ok (luisDate y m day) d d
      else
        match futLoop ref day dow fuelMonths pivot with
        | .raises => .raises
        | .fuelOut => .raises
        | .done f =>
          match pastLoop ref day dow f.date.m fuelMonths pivot with
          | .raises => .raises
          | .fuelOut => .raises
          | .done p => .ok ([88, 88, 88, 88, 45, 87, 88, 88, 45] ++ natStr (if dow == 0 then 7 else dow)) f p

/-! ### the order of the branches of `parse_implicit_date` -/

/-- The regex outcomes `parse_implicit_date` looks at, in the order of the code. Each field is `some …` iff the
branch's condition holds (for the first, second and the four weekday branches: match at the start covering the whole
trimmed text; for the others a `regex.match` at the start is enough). -/
structure Matches where
  /-- `on_regex` on `date_token_prefix + text`: `day_of_month[day]` -/
  on : Option Nat := none
  /-- `special_day_regex`: `get_swift_day(match)` -/
  special : Option Int := none
  /-- `special_day_with_num_regex`: (first integer of the text, `get_swift_day(day group)`) -/
  specialNum : Option (Option Int × Int) := none
  /-- `relative_week_day_regex`: (first integer of the text, `day_of_week[weekday]`) -/
  relWeekday : Option (Option Int × Nat) := none
  next : Option Nat := none
  this : Option Nat := none
  last : Option Nat := none
  bare : Option Nat := none
  /-- `for_the_regex`: the parsed `DayOfMonth` group -/
  forThe : Option Nat := none
  /-- `week_day_and_day_of_month_regex`: the parsed `DayOfMonth` group -/
  wdDayOfMonth : Option Nat := none
  /-- `week_day_and_day_regex`: (a unit follows, parsed day, `day_of_week[weekday]`) -/
  wdDay : Option (Bool × Nat × Nat) := none
deriving Repr

def ofValue (o : Option (Str × DateTime)) : Res :=
  match o with
  | none => .raises
  | some (t, v) => .ok t v v

/-- `parse_implicit_date`: the first branch whose pattern matches decides (a branch that matches and yields no result
or raises ends the function: nothing later is tried). -/
def implicitDate (ref : DateTime) (mt : Matches) : Res :=
  match mt.on with
  | some day => onDay ref day
  | none =>
  match mt.special with
  | some swift => ofValue (specialDay ref swift)
  | none =>
  match mt.specialNum with
  | some (num, swift) => specialDayWithNum ref num swift
  | none =>
  match mt.relWeekday with
  | some (num, dow) => relativeWeekday ref num dow
  | none =>
  match mt.next with
  | some dow => ofValue (nextWeekday ref dow)
  | none =>
  match mt.this with
  | some dow => ofValue (thisWeekday ref dow)
  | none =>
  match mt.last with
  | some dow => ofValue (lastWeekday ref dow)
  | none =>
  match mt.bare with
  | some dow =>
    (match bareWeekday ref dow with
     | none => .raises
     | some (t, f, p) => .ok t f p)
  | none =>
  match mt.forThe with
  | some day => forThe ref day
  | none =>
  match mt.wdDayOfMonth with
  | some day => weekdayAndDayOfMonth ref day
  | none =>
  match mt.wdDay with
  | some (unitAfter, day, dow) => weekdayAndDay ref unitAfter day dow
  | none => .noResult

/-! ### `_compute_date`, `parse_weekday_of_month` ("first monday of june", "last friday of this month") -/

/-- `_compute_date(cardinal, weekday, month, year)` of `BaseDateParser`: the first `weekday` on or after the 1st of the
month, then `first_weekday.replace(day=first_weekday.day + 7 * (cardinal - 1))` — which **raises** when the month has no
such day (a fifth occurrence that does not exist; the period parser's `_compute_date` adds days instead and spills into
the next month). -/
def computeDateR (cardinal : Int) (weekday : Nat) (month : Nat) (year : Int) : Option DateTime :=
  if isValidDate year month 1 then
    let first : DateTime := ⟨⟨year.toNat, month, 1⟩, 0⟩
    (this first weekday).bind fun fw0 =>
    let wd := if weekday == 0 then 7 else weekday
    (if wd < first.date.isoWeekday then next first wd else some fw0).bind fun fw =>
    replaceDay fw ((fw.date.d : Int) + 7 * (cardinal - 1))
  else none

/-- `cardinal` = 5 for "last" (`is_cardinal_last`) else `cardinal_map[...]`; `dow = day_of_week[...]`; `monthStr` = the
named month (then the year is open: `no_year`), otherwise the month is `reference.replace(month=reference.month +
swift)` with `swift = get_swift_month(text)` — a `replace`, so December + 1, January − 1 and a reference day the target
month lacks all **raise**. The two `value.month != month` repairs (step back a week) are kept although `replace(day=…)`
cannot leave the month; the past one reads `past_date.date - 7` (a method minus an int: TypeError). TIMEX
`XXXX-MM-WXX-<dow>-#<cardinal>` with the culture map's `dow` (0 for Sunday). -/
def weekdayOfMonth (ref : DateTime) (cardinal : Int) (dow : Nat) (monthStr : Option Nat) (swift : Int) : Res :=
  ofOpt do
    let (month, year, noYear) ←
      (match monthStr with
       | some m => some (m, (ref.date.y : Int), true)
       | none => (replaceMonth ref ((ref.date.m : Int) + swift)).map fun t => (t.date.m, (t.date.y : Int), false))
    let value0 ← computeDateR cardinal dow month year
    let (cardinal, value) ←
      (if value0.date.m ≠ month then (replaceDay value0 ((value0.date.d : Int) - 7)).map fun v => (cardinal - 1, v)
       else some (cardinal, value0))
    let future ←
      (if noYear && value.lt ref then
        (computeDateR cardinal dow month (year + 1)).bind fun f =>
          if f.date.m ≠ month then replaceDay f ((f.date.d : Int) - 7) else some f
       else some value)
    let past ←
      (if noYear && ref.le value then
        (computeDateR cardinal dow month (year - 1)).bind fun p =>
          if p.date.m ≠ month then none else some p
       else some value)
    pure (.ok ([88, 88, 88, 88, 45] ++ pad 2 month ++ [45, 87, 88, 88, 45] ++ natStr dow ++ [45, 35] ++ intStr cardinal)
      future past)

/-! ### `parse_single_number` ("the fifteenth") -/

/-- Both candidates are the stated day of the reference's month (or `min_value` when it has none). The future one is
moved by `replace(month=month + 1)` — which **raises** in December and when the next month lacks the day; the past one
by `replace(month=month - 1)` (January: `month=12, year=year - 1`), which raises when the previous month lacks the day. -/
def singleNumber (ref : DateTime) (day : Nat) : Res :=
  let d0 := safeCreateFromMinValue ref.date.y ref.date.m day
  ofOpt do
    let f ← if d0 ≠ minValue && d0.lt ref then replaceMonth d0 ((d0.date.m : Int) + 1) else some d0
    let p ←
      (if d0 ≠ minValue && ref.le d0 then
        (if (d0.date.m : Int) - 1 == 0 then replaceMonthYear d0 12 ((d0.date.y : Int) - 1)
         else replaceMonth d0 ((d0.date.m : Int) - 1))
       else some d0)
    pure (.ok (luisDayOnly day) f p)

/-! ### `parse`: order of the sub-parsers, assembly of the result -/

/-- The chain `if not inner_result.success: inner_result = next_parser(...)`: the sub-parsers run lazily, in order; one
that raises ends everything, the first success is kept. -/
def firstSuccess : List (Unit → Res) → Res
  | [] => .noResult
  | f :: rest =>
    match f () with
    | .raises => .raises
    | .noResult => firstSuccess rest
    | r => r

/-- The outcomes of the three sub-parsers modelled elsewhere (`parse_basic_regex_match` → `RTV.DtRes.matchToDate`,
`parser_duration_with_ago_and_later` → `RTV.DateUtils.getDateResult`, `parse_number_with_month` →
`RTV.DateUtils.numberWithMonth`) enter as values; the weekday-of-month pattern's outcome and the number found by the
ordinal / integer extractors as options. -/
structure Subs where
  basic : Res := .noResult
  implicit : Matches := {}
  /-- `week_day_of_month_regex` matched: (cardinal, dow, month, swift) -/
  wom : Option (Int × Nat × Option Nat × Int) := none
  agoLater : Res := .noResult
  numberWithMonth : Res := .noResult
  /-- `parse_single_number`: the first ordinal (else integer) of the text -/
  single : Option Nat := none

def parseInner (ref : DateTime) (s : Subs) : Res :=
  firstSuccess
    [fun _ => s.basic,
     fun _ => implicitDate ref s.implicit,
     fun _ => (match s.wom with
               | none => .noResult
               | some (c, dow, mo, sw) => weekdayOfMonth ref c dow mo sw),
     fun _ => s.agoLater,
     fun _ => s.numberWithMonth,
     fun _ => (match s.single with
               | none => .noResult
               | some d => singleNumber ref d)]

/-- `DateTimeFormatUtil.format_date(x)` = `f'{year:04d}-{month:02d}-{day:02d}'`. -/
def formatDate (x : DateTime) : Str := luisDateOf x

/-- What `parse` returns for a source of type `date`: outer `none` = it raises; inner `none` = `value = None`,
`timex_str = ''`; else `(timex_str, future_resolution['date'], past_resolution['date'], future_value, past_value)`. -/
def parseDate (ref : DateTime) (s : Subs) : Option (Option (Str × Str × Str × DateTime × DateTime)) :=
  match parseInner ref s with
  | .raises => none
  | .noResult => some none
  | .ok t f p => some (some (t, formatDate f, formatDate p, f, p))

end RTV.DateParser
