import RTV.Model.TimexCfg
import RTV.Gen.TimexEnglish
/-!
L7 `Timex` (part 5) — the rest of the package, **outside the C14 / C15 properties** (characterisation and unit
correspondence only): `TimexConvert` / `english_timex_convert.py` (`Timex.to_string`), `TimexRelativeConvert` /
`english_timex_relative_convert.py` (`Timex.to_natural_language`), `convert_timex_set_to_string`, and `TimexCreator`
(the functions that take the date as an argument).

Modelled for `int` fields (what parsing produces); a `Decimal` / `float` in a date or time field is `unmodelled`.
Python behaviours mirrored: negative list indices wrap (`DAYS[-1]`), `KeyError` of the dict lookups, `IndexError`,
`NotImplementedError` for every ISO-week TIMEX (`weekend` is `False`, never `None`), `convert_timex_set_to_string`
calling the `types` *property* (`'set' object is not callable`), the missing blanks in `'May2020'` and
`'firstweek of May'`, and the dependence of `tomorrow` / `yesterday` on the reference's time of day
(`datetime(y, m, d) == reference + 1 day` compares with the time part).
-/
namespace RTV.Timex
open RTV.Py RTV.Cal

inductive CErr
  | typeError | keyError | indexError | valueError | notImplemented | overflowError | unmodelled
deriving DecidableEq, Repr, Inhabited

abbrev C := Except CErr

structure EngCfg where
  days : List Str
  months : List Str
  dateAbbreviation : List (Int × Str)
  seasons : List (Str × Str)
  weeks : List Str
  dayParts : List (Str × Str)

def genEng : EngCfg where
  days := RTV.Gen.TimexEnglish.days
  months := RTV.Gen.TimexEnglish.months
  dateAbbreviation := RTV.Gen.TimexEnglish.dateAbbreviation
  seasons := RTV.Gen.TimexEnglish.seasons
  weeks := RTV.Gen.TimexEnglish.weeks
  dayParts := RTV.Gen.TimexEnglish.dayParts

/-- an `int` field for arithmetic / indexing: `None - 1` is a TypeError -/
def cInt : Option Num → C Int
  | none => throw .typeError
  | some (.int i) => pure i
  | some _ => throw .unmodelled

/-- `list[i]` with negative-index wrap -/
def listIdx (l : List Str) (i : Int) : C Str :=
  match Py.index l i with
  | some x => pure x
  | none => throw .indexError

def assocInt (d : List (Int × Str)) (k : Int) : C Str :=
  match d.find? (fun p => p.1 == k) with
  | some p => pure p.2
  | none => throw .keyError

def assocStr (d : List (Str × Str)) (k : Option Str) : C Str :=
  match k with
  | none => throw .keyError
  | some k => match d.find? (fun p => p.1 == k) with
    | some p => pure p.2
    | none => throw .keyError

/-- `str(x)` of a field (`None` prints as `None`) -/
def fstr : Option Num → Str := optStr

/-- `english_convert_date` -/
def englishConvertDate (e : EngCfg) (t : Timex) : C Str := do
  match t.dayOfWeek with
  | some _ =>
    let w ← cInt t.dayOfWeek
    listIdx e.days (w - 1)
  | none =>
    let m ← cInt t.month
    let month ← listIdx e.months (m - 1)
    -- `int(str(date[len(date) - 1]))`: the last character of `str(day_of_month)`
    let dom ← match t.dayOfMonth with
      | none => throw .valueError        -- int('e') of 'None'
      | some (.int i) => if i < 0 then throw .unmodelled else pure i
      | some _ => throw .unmodelled
    let abbr ← assocInt e.dateAbbreviation (dom % 10)
    let date := istr dom
    match t.year with
    | some y => pure (date ++ abbr ++ 32 :: month ++ 32 :: (some y |> fstr))
    | none => pure (date ++ abbr ++ 32 :: month)

/-- `convert_date` of english_timex_convert.py (used by `convert_date_time_range`): `DATE_ABBREVIATION[int(date)]` -/
def convertDateE (e : EngCfg) (t : Timex) : C Str := do
  match t.dayOfWeek with
  | some _ =>
    let w ← cInt t.dayOfWeek
    listIdx e.days (w - 1)
  | none =>
    let m ← cInt t.month
    let month ← listIdx e.months (m - 1)
    let dom ← match t.dayOfMonth with
      | none => throw .valueError
      | some (.int i) => pure i
      | some _ => throw .unmodelled
    let abbr ← assocInt e.dateAbbreviation dom
    let date := istr dom
    match t.year with
    | some y => pure (date ++ abbr ++ 32 :: month ++ 32 :: (some y |> fstr))
    | none => pure (date ++ abbr ++ 32 :: month)

def sMidnight : Str := [109, 105, 100, 110, 105, 103, 104, 116]
def sMidday : Str := [109, 105, 100, 100, 97, 121]
def sAM : Str := [65, 77]
def sPM : Str := [80, 77]

/-- `convert_time` -/
def convertTime (t : Timex) : C Str := do
  let h ← cInt t.hour
  let m ← cInt t.minute
  let s ← cInt t.second
  if h = 0 ∧ m = 0 ∧ s = 0 then return sMidnight
  if h = 12 ∧ m = 0 ∧ s = 0 then return sMidday
  let hour := if h = 0 then [49, 50] else if h > 12 then istr (h - 12) else istr h
  let minute := if m = 0 ∧ s = 0 then [] else 58 :: rjust0 2 (istr m)
  let second := if s = 0 then [] else 58 :: rjust0 2 (istr s)
  let period := if h < 12 then sAM else sPM
  return hour ++ minute ++ second ++ period

/-- `convert_duration_property_to_string` -/
def durationProp (v : Num) (prop : Str) (includeSingle : Bool) : Str :=
  if v.eqInt 1 then (if includeSingle then [49, 32] ++ prop else prop)
  else v.str ++ 32 :: prop ++ [115]

def wYear : Str := [121, 101, 97, 114]
def wMonth : Str := [109, 111, 110, 116, 104]
def wWeek : Str := [119, 101, 101, 107]
def wDay : Str := [100, 97, 121]
def wHour : Str := [104, 111, 117, 114]
def wMinute : Str := [109, 105, 110, 117, 116, 101]
def wSecond : Str := [115, 101, 99, 111, 110, 100]

/-- `convert_timex_duration_to_string` -/
def durationToString (t : Timex) (includeSingle : Bool) : Str :=
  match t.years with
  | some v => durationProp v wYear includeSingle
  | none => match t.months with
  | some v => durationProp v wMonth includeSingle
  | none => match t.weeks with
  | some v => durationProp v wWeek includeSingle
  | none => match t.days with
  | some v => durationProp v wDay includeSingle
  | none => match t.hours with
  | some v => durationProp v wHour includeSingle
  | none => match t.minutes with
  | some v => durationProp v wMinute includeSingle
  | none => match t.seconds with
  | some v => durationProp v wSecond includeSingle
  | none => []

def sWeekOf : Str := [119, 101, 101, 107, 32, 111, 102, 32]

/-- `convert_date_range` -/
def convertDateRange (e : EngCfg) (t : Timex) : C Str := do
  let season ← match t.season with
    | some _ => assocStr e.seasons t.season
    | none => pure []
  let year : Str := match t.year with
    | some y => (some y |> fstr)
    | none => []
  if t.weekOfYear.isSome ∧ t.weekend.isSome then throw .notImplemented
  match t.month with
  | some _ =>
    let m ← cInt t.month
    let month ← listIdx e.months (m - 1)
    match t.weekOfMonth with
    | some _ =>
      let w ← cInt t.weekOfMonth
      let wk ← listIdx e.weeks (w - 1)
      pure (wk ++ sWeekOf ++ month)
    | none => pure (month ++ year)
  | none => pure (season ++ 32 :: year)

def convertTimeRange (e : EngCfg) (t : Timex) : C Str := assocStr e.dayParts t.partOfDay

def convertDateTime (e : EngCfg) (t : Timex) : C Str := do
  let a ← convertTime t
  let b ← englishConvertDate e t
  pure (a ++ 32 :: b)

def convertDateTimeRange (e : EngCfg) (t : Timex) : C Str := do
  if (infer t).timerange then
    let a ← convertDateE e t
    let b ← convertTimeRange e t
    pure (a ++ 32 :: b)
  else pure []

def sNow : Str := [110, 111, 119]

/-- `convert_timex_to_string` (`Timex.to_string`) -/
def timexToString (e : EngCfg) (t : Timex) : C Str := do
  let ty := infer t
  if ty.present then return sNow
  if ty.datetimerange then return (← convertDateTimeRange e t)
  if ty.daterange then return (← convertDateRange e t)
  if ty.duration then return durationToString t true
  if ty.timerange then return (← convertTimeRange e t)
  if ty.datetime then return (← convertDateTime e t)
  if ty.date then return (← englishConvertDate e t)
  if ty.time then return (← convertTime t)
  return []

/-- `convert_timex_set_to_string`: `timex.types()` calls a `set` -/
def timexSetToString (_e : EngCfg) (_t : Timex) : C Str := throw .typeError

/-! ## relative to a reference datetime (date + seconds since midnight) -/

def sToday : Str := [116, 111, 100, 97, 121]
def sTomorrow : Str := [116, 111, 109, 111, 114, 114, 111, 119]
def sYesterday : Str := [121, 101, 115, 116, 101, 114, 100, 97, 121]
def sThis : Str := [116, 104, 105, 115, 32]
def sNext : Str := [110, 101, 120, 116, 32]
def sLast : Str := [108, 97, 115, 116, 32]
def sTonight : Str := [116, 111, 110, 105, 103, 104, 116]

/-- `datetime(y, m, d)` of three `int` fields -/
def cDate (t : Timex) : C Date := do
  let y ← cInt t.year
  let m ← cInt t.month
  let d ← cInt t.dayOfMonth
  if 0 ≤ y ∧ 0 ≤ m ∧ 0 ≤ d then
    let x : Date := ⟨y.toNat, m.toNat, d.toNat⟩
    if x.valid then pure x else throw .valueError
  else throw .valueError

/-- `(timex_date - start_of_week).days` where `start_of_week = ref - weekday days` keeps the reference's time of day:
`timedelta.days` is the floor -/
def weekDiffDays (td : Nat) (refOrd : Nat) (refSecs : Nat) : Int :=
  let start : Int := (refOrd : Int) - weekdayOrd refOrd
  let k : Int := (td : Int) - start
  if refSecs > 0 then k - 1 else k

/-- `TimexDateHelpers.is_this_week(date, reference)` on ordinals; the reference may be shifted by ±7 days
(`OverflowError` when the shifted reference or its Monday leaves 0001-01-01 … 9999-12-31) -/
def isThisWeek (td : Nat) (refOrd : Int) (refSecs : Nat) : C Bool :=
  if 1 ≤ refOrd ∧ refOrd ≤ maxOrd then
    if 1 ≤ refOrd - weekdayOrd refOrd.toNat then
      let d := weekDiffDays td refOrd.toNat refSecs
      pure (decide (0 ≤ d ∧ d < 7))
    else throw .overflowError
  else throw .overflowError

/-- `convert_date(timex, date)` of the relative converter -/
def relConvertDate (e : EngCfg) (t : Timex) (ref : Date) (secs : Nat) : C Str := do
  if t.year.isSome ∧ t.month.isSome ∧ t.dayOfMonth.isSome then
    let td ← cDate t
    if td.ord = ref.ord then return sToday
    if ref.ord + 1 > maxOrd then throw .overflowError
    if secs = 0 ∧ td.ord = ref.ord + 1 then return sTomorrow
    if ref.ord < 2 then throw .overflowError
    if secs = 0 ∧ td.ord + 1 = ref.ord then return sYesterday
    let day ← listIdx e.days (weekdayOrd td.ord)
    if (← isThisWeek td.ord ref.ord secs) then return sThis ++ day
    if (← isThisWeek td.ord (ref.ord + 7) secs) then return sNext ++ day
    if (← isThisWeek td.ord ((ref.ord : Int) - 7) secs) then return sLast ++ day
  englishConvertDate e t

def relConvertDateTime (e : EngCfg) (t : Timex) (ref : Date) (secs : Nat) : C Str := do
  let a ← relConvertDate e t ref secs
  let b ← convertTime t
  pure (a ++ 32 :: b)

def sWeekend : Str := [119, 101, 101, 107, 101, 110, 100]
def sYearW : Str := [121, 101, 97, 114]

/-- `convert_date_range(timex, date)` of the relative converter -/
def relConvertDateRange (e : EngCfg) (t : Timex) (ref : Date) : C Str := do
  match t.year with
  | none => pure []
  | some _ =>
    let y ← cInt t.year
    let year : Int := ref.y
    let seasonOr (pre : Str) : C Str := match t.season with
      | some _ => do let s ← assocStr e.seasons t.season; pure (pre ++ s)
      | none => pure (pre ++ sYearW)
    if y = year then
      match t.weekOfYear with
      | some _ =>
        let w ← cInt t.weekOfYear
        let thisWeek : Int := (isoCalendar ref).2.1
        let we := if t.weekend = some true then sWeekend else wWeek
        if thisWeek = w then return sThis ++ we
        if thisWeek = w + 1 then return sLast ++ we
        if thisWeek = w - 1 then return sNext ++ we
      | none => pure ()
      match t.month with
      | some _ =>
        let m ← cInt t.month
        if m = ref.m then return sThis ++ wMonth
        if m = (ref.m : Int) + 1 then return sNext ++ wMonth
        if m = (ref.m : Int) - 1 then return sLast ++ wMonth
      | none => pure ()
      return (← seasonOr sThis)
    if y = year + 1 then return (← seasonOr sNext)
    if y = year - 1 then return (← seasonOr sLast)
    pure []

/-- `convert_date_time_range(timex, date)` of the relative converter: `date_part_equal(timex_date, date)` compares
with the reference's time of day -/
def relConvertDateTimeRange (e : EngCfg) (t : Timex) (ref : Date) (secs : Nat) : C Str := do
  if t.year.isSome ∧ t.month.isSome ∧ t.dayOfMonth.isSome then
    let td ← cDate t
    match t.partOfDay with
    | some p =>
      if secs = 0 ∧ td.ord = ref.ord then
        if p = sNI then return sTonight
        else return sThis ++ (← assocStr e.dayParts t.partOfDay)
      if ref.ord + 1 > maxOrd then throw .overflowError
      if secs = 0 ∧ td.ord = ref.ord + 1 then return sTomorrow ++ 32 :: (← assocStr e.dayParts t.partOfDay)
      if ref.ord < 2 then throw .overflowError
      if secs = 0 ∧ td.ord + 1 = ref.ord then return sYesterday ++ 32 :: (← assocStr e.dayParts t.partOfDay)
      let day ← listIdx e.days (weekdayOrd td.ord)
      if (← isThisWeek td.ord ref.ord secs) then return sNext ++ day ++ 32 :: (← assocStr e.dayParts t.partOfDay)
      if (← isThisWeek td.ord (ref.ord + 7) secs) then return sNext ++ day ++ 32 :: (← assocStr e.dayParts t.partOfDay)
      pure []
    | none => pure []
  else pure []

/-- `english_convert_timex_to_string_relative` (`Timex.to_natural_language(reference)`) -/
def timexToRelative (e : EngCfg) (t : Timex) (ref : Date) (secs : Nat) : C Str := do
  let ty := infer t
  if ty.present then return sNow
  if ty.datetimerange then return (← relConvertDateTimeRange e t ref secs)
  if ty.daterange then return (← relConvertDateRange e t ref)
  if ty.datetime then return (← relConvertDateTime e t ref secs)
  if ty.date then return (← relConvertDate e t ref secs)
  timexToString e t

/-! ## `TimexCreator` (functions with the date given) -/

def liftR {α : Type} : R α → C α
  | .ok a => .ok a
  | .error .typeError => .error .typeError
  | .error .valueError => .error .valueError
  | .error .overflowError => .error .overflowError
  | .error _ => .error .unmodelled

/-- `Timex.from_date(d)` with `t.days = n`, then `timex_value()` -/
def creatorRange (d : Date) (n : Int) : C Str :=
  liftR (formatT { Timex.fromDate d with days := some (.int n) })

/-- `TimexCreator.yesterday(date)` -/
def creatorYesterday (d : Date) : C Str := do
  let y ← liftR (addDays d (-1))
  liftR (formatT (Timex.fromDate y))

def creatorWeekFromToday (d : Date) : C Str := creatorRange d 7

def creatorWeekBackToday (d : Date) : C Str := do
  let s ← liftR (addDays d (-7))
  creatorRange s 7

/-- `this_week(date)`: next Monday after `date - 7 days` -/
def creatorThisWeek (cfg : Cfg) (d : Date) : C Str := do
  let b ← liftR (addDays d (-7))
  let s ← liftR (dateOfNextDay cfg.monday b)
  creatorRange s 7

def creatorNextWeek (cfg : Cfg) (d : Date) : C Str := do
  let s ← liftR (dateOfNextDay cfg.monday d)
  creatorRange s 7

def creatorLastWeek (cfg : Cfg) (d : Date) : C Str := do
  let s ← liftR (dateOfNextDay cfg.monday d)
  let s ← liftR (addDays s (-7))
  creatorRange s 7

def creatorNextWeeksFromToday (cfg : Cfg) (n : Int) (d : Date) : C Str := do
  let s ← liftR (dateOfNextDay cfg.monday d)
  creatorRange s (n * 7)

end RTV.Timex
