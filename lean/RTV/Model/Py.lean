/-
L0 `Py` — the Python `str`/`list` semantics the modelled code relies on. Strings are `List Nat` (code points).
Import-free.
-/
namespace RTV.Py

abbrev Str := List Nat

/-- Membership of a code point in a sorted table of inclusive ranges (linear scan; tables are ≤ ~800 rows). -/
def inRanges (r : List (Nat × Nat)) (c : Nat) : Bool :=
  r.any fun (lo, hi) => lo ≤ c && c ≤ hi

/-- Binary search variant for the driver (same answer on sorted disjoint ranges); fuel = table size. -/
def inRangesArr (r : Array (Nat × Nat)) (c : Nat) : Bool :=
  let rec go (fuel lo hi : Nat) : Bool :=
    match fuel with
    | 0 => false
    | fuel + 1 =>
      if lo ≥ hi then false
      else
        let mid := (lo + hi) / 2
        let (a, b) := r[mid]!
        if c < a then go fuel lo mid else if c > b then go fuel (mid + 1) hi else true
  go (r.size + 1) 0 r.size

/-- Python slice `s[a:b]` with `a b : Int` (negative = from the end, clamped). -/
def sliceI (s : List α) (a b : Int) : List α :=
  let n : Int := s.length
  let a' := if a < 0 then max (a + n) 0 else min a n
  let b' := if b < 0 then max (b + n) 0 else min b n
  (s.drop a'.toNat).take (b'.toNat - a'.toNat)

/-- Python `l[i]` with negative-index wrap; `none` = IndexError. -/
def index (l : List α) (i : Int) : Option α :=
  if 0 ≤ i then l[i.toNat]? else if 0 ≤ i + l.length then l[(i + l.length).toNat]? else none

/-- `str.find(sub, start)`: lowest index ≥ start where `sub` occurs, or none (−1). -/
def findFrom (s sub : Str) (start : Nat) : Option Nat :=
  let n := s.length
  let m := sub.length
  let rec go (fuel i : Nat) : Option Nat :=
    match fuel with
    | 0 => none
    | fuel + 1 =>
      if i + m > n then none
      else if (s.drop i).take m = sub then some i else go fuel (i + 1)
  go (n + 1 - start + 1) start

def startsWith (s p : Str) : Bool := s.take p.length = p
def endsWith (s p : Str) : Bool := p.length ≤ s.length && s.drop (s.length - p.length) = p

def stripLeft (sp : Nat → Bool) : Str → Str
  | [] => []
  | c :: r => if sp c then stripLeft sp r else c :: r

def strip (sp : Nat → Bool) (s : Str) : Str :=
  (stripLeft sp (stripLeft sp s).reverse).reverse

/-- decimal rendering of a natural number as code points -/
def natStr (n : Nat) : Str := (toString n).toList.map Char.toNat

def zfill (w : Nat) (s : Str) : Str := List.replicate (w - s.length) 48 ++ s

def ofString (s : String) : Str := s.toList.map Char.toNat
def toString' (s : Str) : String := String.ofList (s.map Char.ofNat)

end RTV.Py
