import RTV.Model.Py
/-!
L3 `Dec` — Python's `decimal` module as the number recognisers use it: finite numbers
`(sign, coefficient, exponent)`, a context with precision `p` and ROUND_HALF_EVEN (the default rounding; the code
never changes it), the operations `Context.add / multiply / divide`, `Decimal.__mul__/__add__` (same functions under
the ambient context), the constructors `Decimal(int)`, `Decimal('d')`, `Decimal(0.1)` (the exact binary expansion),
`str(Decimal)` with its scientific-notation rule, and `CultureInfo.format` / `change_mark`
(recognizers_number/culture.py).

Mirrors CPython's `_pydecimal.py` (`_fix`, `__add__`, `__mul__`, `__truediv__`, `__str__`); the interpreter
runs the C implementation (libmpdec), which implements the same General Decimal Arithmetic specification — the unit
correspondence of C03 runs both on the same operands.

Not modelled: NaN/Infinity, the exponent limits Emax/Emin/Etiny of the context (±999999: unreachable for the
operand sizes the recognisers produce), signals other than DivisionByZero / InvalidOperation on `x/0`.
Import-free.
-/
namespace RTV.Dec
open RTV.Py

structure Dec where
  neg : Bool
  coeff : Nat
  exp : Int
deriving DecidableEq, Repr, Inhabited

/-- number of decimal digits of the coefficient (`len(self._int)`; `'0'` has one digit) -/
def ndigitsAux : Nat → Nat → Nat
  | 0, _ => 1
  | fuel + 1, n => if n < 10 then 1 else ndigitsAux fuel (n / 10) + 1

def ndigits (n : Nat) : Nat := ndigitsAux n n

def ofNat (n : Nat) : Dec := ⟨false, n, 0⟩
def ofInt (i : Int) : Dec := ⟨i < 0, i.natAbs, 0⟩
def zero : Dec := ofNat 0

/-- `Decimal(0.1)`: the float nearest to 1/10, exactly. -/
def pointOne : Dec := ⟨false, 1000000000000000055511151231257827021181583404541015625, -55⟩

def isZero (d : Dec) : Bool := d.coeff == 0

/-- ROUND_HALF_EVEN removal of the last `s` digits of `c` (`s ≥ 1`): quotient, rounded. -/
def roundHalfEven (c s : Nat) : Nat :=
  let q := c / 10 ^ s
  let r := c % 10 ^ s
  let half := 5 * 10 ^ (s - 1)
  if r > half || (r == half && q % 2 == 1) then q + 1 else q

/-- `Decimal._fix(context)` for a finite number, exponent limits aside: round the coefficient to `p` digits. -/
def fix (p : Nat) (d : Dec) : Dec :=
  if d.coeff == 0 then d
  else
    let n := ndigits d.coeff
    if n ≤ p then d
    else
      let s := n - p
      let q := roundHalfEven d.coeff s
      if ndigits q > p then ⟨d.neg, q / 10, d.exp + s + 1⟩ else ⟨d.neg, q, d.exp + s⟩

/-- `context.multiply(a, b)` / `a * b`. -/
def mul (p : Nat) (a b : Dec) : Dec :=
  fix p ⟨a.neg != b.neg, a.coeff * b.coeff, a.exp + b.exp⟩

/-- `context.add(a, b)` / `a + b`: exact sum at the smaller exponent, then `_fix`. (`_pydecimal` shortcuts the
alignment when one operand is negligible or zero; the rounded result is the same.) -/
def add (p : Nat) (a b : Dec) : Dec :=
  let e := min a.exp b.exp
  let ca := a.coeff * 10 ^ (a.exp - e).toNat
  let cb := b.coeff * 10 ^ (b.exp - e).toNat
  if a.neg == b.neg then fix p ⟨a.neg && (ca + cb != 0 || b.neg), ca + cb, e⟩
  else if ca == cb then fix p ⟨false, 0, e⟩
  else if ca > cb then fix p ⟨a.neg, ca - cb, e⟩
  else fix p ⟨b.neg, cb - ca, e⟩

def negate (d : Dec) : Dec := { d with neg := !d.neg }

/-- strip trailing zeros of an exact quotient while the exponent is below the ideal one (fuel = digits) -/
def divStrip : Nat → Nat → Int → Int → Nat × Int
  | 0, c, e, _ => (c, e)
  | fuel + 1, c, e, ideal =>
    if e < ideal && c % 10 == 0 && c != 0 then divStrip fuel (c / 10) (e + 1) ideal else (c, e)

/-- `context.divide(a, b)` / `a / b`; `none` = DivisionByZero / InvalidOperation (both trapped by default). -/
def div (p : Nat) (a b : Dec) : Option Dec :=
  if b.coeff == 0 then none
  else
    let sign := a.neg != b.neg
    if a.coeff == 0 then some (fix p ⟨sign, 0, a.exp - b.exp⟩)
    else
      let shift : Int := (ndigits b.coeff : Int) - (ndigits a.coeff : Int) + p + 1
      let e : Int := a.exp - b.exp - shift
      let (num, den) := if shift ≥ 0 then (a.coeff * 10 ^ shift.toNat, b.coeff)
                        else (a.coeff, b.coeff * 10 ^ (-shift).toNat)
      let q := num / den
      let r := num % den
      if r != 0 then
        some (fix p ⟨sign, if q % 5 == 0 then q + 1 else q, e⟩)
      else
        let (c', e') := divStrip (ndigits q) q e (a.exp - b.exp)
        some (fix p ⟨sign, c', e'⟩)

/-! ### `str(Decimal)` -/

/-- the decimal digits of the coefficient, most significant first (`self._int`), by repeated division;
`fuel` = `n + 1` is more than the number of digits -/
def digitsAux : Nat → Nat → Str → Str
  | 0, _, acc => acc
  | fuel + 1, n, acc => if n < 10 then (48 + n) :: acc else digitsAux fuel (n / 10) ((48 + n % 10) :: acc)

def digitsOf (n : Nat) : Str := digitsAux (n + 1) n []

def intStr (i : Int) : Str := if i < 0 then 45 :: natStr i.natAbs else natStr i.natAbs

/-- `"%+d" % i` -/
def signedStr (i : Int) : Str := if i < 0 then 45 :: natStr i.natAbs else 43 :: natStr i.natAbs

/-- `Decimal.__str__` (context.capitals = 1 → `E`). -/
def toStr (d : Dec) : Str :=
  let ds := digitsOf d.coeff
  let len : Int := ds.length
  let leftdigits : Int := d.exp + len
  let dotplace : Int := if d.exp ≤ 0 && leftdigits > -6 then leftdigits else 1
  let (intpart, fracpart) : Str × Str :=
    if dotplace ≤ 0 then ([48], 46 :: (List.replicate (-dotplace).toNat 48 ++ ds))
    else if dotplace ≥ len then (ds ++ List.replicate (dotplace - len).toNat 48, [])
    else (ds.take dotplace.toNat, 46 :: ds.drop dotplace.toNat)
  let ex : Str := if leftdigits == dotplace then [] else 69 :: signedStr (leftdigits - dotplace)
  (if d.neg then [45] else []) ++ intpart ++ fracpart ++ ex

/-! ### `CultureInfo.format` -/

def rstripChar (c : Nat) (s : Str) : Str := (s.reverse.dropWhile (· == c)).reverse

/-- `str.split(sep)` for a non-empty separator. -/
def splitOn (sep : Str) (s : Str) : List Str :=
  let m := sep.length
  let rec go (fuel : Nat) (cur : Str) (rest : Str) (acc : List Str) : List Str :=
    match fuel with
    | 0 => (cur.reverse :: acc).reverse
    | fuel + 1 =>
      match rest with
      | [] => (cur.reverse :: acc).reverse
      | c :: r =>
        if m > 0 && rest.take m = sep then go fuel [] (rest.drop m) (cur.reverse :: acc)
        else go fuel (c :: cur) r acc
  go (s.length + 1) [] s []

def joinWith (sep : Str) : List Str → Str
  | [] => []
  | [a] => a
  | a :: r => a ++ sep ++ joinWith sep r

def contains (s sub : Str) : Bool := (findFrom s sub 0).isSome

/-- `s.rjust(w, '0')` -/
def rjust0 (w : Nat) (s : Str) : Str := List.replicate (w - s.length) 48 ++ s

/-- `change_mark` over every character with the culture's long format `(decimals_mark, thousands_mark)`;
`none` = culture without a long format (zh-cn): the string is returned as is. -/
def changeMarks (lf : Option (Nat × Nat)) (s : Str) : Str :=
  match lf with
  | none => s
  | some (dm, tm) => s.map fun c => if c == 46 then dm else if c == 44 then tm else c

/-- `CultureInfo.format(value)` applied to `str(value)`. -/
def formatStr (lf : Option (Nat × Nat)) (s0 : Str) : Str :=
  let s1 := s0.map fun c => if c == 101 then 69 else c                      -- replace('e','E')
  let s2 := if s1.contains 46 then rstripChar 46 (rstripChar 48 s1) else s1   -- rstrip('0').rstrip('.')
  let s3 :=
    if contains s2 [69, 45] then                                             -- 'E-'
      match splitOn [69, 45] s2 with
      | a :: b :: rest => joinWith [69, 45] (a :: rjust0 2 b :: rest)
      | l => joinWith [69, 45] l
    else s2
  let s4 :=
    if contains s3 [69, 43] then                                             -- 'E+'
      match splitOn [69, 43] s3 with
      | a :: rest => joinWith [69, 43] (rstripChar 48 a :: rest)
      | l => joinWith [69, 43] l
    else s3
  changeMarks lf s4

def format (lf : Option (Nat × Nat)) (d : Dec) : Str := formatStr lf (toStr d)

end RTV.Dec

namespace RTV.Dec
open RTV.Py

/-- strip trailing zeros of a coefficient, raising the exponent (fuel = number of digits) -/
def stripZeros : Nat → Nat → Int → Nat × Int
  | 0, c, e => (c, e)
  | fuel + 1, c, e => if c != 0 && c % 10 == 0 then stripZeros fuel (c / 10) (e + 1) else (c, e)

/-- `repr(float(d))` for a decimal with at most 15 significant digits (every result of a precision-15 context):
such a decimal survives the round trip through a double, so the shortest repr has exactly its digits. CPython's
`float_repr_style = 'short'`, format code `r`: exponent form iff `decpt > 16` or `decpt < -3`. -/
def floatRepr (d : Dec) : Str :=
  let sign : Str := if d.neg then [45] else []
  if d.coeff == 0 then sign ++ [48, 46, 48]
  else
    let (c, e) := stripZeros (ndigits d.coeff) d.coeff d.exp
    let ds := digitsOf c
    let n : Int := ds.length
    let decpt : Int := n + e
    if decpt > 16 || decpt < -3 then
      let mant : Str := match ds with
        | [] => []
        | [a] => [a]
        | a :: r => a :: 46 :: r
      let x := decpt - 1
      let xs := natStr x.natAbs
      sign ++ mant ++ [101] ++ (if x < 0 then [45] else [43]) ++ (if xs.length < 2 then 48 :: xs else xs)
    else if decpt ≤ 0 then sign ++ [48, 46] ++ List.replicate (-decpt).toNat 48 ++ ds
    else if decpt ≥ n then sign ++ ds ++ List.replicate (decpt - n).toNat 48 ++ [46, 48]
    else sign ++ ds.take decpt.toNat ++ [46] ++ ds.drop decpt.toNat

end RTV.Dec
