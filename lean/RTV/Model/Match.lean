/-
L8 `Match` — mirrors /repo/Python/libraries/recognizers-text/recognizers_text/matcher:
  simple_tokenizer.py, number_with_unit_tokenizer.py, node.py, trie_tree.py, string_matcher.py

Strings are lists of Unicode code points (`List Nat`), exactly what a Python `str` is.
The model is import-free so that the driver can be compiled.
-/
namespace RTV.Match

/-- The three Python `str` predicates the tokenizers call. Parameters in the theorems (so the theorems hold
for any Unicode database), regenerated tables from the running interpreter in the driver. -/
structure CharClass where
  isSpace : Nat → Bool
  isDigit : Nat → Bool
  isAlpha : Nat → Bool

structure Tok where
  start : Nat
  len : Nat
  text : List Nat
deriving Repr, DecidableEq, Inhabited

def Tok.stop (t : Tok) : Nat := t.start + t.len

/-- Python `s[a:b]` for `0 ≤ a`, `0 ≤ b` (clamped at the end of the string). -/
def slice (s : List Nat) (a b : Nat) : List Nat := (s.drop a).take (b - a)

def isChinese (c : Nat) : Bool := (0x4E00 ≤ c && c ≤ 0x9FBF) || (0x3400 ≤ c && c ≤ 0x4DBF)
def isJapanese (c : Nat) : Bool :=
  (0x3040 ≤ c && c ≤ 0x309F) || (0x30A0 ≤ c && c ≤ 0x30FF) || (0xFF66 ≤ c && c ≤ 0xFF9D)
def isKorean (c : Nat) : Bool :=
  (0xAC00 ≤ c && c ≤ 0xD7AF) || (0x1100 ≤ c && c ≤ 0x11FF) || (0x3130 ≤ c && c ≤ 0x318F) ||
  (0xFFB0 ≤ c && c ≤ 0xFFDC)
def isCJK (c : Nat) : Bool := isChinese c || isJapanese c || isKorean c

/-- What one loop iteration of a tokenizer decides about character `c` (previous character `p`, whether a
token is currently open). -/
inductive Kind
  | space      -- closes an open token
  | single     -- closes an open token and emits a one-character token
  | glue       -- extends the open token / opens one
  | splitGlue  -- NumberWithUnit only: closes the open token and opens a new one at this character
deriving DecidableEq, Repr

/-- `SimpleTokenizer.tokenize` branch selection. -/
def simpleKind (k : CharClass) (_prev : Option Nat) (_inTok : Bool) (c : Nat) : Kind :=
  if k.isSpace c then .space
  else if !(k.isDigit c || k.isAlpha c) || isCJK c then .single
  else .glue

def isSpecial (c : Nat) : Bool := c == 36   -- '$'

/-- `NumberWithUnitTokenizer.is_splittable_unit`. -/
def isSplittable (k : CharClass) (cur pre : Nat) : Bool :=
  ((k.isAlpha cur && k.isDigit pre) || (k.isDigit cur && k.isAlpha pre)) ||
  ((k.isDigit cur && isSpecial pre) || (isSpecial cur && k.isDigit pre))

/-- `NumberWithUnitTokenizer.tokenize` branch selection (`and` binds tighter than `or` in the Python
condition; Korean is *not* split here). `i > 0` holds whenever a token is open. -/
def nwuKind (k : CharClass) (prev : Option Nat) (inTok : Bool) (c : Nat) : Kind :=
  if k.isSpace c then .space
  else if (!(isSpecial c) && !(k.isDigit c || k.isAlpha c)) || isChinese c || isJapanese c then .single
  else match inTok, prev with
    | true, some p => if isSplittable k c p then .splitGlue else .glue
    | _, _ => .glue

/-- The common loop of both tokenizers: index `i`, previous character, start of the open token (if any),
remaining characters. Token texts are slices of the whole input `s`, as in the code. -/
def tokGo (kind : Option Nat → Bool → Nat → Kind) (s : List Nat) :
    Nat → Option Nat → Option Nat → List Nat → List Tok
  | i, _, opn, [] =>
    match opn with
    | some st => [⟨st, i - st, slice s st (st + (i - st))⟩]
    | none => []
  | i, prev, opn, c :: rest =>
    match kind prev opn.isSome c, opn with
    | .space, some st => ⟨st, i - st, slice s st (st + (i - st))⟩ :: tokGo kind s (i+1) (some c) none rest
    | .space, none => tokGo kind s (i+1) (some c) none rest
    | .single, some st =>
        ⟨st, i - st, slice s st (st + (i - st))⟩ :: ⟨i, 1, slice s i (i+1)⟩ ::
          tokGo kind s (i+1) (some c) none rest
    | .single, none => ⟨i, 1, slice s i (i+1)⟩ :: tokGo kind s (i+1) (some c) none rest
    | .glue, some st => tokGo kind s (i+1) (some c) (some st) rest
    | .glue, none => tokGo kind s (i+1) (some c) (some i) rest
    | .splitGlue, some st =>
        ⟨st, i - st, slice s st (st + (i - st))⟩ :: tokGo kind s (i+1) (some c) (some i) rest
    | .splitGlue, none => tokGo kind s (i+1) (some c) (some i) rest

def tokenizeWith (kind : Option Nat → Bool → Nat → Kind) (s : List Nat) : List Tok :=
  tokGo kind s 0 none none s

def tokenizeSimple (k : CharClass) (s : List Nat) : List Tok := tokenizeWith (simpleKind k) s
def tokenizeNWU (k : CharClass) (s : List Nat) : List Tok := tokenizeWith (nwuKind k) s

/-! ### Trie (node.py / trie_tree.py). Children are an association list in insertion order (a Python dict);
ids are strings (`List Nat`); `Node.end` is Python's `any(values)` = some id is a non-empty string. -/

inductive Node where
  | mk (values : List (List Nat)) (children : List (List Nat × Node))
deriving Inhabited

def Node.values : Node → List (List Nat) | .mk v _ => v
def Node.children : Node → List (List Nat × Node) | .mk _ c => c
def Node.empty : Node := .mk [] []
def Node.isEnd (n : Node) : Bool := n.values.any (fun v => !v.isEmpty)

def lookup (key : List Nat) : List (List Nat × Node) → Option Node
  | [] => none
  | (k, n) :: rest => if k = key then some n else lookup key rest

def Node.child (n : Node) (key : List Nat) : Option Node := lookup key n.children

/-- Update-or-append in the children dict: apply `f` to the child stored under `t` (to a fresh node if there is
none; a new key goes last, as in a Python dict). -/
def insChildWith (f : Node → Node) : List (List Nat × Node) → List Nat → List (List Nat × Node)
  | [], t => [(t, f Node.empty)]
  | (k, n) :: rest, t => if k = t then (k, f n) :: rest else (k, n) :: insChildWith f rest t

/-- `TrieTree.insert(value, id)`: walk/create the path, append the id at its end. -/
def Node.insert : Node → List (List Nat) → List Nat → Node
  | n, [], id => .mk (n.values ++ [id]) n.children
  | n, t :: ts, id => .mk n.values (insChildWith (fun m => Node.insert m ts id) n.children t)

/-- `batch_insert` without the early return of `TrieTree.insert` (every phrase goes in). -/
def buildRaw (dict : List (List (List Nat) × List Nat)) : Node :=
  dict.foldl (fun n p => n.insert p.1 p.2) Node.empty

/-- `batch_insert`: phrases (already tokenised) with their ids, in order. `TrieTree.insert` returns at once for
a phrase without tokens (`if not value: return`), i.e. such entries are skipped. -/
def build (dict : List (List (List Nat) × List Nat)) : Node :=
  buildRaw (dict.filter fun p => !p.1.isEmpty)

/-- The inner `for j` loop of `TrieTree.find` from start `i`: `consumed` tokens walked so far, `q` the rest. -/
def walk (i : Nat) : Node → Nat → List (List Nat) → List (Nat × Nat × List (List Nat))
  | n, consumed, [] => if n.isEnd then [(i, consumed, n.values)] else []
  | n, consumed, t :: rest =>
    let here := if n.isEnd then [(i, consumed, n.values)] else []
    match n.child t with
    | none => here
    | some c => here ++ walk i c (consumed + 1) rest

/-- `TrieTree.find`: for every start index, the walk. Results as `(start, length, ids)` in generator order. -/
def trieFindFrom (root : Node) : Nat → List (List Nat) → List (Nat × Nat × List (List Nat))
  | _, [] => []
  | i, t :: rest => walk i root 0 (t :: rest) ++ trieFindFrom root (i+1) rest

def trieFind (root : Node) (q : List (List Nat)) : List (Nat × Nat × List (List Nat)) :=
  trieFindFrom root 0 q

/-- Python list indexing with negative-index wrap (`None` = IndexError). -/
def pyIndex {α} (l : List α) (i : Int) : Option α :=
  if 0 ≤ i then l[i.toNat]? else if 0 ≤ i + l.length then l[(i + l.length).toNat]? else none

structure MatchRes where
  start : Int
  len : Int
  text : List Nat
  ids : List (List Nat)
deriving Repr, DecidableEq

/-- Python `s[a:a+len]` with possibly negative stop (clamped; `a ≥ 0` here). -/
def sliceInt (s : List Nat) (a : Int) (b : Int) : List Nat :=
  let n : Int := s.length
  let a' := if a < 0 then max (a + n) 0 else min a n
  let b' := if b < 0 then max (b + n) 0 else min b n
  slice s a'.toNat b'.toNat

/-- `StringMatcher.find(str)`: tokenise, find on the token texts, map token indices back to characters.
`none` = the call raises IndexError. -/
def matcherFind (tk : List Nat → List Tok) (root : Node) (q : List Nat) : Option (List MatchRes) :=
  let toks := tk q
  let rs := trieFind root (toks.map (·.text))
  rs.mapM fun (i, len, ids) => do
    let st ← pyIndex toks (i : Int)
    let en ← pyIndex toks ((i : Int) + len - 1)
    let start : Int := st.start
    let length : Int := (en.stop : Int) - st.start
    pure ⟨start, length, sliceInt q start (start + length), ids⟩

/-- `StringMatcher.init(values, ids)` then `find(query)`. -/
def matcherRun (tk : List Nat → List Tok) (dict : List (List Nat × List Nat)) (q : List Nat) :
    Option (List MatchRes) :=
  matcherFind tk (build (dict.map fun p => ((tk p.1).map (·.text), p.2))) q

end RTV.Match
