/-
L10b `UnitExtract` — mirrors recognizers_number_with_unit/number_with_unit/extractors.py:
  `NumberWithUnitExtractor.extract`          (the number loop: prefix search, suffix search, assembled results,
                                              prefix-only results, `unit_is_prefix` flags; comma rewrite for
                                              currencies; ambiguous-multiplier trimming; separate units)
  `NumberWithUnitExtractor._extract_separate_units`, `_select_candidates`
  `ChineseNumberWithUnitExtractorConfiguration.expand_half_suffix`
  `BaseMergedUnitExtractor.__merge_pure_number` / `__merged_compound_units` (grouping as span arithmetic, at the end)

The function is modelled as a function of what it receives from un-modelled parts (all of them **parameters**):
  * the source string;
  * `prefix_matcher.find(source)` / `suffix_matcher.find(source)` after the stable sort by start (`MR` start/length/text);
  * `unit_num_extractor.extract(...)` (both calls: before and after the currency comma rewrite);
  * per number, the span length of the single `ambiguous_unit_number_multiplier_regex` match in its text (`cuts`);
  * the spans of `non_unit_regex.finditer(source)`; the matches of `separate_regex` in the source;
  * for the two `_filter_ambiguity` calls the outcomes of the filter regexes (per dictionary entry: which result texts
    the key regex hits, where the value regex matches in the source; which texts the single-char-unit regex matches);
  * per number, whether `half_unit_regex` matches its text; `connector_token`, `max_prefix_match_len`, whether the
    extract type is currency / dimension (`is` comparisons with the constants), `Constants.AMBIGUOUS_TIME_TERM`;
  * the whitespace predicate of the interpreter (`str.isspace`, `str.strip`).
`none` = the call raises `IndexError` (`_select_candidates` indexing past a filtered list, `pop` from an empty list).
In-place mutation (`number.start = start - er.start`, `er.length += …`) is turned into returned values.
Domain remarks (unreachable in the code, so not distinguished): positions are `Nat` — `er.start -= offset` cannot go
negative because `offset = start - best_match.start` with `best_match.end ≤ start`; `mapping_prefix[start]` is a list of
which only element `[0]` is ever read, so the model keeps the first writer.
Import-free.
-/
namespace RTV.UnitExtract

abbrev Str := List Nat

/-- Python `s[a:b]` for `0 ≤ a`, `0 ≤ b` (clamped at the end). -/
def slice (s : List α) (a b : Nat) : List α := (s.drop a).take (b - a)

def stripLeft (sp : Nat → Bool) : Str → Str
  | [] => []
  | c :: r => if sp c then stripLeft sp r else c :: r

/-- `str.strip()` -/
def strip (sp : Nat → Bool) (s : Str) : Str := (stripLeft sp (stripLeft sp s).reverse).reverse

/-- `str.rstrip()` -/
def rstrip (sp : Nat → Bool) (s : Str) : Str := (stripLeft sp s.reverse).reverse

/-- `str.isspace()`: non-empty and every character is whitespace -/
def isSpaceStr (sp : Nat → Bool) (s : Str) : Bool := !s.isEmpty && s.all sp

/-- `s.endswith(c)` for a one-character `c` -/
def endsWithChar (s : Str) (c : Nat) : Bool := s.getLast? == some c

/-- `MatchResult` of the StringMatcher -/
structure MR where
  start : Nat
  len : Nat
  text : Str
deriving DecidableEq, Repr

def MR.stop (m : MR) : Nat := m.start + m.len

/-- an `ExtractResult` of the number extractor (only the fields `extract` reads or writes) -/
structure Num where
  start : Nat
  len : Nat
  text : Str
deriving DecidableEq, Repr

/-- an `ExtractResult` of the unit extractor; `data` = the number (with its *relative* start), `none` for separate units -/
structure ER where
  start : Nat
  len : Nat
  text : Str
  data : Option Num
deriving DecidableEq, Repr

structure Cfg where
  sp : Nat → Bool
  connector : Str
  maxPrefixLen : Nat
  isCurrency : Bool
  isDimension : Bool

/-! ### currency comma rewrite, ambiguous multiplier trimming -/

def indexOf (c : Nat) : Str → Nat
  | [] => 0
  | x :: r => if x = c then 0 else indexOf c r + 1

/-- the `for number in numbers` loop that rewrites `source` (a comma inside a number that has a prefix unit right
before it and a suffix unit right after it becomes a blank) -/
def commaFix (src : Str) (pm sm : List MR) (nums : List Num) : Str :=
  nums.foldl (fun s n =>
    if pm.any (fun m => m.start + m.len == n.start) && sm.any (fun m => m.start == n.start + n.len)
        && n.text.contains 44 then
      let ci := n.start + indexOf 44 n.text
      s.take ci ++ [32] ++ s.drop (ci + 1)
    else s) src

/-- `num.text = num.text[0:new_length]; num.length = new_length` with `new_length = num.length - (span of the match)` -/
def applyCut (n : Num) (cut : Option Nat) : Num :=
  match cut with
  | none => n
  | some k => { n with text := n.text.take (n.len - k), len := n.len - k }

def applyCuts : List Num → List (Option Nat) → List Num
  | [], _ => []
  | n :: ns, [] => n :: ns
  | n :: ns, c :: cs => applyCut n c :: applyCuts ns cs

/-! ### prefix search -/

/-- the `for m in prefix_match` loop: stop at the first match that ends after the number's start; take the first
match whose text equals the stripped text between the match's start and the number -/
def bestPrefix (sp : Nat → Bool) (src : Str) (start : Nat) : List MR → Option MR
  | [] => none
  | m :: ms =>
    if m.len > 0 ∧ m.start + m.len > start then none
    else if m.len > 0 ∧ strip sp (slice src m.start start) = m.text then some m
    else bestPrefix sp src start ms

/-! ### suffix search -/

/-- `(mid_str.endswith('(') and source[m.end] == ')') or … '[' ']' … '{' '}' … '<' '>'` -/
def bracketClose (mid : Str) (c : Nat) : Bool :=
  (endsWithChar mid 40 && c == 41) || (endsWithChar mid 91 && c == 93) ||
  (endsWithChar mid 123 && c == 125) || (endsWithChar mid 60 && c == 62)

/-- first `if` inside the loop: the text between number and unit is empty, blank, or the connector token -/
def plainOK (c : Cfg) (src : Str) (firstIndex : Nat) (m : MR) : Bool :=
  let mid := slice src firstIndex m.start
  mid.isEmpty || isSpaceStr c.sp mid || strip c.sp mid == c.connector

/-- second `if`: the unit is bracketed -/
def bracketOK (src : Str) (firstIndex : Nat) (m : MR) : Bool :=
  m.stop < src.length && bracketClose (slice src firstIndex m.start) (src.getD m.stop 0)

/-- one iteration of `for m in suffix_match` on `max_len` -/
def suffixStep (c : Cfg) (src : Str) (firstIndex : Nat) (maxLen : Nat) (m : MR) : Nat :=
  if m.len > 0 ∧ m.start ≥ firstIndex then
    let endPos := m.start + m.len - firstIndex
    if maxLen < endPos then
      let ml := if plainOK c src firstIndex m then endPos else maxLen
      if bracketOK src firstIndex m then m.stop - firstIndex + 1 else ml
    else maxLen
  else maxLen

def maxSuffixFrom (c : Cfg) (src : Str) (firstIndex : Nat) (sm : List MR) (init : Nat) : Nat :=
  sm.foldl (suffixStep c src firstIndex) init

/-- `max_len` for a number ending at `firstIndex` (0 when `max_find_suff ≤ 0`) -/
def maxSuffix (c : Cfg) (src : Str) (firstIndex : Nat) (sm : List MR) : Nat :=
  if src.length > firstIndex then maxSuffixFrom c src firstIndex sm 0 else 0

/-! ### the number loop -/

def mget {β} (m : List (Nat × β)) (k : Nat) : Option β :=
  match m with
  | [] => none
  | (k', v) :: rest => if k' = k then some v else mget rest k

/-- `add_element(mapping_prefix, key, value)`; only `mapping_prefix[key][0]` is read afterwards -/
def addElement {β} (m : List (Nat × β)) (k : Nat) (v : β) : List (Nat × β) :=
  if (mget m k).isSome then m else m ++ [(k, v)]

structure St where
  mapping : List (Nat × (Nat × Str))    -- number start ↦ (offset, unit_str)
  prefixMatched : Bool
  nonUnitComputed : Bool                -- `non_unit_match is not None`
  result : List ER
  flags : List Bool                     -- unit_is_prefix
  nums : List Num                       -- the numbers as the loop leaves them (start overwritten by the relative start)
deriving Repr

def St.init : St := ⟨[], false, false, [], [], []⟩

/-- `er.start >= time.start() and er.start + er.length <= time.start() + len(time.group())` for some time match -/
def insideNonUnit (nonUnit : List (Nat × Nat)) (start len : Nat) : Bool :=
  nonUnit.any fun t => start ≥ t.1 && start + len ≤ t.1 + t.2

/-- the mapping after the prefix search for number `n` -/
def prefixSearch (c : Cfg) (src : Str) (pm : List MR) (mapping : List (Nat × (Nat × Str))) (n : Num) :
    List (Nat × (Nat × Str)) :=
  if min c.maxPrefixLen n.start ≠ 0 then
    match bestPrefix c.sp src n.start pm with
    | some m =>
      let off := n.start - m.start
      addElement mapping n.start (off, slice src m.start (m.start + off))
    | none => mapping
  else mapping

/-- the result assembled when `max_len != 0` (before the non-unit test): the extract result and the number as mutated -/
def suffixER (src : Str) (n : Num) (maxLen : Nat) (pu : Option (Nat × Str)) : ER × Num :=
  let er0start := n.start
  let er0len := n.len + maxLen
  let er0text := slice src n.start (n.start + n.len + maxLen)
  match pu with
  | some (off, unit) =>
    let n1 : Num := { n with start := n.start - (er0start - off) }
    (⟨er0start - off, er0len + off, unit ++ er0text, some n1⟩, n1)
  | none =>
    let n1 : Num := { n with start := n.start - er0start }
    (⟨er0start, er0len, er0text, some n1⟩, n1)

/-- the prefix-only result: `origStart` is the local `start`, `n` the number object as it is now -/
def prefixOnlyER (origStart : Nat) (n : Num) (pu : Nat × Str) : ER × Num :=
  let s := n.start - pu.1
  let n2 : Num := { n with start := origStart - s }
  (⟨s, n.len + pu.1, pu.2 ++ n.text, some n2⟩, n2)

/-- one iteration of `for number in numbers` with the flag `prefix_matched` carried over from the previous numbers — the
code BEFORE fix f41005087 (kept for the regression theorem `nwu_prefix_only_suppressed_witness`); the body after the
reset is the same in both variants -/
def stepSticky (c : Cfg) (src : Str) (pm sm : List MR) (nonUnit : List (Nat × Nat)) (st : St) (n : Num) : St :=
  let mapping := prefixSearch c src pm st.mapping n
  let pu := mget mapping n.start
  let maxLen := maxSuffix c src (n.start + n.len) sm
  if maxLen ≠ 0 then
    let (er, n1) := suffixER src n maxLen pu
    let pmd := st.prefixMatched || pu.isSome
    let nuc := st.nonUnitComputed || c.isDimension
    if c.isDimension && insideNonUnit nonUnit er.start er.len then
      -- `continue`
      { st with mapping := mapping, prefixMatched := pmd, nonUnitComputed := nuc, nums := st.nums ++ [n1] }
    else
      match pu with
      | some p =>
        if !pmd then   -- unreachable (pmd is true here); kept as in the code
          let (er2, n2) := prefixOnlyER n.start n1 p
          { mapping := mapping, prefixMatched := pmd, nonUnitComputed := nuc,
            result := st.result ++ [er, er2], flags := st.flags ++ [false, true], nums := st.nums ++ [n2] }
        else
          { mapping := mapping, prefixMatched := pmd, nonUnitComputed := nuc,
            result := st.result ++ [er], flags := st.flags ++ [false], nums := st.nums ++ [n1] }
      | none =>
        { mapping := mapping, prefixMatched := pmd, nonUnitComputed := nuc,
          result := st.result ++ [er], flags := st.flags ++ [false], nums := st.nums ++ [n1] }
  else
    match pu with
    | some p =>
      if !st.prefixMatched then
        let (er2, n2) := prefixOnlyER n.start n p
        { st with mapping := mapping, result := st.result ++ [er2], flags := st.flags ++ [true],
                  nums := st.nums ++ [n2] }
      else { st with mapping := mapping, nums := st.nums ++ [n] }
    | none => { st with mapping := mapping, nums := st.nums ++ [n] }

/-- one iteration of `for number in numbers`: `prefix_matched = False` first (whether THIS number's prefix unit was
already attached to a prefix+suffix result), then the body -/
def step (c : Cfg) (src : Str) (pm sm : List MR) (nonUnit : List (Nat × Nat)) (st : St) (n : Num) : St :=
  stepSticky c src pm sm nonUnit { st with prefixMatched := false } n

def coreLoop (c : Cfg) (src : Str) (pm sm : List MR) (nonUnit : List (Nat × Nat)) (nums : List Num) : St :=
  nums.foldl (step c src pm sm nonUnit) St.init

-- no correspondence: coreLoopSticky stepSticky: the number loop BEFORE fix f41005087, kept only for the regression theorem nwu_prefix_only_suppressed_witness; the working tree no longer contains that code (coreLoop is the tied one: ux.extract)
/-- the number loop before fix f41005087 -/
def coreLoopSticky (c : Cfg) (src : Str) (pm sm : List MR) (nonUnit : List (Nat × Nat)) (nums : List Num) : St :=
  nums.foldl (stepSticky c src pm sm nonUnit) St.init

/-! ### separate units (`_extract_separate_units`) -/

/-- `match_result[start + i] = True for i < length` -/
def markRange (marks : List Bool) (start len : Nat) : List Bool :=
  marks.mapIdx fun i b => b || (decide (start ≤ i) && decide (i < start + len))

/-- the `while i < len(group) and not match_result[start + i]` scan reaches the end -/
def allFree (marks : List Bool) (start len : Nat) : Bool :=
  (List.range len).all fun i => !(marks.getD (start + i) false)

/-- one separate-regex match `(start, group)`; note the code marks `[0, len)` rather than `[start, start+len)` -/
def sepStep (ambTerm : Str) (nonUnit : List (Nat × Nat)) (acc : List Bool × List ER) (m : Nat × Str) :
    List Bool × List ER :=
  if m.2.isEmpty then acc            -- `filter(lambda x: x.group(), …)`
  else if allFree acc.1 m.1 m.2.length then
    let marks := markRange acc.1 0 m.2.length
    if m.2 == ambTerm && nonUnit.any (fun t => m.1 ≥ t.1 && m.1 + m.2.length ≤ t.1 + t.2) then (marks, acc.2)
    else (marks, acc.2 ++ [⟨m.1, m.2.length, m.2, none⟩])
  else acc

def separateUnits (srcLen : Nat) (ambTerm : Str) (nonUnit : List (Nat × Nat)) (res : List ER)
    (sep : List (Nat × Str)) : List ER :=
  let marks := res.foldl (fun mk e => markRange mk e.start e.len) (List.replicate srcLen false)
  (sep.foldl (sepStep ambTerm nonUnit) (marks, res)).2

/-! ### `_filter_ambiguity` (after fix 1adaa8061: each result's own text is tested)
The regexes are parameters, their outcomes arbitrary: per filter `keyHit t` = "`regex_var` has a non-empty match in the
text `t`", `valMatches` = the non-empty matches of `regexvar_value` in the source as `(start, len(group))`; `scu t` =
"`single_char_unit_regex` matches at the start of `t`". The function is generic in the element type (`proj` reads the
extract result) so that `extract` can run it on results tagged with their `unit_is_prefix` flag. -/

structure AmbFilter where
  keyHit : Str → Bool
  valMatches : List (Nat × Nat)

structure FilterSpec where
  filters : List AmbFilter          -- in the iteration order of the dictionary
  scu : Str → Bool

/-- `any(m.start() < x.start + x.length and m.start() + len(m.group()) > x.start for m in reg_match)` -/
def overlapsAny (val : List (Nat × Nat)) (e : ER) : Bool :=
  val.any fun m => decide (m.1 < e.start + e.len) && decide (m.1 + m.2 > e.start)

/-- one dictionary entry: `for er in ers` runs over the list bound when the loop starts, the name `ers` is re-bound to the
filtered list inside -/
def ambFilterStep {α} (proj : α → ER) (f : AmbFilter) (ers : List α) : List α :=
  ers.foldl (fun cur x =>
    if f.keyHit (proj x).text then
      (if !f.valMatches.isEmpty then cur.filter (fun y => !overlapsAny f.valMatches (proj y)) else cur)
    else cur) ers

/-- `_filter_ambiguity(ers, text, dict)`; `srcLen = len(text)` -/
def filterAmbiguity {α} (proj : α → ER) (srcLen : Nat) (fs : FilterSpec) (ers : List α) : List α :=
  let ers := fs.filters.foldl (fun cur f => ambFilterStep proj f cur) ers
  ers.filter fun x => !(decide ((proj x).len ≠ srcLen) && fs.scu (proj x).text)

/-- results of the number loop carry their `unit_is_prefix` flag, separate units (appended after them) carry none -/
def tagFlags : List ER → List Bool → List (ER × Option Bool)
  | [], _ => []
  | e :: es, [] => (e, none) :: tagFlags es []
  | e :: es, f :: fs => (e, some f) :: tagFlags es fs

/-! ### `_select_candidates` -/

/-- `ExtractResult.end` = `start + length - 1` (−1 for an empty result at 0) -/
def erEnd (e : ER) : Int := (e.start : Int) + (e.len : Int) - 1

def prefixPassStep (acc : Int × List ER) (eb : ER × Bool) : Int × List ER :=
  if acc.1 < (eb.1.start : Int) then (erEnd eb.1, acc.2 ++ [eb.1])
  else if eb.2 then (erEnd eb.1, acc.2.dropLast ++ [eb.1])
  else acc

/-- first pass: left to right, a prefix unit replaces the result it collides with -/
def prefixPass (cands : List (ER × Bool)) : List ER :=
  (cands.foldl prefixPassStep ((-1 : Int), [])).2

def suffixPassStep (acc : Option (Int × List ER)) (eb : ER × Bool) : Option (Int × List ER) :=
  match acc with
  | none => none
  | some (cur, res) =>
    if cur ≥ erEnd eb.1 then some ((eb.1.start : Int), res ++ [eb.1])
    else if !eb.2 then
      (if res.isEmpty then none else some ((eb.1.start : Int), res.dropLast ++ [eb.1]))
    else some (cur, res)

/-- second pass: right to left, a suffix unit replaces the result it collides with; `none` = `pop` from an empty list -/
def suffixPass (srcLen : Nat) (cands : List (ER × Bool)) : Option (List ER) :=
  (cands.reverse.foldl suffixPassStep (some ((srcLen : Int), []))).map (·.2)

/-- `Token(start, start + len(unit_str))` of a prefix unit written without a blank, e.g. `$50` -/
def noSpaceUnit (sp : Nat → Bool) (e : ER) : Option (Nat × Nat) :=
  match e.data with
  | some d =>
    let u := e.text.take d.start
    if u.length > 0 ∧ u = rstrip sp u then some (e.start, e.start + u.length) else none
  | none => none

/-- stable `list.sort(key=start)` -/
def insertByStart (e : ER) : List ER → List ER
  | [] => [e]
  | x :: xs => if e.start < x.start then e :: x :: xs else x :: insertByStart e xs

def sortByStart (l : List ER) : List ER := l.foldl (fun acc e => insertByStart e acc) []

def hasConflict (cands : List ER) : Bool :=
  (cands.zip (cands.drop 1)).any fun ab => erEnd ab.1 > (ab.2.start : Int)

def selectCandidates (sp : Nat → Bool) (srcLen : Nat) (ers : List ER) (flags : List Bool) : Option (List ER) :=
  let total := flags.length
  if total ≥ 2 ∧ total > ers.length then none          -- ers[index] past the end
  else
    let cands := ers.take total
    if !hasConflict cands then some ers
    else
      let cf := cands.zip flags
      let prefixRes := prefixPass cf
      match suffixPass srcLen cf with
      | none => none
      | some suffixRes =>
        let units := prefixRes.filterMap (noSpaceUnit sp)
        let suffixRes := suffixRes.filter fun s =>
          !(units.any fun u => decide (s.start ≤ u.1) && decide (erEnd s ≥ (u.2 : Int)))
        let sepUnits := ers.drop total
        let p := prefixRes ++ sepUnits
        let s := suffixRes ++ sepUnits
        if s.length ≥ p.length then some (sortByStart s) else some p

/-! ### `expand_half_suffix` (Chinese configuration; every other configuration: `pass`) -/

/-- `half[i]` = the half-unit regex matches the text of `numbers[i]`; `numbers` as the loop left them -/
def expandHalf (res : List ER) (nums : List Num) (half : List Bool) : List ER :=
  let ms := (nums.zip half).filterMap fun nb => if nb.2 then some nb.1 else none
  if ms.isEmpty then res
  else res.map fun er =>
    match ms.filter (fun mr => mr.start == er.start + er.len) with
    | [mr] => { er with len := er.len + mr.len, text := er.text ++ mr.text }
    | _ => er

/-! ### the whole `extract` -/

structure Inputs where
  src : Str
  pm : List MR                      -- sorted(prefix_matcher.find(source))
  sm : List MR                      -- sorted(suffix_matcher.find(source))
  nums1 : List Num                  -- sorted(unit_num_extractor.extract(source))
  nums2 : List Num                  -- the same after the comma rewrite (read only when the rewrite branch runs)
  cuts : List (Option Nat)          -- ambiguous multiplier: span length of the single match in each number's text
  nonUnit : List (Nat × Nat)        -- non_unit_regex.finditer(source): (start, len(group))
  hasSeparate : Bool                -- bool(self.separate_regex)
  sep : List (Nat × Str)            -- regex.finditer(separate_regex, source): (start, group)
  ambTerm : Str                     -- Constants.AMBIGUOUS_TIME_TERM
  filt1 : FilterSpec                -- regex outcomes of the first _filter_ambiguity (ambiguity_filters_dict)
  filt2 : FilterSpec                -- … of the second (dimension_ambiguity_filters_dict)
  half : List Bool                  -- half-unit regex on each number's text
  pristineHalf : Bool               -- variant (findings/nwu/half-stale-start.diff): the relative number start is set on
                                    -- a copy, `expand_half_suffix` sees the numbers with their absolute positions;
                                    -- false = current code: it sees the numbers as the loop left them
  lockstep : Bool                   -- true = current code (fix e3a14a2db): `unit_is_prefix` is filtered together with the
                                    -- results; false = the code before it (the flags of the loop are passed unfiltered)

/-- the source string the number loop works on -/
def fixedSource (c : Cfg) (i : Inputs) : Str :=
  if (!i.pm.isEmpty || !i.sm.isEmpty) && !i.nums1.isEmpty && c.isCurrency && !i.pm.isEmpty && !i.sm.isEmpty then
    commaFix i.src i.pm i.sm i.nums1
  else i.src

/-- the numbers the loop iterates over -/
def loopNumbers (c : Cfg) (i : Inputs) : List Num :=
  let ns := if !i.nums1.isEmpty && c.isCurrency && !i.pm.isEmpty && !i.sm.isEmpty then i.nums2 else i.nums1
  applyCuts ns i.cuts

/-- state after the number loop (`St.init` when neither matcher found anything) -/
def loopState (c : Cfg) (i : Inputs) : St :=
  if !i.pm.isEmpty || !i.sm.isEmpty then
    coreLoop c (fixedSource c i) i.pm i.sm i.nonUnit (loopNumbers c i)
  else St.init

/-- results (tagged with their flag) after the separate units were added and the ambiguity filters ran -/
def filteredTagged (c : Cfg) (i : Inputs) : List (ER × Option Bool) :=
  let src := fixedSource c i
  let st := loopState c i
  let nonUnit := if st.nonUnitComputed then i.nonUnit else []   -- `list(regex.match(..))` raises → `[]`
  let r := separateUnits src.length i.ambTerm nonUnit st.result i.sep
  let t := filterAmbiguity (·.1) src.length i.filt1 (tagFlags r st.flags)
  if c.isDimension then filterAmbiguity (·.1) src.length i.filt2 t else t

/-- the `unit_is_prefix` list `_select_candidates` receives: the flags of the loop's results that survived the filters
(`[flag for er, flag in zip(numbered, unit_is_prefix) if any(er is kept for kept in result)]`); before fix e3a14a2db
the loop's flags unfiltered -/
def selectFlags (c : Cfg) (i : Inputs) : List Bool :=
  if i.lockstep then (filteredTagged c i).filterMap (·.2) else (loopState c i).flags

/-- `extract` up to (not including) `expand_half_suffix` -/
def extractPre (c : Cfg) (i : Inputs) : Option (List ER) :=
  if i.src.isEmpty then some []
  else
    if i.hasSeparate then
      let r := (filteredTagged c i).map (·.1)
      if c.isCurrency then selectCandidates c.sp (fixedSource c i).length r (selectFlags c i) else some r
    else some (loopState c i).result

def extract (c : Cfg) (i : Inputs) : Option (List ER) :=
  if i.src.isEmpty then some []
  else (extractPre c i).map fun r =>
    expandHalf r (if i.pristineHalf then loopNumbers c i else (loopState c i).nums) i.half

/-! ### `BaseMergedUnitExtractor` (currency): `__merge_pure_number` and `__merged_compound_units` as span arithmetic.
Parameters: the unit extractor's results (`NumberWithUnitExtractor.extract`, above), the number extractor's results, and
`gapOK b e` = "the lower-cased stripped text `source[b:e]` is matched by `compound_unit_connector_regex` at position 0 and
is a single word" (regex; the blank case `not middle_str` is modelled). -/

structure Item where
  start : Nat
  len : Nat
  text : Str
  isNum : Bool      -- type == Constants.SYS_NUM
  typ : Nat         -- the type string as a tag (compared for equality only)
  nonInt : Bool     -- isinstance(data, ExtractResult) and not str(data.data).startswith("Integer")
deriving DecidableEq, Repr

/-- the inner `while j < len(ers) and ers[j].start + ers[j].length < num.start: j += 1` -/
def advanceJ (ers : List Item) (ns : Nat) : Nat → Nat → Nat
  | 0, j => j
  | fuel + 1, j =>
    match ers[j]? with
    | some e => if e.start + e.len < ns then advanceJ ers ns fuel (j + 1) else j
    | none => j

def blankOrConn (sp : Nat → Bool) (src : Str) (gapOK : Nat → Nat → Bool) (b e : Nat) : Bool :=
  (strip sp (slice src b e)).isEmpty || gapOK b e

/-- first loop of `__merge_pure_number`: the numbers that directly follow an extraction (only blanks or the connector in
between); only the first number after `j` moved is considered -/
def pureNumbers (sp : Nat → Bool) (src : Str) (gapOK : Nat → Nat → Bool) (ers : List Item) : List Item → Nat → List Item
  | [], _ => []
  | n :: ns, j =>
    let j' := advanceJ ers n.start ers.length j
    if j' = j then pureNumbers sp src gapOK ers ns j'
    else
      match ers[j' - 1]? with
      | some prev =>
        if blankOrConn sp src gapOK (prev.start + prev.len) n.start then n :: pureNumbers sp src gapOK ers ns j'
        else pureNumbers sp src gapOK ers ns j'
      | none => pureNumbers sp src gapOK ers ns j'

def insertItem (e : Item) : List Item → List Item
  | [] => [e]
  | x :: xs => if e.start < x.start then e :: x :: xs else x :: insertItem e xs

def sortItems (l : List Item) : List Item := l.foldl (fun acc e => insertItem e acc) []

/-- `__merge_pure_number` -/
def mergePureNumber (sp : Nat → Bool) (src : Str) (gapOK : Nat → Nat → Bool) (ers nums : List Item) : List Item :=
  let unitNumbers := pureNumbers sp src gapOK ers nums 0
  let ers' := unitNumbers.foldl (fun acc x =>
    if acc.any (fun er => decide (er.start ≤ x.start) && decide (er.start + er.len ≥ x.start)) then acc else acc ++ [x]) ers
  sortItems ers'

/-- `groups[]` of `__merged_compound_units` (first loop); a type clash leaves the next entry at its initial 0 -/
def groupsFrom (sp : Nat → Bool) (src : Str) (gapOK : Nat → Nat → Bool) : Nat → List Item → List Nat
  | _, [] => []
  | g, [_] => [g]
  | g, a :: b :: rest =>
    let g' :=
      if a.typ ≠ b.typ ∧ !a.isNum ∧ !b.isNum then 0
      else if a.nonInt then g + 1
      else if blankOrConn sp src gapOK (a.start + a.len) b.start then g else g + 1
    g :: groupsFrom sp src gapOK g' (b :: rest)

/-- a merged result: span, text, whether its type is SYS_NUM, number of members in `data` -/
structure Group where
  start : Nat
  len : Nat
  text : Str
  isNum : Bool
  members : Nat
deriving DecidableEq, Repr

def setAt (l : List Group) (i : Nat) (g : Group) : List Group :=
  l.mapIdx fun k x => if k = i then g else x

/-- second loop: `prev` = groups[idx-1] (`none` at idx 0); `none` = `result[group]` raises IndexError -/
def buildGroups (src : Str) : List (Item × Nat) → Option Nat → List Group → Option (List Group)
  | [], _, res => some res
  | (it, g) :: rest, prev, res =>
    let res1 := if prev ≠ some g then res ++ [⟨it.start, it.len, it.text, it.isNum, 1⟩] else res
    match rest with
    | (nx, g2) :: _ =>
      if g2 = g then
        match res1[g]? with
        | some r =>
          let pe := nx.start + nx.len
          buildGroups src rest (some g) (setAt res1 g ⟨r.start, pe - r.start, slice src r.start pe, false, r.members + 1⟩)
        | none => none
      else buildGroups src rest (some g) res1
    | [] => buildGroups src rest (some g) res1

/-- `__merged_compound_units` after `__merge_pure_number`: single-member results keep their own type and are dropped when
they are plain numbers -/
def mergedCompoundUnits (sp : Nat → Bool) (src : Str) (gapOK : Nat → Nat → Bool) (ers nums : List Item) :
    Option (List Group) :=
  let ers' := mergePureNumber sp src gapOK ers nums
  let gs := groupsFrom sp src gapOK 0 ers'
  (buildGroups src (ers'.zip gs) none []).map fun res => res.filter fun r => !r.isNum

end RTV.UnitExtract
