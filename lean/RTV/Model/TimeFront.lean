import RTV.Model.DateFront
/-!
L6 `TimeFront` — the front end of `BaseTimeParser.parse_basic_regex_match` (base_time.py; `internal_parser` is this
function): from the TEXT of a time expression to the named groups `match_to_time` reads.

```
source = source.strip().lower()
offset = 0
match = regex.search(self.config.at_regex, source)
if not match:
    match = regex.search(self.config.at_regex, self.config.time_token_prefix + source)
    offset = len(self.config.time_token_prefix)
if match is not None and match.start() == offset and match.group() == source:
    return self.match_to_time(match, reference)
hour = self.config.numbers.get(source, -1)
if 0 <= hour <= 24:
    … (the number-word hour: `DtRes.wordHourToTime`)
for pattern in self.config.time_regexes:
    match = RegExpUtility.exact_match(pattern, source, True)      # pattern.search(source); len(match.group()) == len(source.strip())
    if match and match.success:
        return self.match_to_time(match, reference)
return DateTimeResolutionResult()
```

The matcher (`matchK`, `searchO`, the oracles `conc` / `absO`, `stepO` = search + retry on prefix + whole-text test) is the
one of RTV.Model.DateFront.  `match.start() == offset and match.group() == source` is `stepO`'s test: a substring of
(prefix +) source that starts at `offset` equals `source` exactly when it has its length.  The Python port has no `ish` /
noon special branches in `internal_parser` (the .NET one has); `mid…` groups of `at_regex` are handed on like the others.

`match_to_time` reads seventeen named groups (translator numbers 1..17, RTV/Gen/TimeRegexEn.lean) through
`RegExpUtility.get_group` and searches three description regexes in the lower-cased `desc` group: `timeGroupsOf`.
-/
namespace RTV.TimeFront
open RTV.Re RTV.Py RTV.DateFront RTV.DtRes

/-- the parts of `EnglishTimeParserConfiguration` the front end reads; `none` = a pattern outside the translator -/
structure Cfg where
  pre : Str
  atRe : Option RE
  rs : List (Option RE)
  amDesc : Option RE
  pmDesc : Option RE
  amPmDesc : Option RE

/-- `str.lower()` one code point at a time (the table is a parameter, as in RTV.Preprocess.lowerWith; CPython's
context-dependent final-sigma rule for U+03A3 is not modelled) -/
def lower (lowerC : Nat → Str) (s : Str) : Str := s.flatMap lowerC

/-- `RegExpUtility.exact_match(pattern, source, True)`: `pattern.search(source)`, success when the match is as long as
`source.strip()` (`len`); `some none` = no success -/
def exactO (O : Oracle) (len : Nat) (r : RE) : Option (Option MatchG) :=
  match searchO O r with
  | none => none
  | some none => some none
  | some (some m) => if m.stop - m.start = len then some (some m) else some none

/-- the loop over `time_regexes`: index and match of the first pattern with an exact match -/
def loopO (O : Oracle) (len : Nat) : List (Option RE) → Nat → Option (Option (Nat × MatchG))
  | [], _ => some none
  | none :: _, _ => none
  | some r :: rest, k =>
    match exactO O len r with
    | none => none
    | some (some m) => some (some (k, m))
    | some none => loopO O len rest (k + 1)

/-- which branch handed a match to `match_to_time` -/
inductive Src
  | at (prefixed : Bool)
  | rx (idx : Nat)
deriving DecidableEq, Repr, Inhabited

/-- `regex.search(rx, desc) is not None` -/
def descFlag (T : Tables) (r : Option RE) (desc : Str) : Option Bool :=
  match r with
  | none => none
  | some r => (searchO (conc T desc.toArray) r).map Option.isSome

/-- the values `match_to_time` reads off the match: `get_group` of the seventeen names (`''` when the group did not take
part) and the three description searches on `desc.lower()` -/
def timeGroupsOf (T : Tables) (lowerC : Nat → Str) (F : Cfg) (s : Str) (env : Env) : Option TimeGroups :=
  let desc := lower lowerC (groupText s env 13)
  match descFlag T F.amDesc desc, descFlag T F.amPmDesc desc, descFlag T F.pmDesc desc with
  | some a, some ap, some p =>
    some { writtenTime := groupText s env 1, hourNum := groupText s env 2, minNum := groupText s env 3,
           tens := groupText s env 4, mid := groupText s env 5, midNight := groupText s env 6,
           midMorning := groupText s env 7, midAfternoon := groupText s env 8, midDay := groupText s env 9,
           hour := groupText s env 10, min := groupText s env 11, sec := groupText s env 12,
           amDesc := a, amPmDesc := ap, pmDesc := p, implAm := groupText s env 14, implPm := groupText s env 15,
           pfx := groupText s env 16, sfx := groupText s env 17 }
  | _, _, _ => none

/-- what `parse_basic_regex_match` does with a (stripped, lower-cased) text -/
inductive Outcome
  /-- `match_to_time(match, reference)` with these group values -/
  | toTime (src : Src) (m : MatchG) (g : TimeGroups)
  /-- the number-word branch (`numbers.get(source)` in 0..24) -/
  | word
  /-- `DateTimeResolutionResult()` -/
  | nothing
deriving Repr, Inhabited

/-- `source.strip().lower()` -/
def prep (u : Uni) (lowerC : Nat → Str) (source : Str) : Str := lower lowerC (strip u.isSpace source)

/-- `parse_basic_regex_match` up to the call of `match_to_time`; `none` = a pattern is outside the translator.
`numbers` = `config.numbers`. -/
def parseTime (T : Tables) (u : Uni) (lowerC : Nat → Str) (F : Cfg) (numbers : List (Str × Nat)) (source : Str) :
    Option Outcome :=
  let t := prep u lowerC source
  match F.atRe with
  | none => none
  | some atRe =>
    match stepO (conc T t.toArray) (conc T (F.pre ++ t).toArray) F.pre.length atRe with
    | none => none
    | some (some (p, m)) => (timeGroupsOf T lowerC F (if p then F.pre ++ t else t) m.env).map (Outcome.toTime (.at p) m)
    | some none =>
      if (match lookup numbers t with | some hour => decide (hour ≤ 24) | none => false) then some .word
      else
        match loopO (conc T t.toArray) (strip u.isSpace t).length F.rs 0 with
        | none => none
        | some none => some .nothing
        | some (some (k, m)) => (timeGroupsOf T lowerC F t m.env).map (Outcome.toTime (.rx k) m)

/-- `parse_basic_regex_match(source, reference)` -/
def frontToTime (T : Tables) (u : Uni) (lowerC : Nat → Str) (F : Cfg) (cfg : TimeCfg) (source : Str) (ref : DT) :
    Except String Res :=
  match parseTime T u lowerC F cfg.numbers source with
  | none => .error "unsupported-regex"
  | some .nothing => .ok {}
  | some .word =>
    match wordHourToTime cfg (prep u lowerC source) ref with
    | some r => .ok r
    | none => .error "Other"
  | some (.toTime _ _ g) => matchToTime u cfg g ref

/-- time entity from its text: `parse_basic_regex_match` → `BaseTimeParser.parse` → `_date_time_resolution`
(`DtRes.resolveTime` with the groups the front end found) -/
def frontResolveTime (T : Tables) (u : Uni) (lowerC : Nat → Str) (F : Cfg) (cfg : TimeCfg) (source : Str) (ref : DT) :
    Except String (Option (List Value)) := do
  dateTimeResolution u (toSlot .time (← frontToTime T u lowerC F cfg source ref))

/-! ## The layouts of the C07 front-end contract (specification side)

`contracts/C07front.json["layouts"]["en-us"]` lists templates such as `{h}:{MM} p.m.`; the translator emits them as
token lists with the hour range and the designator (RTV/Gen/TimeLayoutsEn.lean).  `renderT` is the text of a time in a
layout, as harness/translate/timeregex.py `render` writes it. -/

inductive Tok
  | lit (c : Nat)
  /-- `{H}` / `{h}` unpadded hour, `{HH}` zero-padded hour, `{MM}` / `{SS}` zero-padded minute / second, the designator
  text (`am`, `p.m.` …) -/
  | H | HH | MM | SS
  | desc (s : Str)
deriving DecidableEq, Repr, Inhabited

def Tok.render : Tok → Nat → Nat → Nat → Str
  | .lit c, _, _, _ => [c]
  | .H, h, _, _ => decStr h
  | .HH, h, _, _ => pad2 h
  | .MM, _, m, _ => pad2 m
  | .SS, _, _, s => pad2 s
  | .desc d, _, _, _ => d

/-- which group a token feeds: 0 literal, 1 hour, 2 min, 3 sec, 4 desc -/
def Tok.kind : Tok → Nat
  | .lit _ => 0
  | .H | .HH => 1
  | .MM => 2
  | .SS => 3
  | .desc _ => 4

def renderT (L : List Tok) (h m s : Nat) : Str := L.flatMap fun t => t.render h m s

/-- a layout of the contract: tokens, the inclusive hour range it is demanded for, the designator -/
structure Layout where
  toks : List Tok
  lo : Nat
  hi : Nat
  am : Bool
  pm : Bool
deriving DecidableEq, Repr, Inhabited

end RTV.TimeFront
