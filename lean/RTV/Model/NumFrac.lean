import RTV.Model.NumCfg
import RTV.Gen.NumFracCfg
/-!
L4b `NumFrac` — the remaining paths of `BaseNumberParser` (recognizers_number/number/parsers.py), function by
function:

* `digitNumberParse`  = `_digit_number_parse`: the round-number suffix loop (`power *= round_number_map.get(m)`, the
  `find` / `rstrip` removal with its `len(match)` quirk — the length of a `regex` match object is its group count + 1,
  not the length of the matched text) followed by `_get_digital_value(handle, power)` (`RTV.Num.digitalValue`);
* `textTokens`        = `regex.finditer(text_number_regex, s)` for the pattern `BaseNumberParser.__init__` builds
  (`(?=\b)(sep| -|keys by length|\d+)(?=\b)`, with the boundary-free second alternative of it / de / nl);
* `getPointValue`     = `__get_point_value`; `textNumberParse` = `_text_number_parse` (`__split_multi`, integer part,
  point part);
* `F64`               = the IEEE-754 binary64 arithmetic `_power_number_parse` does on its mantissa (`scale = 0.1`,
  `tmp + scale * int(c)`, `scale *= 0.1`), `Decimal(float)`;
* `decPow`            = `Context.power` for an integral exponent as libmpdec computes it (`mpd_qpow` /
  `_mpd_qpow_int` / `_mpd_qpow_uint`: working precision `prec + digits(exp) + 2 (+1)`, `1/base` for a negative
  exponent, left-to-right square-and-multiply, final rounding);
* `powerNumberParse`  = `_power_number_parse`;
* `normalizeTokens`   = `normalize_token_set` of the English / French / Spanish configurations;
* `fracLikeParse`     = `_frac_like_number_parse`: the fraction-marker branch ("3 over 4"), the one-word branch
  ("half"), the split-index walk, denominator / numerator / integer part, the three value formulas, `float(…)`;
* `parse`             = `BaseNumberParser.parse` without the list-data (merged) branch: supported types, default tag,
  sign prefix, branch selection by tag, negation, `culture_info.format`; `percentParse` = `BasePercentageParser.parse`.

Inputs that are *outcomes of regular expressions of the configuration* are parameters (`Aux`): the lower-cased text,
the text after the half-a-dozen substitution, the `digital_number_regex` matches, the `round_multiplier_regex` match.
Everything else is computed. Decimal arithmetic goes through `RTV.Dec` under the precision `p` (`parse` and
`_power_number_parse` are decorated with `@precision(15)`; every other function here is only reached through them).
Python floats that are `float(d)` of a decimal `d` with at most 15 significant digits are represented by `d`
(`Val.flt`, printed with `Dec.floatRepr`).
Not modelled: the list-data branch of `parse`, non-integral exponents of `Context.power`, Infinity / NaN results
(`FErr.special`), the exponent limits of `decimal` and of binary64 (overflow, subnormals).
Imports RTV only.
-/
namespace RTV.NumFrac
open RTV.Py RTV.Dec RTV.Num

inductive FErr
  | indexError | zeroDiv | invalid | keyError
  | typeError       -- `power *= None`, `None.data`
  | special         -- the result is an Infinity (0 ** negative)
  | unsupported     -- outside the model (non-integral exponent)
  | fuel
deriving DecidableEq, Repr

def FErr.ofNum : Num.Err → FErr
  | .indexError => .indexError
  | .zeroDiv => .zeroDiv
  | .invalid => .invalid
  | .keyError => .keyError

def liftE {α} : Except Num.Err α → Except FErr α
  | .ok a => .ok a
  | .error e => .error (FErr.ofNum e)

def liftRes : Res → Except FErr Nat
  | .ok n => .ok n
  | .err e => .error (FErr.ofNum e)
  | .fuel => .error .fuel

/-! ### `_digit_number_parse` -/

/-- `str.rstrip()` -/
def rstripWs (sp : Nat → Bool) (s : Str) : Str := (stripLeft sp s.reverse).reverse

/-- the `while tmp_index >= 0` loop for one match text `m`: returns the handle and `start_index`.
`matchLen` = `len(match)` (group count + 1). -/
def removeAll (sp : Nat → Bool) (matchLen : Nat) (m : Str) : Nat → Str → Nat → Str × Nat
  | 0, h, st => (h, st)
  | fuel + 1, h, st =>
    match findFrom h m st with
    | none => (h, st)
    | some i =>
      let front := rstripWs sp (h.take i)
      removeAll sp matchLen m fuel (front ++ h.drop (i + matchLen)) front.length

/-- the `for match in matches` loop: handle, start index and power after all matches. -/
def digitHandle (sp : Nat → Bool) (matchLen : Nat) (round : List (Str × Nat)) :
    List Str → Str → Nat → Nat → Except FErr (Str × Nat)
  | [], h, _, pw => .ok (h, pw)
  | m :: ms, h, st, pw =>
    match lookup round m with
    | none => .error .typeError
    | some rep =>
      let (h', st') := removeAll sp matchLen m (h.length + 1) h st
      digitHandle sp matchLen round ms h' st' (pw * rep)

/-- `_digit_number_parse` on the lower-cased text `handle`; `matches` = the texts of
`regex.finditer(digital_number_regex, handle)`. -/
def digitNumberParse (p : Nat) (tab : DigitTab) (sp : Nat → Bool) (sep : SepCfg) (round : List (Str × Nat))
    (matchLen : Nat) (ms : List Str) (handle : Str) : Except FErr Dec := do
  let (h, pw) ← digitHandle sp matchLen round ms handle 0 1
  liftE (digitalValue p tab sep h pw)

/-! ### `text_number_regex` -/

/-- What `\b`, `\d` mean to the engine. -/
structure TokTab where
  word : Nat → Bool
  digit : Nat → Bool

def asciiTok : TokTab where
  word c := (48 ≤ c && c ≤ 57) || (65 ≤ c && c ≤ 90) || (97 ≤ c && c ≤ 122) || c == 95
  digit c := 48 ≤ c && c ≤ 57

/-- `sorted(keys, key=len, reverse=True)`: stable, longest first. -/
def insertKey (k : Str) : List Str → List Str
  | [] => [k]
  | a :: r => if a.length ≥ k.length then a :: insertKey k r else k :: a :: r

def sortKeys (keys : List Str) : List Str := keys.foldl (fun acc k => insertKey k acc) []

/-- the literal alternatives of `single_int_frac`, in the order of the pattern text -/
def tokenAlts (wordSep : Str) (lang : LangCfg) : List Str :=
  wordSep :: [32, 45] :: (sortKeys (lang.cardinal.map (·.1)) ++ sortKeys (lang.ordinal.map (·.1)))

/-- `\b` between `prev` and the head of `rest` (absent = not a word character) -/
def isBoundary (T : TokTab) (prev : Option Nat) (rest : Str) : Bool :=
  (match prev with | some c => T.word c | none => false) != (match rest with | c :: _ => T.word c | [] => false)

def lastOr (prev : Option Nat) (s : Str) : Option Nat := match s.getLast? with | some c => some c | none => prev

/-- first alternative (in order) that matches at the head of `s`, then `\d+`; `bounded`: `(?=\b)` must hold after
it. Returns the matched text. A greedy `\d+` can only end at the end of the digit run when a boundary is required
(inside a run both neighbours are word characters). -/
def matchAt (T : TokTab) (alts : List Str) (bounded : Bool) (prev : Option Nat) (s : Str) : Option Str :=
  match alts.find? (fun a => !a.isEmpty && startsWith s a && (!bounded || isBoundary T (lastOr prev a) (s.drop a.length))) with
  | some a => some a
  | none =>
    let run := s.takeWhile T.digit
    if run.isEmpty then none
    else if !bounded || isBoundary T (lastOr prev run) (s.drop run.length) then some run
    else none

/-- `finditer`: scan left to right, non-overlapping. `loose` = the pattern has the boundary-free second alternative. -/
def tokensGo (T : TokTab) (alts : List Str) (loose : Bool) : Nat → Option Nat → Str → List Str
  | 0, _, _ => []
  | _, _, [] => []
  | fuel + 1, prev, c :: r =>
    let s := c :: r
    let m1 := if isBoundary T prev s then matchAt T alts true prev s else none
    let m := match m1 with
      | some a => some a
      | none => if loose then matchAt T alts false prev s else none
    match m with
    | some a => a :: tokensGo T alts loose fuel (lastOr prev a) (s.drop a.length)
    | none => tokensGo T alts loose fuel (some c) r

def textTokens (T : TokTab) (alts : List Str) (loose : Bool) (s : Str) : List Str :=
  tokensGo T alts loose (s.length + 1) none s

/-! ### `_text_number_parse` -/

/-- `str.split(sep)`; `none` = ValueError (empty separator) -/
def pySplit (sep : Str) (s : Str) : Option (List Str) := if sep.isEmpty then none else some (Dec.splitOn sep s)

/-- `__split_multi(source, tokens)` -/
def splitMulti (source : Str) (tokens : List Str) : Except FErr (List Str) :=
  match tokens with
  | [] => .error .indexError
  | tmp :: _ => do
    let s ← tokens.foldlM (fun (s : Str) t => match pySplit t s with
      | some parts => Except.ok (Dec.joinWith tmp parts)
      | none => Except.error FErr.invalid) source
    match pySplit tmp s with
    | some parts => pure parts
    | none => .error .invalid

/-- the digit loop of `__get_point_value`: `result += scale * Decimal(map[m]); scale *= Decimal(0.1)`.
`result` starts as the int `0` (`none`). -/
def pointLoop (p : Nat) (card : List (Str × Nat)) : List Str → Option Dec → Dec → Except FErr (Option Dec)
  | [], res, _ => .ok res
  | m :: ms, res, scale =>
    match lookup card m with
    | none => .error .keyError
    | some v =>
      let addend := Dec.mul p scale (Dec.ofNat v)
      let res' := match res with
        | none => Dec.add p addend Dec.zero           -- `0 + x` → `x.__radd__(0)` → `x + Decimal(0)`
        | some r => Dec.add p r addend
      pointLoop p card ms (some res') (Dec.mul p scale Dec.pointOne)

/-- `__get_point_value(matches)`; the result of the loop branch may be the int 0 only for an empty list, which
raises before. -/
def getPointValue (p : Nat) (tab : DigitTab) (lang : LangCfg) (toks : List Str) : Except FErr Dec :=
  match toks with
  | [] => .error .indexError
  | first :: _ =>
    let big := match lookup lang.cardinal first with
      | some v => decide (v ≥ 10)
      | none => false
    if big then do
      let n ← liftRes (getIntValue true tab lang toks)
      -- Decimal('0.' + str(tmp_int))
      pure ⟨false, n, -((natStr n).length : Int)⟩
    else do
      let r ← pointLoop p lang.cardinal toks none Dec.pointOne
      pure (r.getD Dec.zero)

/-- `_text_number_parse` after the tokenisation: `int_part_real + Decimal(point_part_real)` from the tokens of the
integer part and (when the text has exactly one written decimal separator) of the point part. -/
def textNumberCombine (p : Nat) (tab : DigitTab) (lang : LangCfg) (intToks : List Str) (ptToks : Option (List Str)) :
    Except FErr Dec := do
  let intReal ← liftRes (getIntValue true tab lang intToks)
  let pointReal ←
    match ptToks with
    | some toks => do
      let pv ← getPointValue p tab lang toks
      pure (Dec.add p Dec.zero pv)
    | none => pure Dec.zero
  pure (Dec.add p (Dec.ofNat intReal) pointReal)

/-- `_text_number_parse` on `handle` = the lower-cased text after the half-a-dozen substitution. -/
def textNumberParse (p : Nat) (tab : DigitTab) (T : TokTab) (lang : LangCfg) (alts : List Str) (loose : Bool)
    (writtenDecSep : List Str) (handle : Str) : Except FErr Dec := do
  let numGroup ← splitMulti handle writtenDecSep
  let intPart := numGroup.headD []
  let intToks := if intPart.isEmpty then [] else textTokens T alts loose intPart
  textNumberCombine p tab lang intToks
    (if numGroup.length == 2 then some (textTokens T alts loose (numGroup.getD 1 [])) else none)

/-! ### binary64 -/

/-- a finite double `(-1)^neg · m · 2^e`; not normalised (compare through `F64.canon`). -/
structure F64 where
  neg : Bool
  m : Nat
  e : Int
deriving DecidableEq, Repr, Inhabited

def bitLenAux : Nat → Nat → Nat
  | 0, _ => 0
  | fuel + 1, n => if n == 0 then 0 else bitLenAux fuel (n / 2) + 1

def bitLen (n : Nat) : Nat := bitLenAux n n

/-- `n / 2^s` rounded to nearest, ties to even -/
def roundBits (n s : Nat) : Nat :=
  if s == 0 then n
  else
    let q := n / 2 ^ s
    let r := n % 2 ^ s
    let half := 2 ^ (s - 1)
    if r > half || (r == half && q % 2 == 1) then q + 1 else q

/-- the double nearest to `n · 2^e` (exponent range aside) -/
def F64.round (neg : Bool) (n : Nat) (e : Int) : F64 :=
  if n == 0 then ⟨neg, 0, 0⟩
  else
    let b := bitLen n
    if b ≤ 53 then ⟨neg, n, e⟩ else ⟨neg, roundBits n (b - 53), e + ((b - 53 : Nat) : Int)⟩

def F64.ofNat (n : Nat) : F64 := F64.round false n 0
def F64.ofInt (i : Int) : F64 := F64.round (i < 0) i.natAbs 0

def F64.mul (a b : F64) : F64 := F64.round (a.neg != b.neg) (a.m * b.m) (a.e + b.e)

def F64.add (a b : F64) : F64 :=
  let e := min a.e b.e
  let ma := a.m * 2 ^ (a.e - e).toNat
  let mb := b.m * 2 ^ (b.e - e).toNat
  if a.neg == b.neg then F64.round a.neg (ma + mb) e
  else if ma == mb then ⟨false, 0, 0⟩
  else if ma > mb then F64.round a.neg (ma - mb) e
  else F64.round b.neg (mb - ma) e

def F64.negate (a : F64) : F64 := { a with neg := !a.neg }

/-- the float literal `0.1` -/
def F64.pointOne : F64 := ⟨false, 3602879701896397, -55⟩

/-- strip factors of two from the mantissa while the exponent is negative (`as_integer_ratio` is in lowest terms) -/
def reduce2 : Nat → Nat → Int → Nat × Int
  | 0, m, e => (m, e)
  | fuel + 1, m, e => if e < 0 && m != 0 && m % 2 == 0 then reduce2 fuel (m / 2) (e + 1) else (m, e)

/-- odd mantissa (or zero) and exponent: the canonical form used on the wire -/
def stripTwos : Nat → Nat → Int → Nat × Int
  | 0, m, e => (m, e)
  | fuel + 1, m, e => if m != 0 && m % 2 == 0 then stripTwos fuel (m / 2) (e + 1) else (m, e)

def F64.canon (x : F64) : Bool × Nat × Int :=
  if x.m == 0 then (x.neg, 0, 0) else let (m, e) := stripTwos (bitLen x.m) x.m x.e; (x.neg, m, e)

/-- `Decimal(x)` for a float: exact. -/
def F64.toDec (x : F64) : Dec :=
  if x.m == 0 then ⟨x.neg, 0, 0⟩
  else
    let (m, e) := reduce2 (bitLen x.m) x.m x.e
    if e ≥ 0 then ⟨x.neg, m * 2 ^ e.toNat, 0⟩ else ⟨x.neg, m * 5 ^ (-e).toNat, e⟩

/-! ### `Context.power` (integral exponent) -/

/-- binary digits of `n`, most significant first -/
def bitsAux : Nat → Nat → List Bool → List Bool
  | 0, _, acc => acc
  | fuel + 1, n, acc => if n == 0 then acc else bitsAux fuel (n / 2) ((n % 2 == 1) :: acc)

def bitsOf (n : Nat) : List Bool := bitsAux n n []

/-- `_mpd_qpow_uint`: `result = base`, then for every bit after the leading one: square, multiply if the bit is set -/
def powUint (wp : Nat) (base : Dec) (n : Nat) : Dec :=
  (bitsOf n).tail.foldl (fun r b => let r2 := Dec.mul wp r r; if b then Dec.mul wp r2 base else r2) base

/-- the integer a decimal denotes, if it is one -/
def decInt? (d : Dec) : Option Int :=
  if d.exp ≥ 0 then some ((if d.neg then -1 else 1) * ((d.coeff * 10 ^ d.exp.toNat : Nat) : Int))
  else
    let k := 10 ^ (-d.exp).toNat
    if d.coeff % k == 0 then some ((if d.neg then -1 else 1) * ((d.coeff / k : Nat) : Int)) else none

/-- `context.power(a, b)` under precision `p` (libmpdec's `mpd_qpow`). -/
def decPow (p : Nat) (a b : Dec) : Except FErr Dec :=
  match decInt? b with
  | none => .error .unsupported
  | some bi =>
    let rs := a.neg && bi.natAbs % 2 == 1
    if a.coeff == 0 then
      if bi == 0 then .error .invalid
      else if bi < 0 then .error .special
      else .ok ⟨rs, 0, 0⟩
    else if bi == 0 then .ok ⟨rs, 1, 0⟩
    else if a.exp ≤ 0 && a.coeff == 10 ^ (-a.exp).toNat then
      -- `_qcheck_pow_one`: |base| = 1
      if bi < 0 then .ok ⟨rs, 1, 0⟩
      else
        let shift := min (bi.natAbs * (-a.exp).toNat) (p - 1)
        .ok ⟨rs, 10 ^ shift, -(shift : Int)⟩
    else
      -- `_mpd_qpow_int`
      let wp0 : Int := (p : Int) + (ndigits b.coeff : Int) + b.exp + 2
      if bi < 0 then
        let wp := (wp0 + 1).toNat
        match Dec.div wp (Dec.ofNat 1) a with
        | none => .error .zeroDiv
        | some tbase => .ok (Dec.fix p { powUint wp tbase bi.natAbs with neg := rs })
      else
        let wp := wp0.toNat
        .ok (Dec.fix p { powUint wp a bi.natAbs with neg := rs })

/-! ### `_power_number_parse` -/

inductive PyNum
  | int (i : Int)
  | flt (x : F64)
deriving DecidableEq, Repr

def PyNum.toF : PyNum → F64
  | .int i => F64.ofInt i
  | .flt x => x

def PyNum.negate : PyNum → PyNum
  | .int i => .int (-i)
  | .flt x => .flt x.negate

/-- `Decimal(x)` for an int or a float -/
def PyNum.toDec : PyNum → Dec
  | .int i => Dec.ofInt i
  | .flt x => x.toDec

structure PowSt where
  tmp : PyNum := .int 0
  scale : F64 := F64.ofNat 10          -- read only when `dec` (the int 10 otherwise)
  dec : Bool := false
  negative : Bool := false
  stack : List PyNum := []             -- call_stack, most recent first
deriving Repr

def PowSt.push (st : PowSt) : PowSt :=
  { st with stack := (if st.negative then st.tmp.negate else st.tmp) :: st.stack }

/-- `str.upper()` restricted to what the loop looks at: ASCII letters (the harness checks that no other code point
upper-cases to a string containing `E`, `^`, `-`, `+`, a separator or a digit). -/
def upperAscii (s : Str) : Str := s.map fun c => if 97 ≤ c && c ≤ 122 then c - 32 else c

/-- the character loop of `_power_number_parse` over the upper-cased handle -/
def powLoop (tab : DigitTab) (decSep : Nat) : Str → PowSt → Except FErr PowSt
  | [], st => .ok st
  | c :: r, st =>
    let last := r.isEmpty
    if c == 94 || c == 69 then                           -- '^', 'E'
      let st1 := { st.push with tmp := .int 0, scale := F64.ofNat 10, dec := false, negative := false }
      powLoop tab decSep r (if last then st1.push else st1)
    else if tab.isDigit c then
      match tab.value c with
      | none => .error .invalid                          -- int('²')
      | some d =>
        let st1 : PowSt :=
          if st.dec then
            { st with tmp := .flt (F64.add st.tmp.toF (F64.mul st.scale (F64.ofNat d))),
                      scale := F64.mul st.scale F64.pointOne }
          else
            match st.tmp with
            | .int i => { st with tmp := .int (i * 10 + d) }
            | .flt x => { st with tmp := .flt (F64.add (F64.mul x (F64.ofNat 10)) (F64.ofNat d)) }
        powLoop tab decSep r (if last then st1.push else st1)
    else if c == decSep then
      let st1 := { st with dec := true, scale := F64.pointOne }
      powLoop tab decSep r (if last then st1.push else st1)
    else if c == 45 then
      let st1 := { st with negative := !st.negative }
      powLoop tab decSep r (if last then st1.push else st1)
    else if c == 43 then powLoop tab decSep r st           -- `continue`: skips the end-of-text push as well
    else powLoop tab decSep r (if last then st.push else st)

/-- `str.replace(old, new)` for a non-empty `old` -/
def replaceAll (old new s : Str) : Str := Dec.joinWith new (Dec.splitOn old s)

/-- `X10^` and `E` -/
def x10Caret : Str := [88, 49, 48, 94]

/-- `_power_number_parse(text)` under precision `p`. Two variants of the code are modelled (findings/numfrac/pow-x10.diff):
`fx = false`: the code as first found — `handle = text.upper()`, `exponent = '^' not in text`, so `1.5x10^3` falls under
the caret rule with mantissa `1.510`; `fx = true`: the repaired code (as the C# original) —
`handle = text.upper().replace('X10^', 'E')`, `exponent = '^' not in handle`. The correspondence probes which variant the
working tree follows. -/
def powerNumberParse (fx : Bool) (p : Nat) (tab : DigitTab) (decSep : Nat) (text : Str) : Except FErr Dec := do
  let handle := if fx then replaceAll x10Caret [69] (upperAscii text) else upperAscii text
  let exponent := if fx then !handle.contains 94 else !text.contains 94
  let st ← powLoop tab decSep handle {}
  match st.stack.reverse with
  | a :: b :: _ =>
    if exponent then do
      let t ← decPow p (Dec.ofNat 10) b.toDec
      pure (Dec.mul p a.toDec t)
    else decPow p a.toDec b.toDec
  | _ => .error .indexError

/-! ### `normalize_token_set` -/

inductive NormKind
  | en       -- English (and the loop shared by the French / German / … classes)
  | fr       -- French: the English loop, then "et demi" gets its numerator
  | es       -- Spanish
deriving DecidableEq, Repr

def stripLeftChar (ch : Nat) : Str → Str
  | [] => []
  | c :: r => if c == ch then stripLeftChar ch r else c :: r

/-- Spanish: one token -/
def normEsToken (lang : LangCfg) (token : Str) : Str :=
  let t := (stripLeftChar 115 (stripLeftChar 115 token).reverse).reverse     -- sub('^s+'), sub('s+$')
  if hasKey lang.ordinal t then t
  else if endsWith t [97, 118, 111] || endsWith t [97, 118, 97] then
    let a := t.take (t.length - 3)
    if hasKey lang.cardinal a then a
    else
      let b := t.take (t.length - 2)
      if hasKey lang.cardinal b then b else token
  else token

/-- `list.insert(len - 1, x)` and optional replacement of the element before, when the list ends `… sep half` -/
def halfFix (wordSep : Str) (oneHalf : List Str) (replaceSep : Option Str) (l : List Str) : Except FErr (List Str) :=
  if l.length > 2 then
    match oneHalf with
    | one :: half :: _ =>
      if l.getLast? == some half && (l.dropLast).getLast? == some wordSep then
        let front := l.dropLast.dropLast
        let sepTok := match replaceSep with | some s => s | none => wordSep
        .ok (front ++ [sepTok, one, half])
      else .ok l
    | _ => .error .indexError
  else .ok l

def normalizeTokens (kind : NormKind) (lang : LangCfg) (wordSep : Str) (oneHalf : List Str) (fracSep : List Str)
    (toks : List Str) : Except FErr (List Str) :=
  match kind with
  | .en => .ok (normalizeTokenSetEn lang.ordinal (toks.length + 1) toks)
  | .fr => halfFix wordSep oneHalf none (normalizeTokenSetEn lang.ordinal (toks.length + 1) toks)
  | .es =>
    let l := toks.map (normEsToken lang)
    if l.length > 2 then
      match fracSep with
      | f0 :: _ => halfFix wordSep oneHalf (some f0) l
      | [] => match oneHalf with
        | _ :: half :: _ =>
          if l.getLast? == some half && (l.dropLast).getLast? == some wordSep then .error .indexError else .ok l
        | _ => .error .indexError
    else .ok l

/-! ### `_frac_like_number_parse` -/

structure FracCfg where
  lang : LangCfg
  sep : SepCfg
  fractionMarker : Str
  writtenDecSep : List Str
  fracSep : List Str           -- written_fraction_separator_texts
  oneHalf : List Str
  wordSep : Str
  langMarker : Str
  matchLen : Nat
  loose : Bool
  norm : NormKind

def FracCfg.alts (c : FracCfg) : List Str := tokenAlts c.wordSep c.lang

/-- `__is_composable(big, small)` (`big / base >= 1` on non-negative ints is `big >= base`) -/
def isComposable (big small : Nat) : Bool :=
  let b := if small > 10 then 100 else 10
  big % b == 0 && big ≥ b

/-- the `while split_index <= len - 2` scan after the first word was reached -/
def splitScan (c : FracCfg) (fw : List Str) : Nat → Nat → Nat
  | 0, si => si
  | fuel + 1, si =>
    if si + 2 ≤ fw.length then
      if resolveComposite c.lang (fw.getD si []) ≥ 100 && !(c.fracSep.contains (fw.getD (si + 1) []))
          && resolveComposite c.lang (fw.getD (si + 1) []) < 100 then si + 1
      else splitScan c fw fuel (si + 1)
    else si

/-- the `for split_index in range(len - 2, -1, -1)` walk; `k` = `split_index + 1`, result = the final
`split_index`. -/
def splitDown (c : FracCfg) (fw : List Str) : Nat → Nat → Nat → Nat
  | 0, _, _ => 0
  | k + 1, cur, rnd =>
    let w := fw.getD k []
    if c.fracSep.contains w || c.lang.writtenIntSep.contains w then splitDown c fw k cur rnd
    else
      let prev := cur
      let cur := resolveComposite c.lang w
      if (prev ≥ 100 && prev > cur) || (prev < 100 && isComposable cur prev) then
        if prev < 100 && cur < rnd then k + 1
        else
          let rnd := if prev < 100 && cur ≥ rnd then cur else rnd
          if k == 0 then splitScan c fw fw.length 1
          else splitDown c fw k cur rnd
      else k + 1

/-- `frac_part`: a hyphenated word becomes `first, '-', second` -/
def fracPart (ws : List Str) : List Str :=
  ws.flatMap fun w =>
    if w.contains 45 then
      match splitHyphen w with
      | a :: b :: _ => [a, [45], b]
      | _ => [w]
    else [w]

/-- index `i + 1` of the last written fraction separator that is not the last word (`mixed_index`) -/
def mixedIndex (fracSep : List Str) (fw : List Str) : Nat → Option Nat
  | 0 => none
  | i + 1 => if i + 1 < fw.length && fracSep.contains (fw.getD i []) then some (i + 1) else mixedIndex fracSep fw i

/-- a parse result value: a `Decimal`, or the Python float nearest to a decimal of at most 15 digits -/
inductive Val
  | dec (d : Dec)
  | flt (d : Dec)
deriving DecidableEq, Repr

/-- what `round_multiplier_regex.search` found: `group(0)`, `group('multiplier')`, `group('fracMultiplier') is not None` -/
structure RoundMatch where
  whole : Str
  multiplier : Str
  frac : Bool

def decLt (a b : Dec) : Bool :=
  -- exact comparison of two non-negative decimals
  let e := min a.exp b.exp
  a.coeff * 10 ^ (a.exp - e).toNat < b.coeff * 10 ^ (b.exp - e).toNat

def divE (p : Nat) (a b : Dec) : Except FErr Dec :=
  match Dec.div p a b with
  | some q => .ok q
  | none => .error .zeroDiv

/-- the three value formulas at the end of `_frac_like_number_parse` (`mixed` = a written fraction separator was found):
`(int + numer/denomi) * multiplier`, `int + (multiplier * numer / denomi)`, `multiplier * (int + numer) / denomi` -/
def fracValue (p : Nat) (intV numer denomi multiplier : Nat) (mixed isFracMult : Bool) : Except FErr Dec :=
  let dI := Dec.ofNat intV
  let dN := Dec.ofNat numer
  let dD := Dec.ofNat denomi
  let dM := Dec.ofNat multiplier
  if mixed && numer < denomi then
    if isFracMult then do
      let q ← divE p dN dD
      pure (Dec.mul p (Dec.add p dI q) dM)
    else do
      let q ← divE p (Dec.mul p dN dM) dD
      pure (Dec.add p dI q)
  else divE p (Dec.mul p (Dec.add p dI dN) dM) dD

/-- `_frac_like_number_parse` on the lower-cased text. -/
def fracLikeParse (p : Nat) (tab : DigitTab) (T : TokTab) (sp : Nat → Bool) (c : FracCfg) (rm : Option RoundMatch)
    (text : Str) : Except FErr Val := do
  let toks := fun (s : Str) => textTokens T c.alts c.loose s
  if Dec.contains text c.fractionMarker then
    let i := (findFrom text c.fractionMarker 0).getD 0
    let small := strip sp (text.take i)
    let big := strip sp (text.drop (i + c.fractionMarker.length))
    let valueOf := fun (s : Str) => match s with
      | [] => Except.error FErr.indexError
      | ch :: _ =>
        if tab.isDigit ch then liftE (digitalValue p tab c.sep s 1)
        else do let n ← liftRes (getIntValue true tab c.lang (toks s)); pure (Dec.ofNat n)
    let sv ← valueOf small
    let bv ← valueOf big
    let q ← divE p sv bv
    pure (.dec q)
  else
    let (text, multiplier, isFracMult) ← match rm with
      | none => pure (text, 1, false)
      | some m =>
        match pySplit m.whole text with
        | none => Except.error FErr.invalid
        | some parts =>
          match lookup c.lang.round m.multiplier with
          | none => Except.error FErr.keyError
          | some v => pure (Dec.joinWith [] parts, v, m.frac)
    let words := (Dec.splitOn [32] text).filter (!·.isEmpty)
    let fw ← normalizeTokens c.norm c.lang c.wordSep c.oneHalf c.fracSep words
    match fw.getLast? with
    | none => .error .indexError
    | some lastW =>
      if fw.length == 1 then do
        let n ← liftRes (getIntValue true tab c.lang fw)
        let q ← divE p (Dec.ofNat 1) (Dec.ofNat n)
        pure (.dec (Dec.mul p q (Dec.ofNat multiplier)))
      else do
        let si := splitDown c fw (fw.length - 1) (resolveComposite c.lang lastW) 1
        let denomi ← liftRes (getIntValue true tab c.lang (fracPart (fw.drop si)))
        let fw := fw.take si
        let (numer, mixed) ← match mixedIndex c.fracSep fw fw.length with
          | some mi => do
            let n ← liftRes (getIntValue true tab c.lang (toks (Dec.joinWith [32] (fw.drop mi))))
            pure (n, mi)
          | none => pure (0, fw.length)
        let intV ← liftRes (getIntValue true tab c.lang (toks (Dec.joinWith [32] (fw.take mixed))))
        let v ← fracValue p intV numer denomi multiplier (mixed != fw.length) isFracMult
        pure (.flt v)

/-! ### `parse` -/

inductive Branch
  | num | frac | text | pow | none
deriving DecidableEq, Repr

/-- the default of `extra`: `'Num'` when the text contains a digit (`\d`), the language marker otherwise -/
def extraOf (T : TokTab) (langMarker : Str) (data : Option Str) (text : Str) : Str :=
  match data with
  | some d => if d.isEmpty then (if text.any T.digit then [78, 117, 109] else langMarker) else d
  | none => if text.any T.digit then [78, 117, 109] else langMarker

/-- the `elif` chain of `parse` on the tag -/
def selectBranch (langMarker : Str) (extra : Str) : Branch :=
  if Dec.contains extra [78, 117, 109] then .num                                  -- 'Num' in extra
  else if Dec.contains extra ([70, 114, 97, 99] ++ langMarker) then .frac          -- search('Frac' + marker)
  else if Dec.contains extra langMarker then .text
  else if Dec.contains extra [80, 111, 119] then .pow                              -- 'Pow' in extra
  else .none

/-- the regex outcomes `parse` and the branch functions obtain from the configuration for this text -/
structure Aux where
  negLen : Option Nat          -- length of the sign prefix matched by negative_number_sign_regex
  lowered : Str                -- (text without the prefix).lower()
  halfDozen : Str              -- regex.sub(half_a_dozen_regex, half_a_dozen_text, lowered)
  digitalMatches : List Str    -- finditer(digital_number_regex, lowered)
  roundMatch : Option RoundMatch

def Val.negate (p : Nat) : Val → Val
  | .dec d => .dec (Dec.mul p d (Dec.ofInt (-1)))
  | .flt d => .flt (Dec.negate d)

/-- `str(value)` -/
def Val.str : Val → Str
  | .dec d => Dec.toStr d
  | .flt d => Dec.floatRepr d

def resolutionOf (lf : Option (Nat × Nat)) (v : Val) : Str := Dec.formatStr lf v.str

/-- `BaseNumberParser.parse` (string data; `fx` = the variant of `_power_number_parse`): `none` = the type is not supported (returns None);
otherwise the value and the resolution string. -/
def parse (fx : Bool) (p : Nat) (tab : DigitTab) (T : TokTab) (sp : Nat → Bool) (c : FracCfg) (lf : Option (Nat × Nat))
    (supported : List Str) (type : Str) (data : Option Str) (text : Str) (aux : Aux) :
    Except FErr (Option (Val × Str)) :=
  if !supported.isEmpty && !supported.contains type then .ok none
  else do
    let extra := extraOf T c.langMarker data text
    let body := match aux.negLen with
      | some k => text.drop k
      | none => text
    let v ← match selectBranch c.langMarker extra with
      | .num => do
        let d ← digitNumberParse p tab sp c.sep c.lang.round c.matchLen aux.digitalMatches aux.lowered
        pure (Val.dec d)
      | .frac => fracLikeParse p tab T sp c aux.roundMatch aux.lowered
      | .text => do
        let d ← textNumberParse p tab T c.lang c.alts c.loose c.writtenDecSep aux.halfDozen
        pure (Val.dec d)
      | .pow => do
        let d ← powerNumberParse fx p tab c.sep.decSep body
        pure (Val.dec d)
      | .none => Except.error FErr.typeError
    let v := if aux.negLen.isSome then v.negate p else v
    pure (some (v, resolutionOf lf v))

/-- `BasePercentageParser.parse` on `data = [number text, number ExtractResult]`: the number parser's result for the
inner text and tag, resolution with `%`. -/
def percentParse (fx : Bool) (p : Nat) (tab : DigitTab) (T : TokTab) (sp : Nat → Bool) (c : FracCfg) (lf : Option (Nat × Nat))
    (supported : List Str) (type : Str) (data : Option Str) (text : Str) (aux : Aux) :
    Except FErr (Option (Val × Str)) := do
  match ← parse fx p tab T sp c lf supported type data text aux with
  | none => .error .typeError                 -- `None.resolution_str`
  | some (v, res) => pure (some (v, percentSuffix sp res))

/-! ### the configurations (regenerated data; which `normalize_token_set` a class implements is code) -/

def normOf (code : Str) : NormKind :=
  if code = RTV.Gen.NumFr.code then .fr
  else if code = RTV.Gen.NumEs.code || code = RTV.Gen.NumEsMx.code then .es
  else .en

def fracCfgOf (cu : Culture) (writtenDecSep : List Str) : Option FracCfg :=
  (RTV.Gen.NumFracCfg.rows.find? fun r => r.1 = cu.code).map fun
    | (_, marker, fsep, oneHalf, lm, wsep, ml, loose, _) =>
      { lang := cu.lang, sep := cu.sep, fractionMarker := marker, writtenDecSep := writtenDecSep, fracSep := fsep,
        oneHalf := oneHalf, wordSep := wsep, langMarker := lm, matchLen := ml, loose := loose, norm := normOf cu.code }

def enFrac : FracCfg := (fracCfgOf en RTV.Gen.NumEn.writtenDecSep).getD
  ⟨en.lang, en.sep, [], [], [], [], [], [], 0, false, .en⟩
def esFrac : FracCfg := (fracCfgOf es RTV.Gen.NumEs.writtenDecSep).getD
  ⟨es.lang, es.sep, [], [], [], [], [], [], 0, false, .es⟩
def frFrac : FracCfg := (fracCfgOf fr RTV.Gen.NumFr.writtenDecSep).getD
  ⟨fr.lang, fr.sep, [], [], [], [], [], [], 0, false, .fr⟩
def deFrac : FracCfg := (fracCfgOf de RTV.Gen.NumDe.writtenDecSep).getD
  ⟨de.lang, de.sep, [], [], [], [], [], [], 0, true, .en⟩

def fracCfgs : List (Str × FracCfg) :=
  [(en.code, enFrac), (es.code, esFrac), (fr.code, frFrac), (de.code, deFrac)]

end RTV.NumFrac
