import RTV.Model.Py
import RTV.Gen.Factory
/-!
L9 `Factory` — mirrors
  recognizers_text/culture.py     `Culture.map_to_nearest_language`
  recognizers_text/model.py       `ModelFactory` (class-level `__cache`, `CacheKey`, `get_model`, `try_get_model`,
                                  `register_model`, `initialize_models`)
  recognizers_text/recognizer.py  `Recognizer.__init__`, `get_model`, `initialize_models`
  the five recognisers            option validation in `__init__`, the `get_*_model` wrappers (zh- and ja- rewriting of
                                  the sequence recogniser)

Strings are code-point lists. What is *data* in the code (supported cultures, registrations of each recogniser,
fallback culture, accepted option interval) is a field of `Cfg`; the theorems quantify over it or are instantiated
with the regenerated tables of `RTV/Gen/Factory.lean`. Import-free (core Lean only).
-/
namespace RTV.Factory
open RTV.Py

/-- The two `str` methods of the running interpreter that culture.py calls. Parameters in the theorems, the
exported Unicode tables in the driver. -/
structure PyStr where
  lower : Str → Str
  isSpace : Nat → Bool

/-- `s.split('-')[0]` -/
def beforeDash (s : Str) : Str := s.takeWhile (· != 45)

/-- `culture_code.split('-')[0].strip()` -/
def langPrefix (E : PyStr) (s : Str) : Str := strip E.isSpace (beforeDash s)

/-- `'*' in code` -/
def hasStar (s : Str) : Bool := s.contains 42

/-- `for code in possible_cultures: if '*' in code: culture_code = code` (the last one wins; with no starred
candidate the code is left as it was). -/
def pickStar (cur : Str) : List Str → Str
  | [] => cur
  | code :: rest => pickStar (if hasStar code then code else cur) rest

/-- The candidate test of the loop over the supported codes. `repaired = true` is the code as it is
(`supportedCultureCode.split('-')[0] == culture_prefix`, since the fix "map_to_nearest_language compares the
language tag instead of a string prefix"); `repaired = false` is the code before that fix
(`supportedCultureCode.startswith(culture_prefix)`), kept as the regression variant: the correspondence decides
on every run which of the two the working tree follows. -/
def isCandidate (repaired : Bool) (p s : Str) : Bool :=
  if repaired then beforeDash s == p else startsWith s p

def candidates (repaired : Bool) (S : List Str) (p : Str) : List Str := S.filter (isCandidate repaired p)

/-- The `if possible_cultures:` block: no candidate leaves the code as it was, one candidate replaces it, several
candidates go through the `'*'` loop. -/
def choose (cur : Str) : List Str → Str
  | [] => cur
  | [x] => x
  | poss => pickStar cur poss

/-- `Culture.map_to_nearest_language(culture_code)`; `none` is Python's `None`. -/
def mapToNearest (repaired : Bool) (E : PyStr) (S : List Str) : Option Str → Option Str
  | none => none
  | some c =>
    if c.isEmpty then none                       -- `if not culture_code: return`
    else
      let c := E.lower c
      if c ∈ S then some c
      else
        some (choose c (candidates repaired S (langPrefix E c)))

/-! ### ModelFactory -/

/-- `CacheKey(model_type, culture, options)`; option flags are `IntFlag`s: equality and hash are those of the
integer, whatever the enum class. -/
structure Key where
  type : Str
  culture : Option Str
  options : Int
deriving DecidableEq, Repr

/-- What built a model: recogniser kind whose registration supplied the constructor, the `ModelCtorKey` and
the options the constructor was called with. -/
structure ModelId where
  kind : Nat
  type : Str
  culture : Str
  options : Int
deriving DecidableEq, Repr

/-- A model object: what built it and its allocation serial (Python object identity). -/
structure Obj where
  id : ModelId
  serial : Nat
deriving DecidableEq, Repr

def keyOf (m : ModelId) : Key := ⟨m.type, some m.culture, m.options⟩

/-- `ModelFactory.__cache` (one dict for the whole process) and the number of models constructed so far. -/
structure State where
  cache : List (Key × Obj)
  next : Nat
deriving DecidableEq, Repr

def State.init : State := ⟨[], 0⟩

def dictGet (k : Key) : List (Key × Obj) → Option Obj
  | [] => none
  | (k', v) :: rest => if k' = k then some v else dictGet k rest

/-- `d[k] = v`: overwrite in place or append (insertion order). -/
def dictSet (k : Key) (v : Obj) : List (Key × Obj) → List (Key × Obj)
  | [] => [(k, v)]
  | (k', v') :: rest => if k' = k then (k, v) :: rest else (k', v') :: dictSet k v rest

inductive Err
  | valueError
deriving DecidableEq, Repr

instance exceptDecEq {ε α} [DecidableEq ε] [DecidableEq α] : DecidableEq (Except ε α) := fun a b =>
  match a, b with
  | .ok x, .ok y => if h : x = y then isTrue (by rw [h]) else isFalse (fun h' => by injection h' with h'; exact h h')
  | .error x, .error y =>
    if h : x = y then isTrue (by rw [h]) else isFalse (fun h' => by injection h' with h'; exact h h')
  | .ok _, .error _ => isFalse (fun h => by cases h)
  | .error _, .ok _ => isFalse (fun h => by cases h)

structure Cfg where
  py : PyStr
  /-- `Culture._get_supported_culture_codes()` -/
  supported : List Str
  /-- `ModelFactory.__fallback_to_default_culture` -/
  fallback : Str
  /-- `Culture.Chinese`, the target of the sequence wrappers' rewriting -/
  chinese : Str
  /-- keys of `model_factories` of a recogniser of the given kind, in dict order -/
  regs : Nat → List (Str × Str)
  /-- accepted option interval of the constructor of the given kind -/
  optRange : Nat → Int × Int
  /-- which candidate test `map_to_nearest_language` uses (see `isCandidate`) -/
  repaired : Bool

/-- `ModelFactory.try_get_model(model_type_name, culture, options)` of a factory of kind `kind`. -/
def tryGet (cfg : Cfg) (kind : Nat) (t : Str) (c : Option Str) (o : Int) (st : State) : State × Option Obj :=
  match dictGet ⟨t, c, o⟩ st.cache with
  | some m => (st, some m)
  | none =>
    match c with
    | none => (st, none)
    | some cs =>
      if (t, cs) ∈ cfg.regs kind then
        let m : Obj := ⟨⟨kind, t, cs, o⟩, st.next⟩
        (⟨dictSet ⟨t, c, o⟩ m st.cache, st.next + 1⟩, some m)
      else (st, none)

/-- `ModelFactory.get_model(model_type_name, culture, fallback_to_default_culture, options)`;
`fb` = "the argument is the object `True`" (`fallback_to_default_culture is True`). -/
def factoryGet (cfg : Cfg) (kind : Nat) (t : Str) (c : Option Str) (fb : Bool) (o : Int) (st : State) :
    State × Except Err Obj :=
  match tryGet cfg kind t c o st with
  | (st₁, some m) => (st₁, .ok m)
  | (st₁, none) =>
    if fb then
      match tryGet cfg kind t (some cfg.fallback) o st₁ with
      | (st₂, some m) => (st₂, .ok m)
      | (st₂, none) => (st₂, .error .valueError)
    else (st₁, .error .valueError)

/-- `ModelFactory.register_model` on the key list of `model_factories`: `none` = ValueError. -/
def register (regs : List (Str × Str)) (t c : Str) : Option (List (Str × Str)) :=
  if (t, c) ∈ regs then none else some (regs ++ [(t, c)])

/-- A constructed recogniser: kind, `target_culture`, `options`. -/
structure Inst where
  kind : Nat
  target : Option Str
  options : Int
deriving DecidableEq, Repr

/-- `ModelFactory.initialize_models(target_culture, options)`. `identical` = whether the object passed as
target culture *is* (Python `is`) the string object stored in the registration keys of the same value. -/
def initModels (cfg : Cfg) (i : Inst) (identical : Bool) (st : State) : State :=
  (cfg.regs i.kind).foldl
    (fun st key =>
      if i.target.isNone || (identical && i.target == some key.2) then
        (tryGet cfg i.kind key.1 (some key.2) i.options st).1
      else st) st

/-- `culture` argument of `Recognizer.get_model` after `if culture is None: culture = self.target_culture`
and `Culture.map_to_nearest_language`. -/
def resolve (cfg : Cfg) (i : Inst) (c : Option Str) : Option Str :=
  mapToNearest cfg.repaired cfg.py cfg.supported (match c with | none => i.target | some x => some x)

/-- `Recognizer.get_model(model_type_name, culture, fallback_to_default_culture)`. -/
def recGet (cfg : Cfg) (i : Inst) (t : Str) (c : Option Str) (fb : Bool) (st : State) : State × Except Err Obj :=
  factoryGet cfg i.kind t (resolve cfg i c) fb i.options st

def zhDash : Str := [122, 104, 45]
def jaDash : Str := [106, 97, 45]

/-- culture rewriting of `get_phone_number_model` / `get_ip_address_model` / `get_url_model`:
`if culture and (culture.lower().startswith("zh-") or culture.lower().startswith("ja-"))`. -/
def wrapCulture (cfg : Cfg) (cjk : Bool) (c : Option Str) : Option Str :=
  match c with
  | none => none
  | some cs =>
    if cjk && !cs.isEmpty && (startsWith (cfg.py.lower cs) zhDash || startsWith (cfg.py.lower cs) jaDash)
    then some cfg.chinese else some cs

inductive Op
  /-- `XRecognizer(target_culture, options, lazy_initialization)` -/
  | construct (i : Inst) (lazy : Bool) (identical : Bool)
  /-- `recognizer.get_model(type, culture, fallback)` -/
  | get (i : Inst) (t : Str) (c : Option Str) (fb : Bool)
  /-- `recognizer.get_<x>_model(culture, fallback)`, `cjk` = the wrapper rewrites zh-*, ja-* -/
  | getW (i : Inst) (t : Str) (cjk : Bool) (c : Option Str) (fb : Bool)
  /-- `recognizer.model_factory.get_model(type, culture, fallback, options)` -/
  | factoryGet (kind : Nat) (t : Str) (c : Option Str) (fb : Bool) (o : Int)
  /-- `recognizer.model_factory.try_get_model(type, culture, options)` -/
  | tryGet (kind : Nat) (t : Str) (c : Option Str) (o : Int)
  /-- `recognizer.initialize_models()` -/
  | init (i : Inst) (identical : Bool)
deriving Repr

inductive Out
  | model (m : Obj)
  | none
  | err (e : Err)
  | unit
deriving DecidableEq, Repr

def outOfExcept : Except Err Obj → Out
  | .ok m => .model m
  | .error e => .err e

def optionsOk (cfg : Cfg) (kind : Nat) (o : Int) : Bool :=
  (cfg.optRange kind).1 ≤ o && o ≤ (cfg.optRange kind).2

def step (cfg : Cfg) (st : State) : Op → State × Out
  | .construct i lazy identical =>
    if optionsOk cfg i.kind i.options then
      (if lazy then initModels cfg i identical st else st, .unit)
    else (st, .err .valueError)
  | .get i t c fb => let r := recGet cfg i t c fb st; (r.1, outOfExcept r.2)
  | .getW i t cjk c fb => let r := recGet cfg i t (wrapCulture cfg cjk c) fb st; (r.1, outOfExcept r.2)
  | .factoryGet kind t c fb o => let r := factoryGet cfg kind t c fb o st; (r.1, outOfExcept r.2)
  | .tryGet kind t c o =>
    match tryGet cfg kind t c o st with
    | (st', some m) => (st', .model m)
    | (st', none) => (st', .none)
  | .init i identical => (initModels cfg i identical st, .unit)

/-- A sequential history: state after it and the outputs, in order. -/
def run (cfg : Cfg) : State → List Op → State × List Out
  | st, [] => (st, [])
  | st, op :: rest =>
    let r := step cfg st op
    let rr := run cfg r.1 rest
    (rr.1, r.2 :: rr.2)

/-! ### What a request asks for, and the answer it gets alone (cold, empty cache) -/

/-- The factory-level request behind an operation: (kind, type, resolved culture, fallback, options). -/
def request (cfg : Cfg) : Op → Option (Nat × Str × Option Str × Bool × Int)
  | .get i t c fb => some (i.kind, t, resolve cfg i c, fb, i.options)
  | .getW i t cjk c fb => some (i.kind, t, resolve cfg i (wrapCulture cfg cjk c), fb, i.options)
  | .factoryGet kind t c fb o => some (kind, t, c, fb, o)
  | .tryGet kind t c o => some (kind, t, c, false, o)
  | _ => none

/-- The constructor key a factory-level request is answered from when nothing is cached. -/
def route (cfg : Cfg) (kind : Nat) (t : Str) (c : Option Str) (fb : Bool) (o : Int) : Except Err ModelId :=
  let viaFallback : Except Err ModelId :=
    if fb && decide ((t, cfg.fallback) ∈ cfg.regs kind) then .ok ⟨kind, t, cfg.fallback, o⟩ else .error .valueError
  match c with
  | some cs => if (t, cs) ∈ cfg.regs kind then .ok ⟨kind, t, cs, o⟩ else viaFallback
  | none => viaFallback

def single? : List Str → Option Str
  | [x] => some x
  | _ => none

/-- The property's own reading of a culture string: the supported culture it denotes, or `none` = "any other
code". Language tags are compared for equality. -/
def specCulture (E : PyStr) (S : List Str) : Option Str → Option Str
  | none => none
  | some c =>
    if c.isEmpty then none
    else
      let c := E.lower c
      if c ∈ S then some c
      else
        single? (S.filter (fun s => beforeDash s == langPrefix E c))

/-! ### Instances -/

def asciiLowerCp (c : Nat) : Nat := if 65 ≤ c ∧ c ≤ 90 then c + 32 else c

/-- `str.lower` / `str.isspace` restricted to ASCII (what they do on ASCII-only strings). Used for the concrete
witnesses; the driver uses the full exported Unicode tables. -/
def asciiPy : PyStr where
  lower s := s.map asciiLowerCp
  isSpace c := c == 32 || (9 ≤ c && c ≤ 13) || (28 ≤ c && c ≤ 31)

def zhCn : Str := [122, 104, 45, 99, 110]

/-- The configuration of the working tree: every table is the regenerated one of `RTV/Gen/Factory.lean`. -/
def genCfg (py : PyStr) (repaired : Bool) : Cfg where
  py := py
  supported := RTV.Gen.supportedCultures
  fallback := RTV.Gen.fallbackCulture
  chinese := zhCn
  regs k := RTV.Gen.registrations.getD k []
  optRange k := RTV.Gen.optionRanges.getD k (0, -1)
  repaired := repaired

end RTV.Factory
