import RTV.Model.DateUtils
import RTV.Model.WellFormed
/-!
L5 `Periods` — the remaining date computations of `BaseDatePeriodParser` (`base_dateperiod.py`), mirrored function by
function with the **regex outcomes as inputs** (which groups matched and what the culture tables / `get_swift_*` made
of them): `__parse_month_with_year`, `_parse_simple_case`, `_parse_year`, `_parse_week_of_month` /
`_get_week_of_month` / `_compute_date`, `_parse_week_of_year`, `__parse_which_week`, `__parse_quarter`,
`__parse_season`, `_parse_half_year`, `_merge_two_times_points` (without a year context) and the prefix forms of
`_parse_duration` (`past / next / in  N days|weeks|months|years`). `__parse_decade` and
`__parse_date_point_with_ago_and_later` are not ported in the Python tree (they call `.success` / `.value` on `regex`
matches, format no string and raise or return no result): nothing to model, monitored by C19.

Strings are built with the formatting functions of `RTV.WF` (`pad4`, `pad2`, `natStr`, `formatDate`) so that the C10 / C11
predicates (`tripleOK`, `shapeOK`) apply to them directly; `pad4` is `f'{y:04d}'` for `y < 10000`, `pad2` is
`f'{n:02d}'` for `n < 100` (month, day, week numbers). The default `inclusive_end_period = False` is modelled.
-/
namespace RTV.Periods
open RTV.Cal RTV.DateUtils RTV.WF

/-- What a period-parsing function yields: it raises, it returns `success = False`, or `(timex, future [begin, end],
past [begin, end])`. -/
inductive Res
  | raises
  | noResult
  | ok (timex : Str) (fb fe pb pe : DateTime)
deriving DecidableEq, Repr

def ofOpt (o : Option Res) : Res := o.getD .raises

def sXXXX : Str := [88, 88, 88, 88]

/-- `DateTimeFormatUtil.luis_date(year or -1, month, day)` -/
def luis (y : Option Int) (m d : Nat) : Str :=
  (match y with | some y => pad4 y.toNat | none => sXXXX) ++ [45] ++ pad2 m ++ [45] ++ pad2 d

def luisOf (x : DateTime) : Str := formatDate x.date

/-- `str(n)` for an `int` -/
def intStr (n : Int) : Str := if n < 0 then [45] ++ natStr n.natAbs else natStr n.toNat

/-- `datetime(y, m, d)`-based `safe_create_from_value(min_value, y, m, d)` with `m`, `d` possibly out of range -/
def mk (y : Int) (m d : Nat) : DateTime := safeCreateFromMinValue y m d

/-- `DateUtils.safe_create_date_resolve_overflow(year, month, day)` -/
def mkOverflow (y : Int) (m d : Nat) : DateTime :=
  if m > 12 then mk (y + (m / 12 : Nat)) (m % 12) d else mk y m d

/-! ### `__parse_month_with_year` ("May 2020", "May of next year") -/

/-- `year` = the year read from the text (`none` when there is none), `swift` = `get_swift_year(order_str)`. -/
def monthWithYear (ref : DateTime) (month : Nat) (year : Option Int) (swift : Int) : Res :=
  let yr : Option Int := match year with
    | some y => some y
    | none => if swift < 1 then none else some ((ref.date.y : Int) + swift)
  match yr with
  | none => .noResult
  | some y =>
    let b := mk y month 1
    ofOpt ((addDelta b 0 1 0).bind fun e1 => (addDelta e1 0 0 0).map fun e =>
      .ok (pad4 y.toNat ++ [45] ++ pad2 month) b e b e)

/-! ### `_parse_simple_case` ("from 4 to 22 [January] [2020]", "from 4 to 22 this/next/last month") -/

/-- `monthStr` = the month named in the text; when absent the text holds a relative month with
`relSwift = get_swift_day_or_month(...)` and `relFuture = is_future(...)`. -/
def simpleCase (ref : DateTime) (beginDay endDay : Nat) (yearStr : Option Int) (monthStr : Option Nat)
    (relSwift : Int) (relFuture : Bool) : Res :=
  let year0 : Int := match yearStr with | some y => y | none => ref.date.y
  let noYear0 : Bool := yearStr.isNone
  let (year, month, noYear) : Int × Int × Bool :=
    match monthStr with
    | some m => (year0, (m : Int), noYear0)
    | none =>
      let m : Int := (ref.date.m : Int) + relSwift
      let (m, y) : Int × Int := if m < 1 then (1, year0 - 1) else if m > 12 then (12, year0 + 1) else (m, year0)
      (y, m, if relFuture then false else noYear0)
  let ly : Option Int := if noYear then none else some year
  let beginLuis := luis ly month.toNat beginDay
  let endLuis := luis ly month.toNat endDay
  let start := mk year month.toNat beginDay
  let futureYear := if noYear && start.lt ref then year + 1 else year
  let pastYear := if noYear && ref.le start then year - 1 else year
  .ok ([40] ++ beginLuis ++ [44] ++ endLuis ++ [44, 80] ++ intStr ((endDay : Int) - beginDay) ++ [68, 41])
    (mk futureYear month.toNat beginDay) (mk futureYear month.toNat endDay)
    (mk pastYear month.toNat beginDay) (mk pastYear month.toNat endDay)

/-! ### `_parse_year` ("2016") -/

def parseYear (year : Int) : Res :=
  let b := mk year 1 1
  let e := mk (year + 1) 1 1
  .ok (pad4 year.toNat) b e b e

/-! ### `_compute_date`, `_get_week_of_month`, `_parse_week_of_month` -/

/-- `_compute_date(cardinal, weekday, month, year)`: the `cardinal`-th `weekday` of the month (`datetime(year, month, 1)`
raises for an impossible month / year). -/
def computeDate (cardinal : Int) (weekday : Nat) (month : Nat) (year : Int) : Option DateTime :=
  if isValidDate year month 1 then
    let first : DateTime := ⟨⟨year.toNat, month, 1⟩, 0⟩
    (this first weekday).bind fun fw0 =>
    let wd := if weekday == 0 then 7 else weekday
    (if wd < first.date.isoWeekday then next first wd else some fw0).bind fun fw =>
    addDelta fw 0 0 (7 * (cardinal - 1))
  else none

def getWeekOfMonth (ref : DateTime) (cardinal : Int) (month : Nat) (year : Int) (noYear : Bool) : Res :=
  ofOpt do
    let seed0 ← computeDate cardinal 1 month year
    let isLast := cardinal == 5
    let (cardinal, seed) ← (if seed0.date.m ≠ month then (addDelta seed0 0 0 (-7)).map fun s => (cardinal - 1, s)
                            else some (cardinal, seed0))
    let back (d : DateTime) : Option DateTime := if d.date.m ≠ month then addDelta d 0 0 (-7) else some d
    let future ← (if noYear && seed.lt ref then (computeDate cardinal 1 month (year + 1)).bind back else some seed)
    let past ← (if noYear && ref.le seed then (computeDate cardinal 1 month (year - 1)).bind back else some seed)
    let adjusted : Int := if isLast then 5 else cardinal
    let timex := (if noYear then sXXXX else pad4 year.toNat) ++ [45] ++ pad2 month ++ [45, 87] ++ pad2 adjusted.toNat
    let fe ← addDelta future 0 0 7
    let pe ← addDelta past 0 0 7
    pure (.ok timex future fe past pe)

/-- `_parse_week_of_month`: `cardinal` = 5 for "last" else `cardinal_map[...]`; `monthStr` = the named month (then the
year is open), otherwise the month comes from `reference + datedelta(months=swift)`. -/
def weekOfMonth (ref : DateTime) (cardinal : Int) (monthStr : Option Nat) (swift : Int) : Res :=
  match monthStr with
  | some m => getWeekOfMonth ref cardinal m ref.date.y true
  | none =>
    match addDelta ref 0 swift 0 with
    | none => .raises
    | some t => getWeekOfMonth ref cardinal t.date.m t.date.y false

/-! ### `_parse_week_of_year` ("first week of 2020", "last week of this year") -/

/-- `year` = `int(year_str)` when present, else `reference.year + swift` with `swift = get_swift_year(order_str)`
(no result for `swift < -1`). `fixed = false` is the code BEFORE `fix: numbered week of a year carries the target week's
number` (the TIMEX of a numbered week was written with the ISO week number of January 1st); kept as the labelled pre-fix
variant `weekOfYearPreFix` (regression witness `week_of_year_timex_prefix_regression`). -/
def weekOfYearG (fixed : Bool) (ref : DateTime) (isLast : Bool) (cardinal : Int) (yearStr : Option Int) (swift : Int) : Res :=
  let yr : Option Int := match yearStr with
    | some y => some y
    | none => if swift < -1 then none else some ((ref.date.y : Int) + swift)
  match yr with
  | none => .noResult
  | some year =>
    ofOpt do
      let (monday, weekNum) ←
        (if isLast then do
          let lastDay := mk year 12 31
          let m0 ← this lastDay 1
          let wn := (isoCalendar lastDay.date).2.1
          let m ← (if wn == 1 then (addDelta lastDay 0 0 (-7)).bind fun x => this x 1 else some m0)
          pure (m, (isoCalendar m.date).2.1)
        else do
          let firstDay := mk year 1 1
          let m0 ← this firstDay 1
          let wn := (isoCalendar firstDay.date).2.1
          let m ← (if wn != 1 then (addDelta firstDay 0 0 7).bind fun x => this x 1 else some m0)
          let t ← addDelta m 0 0 (7 * (cardinal - 1))
          pure (t, if fixed then (isoCalendar t.date).2.1 else wn))
      let e ← addDelta monday 0 0 7
      pure (.ok (pad4 year.toNat ++ [45, 87] ++ pad2 weekNum) monday e monday e)

/-- the current code -/
def weekOfYear := weekOfYearG true
def weekOfYearPreFix := weekOfYearG false

/-! ### `__parse_which_week` ("week 12") -/

def whichWeek (ref : DateTime) (num : Int) : Res :=
  let year : Int := ref.date.y
  let firstDay := mk year 1 1
  ofOpt do
    let thursday ← this firstDay 4
    let firstWeek := (isoCalendar thursday.date).2.1
    let n := if firstWeek == 1 then num - 1 else num
    let r ← addDays thursday (7 * n - 3)
    let e ← addDays r 7
    pure (.ok (pad4 year.toNat ++ [45, 87] ++ pad2 num.toNat) r e r e)

/-! ### `__parse_quarter` ("Q1 2020", "first quarter of next year", "this/last/next quarter", "the 3rd quarter") -/

/-- `yearStr` = `int(year_str)`; `orderQuarter` = `get_swift_year(order_quarter_str)` when that group matched
("this/next/last quarter"); `orderSwift` = `get_swift_year(order_str or '')` (−10 when no order word);
`number` = `int(quarter_str)`; `cardinal` = `cardinal_map[cardinal_str]` (used only when neither a number nor an
ordered quarter is present). -/
def quarter (ref : DateTime) (yearStr : Option Int) (orderQuarter : Option Int) (orderSwift : Int)
    (number : Option Int) (cardinal : Int) : Res :=
  let (year0, noSpecific) : Int × Bool :=
    match yearStr with
    | some y => (y, false)
    | none =>
      let swift : Int := if orderQuarter.isSome then 0 else orderSwift
      if swift < -1 then ((ref.date.y : Int), true) else ((ref.date.y : Int) + swift, false)
  let (q, year) : Int × Int :=
    match number, orderQuarter with
    | some n, _ => (n, year0)
    | none, some sw =>
      let q0 : Int := ((ref.date.m : Int) + 2) / 3 + sw          -- math.ceil(month / 3) + swift
      if q0 ≤ 0 then (q0 + 4, year0 - 1) else if q0 > 4 then (q0 - 4, year0 + 1) else (q0, year0)
    | none, none => (cardinal, year0)
  let bq (y : Int) : DateTime := mkOverflow y (((q - 1) * 3 + 1).toNat) 1
  let eq (y : Int) : DateTime := mkOverflow y ((q * 3 + 1).toNat) 1
  let b := bq year
  let e := eq year
  if noSpecific then
    let timex := [40] ++ luis none b.date.m 1 ++ [44] ++ luis none e.date.m 1 ++ [44, 80, 51, 77, 41]
    if e.lt ref then .ok timex (bq (year + 1)) (eq (year + 1)) b e
    else if ref.lt e then .ok timex b e (bq (year - 1)) (eq (year - 1))
    else .ok timex b e b e
  else .ok ([40] ++ luisOf b ++ [44] ++ luisOf e ++ [44, 80, 51, 77, 41]) b e b e

/-! ### `_parse_half_year` ("first half of 2020", "H2 2019") -/

def halfYear (ref : DateTime) (yearStr : Option Int) (orderSwift : Int) (half : Int) : Res :=
  let yr : Option Int := match yearStr with
    | some y => some y
    | none => if orderSwift < -1 then none else some ((ref.date.y : Int) + orderSwift)
  match yr with
  | none => .noResult
  | some year =>
    let b := mkOverflow year (((half - 1) * 6 + 1).toNat) 1
    let e := mkOverflow year ((half * 6 + 1).toNat) 1
    .ok ([40] ++ luisOf b ++ [44] ++ luisOf e ++ [44, 80, 54, 77, 41]) b e b e

/-! ### `__parse_season`: only a TIMEX, no values -/

/-- `f'{year_str}-{season}'` with `year_str` either the matched text or `str(reference.year + swift)`; the bare season
code when there is neither a year nor an order word (`swift < -1`). -/
def seasonTimex (ref : DateTime) (yearText : Option Str) (swift : Int) (season : Str) : Str :=
  match yearText with
  | some y => y ++ [45] ++ season
  | none => if swift ≥ -1 then intStr ((ref.date.y : Int) + swift) ++ [45] ++ season else season

/-! ### `_merge_two_times_points` (two dates resolved by the date parser, no year context) -/

/-- `TimexUtil.generate_date_period_timex_str(begin, end, DAY, timex1, timex2)` -/
def periodTimexStr (b e : DateTime) (t1 t2 : Str) : Str :=
  let valid := b ≠ DateUtils.minValue ∧ e ≠ DateUtils.minValue
  [40] ++ t1 ++ [44] ++ t2 ++ [44, 80] ++
    (if valid then intStr ((e.date.ord : Int) - b.date.ord) else [88]) ++ [68, 41]

def startsWithXXXX (t : Str) : Bool := t.take 4 = sXXXX

/-- inputs: future / past value and TIMEX of the first and of the second date. -/
def mergeTwoTimePoints (fb pb : DateTime) (t1 : Str) (fe pe : DateTime) (t2 : Str) : Res :=
  let fb' := if fe.lt fb then pb else fb
  let pe' := if pe.lt pb then fe else pe
  let timex := periodTimexStr fb' fe t1 t2
  let feb28 := safeCreateFromValue DateUtils.minValue fb'.date.y 2 28
  let mar1 := safeCreateFromValue DateUtils.minValue fb'.date.y 3 1
  let timex := if startsWithXXXX t1 && fb'.le feb28 && mar1.le fe then
      let past := periodTimexStr pb pe' t1 t2
      if timex = past then timex else timex ++ [124] ++ past
    else timex
  .ok timex fb' fe pb pe'

/-! ### `_parse_duration`: "past N <unit>", "next N <unit>", "in N <unit>" (units D, W, M, Y) -/

inductive PerUnit | D | W | M | Y
deriving DecidableEq, Repr

def PerUnit.letter : PerUnit → Nat
  | .D => 68 | .W => 87 | .M => 77 | .Y => 89

/-- `__get_swift_date(date, 'P<n><U>', is_positive_swift)` -/
def swiftDate (x : DateTime) (u : PerUnit) (n : Nat) (positive : Bool) : Option DateTime :=
  if n = 0 then some x
  else
    let k : Int := if positive then n else -(n : Int)
    match u with
    | .D => addDays x k
    | .W => addDays x (7 * k)
    | .M => addDelta x 0 k 0
    | .Y => addDelta x k 0 0

inductive DurMode | past | next | inConn
deriving DecidableEq, Repr

def durationPeriod (ref : DateTime) (mode : DurMode) (u : PerUnit) (n : Nat) : Res :=
  ofOpt do
    let (b, e, cnt) ←
      (match mode with
       | .past => (swiftDate ref u n false).map fun b => (b, ref, n)
       | .next => do
          let b ← addDays ref 1
          let e ← swiftDate b u n true
          pure (b, e, n)
       | .inConn => do
          let b0 ← addDays ref 1
          let e ← swiftDate b0 u n true
          let b ← swiftDate e u 1 false
          pure (b, e, 1))
    if b ≠ e then
      pure (.ok ([40] ++ luisOf b ++ [44] ++ luisOf e ++ [44, 80] ++ natStr cnt ++ [u.letter, 41]) b e b e)
    else pure .noResult

end RTV.Periods
