import RTV.Model.NumCfg
import RTV.Model.Re
import RTV.Model.Preprocess
import RTV.Gen.NumCjkZh
import RTV.Gen.NumCjkJa
import RTV.Gen.ReTables
import RTV.Gen.CharTables
import RTV.Gen.NumDigits
/-!
L4 `NumCjk` — the whole of `CJKNumberParser` (recognizers_number/number/cjk_parsers.py), function by function, for the
Chinese and the Japanese configuration objects:

`parse` (dispatch on the extractor's tag: `Per` / `Num` / `Pow` / `Frac` / `Dou` / `Integer` / `Ordinal`, including the
`UnboundLocalError` of an empty or unknown tag), `replace_trad_with_simplified`, `replace_full_with_half`, `replace_unit`,
`per_parse` (the `Spe` branch with its 2-match / 5-match / other cases, the `Num` branch with the k/M/G/T powers, the
spelled branch, the `percentage_num_regex` division — the Japanese configuration class has no such attribute: every
Japanese `per_parse` ends in `AttributeError`), `frac_parse`, `get_value_from_part`, `is_digit`, `dou_parse`, `int_parse`,
`ord_parse`, `get_digit_value`, `get_int_value` (dozen / pair / sign pre-checks and the character walk — here over Python's
number tower, not over naturals as `RTV.Num.cjkIntValue`), `get_point_value`, `__format`; of the base class
`_digit_number_parse` (suffix multipliers) and, through `RTV.Num.digitalValue`, `_get_digital_value`.

The number tower is modelled as it is: `int` (exact), `float` (a software IEEE-754 binary64: every operation is the exact
rational result rounded to nearest-even; `repr` = the shortest decimal that reads back, CPython's layout), `Decimal`
(`RTV.Dec`, precision of the `@precision` decorator in force). Which one a value is decides its resolution string:
`round_default = round_recent / 10` turns every numeral with a round character followed by a digit into a float
(`一百二十三` is `123.0`), `get_point_value` accumulates `0.1 * d` in binary floating point (`零点三` is
`0.30000000000000004`), `frac_parse` converts to `Decimal` exactly and divides at the context precision.

The regexes are not abstracted: the configuration's patterns are regenerated into `RTV.Gen.NumCjkZh/Ja` as `RTV.Re.RE`
terms (with the flags they are really used with) and run by the backtracking matcher `RTV.Re` (`regex.search`,
`regex.finditer`, `regex.split`). Not modelled: `_power_number_parse` (tag `Pow`: `.unmodelled`; builder C's `NumFrac`
has it), infinities / NaN (`.overflow`), `ParseResult` plumbing (start, length, text, type).
-/
namespace RTV.NumCjk
open RTV.Py RTV.Dec RTV.Num RTV.Re

/-! ## binary64, finite values: `± num / den`, `den` a power of two, lowest terms -/

structure F64 where
  neg : Bool
  num : Nat
  den : Nat
deriving Repr, DecidableEq, Inhabited

/-- round-half-even of `q + r/d` (`r < d`) to an integer -/
def roundHE (q r d : Nat) : Nat := if 2 * r > d || (2 * r == d && q % 2 == 1) then q + 1 else q

/-- The binary64 nearest to `n / d` (`d > 0`), ties to even, as `(num, den)` with `den = 2^sh`; `none` = the rounded
value is ≥ 2^1024. 53-bit significand: the quotient at the chosen scale lies in `[2^52, 2^53)`, or the scale is the
subnormal quantum `2^-1074`. (Same algorithm as `RTV.Durations.roundQ`.) -/
def roundQ (n d : Nat) : Option (Nat × Nat) :=
  if n = 0 then some (0, 1)
  else
    let k := n.log2
    let l := d.log2
    if k ≤ l + 52 then
      let sh0 := l + 52 - k
      let sh1 := if n * 2 ^ sh0 / d < 2 ^ 52 then sh0 + 1 else sh0
      let sh := min sh1 1074
      let N := n * 2 ^ sh
      some (roundHE (N / d) (N % d) d, 2 ^ sh)
    else
      let t0 := k - l - 52
      let t := if n / (d * 2 ^ t0) < 2 ^ 52 then t0 - 1 else t0
      let D := d * 2 ^ t
      let q := roundHE (n / D) (n % D) D
      if q * 2 ^ t ≥ 2 ^ 1024 then none else some (q * 2 ^ t, 1)

/-- lowest terms of `n / 2^k` -/
def reduce2 : Nat → Nat → Nat → Nat × Nat
  | 0, n, d => (n, d)
  | f + 1, n, d => if n = 0 then (0, 1) else if d > 1 && n % 2 == 0 then reduce2 f (n / 2) (d / 2) else (n, d)

def F64.ofQ (neg : Bool) (n d : Nat) : Option F64 :=
  (roundQ n d).map fun p => let r := reduce2 (p.2.log2 + 1) p.1 p.2; ⟨neg, r.1, r.2⟩

def F64.ofInt (i : Int) : Option F64 := F64.ofQ (i < 0) i.natAbs 1
def F64.negate (a : F64) : F64 := { a with neg := !a.neg }

/-- `a + b` (an exact zero sum of opposite signs is `+0.0`) -/
def F64.add (a b : F64) : Option F64 :=
  let an := a.num * b.den
  let bn := b.num * a.den
  let den := a.den * b.den
  if a.neg = b.neg then F64.ofQ a.neg (an + bn) den
  else if an = bn then some ⟨false, 0, 1⟩
  else if an > bn then F64.ofQ a.neg (an - bn) den else F64.ofQ b.neg (bn - an) den

def F64.mul (a b : F64) : Option F64 := F64.ofQ (a.neg != b.neg) (a.num * b.num) (a.den * b.den)

/-- `a / b` for `b ≠ 0` -/
def F64.div (a b : F64) : Option F64 := F64.ofQ (a.neg != b.neg) (a.num * b.den) (a.den * b.num)

/-- `float(Decimal)`: correctly rounded -/
def F64.ofDec (x : Dec) : Option F64 :=
  if x.exp ≥ 0 then F64.ofQ x.neg (x.coeff * 10 ^ x.exp.toNat) 1 else F64.ofQ x.neg x.coeff (10 ^ (-x.exp).toNat)

/-- `Decimal(float)` (`Decimal.from_float`): the exact value, `n * 5^k × 10^-k` for `n / 2^k` in lowest terms -/
def F64.toDec (x : F64) : Dec :=
  let k := x.den.log2
  ⟨x.neg, x.num * 5 ^ k, -(k : Int)⟩

/-- the literals `0.5`, `0.1`, `0.01` of the code -/
def F64.half : F64 := ⟨false, 1, 2⟩
def F64.pointOne : F64 := ⟨false, 3602879701896397, 2 ^ 55⟩
def F64.pointZeroOne : F64 := ⟨false, 5764607523034235, 2 ^ 59⟩

/-! ### `repr(float)` (as `RTV.Durations.reprDbl`) -/

def findZ (n d : Nat) : Nat → Nat → Nat
  | 0, z => z
  | f + 1, z => if n * 10 ^ z ≥ d then z else findZ n d f (z + 1)

/-- `⌊log10 (n/d)⌋` for `n, d > 0` -/
def log10Floor (n d : Nat) : Int :=
  if n ≥ d then (((digitsOf (n / d)).length - 1 : Nat) : Int) else -((findZ n d 400 1 : Nat) : Int)

/-- `n/d` correctly rounded (half-even) to `p` significant decimal digits: `(D, t)`, value `D × 10^t` -/
def roundDec (n d p : Nat) : Nat × Int :=
  let t : Int := log10Floor n d - ((p - 1 : Nat) : Int)
  let N := if t ≥ 0 then n else n * 10 ^ (-t).toNat
  let D := if t ≥ 0 then d * 10 ^ t.toNat else d
  let q := roundHE (N / D) (N % D) D
  if q = 10 ^ p then (10 ^ (p - 1), t + 1) else (q, t)

/-- does the decimal `D × 10^t` read back (`float(str)`) as `n/d`? -/
def readsBack (n d : Nat) (c : Nat × Int) : Bool :=
  let r := if c.2 ≥ 0 then roundQ (c.1 * 10 ^ c.2.toNat) 1 else roundQ c.1 (10 ^ (-c.2).toNat)
  match r with
  | some (a, b) => a * d == n * b
  | none => false

def shortest (n d : Nat) : Nat → Nat → Option (Nat × Int)
  | 0, _ => none
  | fuel + 1, p => if readsBack n d (roundDec n d p) then some (roundDec n d p) else shortest n d fuel (p + 1)

def stripZeros10 : Nat → Nat → Int → Nat × Int
  | 0, D, t => (D, t)
  | f + 1, D, t => if D ≠ 0 ∧ D % 10 = 0 then stripZeros10 f (D / 10) (t + 1) else (D, t)

def zeros (k : Nat) : Str := List.replicate k 48

/-- CPython `float_repr_style = 'short'`, format code `r`: exponent layout iff `decpt ≤ -4` or `decpt > 16` -/
def layout (ds : Str) (decpt : Int) : Str :=
  if decpt ≤ -4 ∨ decpt > 16 then
    let e := decpt - 1
    let es := digitsOf e.natAbs
    ds.take 1 ++ (if ds.length > 1 then 46 :: ds.drop 1 else []) ++ [101, if e < 0 then 45 else 43] ++
      (if es.length < 2 then 48 :: es else es)
  else if decpt ≤ 0 then [48, 46] ++ zeros (-decpt).toNat ++ ds
  else if decpt.toNat ≥ ds.length then ds ++ zeros (decpt.toNat - ds.length) ++ [46, 48]
  else ds.take decpt.toNat ++ [46] ++ ds.drop decpt.toNat

/-- `repr(x)` -/
def F64.repr (x : F64) : Str :=
  if x.num = 0 then (if x.neg then [45] else []) ++ [48, 46, 48]
  else
    let c := (shortest x.num x.den 17 1).getD (roundDec x.num x.den 17)
    let (D, t) := stripZeros10 20 c.1 c.2
    let ds := digitsOf D
    (if x.neg then [45] else []) ++ layout ds ((ds.length : Int) + t)

/-! ## Python numbers -/

inductive Err
  | keyError | indexError | attributeError | typeError | zeroDivision
  | decimal          -- decimal.InvalidOperation / DivisionByZero
  | unboundLocal     -- `return result` before assignment
  | overflow         -- a float result beyond the finite range (inf / OverflowError: not modelled)
  | unmodelled       -- tag `Pow`
deriving DecidableEq, Repr, Inhabited

def ofNumErr : Num.Err → Err
  | .indexError => .indexError
  | .zeroDiv => .decimal
  | .invalid => .decimal
  | .keyError => .keyError

def ofOpt {α} (e : Err) : Option α → Except Err α
  | some a => .ok a
  | none => .error e

/-- `int` or `float` -/
inductive PyN
  | int (v : Int)
  | flt (x : F64)
deriving Repr, DecidableEq, Inhabited

def PyN.toF : PyN → Except Err F64
  | .int v => ofOpt .overflow (F64.ofInt v)
  | .flt x => .ok x

def PyN.add : PyN → PyN → Except Err PyN
  | .int a, .int b => .ok (.int (a + b))
  | a, b => do
    let x ← a.toF
    let y ← b.toF
    let r ← ofOpt .overflow (F64.add x y)
    pure (.flt r)

def PyN.mul : PyN → PyN → Except Err PyN
  | .int a, .int b => .ok (.int (a * b))
  | a, b => do
    let x ← a.toF
    let y ← b.toF
    let r ← ofOpt .overflow (F64.mul x y)
    pure (.flt r)

def PyN.neg : PyN → PyN
  | .int a => .int (-a)
  | .flt x => .flt x.negate

/-- `a - b` (binary64 subtraction is addition of the negation) -/
def PyN.sub (a b : PyN) : Except Err PyN := PyN.add a b.neg

def PyN.isZero : PyN → Bool
  | .int a => a == 0
  | .flt x => x.num == 0

/-- `a / b`: true division, always a float (`int / int` is the correctly rounded quotient) -/
def PyN.truediv (a b : PyN) : Except Err PyN :=
  if b.isZero then .error .zeroDivision
  else
    match a, b with
    | .int x, .int y => do
      let r ← ofOpt .overflow (F64.ofQ ((x < 0) != (y < 0)) x.natAbs y.natAbs)
      pure (.flt r)
    | a, b => do
      let x ← a.toF
      let y ← b.toF
      let r ← ofOpt .overflow (F64.div x y)
      pure (.flt r)

def PyN.mulInt (a : PyN) (k : Int) : Except Err PyN := PyN.mul a (.int k)

/-- `str(int)` (the digits by repeated division: `RTV.Dec.digitsOf`, kernel-friendly) -/
def intStr (v : Int) : Str := if v < 0 then 45 :: digitsOf v.natAbs else digitsOf v.natAbs

/-- `str(x)` -/
def PyN.str : PyN → Str
  | .int v => intStr v
  | .flt x => x.repr

/-- `Decimal(x)`: exact for both -/
def PyN.toDec : PyN → Dec
  | .int v => Dec.ofInt v
  | .flt x => x.toDec

/-- what `result.value` can be -/
inductive Val
  | n (a : PyN)
  | d (x : Dec)
deriving Repr, DecidableEq, Inhabited

def Val.str : Val → Str
  | .n a => a.str
  | .d x => Dec.toStr x

/-! ## configuration -/

structure Cfg where
  T : Tables                              -- `\d \w \s` of the regex engine
  tab : DigitTab                          -- `str.isdigit`, `Decimal(chr)`
  isSpace : Nat → Bool                    -- `str.isspace` (for `strip` / `rstrip`)
  lower : Str → Str                       -- `str.lower()`
  sep : SepCfg
  lf : Option (Nat × Nat)                 -- long format of `CultureInfo.format`
  p : Nat                                 -- `@precision` of `parse`
  pDigital : Nat                          -- `@precision` of `_get_digital_value`
  chinese : Bool                          -- `culture_info.code == Culture.Chinese`
  japanese : Bool
  zeroToNine : List (Str × PyN)
  roundChar : List (Str × Nat)
  roundDirect : List Str
  tenChars : List Str
  zeroChar : Str
  pairChar : Str
  fullToHalf : List (Str × Str)
  tradToSim : Option (List (Str × Str))   -- `None` for Japanese
  unitMap : List (Str × Str)
  roundNumberMap : List (Str × Nat)
  digitalMatchLen : Nat                   -- `len(match)` of a `digital_number_regex` match = group count + 1
  negSign : Option RE                     -- `none` = the configuration class lacks the attribute
  dozen : Option RE
  pair : Option RE
  digitNum : Option RE
  percentage : Option RE
  percentageNum : Option RE
  doubleAndRound : Option RE
  fracSplit : Option RE
  point : Option RE
  speGetNumber : Option RE
  digitalNumber : Option RE
  /-- which variant of the code: `false` = as first found (`int ± get_point_value(text)`, the digits summed as
  `0.1 * d` in binary floating point), `true` = repaired (findings/numcjk/point-value-float.diff: `add_point_value`
  attaches the digits in `Decimal` and converts to float once). The correspondence probes which one the tree follows. -/
  pointFix : Bool := false

def lookupS {β} (m : List (Str × β)) (k : Str) : Option β :=
  match m with
  | [] => none
  | (a, v) :: r => if a == k then some v else lookupS r k

/-! ## regex calls -/

def firstMatchFrom (T : Tables) (a : Array Nat) (r : RE) : Nat → Nat → Option (Nat × Nat)
  | 0, _ => none
  | fuel + 1, pos =>
    if pos > a.size then none
    else match firstEnd T a r pos with
      | some j => some (pos, j)
      | none => firstMatchFrom T a r fuel (pos + 1)

/-- `regex.search(pattern, s)`: the span of the leftmost match -/
def search (c : Cfg) (r : Option RE) (s : Str) : Except Err (Option (Nat × Nat)) :=
  match r with
  | none => .error .attributeError
  | some r => .ok (firstMatchFrom c.T s.toArray r (s.length + 2) 0)

def found (c : Cfg) (r : Option RE) (s : Str) : Except Err Bool := do
  let m ← search c r s
  pure m.isSome

def slice (s : Str) (i j : Nat) : Str := (s.drop i).take (j - i)

/-- `[m.group() for m in regex.finditer(pattern, s)]` -/
def findTexts (c : Cfg) (r : Option RE) (s : Str) : Except Err (List Str) :=
  match r with
  | none => .error .attributeError
  | some r => .ok ((findAll c.T s.toArray r).map fun m => slice s m.1 m.2)

def splitGo (s : Str) : List (Nat × Nat) → Nat → List Str
  | [], pos => [s.drop pos]
  | (i, j) :: rest, pos => if j ≤ i then splitGo s rest pos else slice s pos i :: splitGo s rest j

/-- `regex.split(pattern, s)` for a pattern without capture groups (version-0 behaviour: empty matches do not split) -/
def split (c : Cfg) (r : Option RE) (s : Str) : Except Err (List Str) :=
  match r with
  | none => .error .attributeError
  | some r => .ok (splitGo s (findAll c.T s.toArray r) 0)

/-! ## the string rewrites -/

def blank (c : Cfg) (s : Str) : Bool := (strip c.isSpace s).isEmpty

def mapChars (m : List (Str × Str)) (s : Str) : Str := s.flatMap fun ch => (lookupS m [ch]).getD [ch]

/-- `replace_trad_with_simplified` -/
def replaceTrad (c : Cfg) (s : Str) : Str :=
  if blank c s then s
  else match c.tradToSim with
    | none => s
    | some m => mapChars m s

/-- `replace_full_with_half` -/
def replaceFull (c : Cfg) (s : Str) : Str := if blank c s then s else mapChars c.fullToHalf s

/-- `replace_unit`: `str.replace` for every entry, in dictionary order -/
def replaceUnit (c : Cfg) (s : Str) : Str :=
  if blank c s then s else c.unitMap.foldl (fun r p => RTV.Preprocess.replace r p.1 p.2) s

/-! ## `get_point_value`, `get_digit_value`, `get_int_value` -/

/-- `result = 0; scale = 0.1; for c in source: result += scale * map[c]; scale *= 0.1` -/
def pointLoop (c : Cfg) : Str → PyN → F64 → Except Err PyN
  | [], result, _ => .ok result
  | ch :: rest, result, scale => do
    let d ← ofOpt .keyError (lookupS c.zeroToNine [ch])
    let term ← PyN.mul (.flt scale) d
    let result ← PyN.add result term
    let scale ← ofOpt .overflow (F64.mul scale F64.pointOne)
    pointLoop c rest result scale

def getPointValue (c : Cfg) (s : Str) : Except Err PyN := pointLoop c s (.int 0) F64.pointOne

/-- `get_digit_value(source, power)`: sign strip, full→half, `float(_get_digital_value(...))`, sign -/
def getDigitValue (c : Cfg) (s : Str) (power : Nat) : Except Err PyN := do
  let negative ← found c c.negSign s
  let s := if negative then s.drop 1 else s
  let s := replaceFull c s
  let d ← (digitalValue c.pDigital c.tab c.sep s power).mapError ofNumErr
  let f ← ofOpt .overflow (F64.ofDec d)
  pure (.flt (if negative then f.negate else f))

structure St where
  intValue : PyN := .int 0
  partValue : PyN := .int 0
  beforeValue : PyN := .int 1
  isRoundBefore : Bool := false
  roundBefore : Option Nat := none     -- -1 = none
  roundDefault : PyN := .int 1
  hasPrev : Bool := false
deriving Repr, DecidableEq

/-- `before_value = before_value * 10 + current_digit if has_previous_digits else current_digit` -/
def nextBefore (st : St) (d : PyN) : Except Err PyN :=
  if st.hasPrev then do
    let t ← PyN.mul st.beforeValue (.int 10)
    PyN.add t d
  else .ok d

/-- one character of the walk of `get_int_value` -/
def intStep (c : Cfg) (ch : Nat) (rest : Str) (st : St) : Except Err St := do
  let isLast := rest.isEmpty
  let st' ← (
    match lookupS c.roundChar [ch] with
    | some rr => do
      let climbs := match st.roundBefore with
        | some rb => decide (rr > rb)
        | none => false
      let st1 ← (
        if climbs then
          if st.isRoundBefore then do
            let t ← PyN.mul st.partValue (.int rr)
            let iv ← PyN.add st.intValue t
            pure { st with intValue := iv, isRoundBefore := false, roundBefore := none, partValue := .int 0 }
          else do
            let b ← PyN.mul st.beforeValue st.roundDefault
            let pv ← PyN.add st.partValue b
            let t ← PyN.mul pv (.int rr)
            let iv ← PyN.add st.intValue t
            pure { st with intValue := iv, roundBefore := none, partValue := .int 0 }
        else do
          let b ← PyN.mul st.beforeValue (.int rr)
          let pv ← PyN.add st.partValue b
          if isLast || c.roundDirect.contains [ch] then do
            let iv ← PyN.add st.intValue pv
            pure { st with isRoundBefore := true, roundBefore := some rr, intValue := iv, partValue := .int 0 }
          else pure { st with isRoundBefore := true, roundBefore := some rr, partValue := pv })
      let rd ← PyN.truediv (.int rr) (.int 10)
      pure { st1 with roundDefault := rd }
    | none =>
      match lookupS c.zeroToNine [ch] with
      | some d =>
        match rest with
        | nxt :: _ =>
          let isNotRoundNext := c.tenChars.contains [nxt] || !(lookupS c.roundChar [nxt]).isSome
          if [ch] == c.zeroChar && isNotRoundNext then pure { st with beforeValue := .int 1, roundDefault := .int 1 }
          else do
            let bv ← nextBefore st d
            pure { st with beforeValue := bv, isRoundBefore := false }
        | [] => do
          let rd := if c.japanese || c.tab.isDigit ch then .int 1 else st.roundDefault
          let bv ← nextBefore st d
          let b ← PyN.mul bv rd
          let pv ← PyN.add st.partValue b
          let iv ← PyN.add st.intValue pv
          pure { st with roundDefault := rd, beforeValue := bv, intValue := iv, partValue := .int 0 }
      | none => pure st)
  pure { st' with hasPrev := c.tab.isDigit ch }

def intLoop (c : Cfg) : Str → St → Except Err St
  | [], st => .ok st
  | ch :: rest, st => do
    let st' ← intStep c ch rest st
    intLoop c rest st'

/-- the flags and the stripped string of `get_int_value`'s prologue: `(dozen, pair, negative, characters to walk)` -/
def intPrologue (c : Cfg) (s : Str) : Except Err (Bool × Bool × Bool × Str) := do
  let dozen ← found c c.dozen s
  let pair ← if dozen then pure false else found c c.pair s
  let s1 :=
    if dozen then (if c.chinese then s.take (s.length - 1) else if c.japanese then s.take (s.length - 3) else s)
    else if pair then s.take (s.length - 1) else s
  let s2 := replaceUnit c s1
  let negative ← found c c.negSign s2
  pure (dozen, pair, negative, if negative then s2.drop 1 else s2)

/-- the epilogue: sign, dozen, pair -/
def intEpilogue (dozen pair negative : Bool) (v : PyN) : Except Err PyN := do
  let v := if negative then v.neg else v
  let v ← if dozen then v.mulInt 12 else pure v
  if pair then v.mulInt 2 else pure v

/-- `get_int_value(source)` -/
def getIntValue (c : Cfg) (s : Str) : Except Err PyN := do
  let (dozen, pair, negative, body) ← intPrologue c s
  let st ← intLoop c body {}
  intEpilogue dozen pair negative st.intValue

/-- the value of a digit list read as a decimal numeral -/
def digitsVal (ds : List Nat) : Nat := ds.foldl (fun acc d => acc * 10 + d) 0

/-- the map values that are plain `int` digits `0..9` (`none` as soon as one is not: `半` = 0.5) -/
def plainDigits : List PyN → Option (List Nat)
  | [] => some []
  | .int v :: r => if 0 ≤ v && v ≤ 9 then (plainDigits r).map (v.toNat :: ·) else none
  | .flt _ :: _ => none

/-- `int(x)` of an `int` or of a float with `x.is_integer()` -/
def PyN.integral : PyN → Option Int
  | .int v => some v
  | .flt x => if x.num % x.den == 0 then some (if x.neg then -((x.num / x.den : Nat) : Int) else ((x.num / x.den : Nat) : Int)) else none

/-- `Decimal('0.' + digits)` -/
def pointDec (ns : List Nat) : Dec := ⟨false, digitsVal ns, -(ns.length : Int)⟩

/-- integer part ± the digits after the point. As first found: `int_value ± get_point_value(source)`. Repaired
(`add_point_value`): for a non-empty run of plain digits after an integral integer part,
`float(Decimal(int(int_value)) ± Decimal('0.' + digits))` under the context precision; otherwise the old sum. -/
def addPoint (c : Cfg) (i : PyN) (text : Str) (neg : Bool) : Except Err PyN := do
  let old : Except Err PyN := do
    let f ← getPointValue c text
    if neg then PyN.sub i f else PyN.add i f
  if !c.pointFix then old
  else
    let ds ← text.mapM fun ch => ofOpt .keyError (lookupS c.zeroToNine [ch])
    match ds.isEmpty, plainDigits ds, i.integral with
    | false, some ns, some w =>
      let pt := pointDec ns
      let total := Dec.add c.p (Dec.ofInt w) (if neg then Dec.negate pt else pt)
      let x ← ofOpt .overflow (F64.ofDec total)
      pure (.flt x)
    | _, _, _ => old

/-- `is_digit(source)` -/
def isDigitStr (c : Cfg) (s : Str) : Except Err Bool :=
  if blank c s then .ok false else found c c.digitNum s

/-- `get_value_from_part(part)` -/
def getValueFromPart (c : Cfg) (part : Str) : Except Err PyN := do
  if (← isDigitStr c part) then getDigitValue c part 1
  else
    let parts ← split c c.point part
    match parts with
    | [a, b] => do
      let i ← getIntValue c a
      addPoint c i b false
    | _ => getIntValue c part

/-! ## the parse paths -/

def fmt (c : Cfg) (v : Val) : Str := Dec.formatStr c.lf v.str

def firstChar (s : Str) : Except Err Nat :=
  match s with
  | ch :: _ => .ok ch
  | [] => .error .indexError

def cHalf : Nat := 0x534A     -- 半

/-- the integer digit of a `Spe` percentage: pair character → 5, a ten character → 10, else the map -/
def speInt (c : Cfg) (ch : Nat) : Except Err PyN :=
  if [ch] == c.pairChar then .ok (.int 5)
  else if c.tenChars.contains [ch] then .ok (.int 10)
  else ofOpt .keyError (lookupS c.zeroToNine [ch])

def hasAny (s : Str) (cs : List Nat) : Bool := cs.any fun x => s.contains x

/-- the value of `per_parse` before the `percentage_num_regex` step, and the `source_text` that step sees -/
def perValue (c : Cfg) (data text : Str) : Except Err (PyN × Str) := do
  if Dec.contains data [83, 112, 101] then      -- 'Spe'
    let t := replaceUnit c (replaceFull c text)
    if t == [0x534A, 0x984D] || t == [0x534A, 0x6298] then pure (.int 50, t)                       -- 半額 半折
    else if t == [49, 48, 0x6210] || t == [49, 48, 0x5272] || t == [0x5341, 0x5272] then pure (.int 100, t)   -- 10成 10割 十割
    else
      let ms ← findTexts c c.speGetNumber t
      match ms with
      | [m0, m1] => do
        let i ← speInt c (← firstChar m0)
        let pc ← firstChar m1
        let pn ← if pc == cHalf then pure (PyN.flt F64.half)
                 else do
                   let d ← ofOpt .keyError (lookupS c.zeroToNine [pc])
                   PyN.mul d (.flt F64.pointOne)
        let sum ← PyN.add i pn
        let v ← sum.mulInt 10
        pure (v, t)
      | [m0, m1, _, m3, _] => do
        let ic ← firstChar m0
        let pc ← firstChar m1
        let dc ← firstChar m3
        let pd ← ofOpt .keyError (lookupS c.zeroToNine [pc])
        let pn ← PyN.mul pd (.flt F64.pointOne)
        let dd ← ofOpt .keyError (lookupS c.zeroToNine [dc])
        let dn ← PyN.mul dd (.flt F64.pointZeroOne)
        let i ← ofOpt .keyError (lookupS c.zeroToNine [ic])
        let s1 ← PyN.add i pn
        let s2 ← PyN.add s1 dn
        let v ← s2.mulInt 10
        pure (v, t)
      | m0 :: _ => do
        let i ← speInt c (← firstChar m0)
        let v ← i.mulInt 10
        pure (v, t)
      | [] => .error .indexError
  else if Dec.contains data [78, 117, 109] then  -- 'Num'
    let m ← search c c.percentage text
    match m with
    | none => .error .attributeError             -- `None.group()`
    | some (i, j) =>
      let dt := slice text i j
      let power : Nat :=
        if hasAny dt [107, 75, 0xFF4B, 0xFF2B] then 1000
        else if hasAny dt [77, 0xFF2D] then 1000000
        else if hasAny dt [71, 0xFF27] then 1000000000
        else if hasAny dt [84, 0xFF34] then 1000000000000
        else 1
      let v ← getDigitValue c dt power
      pure (v, text)
  else
    let m ← search c c.percentage text
    match m with
    | none => .error .attributeError
    | some (i, j) =>
      let dt := replaceUnit c (slice text i j)
      let parts ← split c c.point dt
      let parts := match parts with
        | [] :: r => c.zeroChar :: r
        | l => l
      match parts with
      | [] => .error .indexError
      | p0 :: r => do
        let dv ← getIntValue c p0
        match r with
        | [p1] => do
          let neg ← found c c.negSign p0
          let v ← addPoint c dv p1 neg
          pure (v, text)
        | _ => pure (dv, text)

/-- `per_parse(source)`: value and resolution string -/
def perParse (c : Cfg) (data text : Str) : Except Err (Val × Str) := do
  let (v, st) ← perValue c data text
  let m ← search c c.percentageNum st
  let v ← match m with
    | none => pure v
    | some (i, j) => do
      let parts ← split c c.fracSplit (slice st i j)
      match parts with
      | [] => .error .indexError
      | p0 :: _ => do
        let demo ← getValueFromPart c p0
        let q ← PyN.truediv demo (.int 100)
        PyN.truediv v q
  pure (.n v, fmt c (.n v) ++ [37])

/-- `frac_parse(source)` -/
def fracParse (c : Cfg) (text : Str) : Except Err (Val × Str) := do
  let parts ← split c c.fracSplit text
  let (intval, demo, num) ←
    match parts with
    | [a, b, d] => pure (a, b, d)
    | a :: b :: _ => pure (c.zeroChar, a, b)
    | _ => Except.error Err.indexError
  let iv := (← getValueFromPart c intval).toDec
  let nv := (← getValueFromPart c num).toDec
  let dv := (← getValueFromPart c demo).toDec
  let neg ← found c c.negSign intval
  let q ← ofOpt .decimal (Dec.div c.p nv dv)
  let v := if neg then Dec.add c.p iv (Dec.negate q) else Dec.add c.p iv q
  pure (.d v, fmt c (.d v))

/-- `dou_parse(source)` -/
def douParse (c : Cfg) (text : Str) : Except Err (Val × Str) := do
  let st := replaceUnit c text
  if (← found c c.doubleAndRound text) then
    let power ← ofOpt .keyError (lookupS c.roundChar (st.drop (st.length - 1)))
    let v ← getDigitValue c (st.take (st.length - 1)) power
    pure (.n v, fmt c (.n v))
  else
    let parts ← split c c.point st
    let parts := match parts with
      | [] :: r => c.zeroChar :: r
      | l => l
    match parts with
    | p0 :: p1 :: _ => do
      let neg ← found c c.negSign p0
      let i ← getIntValue c p0
      let v ← addPoint c i p1 neg
      pure (.n v, fmt c (.n v))
    | _ => .error .indexError

/-- `int_parse(source)` -/
def intParse (c : Cfg) (text : Str) : Except Err (Val × Str) := do
  let v ← getIntValue c text
  pure (.n v, fmt c (.n v))

/-- `ord_parse(source)` -/
def ordParse (c : Cfg) (text : Str) : Except Err (Val × Str) := do
  let st := text.drop 1
  let v ← if (← found c c.digitNum st) then getDigitValue c st 1 else getIntValue c st
  pure (.n v, fmt c (.n v))

/-! ### `_digit_number_parse` of the base class (tag `Num`) -/

def rstripWs (sp : Nat → Bool) (s : Str) : Str := (stripLeft sp s.reverse).reverse

/-- the `while tmp_index >= 0` loop for one match text `m` -/
def removeAll (sp : Nat → Bool) (matchLen : Nat) (m : Str) : Nat → Str → Nat → Str × Nat
  | 0, h, st => (h, st)
  | fuel + 1, h, st =>
    match findFrom h m st with
    | none => (h, st)
    | some i =>
      let front := rstripWs sp (h.take i)
      removeAll sp matchLen m fuel (front ++ h.drop (i + matchLen)) front.length

def digitHandle (c : Cfg) : List Str → Str → Nat → Nat → Except Err (Str × Nat)
  | [], h, _, pw => .ok (h, pw)
  | m :: ms, h, st, pw =>
    match lookupS c.roundNumberMap m with
    | none => .error .typeError          -- `power *= None`
    | some rep =>
      let (h', st') := removeAll c.isSpace c.digitalMatchLen m (h.length + 1) h st
      digitHandle c ms h' st' (pw * rep)

def digitNumberParse (c : Cfg) (text : Str) : Except Err Dec := do
  let handle := c.lower text
  let ms ← findTexts c c.digitalNumber handle
  let (h, pw) ← digitHandle c ms handle 0 1
  (digitalValue c.pDigital c.tab c.sep h pw).mapError ofNumErr

/-- the `'Num' in extra` branch of `parse` -/
def numParse (c : Cfg) (text : Str) : Except Err (Val × Str) := do
  let t := replaceFull c text
  let d ← digitNumberParse c t
  let neg ← found c c.negSign t
  let d := if neg && (!d.neg && d.coeff != 0) then Dec.mul c.p d (Dec.ofInt (-1)) else d
  pure (.d d, fmt c (.d d))

/-- `parse(source)`: `data` = the extractor's tag (`source.data`), `text` = `source.text` -/
def parse (c : Cfg) (data text : Str) : Except Err (Val × Str) :=
  let t := replaceTrad c text
  if data.isEmpty then .error .unboundLocal
  else if Dec.contains data [80, 101, 114] then perParse c data t                 -- 'Per'
  else if Dec.contains data [78, 117, 109] then numParse c t                      -- 'Num'
  else if Dec.contains data [80, 111, 119] then .error .unmodelled                -- 'Pow'
  else if Dec.contains data [70, 114, 97, 99] then fracParse c t                  -- 'Frac'
  else if Dec.contains data [68, 111, 117] then douParse c t                      -- 'Dou'
  else if Dec.contains data [73, 110, 116, 101, 103, 101, 114] then intParse c t  -- 'Integer'
  else if Dec.contains data [79, 114, 100, 105, 110, 97, 108] then ordParse c t   -- 'Ordinal'
  else .error .unboundLocal

/-! ## the two configurations, from the regenerated data -/

/-- The tables of the running interpreter / regex engine, searched linearly (`RTV.Py.inRanges`: cheap for the kernel;
the other drivers use the binary search `inRangesArr` over the same regenerated arrays). -/
def pyDigits : DigitTab where
  isDigit c := inRanges RTV.Gen.digitRanges.toList c
  value c := (RTV.Gen.NumDigits.table.toList.find? fun (lo, hi, _) => lo ≤ c && c ≤ hi).bind fun (_, _, b) => b.map (c - ·)

def pySpace (c : Nat) : Bool := inRanges RTV.Gen.spaceRanges.toList c

def reTablesL : Tables where
  digit c := inRanges RTV.Gen.reDigitRanges.toList c
  word c := inRanges RTV.Gen.reWordRanges.toList c
  space c := inRanges RTV.Gen.reSpaceRanges.toList c

def pyLower (s : Str) : Str :=
  RTV.Preprocess.lowerWith (RTV.Preprocess.lowerFull RTV.Gen.lowerPairs RTV.Gen.lowerExpanding) s

def mkDigits (ints : List (Str × Nat)) (half : List (Str × Nat × Nat)) : List (Str × PyN) :=
  ints.map (fun p => (p.1, PyN.int p.2)) ++ half.map (fun p => (p.1, PyN.flt ⟨false, p.2.1, p.2.2⟩))

open RTV.Gen in
def zhCfg : Cfg where
  T := reTablesL
  tab := pyDigits
  isSpace := pySpace
  lower := pyLower
  sep := zh.sep
  lf := zh.longFormat
  p := NumCjkZh.parsePrec
  pDigital := NumDigits.digitalValuePrec
  chinese := NumCjkZh.isChinese
  japanese := NumCjkZh.isJapanese
  zeroToNine := mkDigits NumZh.zeroToNine NumCjkZh.half
  roundChar := NumZh.roundChar
  roundDirect := NumZh.roundDirect
  tenChars := NumZh.tenChars
  zeroChar := NumZh.zeroChar
  pairChar := NumZh.pairChar
  fullToHalf := NumZh.fullToHalf
  tradToSim := if NumCjkZh.hasTradMap then some NumZh.tradToSim else none
  unitMap := NumZh.unitMap
  roundNumberMap := NumZh.round
  digitalMatchLen := NumCjkZh.digitalNumberGroups + 1
  negSign := NumCjkZh.negSign
  dozen := NumCjkZh.dozen
  pair := NumCjkZh.pair
  digitNum := NumCjkZh.digitNum
  percentage := NumCjkZh.percentage
  percentageNum := NumCjkZh.percentageNum
  doubleAndRound := NumCjkZh.doubleAndRound
  fracSplit := NumCjkZh.fracSplit
  point := NumCjkZh.point
  speGetNumber := NumCjkZh.speGetNumber
  digitalNumber := NumCjkZh.digitalNumber

open RTV.Gen in
def jaCfg : Cfg where
  T := reTablesL
  tab := pyDigits
  isSpace := pySpace
  lower := pyLower
  sep := ja.sep
  lf := ja.longFormat
  p := NumCjkJa.parsePrec
  pDigital := NumDigits.digitalValuePrec
  chinese := NumCjkJa.isChinese
  japanese := NumCjkJa.isJapanese
  zeroToNine := mkDigits NumJa.zeroToNine NumCjkJa.half
  roundChar := NumJa.roundChar
  roundDirect := NumJa.roundDirect
  tenChars := NumJa.tenChars
  zeroChar := NumJa.zeroChar
  pairChar := NumJa.pairChar
  fullToHalf := NumJa.fullToHalf
  tradToSim := if NumCjkJa.hasTradMap then some NumJa.tradToSim else none
  unitMap := NumJa.unitMap
  roundNumberMap := NumJa.round
  digitalMatchLen := NumCjkJa.digitalNumberGroups + 1
  negSign := NumCjkJa.negSign
  dozen := NumCjkJa.dozen
  pair := NumCjkJa.pair
  digitNum := NumCjkJa.digitNum
  percentage := NumCjkJa.percentage
  percentageNum := NumCjkJa.percentageNum
  doubleAndRound := NumCjkJa.doubleAndRound
  fracSplit := NumCjkJa.fracSplit
  point := NumCjkJa.point
  speGetNumber := NumCjkJa.speGetNumber
  digitalNumber := NumCjkJa.digitalNumber

/-- the repaired variants (findings/numcjk/point-value-float.diff) -/
def zhCfgFx : Cfg := { zhCfg with pointFix := true }
def jaCfgFx : Cfg := { jaCfg with pointFix := true }

end RTV.NumCjk
