import RTV.Model.Factory
/-!
L9b `Conc` — the hidden state of a recognise call made explicit (C02).

* `Env`: what a call can see besides its arguments — the ambient decimal precision of the calling thread
  (`decimal.getcontext().prec`: 15 on the thread that imported `recognizers_number` because of the module-level
  `getcontext().prec = 15`, the default 28 on every other thread), the process-wide model cache, the history.
* `recognise`: `recognize_*` = build a recogniser, ask it for a model (L9 `step`), run the model on the query.
  A model object is immutable after construction (assumption, monitored by the correspondence), so what it
  answers is a function `parse` of its constructor key, the query (with reference date) and the precision the
  Decimal arithmetic runs under; `@precision(prec=15)` (number/utilities.py) replaces the ambient precision by 15.
* threads: `ModelFactory.get_model` cut into its dict operations on the shared cache (`cache.get(key)` and
  `cache[key] = model` are atomic under the GIL; everything between them is thread-local), any interleaving of
  any number of threads' request lists.

Mirrors recognizers_text/model.py (`get_model`, `try_get_model`, `get_model_from_cache`,
`register_model_in_cache`), recognizers_number/number/utilities.py (`precision`), cjk_parsers.py:18.
Import-free apart from the Factory model.
-/
namespace RTV.Conc
open RTV.Py RTV.Factory

/-! ### precision -/

/-- precision set by `getcontext().prec = 15` at import of recognizers_number.number.cjk_parsers / parsers -/
def importPrec : Nat := 15
/-- `decimal.DefaultContext.prec`: what a thread that did not run the import starts with -/
def defaultPrec : Nat := 28

/-- the ambient precision a thread sees -/
def threadPrec (isImportingThread : Bool) : Nat := if isImportingThread then importPrec else defaultPrec

/-- How a piece of Decimal arithmetic is reached: through a function decorated with `@precision(prec=15)` — in
the code as it is every path, since `BaseNumberParser.parse`, `CJKNumberParser.parse` and the compound-currency merge
are decorated (fix "number parsers run under precision 15 on every thread") — or not: before that fix only
`_get_digital_value`, `_get_int_value`, `_get_point_value` were, and the divisions of `_frac_like_number_parse` and the
CJK fraction / percentage paths ran under the ambient precision (kept as the regression variant; the correspondence
decides on every run which variant the working tree follows). -/
inductive Path
  | decorated
  | undecorated
deriving DecidableEq, Repr

/-- the precision the arithmetic really runs under -/
def effectivePrec (path : Path) (ambient : Nat) : Nat :=
  match path with
  | .decorated => 15
  | .undecorated => ambient

/-- run a computation that takes the context precision -/
def runUnder {α} (path : Path) (ambient : Nat) (f : Nat → α) : α := f (effectivePrec path ambient)

/-- A model whose Decimal arithmetic `f id q` (a function of the context precision) is reached through `path`:
what it answers under a given ambient precision. -/
def parseVia {Q R} (path : Path) (f : ModelId → Q → Nat → R) : ModelId → Q → Nat → R :=
  fun id q ambient => runUnder path ambient (f id q)

/-! ### a recognise call -/

structure Env where
  /-- ambient decimal precision of the calling thread -/
  prec : Nat
  /-- `ModelFactory.__cache` -/
  cache : State
  /-- the operations made so far -/
  history : List Op

/-- `model.parse(query)` on what the model request returned (`none`: the request raised) -/
def parseOut {Q R} (parse : ModelId → Q → Nat → R) (q : Q) (p : Nat) : Out → Option R
  | .model m => some (parse m.id q p)
  | _ => none

/-- `recognize_x(query, culture, options, fallback)`: the model request `op`, then `model.parse(query)`.
`parse id q p` = what the model built by constructor key `id` answers for `q` when its undecorated Decimal
arithmetic runs at precision `p`; `none` = the request raised. -/
def recognise {Q R} (cfg : Cfg) (parse : ModelId → Q → Nat → R) (env : Env) (op : Op) (q : Q) : Env × Option R :=
  let r := step cfg env.cache op
  (⟨env.prec, r.1, env.history ++ [op]⟩, parseOut parse q env.prec r.2)

/-- the environment after a history of model requests made from the empty cache on a thread of precision `p` -/
def envAfter (cfg : Cfg) (p : Nat) (ops : List Op) : Env := ⟨p, (run cfg State.init ops).1, ops⟩

/-! ### threads -/

/-- a factory-level request (the culture is already resolved: resolution is a pure function) -/
structure Req where
  kind : Nat
  type : Str
  culture : Option Str
  fb : Bool
  options : Int
deriving DecidableEq, Repr

/-- where a thread stands inside `ModelFactory.get_model` -/
inductive PC
  /-- about to run `cache.get` for the requested culture -/
  | start
  /-- the constructor has run; about to run `cache[key] = model` (then return the model) -/
  | store (key : Key) (m : Obj)
  /-- the requested culture gave nothing; about to run `cache.get` for the fallback culture -/
  | start2
deriving DecidableEq, Repr

structure Thread where
  todo : List Req
  pc : PC
  outs : List Out
deriving Repr

structure Sys where
  cache : List (Key × Obj)
  next : Nat
  threads : Nat → Thread

def finish (th : Thread) (o : Out) : Thread := ⟨th.todo.tail, .start, th.outs ++ [o]⟩

/-- the part of `try_get_model` after a cache miss: look the constructor up, run it (allocating an object) -/
def afterMiss (cfg : Cfg) (q : Req) (c : Option Str) (next : Nat) : Option (Key × Obj) :=
  match c with
  | some cs =>
    if (q.type, cs) ∈ cfg.regs q.kind then some (⟨q.type, c, q.options⟩, ⟨⟨q.kind, q.type, cs, q.options⟩, next⟩)
    else none
  | none => none

/-- one atomic step of thread `i` (no-op when it has nothing to do) -/
def sysStep (cfg : Cfg) (s : Sys) (i : Nat) : Sys :=
  let th := s.threads i
  match th.todo with
  | [] => s
  | q :: _ =>
    let set (t : Thread) : Nat → Thread := fun j => if j = i then t else s.threads j
    match th.pc with
    | .start =>
      match dictGet ⟨q.type, q.culture, q.options⟩ s.cache with
      | some m => { s with threads := set (finish th (.model m)) }
      | none =>
        match afterMiss cfg q q.culture s.next with
        | some (k, m) => { s with next := s.next + 1, threads := set { th with pc := .store k m } }
        | none =>
          if q.fb then { s with threads := set { th with pc := .start2 } }
          else { s with threads := set (finish th (.err .valueError)) }
    | .store k m => { s with cache := dictSet k m s.cache, threads := set (finish th (.model m)) }
    | .start2 =>
      match dictGet ⟨q.type, some cfg.fallback, q.options⟩ s.cache with
      | some m => { s with threads := set (finish th (.model m)) }
      | none =>
        match afterMiss cfg q (some cfg.fallback) s.next with
        | some (k, m) => { s with next := s.next + 1, threads := set { th with pc := .store k m } }
        | none => { s with threads := set (finish th (.err .valueError)) }

/-- a schedule: which thread moves next -/
def runSched (cfg : Cfg) : Sys → List Nat → Sys
  | s, [] => s
  | s, i :: rest => runSched cfg (sysStep cfg s i) rest

/-- threads at the start of their request lists -/
def Sys.start (cache : List (Key × Obj)) (next : Nat) (reqs : Nat → List Req) : Sys :=
  ⟨cache, next, fun i => ⟨reqs i, .start, []⟩⟩

/-- the answer a request gets alone on an empty cache (object identity erased) -/
def coldReq (cfg : Cfg) (q : Req) : Except Err ModelId := route cfg q.kind q.type q.culture q.fb q.options

end RTV.Conc
