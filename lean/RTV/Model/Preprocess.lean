import RTV.Model.Py
/-!
`Preprocess` — mirrors `QueryProcessor.preprocess`, `to_lower_term_sensitive`, `apply_reverse`
(/repo/Python/libraries/recognizers-text/recognizers_text/utilities.py) and defines the specification side
of C01: the documented length-preserving normalisation `norm` and the predicate `spanOK`.

The lower-casing function is a parameter `lowerC : Nat → Str` (what `str.lower()` does to one code point):
* the **current code** calls `str.lower()` on the whole string — per code point that is the full Unicode case
  mapping, which for U+0130 yields two code points (`RTV.Gen.lowerExpanding`); model variant `lowerFull`;
* the **repaired** variant lowers per character and keeps a code point whose lower-casing is not a single code
  point (`lowerKeep`).
(`str.lower()`'s only context rule, final sigma, maps Σ to ς instead of σ — one code point either way; the
correspondence identifies σ/ς, as the property's normalisation does.)
-/
namespace RTV.Preprocess
open RTV.Py

/-- `s.replace(a, b)` for non-empty `a`: leftmost, non-overlapping occurrences. -/
def replaceGo (a b : Str) : Nat → Str → Str
  | 0, s => s
  | _, [] => []
  | fuel + 1, c :: r =>
    if startsWith (c :: r) a then b ++ replaceGo a b fuel ((c :: r).drop a.length)
    else c :: replaceGo a b fuel r

/-- Python `str.replace` (for `a = ''` Python inserts `b` around every character). -/
def replace (s a b : Str) : Str :=
  if a.isEmpty then b ++ s.flatMap (fun c => c :: b) else replaceGo a b (s.length + 1) s

/-- the `if recode:` block. -/
def recode (pairs : List (Str × Str)) (s : Str) : Str := pairs.foldl (fun r p => replace r p.1 p.2) s

/-- lower-casing one code point at a time. -/
def lowerWith (lowerC : Nat → Str) (s : Str) : Str := s.flatMap lowerC

/-- table lookup (sorted array of pairs; fuel = size + 1). -/
def lookupArr (t : Array (Nat × Nat)) (c : Nat) : Option Nat :=
  let rec go (fuel lo hi : Nat) : Option Nat :=
    match fuel with
    | 0 => none
    | fuel + 1 =>
      if lo ≥ hi then none
      else
        let mid := (lo + hi) / 2
        let (a, b) := t[mid]!
        if c < a then go fuel lo mid else if c > a then go fuel (mid + 1) hi else some b
  go (t.size + 1) 0 t.size

/-- single-code-point lower-casing through the table; unchanged when not listed. -/
def lowerSimple (pairs : Array (Nat × Nat)) (c : Nat) : Nat := (lookupArr pairs c).getD c

/-- repaired variant: never changes the number of code points. -/
def lowerKeep (pairs : Array (Nat × Nat)) (c : Nat) : Str := [lowerSimple pairs c]

/-- current code: the expanding code points expand. -/
def lowerFull (pairs : Array (Nat × Nat)) (expanding : List (Nat × Str)) (c : Nat) : Str :=
  match expanding.lookup c with
  | some l => l
  | none => [lowerSimple pairs c]

/-- `apply_reverse(idx, string_chars, value)`: `string_chars[idx + i] = value[i]`; `none` = IndexError. -/
def applyReverse (chars : Str) (idx : Nat) : Str → Option Str
  | [] => some chars
  | v :: rest => if idx < chars.length then applyReverse (chars.set idx v) (idx + 1) rest else none

/-- `to_lower_term_sensitive`: lower everything, then write the original characters back at the matches of
`special_tokens_regex` on the **un-lowered** input (`ms` = `(match.start(), match.end())`). -/
def toLowerTermSensitive (lowerC : Nat → Str) (s : Str) (ms : List (Nat × Nat)) : Option Str :=
  ms.foldl (fun acc m => acc.bind fun chars => applyReverse chars m.1 ((s.drop m.1).take (m.2 - m.1)))
    (some (lowerWith lowerC s))

/-- `QueryProcessor.preprocess(source, case_sensitive, recode=True)`; `ms` = special-token matches on the
recoded string (only read when `caseSensitive`). -/
def preprocess (pairs : List (Str × Str)) (lowerC : Nat → Str) (caseSensitive : Bool)
    (ms : List (Nat × Nat)) (q : Str) : Option Str :=
  let r := recode pairs q
  if !caseSensitive then some (lowerWith lowerC r) else toLowerTermSensitive lowerC r ms

/-! ## Specification side (C01) -/

/-- the documented normalisation of one code point: listed full-width form → ASCII, Unicode *simple*
lower-casing (for a code point whose full lower-casing expands: its first code point, U+0130 ↦ `i`),
final sigma identified with sigma. -/
def normChar (recodes : List (Str × Str)) (pairs : Array (Nat × Nat)) (expanding : List (Nat × Str)) (c : Nat) : Nat :=
  let c := match recodes.lookup [c] with
    | some [b] => b
    | _ => c
  let l := match expanding.lookup c with
    | some (x :: _) => x
    | _ => lowerSimple pairs c
  if l == 962 then 963 else l

def norm (recodes : List (Str × Str)) (pairs : Array (Nat × Nat)) (expanding : List (Nat × Str)) (s : Str) : Str :=
  s.map (normChar recodes pairs expanding)

/-- C01: `0 ≤ start ≤ end < |q|` and the text is the normalised slice `q[start..end]` up to blanks at the ends
(`nrm` = `norm` with the tables, `sp` = `str.isspace`). -/
def spanOK (nrm : Str → Str) (sp : Nat → Bool) (q : Str) (start stop : Int) (text : Str) : Bool :=
  decide (0 ≤ start) && decide (start ≤ stop) && decide (stop < q.length) &&
    (strip sp (nrm (sliceI q start (stop + 1))) == strip sp (nrm text))

end RTV.Preprocess
