import RTV.Model.Seq
/-
`Url` — mirrors `BaseURLExtractor` (recognizers_sequence/sequence/extractors.py): the three regexes
`[ip_url_regex, url_regex, UrlRegex2]`, `_is_valid_match` (named groups `IPurl` / `Tld`, the TLD list through
`StringMatcher` with the `SimpleTokenizer`, the ambiguous-time-term rejection), then `SequenceExtractor.extract`.
Regexes, group numbers and the TLD list are parameters (regenerated data in the driver and the theorems).
-/
namespace RTV.Url
open RTV.Py RTV.Re RTV.Match RTV.Seq

structure UrlEnv where
  T : Tables
  K : CharClass
  ipUrl : RE
  url : RE
  url2 : RE
  timeTerm : RE            -- BaseURL.AmbiguousTimeTerm
  gTld : Nat               -- number of the group `Tld` in `url`
  gTld2 : Nat              -- … in `url2`
  tlds : List Str          -- BaseURL.TldList

/-- `tld_matcher.find(tld_string)` and `any(o.start == 0 and o.end == len(tld_string))`; `none` = the matcher raises -/
def tldListed (E : UrlEnv) (tld : Str) : Option Bool :=
  (matcherRun (tokenizeSimple E.K) (E.tlds.map fun t => (t, t)) tld).map fun rs =>
    rs.any fun o => o.start == 0 && o.start + o.len == (tld.length : Int)

/-- `re.match(self.ambiguous_time_term.re, match.group(0)) is not None` -/
def ambiguousTime (E : UrlEnv) (text : Str) : Bool := !(ends E.T text.toArray E.timeTerm 0).isEmpty

/-- `RegExpUtility.get_group(match, 'Tld')`: the text of the group, `''` when it did not take part -/
def capText (s : Str) (c : Cap) : Str :=
  match c with
  | some (a, b) => sliceI s a b
  | none => []

/-- `_is_valid_match` for a match of `url` / `url2` (no group `IPurl`): `(start, end, capture of Tld)` -/
def validTld (E : UrlEnv) (s : Str) (m : Nat × Nat × Cap) : Option Bool :=
  (tldListed E (capText s m.2.2)).map fun listed =>
    if ambiguousTime E (sliceI s m.1 m.2.1) then false else listed

/-- `_is_valid_match` for a match of `ip_url_regex` (the whole pattern is the group `IPurl`, never empty) -/
def validIp (E : UrlEnv) (s : Str) (m : Nat × Nat) : Bool := !(ambiguousTime E (sliceI s m.1 m.2))

def filterM? {α : Type} (p : α → Option Bool) : List α → Option (List α)
  | [] => some []
  | x :: xs => do
    let b ← p x
    let r ← filterM? p xs
    pure (if b then x :: r else r)

/-- the valid matches, in the order the code stores them in `match_source` -/
def validMatches (E : UrlEnv) (s : Str) : Option (List Span) := do
  let a := (findAll E.T s.toArray E.ipUrl).filter (validIp E s)
  let b ← filterM? (validTld E s) (findAllCap E.T s.toArray E.gTld E.url)
  let c ← filterM? (validTld E s) (findAllCap E.T s.toArray E.gTld2 E.url2)
  pure (tagged "Url" a ++ tagged "Url" (b.map fun m => (m.1, m.2.1)) ++
    tagged "Url" (c.map fun m => (m.1, m.2.1)))

/-- `BaseURLExtractor.extract`; `none` = an exception escapes (swallowed by the model's `parse`). Note that the
marking loop marks only the valid matches. -/
def urlExtract (E : UrlEnv) (s : Str) : Option (List ER) :=
  (validMatches E s).map fun ms => seqSweep E.K s ms

end RTV.Url
