import RTV.Model.Py
/-!
L7 `Timex` (part 1) — the shape of the `TimexRegex` patterns and the matcher that runs them.

Every pattern of `datatypes_timex_expression/timex_regex.py` is `^ item* $` where an item is a literal
character, a named group of exactly `n` `\d`, a named group that is an alternation of literal strings, or the
amount group `(?P<amount>\d*\.?\d+)`.  The translator `harness/translate/timexregex.py` parses the pattern texts
of the working tree (`re._parser`) into `List Item` (`RTV/Gen/TimexRegex.lean`) and refuses anything that is not
of this shape; the model runs *those* lists, so an edit of a pattern is followed by the model and breaks the
`decide` fact that the theorems rest on (`RTV.Timex.genCfg_ok`).

Python semantics mirrored here:
* `\d` in a `str` pattern matches every code point of category Nd (680 code points in Unicode 15), and `int()` /
  `Decimal()` accept them: the digit-value function `dv` is a parameter (table regenerated from the interpreter);
* `$` matches at the very end **and before a trailing newline** (`re.match(r'^\d\d\d\d$', '2020\n')` matches);
* `re.match` + `groupdict()` lists the named groups in group order.
Import-free apart from `RTV.Model.Py`.
-/
namespace RTV.Timex
open RTV.Py

/-- the names of the groups used by `TimexRegex` (keys of the `extracted` dict) -/
inductive Fld
  | year | month | dayOfMonth | dayOfWeek | season | weekOfYear | weekend | weekOfMonth
  | hour | minute | second | partOfDay | amount | dateUnit | timeUnit
deriving DecidableEq, Repr, Inhabited

inductive Item
  | lit (c : Nat)
  | digits (f : Fld) (n : Nat)
  | alts (f : Fld) (opts : List Str)
  | amount
deriving DecidableEq, Repr, Inhabited

abbrev Caps := List (Fld × Str)

/-- digit value of a code point from the list of the zero digits of the Nd blocks (each block is ten
consecutive code points 0‥9; checked by the translator). -/
def digitVal (zeros : List Nat) (c : Nat) : Option Nat :=
  match zeros.find? (fun z => z ≤ c && c ≤ z + 9) with
  | some z => some (c - z)
  | none => none

def isDig (dv : Nat → Option Nat) (c : Nat) : Bool := (dv c).isSome

def takeDigits (dv : Nat → Option Nat) : Str → Str
  | [] => []
  | c :: r => if isDig dv c then c :: takeDigits dv r else []

/-- `(?P<amount>\d*\.?\d+)` at the head of `s`, when what follows the group in the pattern starts with a
character that is neither a digit nor `.` (true for both period patterns; the translator checks it): the
captured text is then determined — the longest digit run, and if a `.` follows, the `.` and the longest digit
run after it, which must be non-empty; without `.` the first run must be non-empty. -/
def matchAmount (dv : Nat → Option Nat) (s : Str) : Option (Str × Str) :=
  let a := takeDigits dv s
  let s1 := s.drop a.length
  match s1 with
  | 46 :: s2 =>
    let b := takeDigits dv s2
    if b.isEmpty then none else some (a ++ 46 :: b, s2.drop b.length)
  | _ => if a.isEmpty then none else some (a, s1)

def firstSome {α β : Type} (f : α → Option β) : List α → Option β
  | [] => none
  | a :: r => match f a with
    | some b => some b
    | none => firstSome f r

/-- `re.match('^' items '$', s)`: the captures in group order, `none` = no match. -/
def matchItems (dv : Nat → Option Nat) : List Item → Str → Caps → Option Caps
  | [], rest, acc => if rest = [] ∨ rest = [10] then some acc.reverse else none
  | .lit c :: is, s, acc =>
    match s with
    | x :: rest => if x = c then matchItems dv is rest acc else none
    | [] => none
  | .digits f n :: is, s, acc =>
    let d := s.take n
    if d.length = n ∧ d.all (isDig dv) then matchItems dv is (s.drop n) ((f, d) :: acc) else none
  | .alts f opts :: is, s, acc =>
    firstSome (fun o => if startsWith s o then matchItems dv is (s.drop o.length) ((f, o) :: acc) else none) opts
  | .amount :: is, s, acc =>
    match matchAmount dv s with
    | some (a, rest) => matchItems dv is rest ((.amount, a) :: acc)
    | none => none

/-- `TimexRegex.extract(name, timex, result)`: the first pattern that matches contributes its `groupdict()`.
The model returns the captures (`[]` when nothing matched — `result` is left unchanged). -/
def extract (dv : Nat → Option Nat) (pats : List (List Item)) (s : Str) : Caps :=
  (firstSome (fun p => matchItems dv p s []) pats).getD []

/-- `result[k] = v` for each capture: a Python dict keeps the position of a key that is already present. -/
def dictSet (d : Caps) (k : Fld) (v : Str) : Caps :=
  if d.any (fun p => p.1 == k) then d.map (fun p => if p.1 == k then (k, v) else p) else d ++ [(k, v)]

def dictMerge (d : Caps) (new : Caps) : Caps := new.foldl (fun acc p => dictSet acc p.1 p.2) d

def dictGet (d : Caps) (k : Fld) : Option Str :=
  match d.find? (fun p => p.1 == k) with
  | some p => some p.2
  | none => none

/-- The configuration the package is run with: the digit table, the three pattern lists, and the constants of
`TimexCreator` / `Constants.DAYS` that the resolvers read (all regenerated from the working tree). -/
structure Cfg where
  dv : Nat → Option Nat
  date : List (List Item)
  time : List (List Item)
  period : List (List Item)
  /-- `TimexCreator.DAYTIME`, `MORNING`, `AFTERNOON`, `EVENING`, `NIGHT` -/
  daytime : Str
  morning : Str
  afternoon : Str
  evening : Str
  night : Str
  /-- `Constants.DAYS['MONDAY']`, `Constants.DAYS['SUNDAY']` -/
  monday : Int
  sunday : Int

end RTV.Timex
