import RTV.Model.Py
import RTV.Model.Cal
/-!
L6 `DtRes` (part 1) — how a date / time / datetime entity of `recognizers_date_time` gets its TIMEX and value(s).
Import-free apart from `RTV.Model.Py` / `RTV.Model.Cal`. Used by C06 and C07.

Mirrors, function by function (Python under `recognizers_date_time/date_time/`):
* `utilities.py`  `DateTimeFormatUtil.luis_date / luis_time / short_time / format_date / format_time /
  format_date_time / to_pm / all_str_to_pm`, `DateUtils.is_valid_date / is_valid_time / safe_create_from_value /
  safe_create_from_min_value / is_leap_year / is_Feb_29th / generate_dates`
* `base_time.py`  `BaseTimeParser.match_to_time` (decision logic over the captured group *values*), the pure
  number-word branch of `parse_basic_regex_match`, the post-processing of `parse`
* `english/time_parser_config.py`  `adjust_by_prefix`, `adjust_by_suffix`
* `base_date.py`  `BaseDateParser.match_to_date`, the post-processing of `parse`
* `base_datetime.py`  `BaseDateTimeParser.merge_date_and_time` (after the two sub-entities are parsed), the
  post-processing of `parse`
* `base_merged.py`  `_date_time_resolution`, `_generate_from_resolution`, `__add_single_date_time_to_resolution`,
  `_resolve_ampm` for the types date / time / datetime with no modifier (`mod = ''`, not lunar).

What is *input* to the model rather than modelled: which regex matched and what its named groups captured
(`TimeGroups`, `DateGroups`), the boolean outcome of the am/pm description regexes on the `desc` group, the outcome of
the English `LessThanOneHour` / `TimeSuffixFull` / `LunchRegex` / `NightRegex` searches, `get_year_from_text` (written
years). Group strings are slices of a text that `parse` already lower-cased, so the `.lower()` calls on them are the
identity (assumption, monitored by the unit correspondence, which feeds real matches).
`int(s)` is modelled on what `\d+` can capture: optional surrounding white space and Unicode decimal digits;
signs / underscores (which no group of these regexes can contain) are answered `ValueError`.

NOTE (agent-dtres): `generateDates`, `safeCreateFromValue`, `isValidDate` duplicate what `RTV/Model/DateUtils.lean`
(agent-cal) provides for C08/C09; that file did not exist when this one was written. They are kept here under
`RTV.DtRes` so that this layer builds on its own; the datetime here is the six-field `DT` compared as CPython
compares (`_cmp` on the field tuple).
-/
namespace RTV.DtRes
open RTV.Py RTV.Cal

/-! ## Python values -/

/-- Facts about the running interpreter's Unicode database (parameters in theorems; `RTV/Gen` tables in the driver). -/
structure Uni where
  isSpace : Nat → Bool
  /-- `str.isnumeric` of one character -/
  isNumericCh : Nat → Bool
  /-- decimal value of a `\d` / `int()` digit -/
  digitVal : Nat → Option Nat
  /-- Variant switch carried here because every user of `to_pm` takes a `Uni`: `false` = `DateTimeFormatUtil.to_pm` as
  found (`hour + 12`, so 17 becomes 29 — finding `timerange-pm-overflow`), `true` = `(hour + 12) % 24`. -/
  pmWraps : Bool := false

/-- `not s.strip()` -/
def blank (u : Uni) (s : Str) : Bool := (strip u.isSpace s).isEmpty

/-- `s.isnumeric()` (non-empty, every character numeric) -/
def isNumericStr (u : Uni) (s : Str) : Bool := !s.isEmpty && s.all u.isNumericCh

def digitsVal (u : Uni) : Str → Nat → Option Nat
  | [], acc => some acc
  | c :: r, acc => match u.digitVal c with
    | some d => digitsVal u r (acc * 10 + d)
    | none => none

/-- `int(s)` on what a `\d+` group can hold (see the header); `none` = ValueError. -/
def pyInt (u : Uni) (s : Str) : Option Nat :=
  let t := strip u.isSpace s
  if t.isEmpty then none else digitsVal u t 0

def decAux : Nat → Nat → Str → Str
  | 0, _, acc => acc
  | fuel + 1, n, acc => if n < 10 then (48 + n) :: acc else decAux fuel (n / 10) ((48 + n % 10) :: acc)

/-- `str(n)` for a natural number -/
def decStr (n : Nat) : Str := decAux (n + 1) n []

/-- `f'{i:0{w}d}'` (the sign counts towards the width) -/
def fmtD (w : Nat) (i : Int) : Str :=
  if i < 0 then 45 :: zfill (w - 1) (decStr i.natAbs) else zfill w (decStr i.toNat)

/-- `s.split(sep)` for a one-character separator -/
def splitOn (sep : Nat) : Str → List Str
  | [] => [[]]
  | c :: r =>
    match splitOn sep r with
    | [] => [[c]]   -- unreachable: splitOn never returns []
    | h :: t => if c = sep then [] :: h :: t else (c :: h) :: t

/-- `sep.join(parts)` -/
def joinWith (sep : Str) : List Str → Str
  | [] => []
  | [a] => a
  | a :: b :: r => a ++ sep ++ joinWith sep (b :: r)

def lookup (tbl : List (Str × Nat)) (k : Str) : Option Nat := (tbl.find? (fun p => p.1 == k)).map (·.2)

/-- a `datetime` (no microseconds, no tzinfo) -/
structure DT where
  y : Nat
  m : Nat
  d : Nat
  hh : Nat
  mi : Nat
  ss : Nat
deriving DecidableEq, Repr, Inhabited

def DT.date (x : DT) : Date := ⟨x.y, x.m, x.d⟩

/-- `a < b` on datetimes: CPython compares the field tuples. -/
def DT.lt (a b : DT) : Bool :=
  if a.y ≠ b.y then a.y < b.y else if a.m ≠ b.m then a.m < b.m else if a.d ≠ b.d then a.d < b.d
  else if a.hh ≠ b.hh then a.hh < b.hh else if a.mi ≠ b.mi then a.mi < b.mi else a.ss < b.ss

/-- `DateUtils.min_value = datetime(1, 1, 1)` -/
def minValue : DT := ⟨1, 1, 1, 0, 0, 0⟩

/-- `datetime(y, mo, d, h, mi, s)`; `none` = ValueError. -/
def mkDateTime (y mo d h mi s : Int) : Option DT :=
  if 1 ≤ y ∧ y ≤ 9999 ∧ 1 ≤ mo ∧ mo ≤ 12 ∧ 1 ≤ d ∧ d ≤ (daysInMonth y.toNat mo.toNat : Int) ∧
     0 ≤ h ∧ h ≤ 23 ∧ 0 ≤ mi ∧ mi ≤ 59 ∧ 0 ≤ s ∧ s ≤ 59 then
    some ⟨y.toNat, mo.toNat, d.toNat, h.toNat, mi.toNat, s.toNat⟩
  else none

/-! ## `DateTimeFormatUtil` -/

def sDash : Str := [45]
def sColon : Str := [58]
def sX4 : Str := [88, 88, 88, 88]
def sX2 : Str := [88, 88]

/-- `luis_date(year, month, day)` -/
def luisDate (year month day : Int) : Str :=
  if year = -1 then
    if month = -1 then sX4 ++ sDash ++ sX2 ++ sDash ++ fmtD 2 day
    else sX4 ++ sDash ++ fmtD 2 month ++ sDash ++ fmtD 2 day
  else fmtD 4 year ++ sDash ++ fmtD 2 month ++ sDash ++ fmtD 2 day

/-- `luis_time(hour, minute, second)`; `none` = the default `Constants.INVALID_SECOND`. -/
def luisTime (hour minute : Int) (second : Option Int) : Str :=
  match second with
  | none => fmtD 2 hour ++ sColon ++ fmtD 2 minute
  | some s => fmtD 2 hour ++ sColon ++ fmtD 2 minute ++ sColon ++ fmtD 2 s

/-- `short_time(hour, minute, second)`; `none` = `INVALID_MINUTE` / `INVALID_SECOND`. An absent minute with a
present second is formatted with the INVALID constant's digits, as the code does. -/
def shortTime (invalidMinute : Int) (hour : Int) (minute second : Option Int) : Str :=
  match minute, second with
  | none, none => 84 :: fmtD 2 hour
  | _, _ => 84 :: luisTime hour (minute.getD invalidMinute) second

/-- `format_date(datetime)` -/
def formatDate (x : DT) : Str := fmtD 4 x.y ++ sDash ++ fmtD 2 x.m ++ sDash ++ fmtD 2 x.d
/-- `format_time(datetime)` -/
def formatTime (x : DT) : Str := fmtD 2 x.hh ++ sColon ++ fmtD 2 x.mi ++ sColon ++ fmtD 2 x.ss
/-- `format_date_time(datetime)` -/
def formatDateTime (x : DT) : Str := formatDate x ++ [32] ++ formatTime x

/-- `to_pm(source)`; `none` = ValueError from `int`. -/
def toPm (u : Uni) (source : Str) : Option Str :=
  let (result, source) := if startsWith source [84] then ([84], source.drop 1) else ([], source)
  match splitOn 58 source with
  | [] => none
  | h :: t =>
    match pyInt u h with
    | none => none
    | some hour =>
      let hour := if hour = 12 then 0 else if u.pmWraps then (hour + 12) % 24 else hour + 12
      some (result ++ joinWith sColon (fmtD 2 hour :: t))

/-- `regex.finditer(r'(?<!P)T\d{2}', s)`: leftmost non-overlapping matches as (start, end). -/
def hourTimeMatches (u : Uni) (s : Str) : List (Nat × Nat) :=
  let rec go (fuel : Nat) (prev : Option Nat) (i : Nat) (s : Str) : List (Nat × Nat) :=
    match fuel with
    | 0 => []
    | fuel + 1 =>
      match s with
      | [] => []
      | c :: r =>
        match r with
        | d1 :: d2 :: r2 =>
          if c = 84 ∧ prev ≠ some 80 ∧ (u.digitVal d1).isSome ∧ (u.digitVal d2).isSome then
            (i, i + 3) :: go fuel (some d2) (i + 3) r2
          else go fuel (some c) (i + 1) r
        | _ => go fuel (some c) (i + 1) r
  go (s.length + 1) none 0 s

def slice (s : Str) (a b : Nat) : Str := (s.drop a).take (b - a)

/-- the pieces `all_str_to_pm` cuts the string into (quirk kept: with no match at all the tail test
`if source[:last_position]` is false and the result is empty). -/
def pmPieces (s : Str) : List (Nat × Nat) → Nat → List Str
  | [], last => if (s.take last).isEmpty then [] else [s.drop last]
  | (a, b) :: r, last => (if last ≠ a then [slice s last a] else []) ++ [slice s a b] ++ pmPieces s r b

/-- `all_str_to_pm(source)` -/
def allStrToPm (u : Uni) (source : Str) : Option Str :=
  let pieces := pmPieces source (hourTimeMatches u source) 0
  pieces.foldr (fun p acc =>
    match acc with
    | none => none
    | some rest =>
      if (hourTimeMatches u p).isEmpty then some (p ++ rest)
      else match toPm u p with
        | none => none
        | some q => some (q ++ rest)) (some [])

/-! ## `DateUtils` (see the NOTE in the header) -/

/-- `is_valid_date(year, month, day)`: `datetime(year, month, day)` does not raise. -/
def isValidDate (y m d : Int) : Bool := (mkDateTime y m d 0 0 0).isSome

/-- `is_valid_time(hour, minute, second)` — the code does not bound `second` from above. -/
def isValidTime (h mi s : Int) : Bool := 0 ≤ h && h < 24 && 0 ≤ mi && mi < 60 && s ≥ 0 && mi < 60

/-- `safe_create_from_value(seed, …)`; `none` = ValueError (second ≥ 60 passes `is_valid_time`). -/
def safeCreateFromValue (seed : DT) (y m d h mi s : Int) : Option DT :=
  if isValidDate y m d && isValidTime h mi s then mkDateTime y m d h mi s else some seed

def safeCreateFromMinValue (y m d : Int) (h mi s : Int := 0) : Option DT := safeCreateFromValue minValue y m d h mi s

/-- `is_leap_year(year)` as written: `(y % 4 == 0) and (y % 100 != 0) or (y % 400 == 0)` (Python `%`: floor). -/
def isLeapYear (y : Int) : Bool := (y.fmod 4 == 0 && y.fmod 100 != 0) || y.fmod 400 == 0

/-- `generate_dates(no_year, reference, year, month, day)` → (future_date, past_date). With time (0,0,0) the
constructor never raises, so the result is total (`safeCreateFromMinValue … |>.getD minValue` is exact). -/
def generateDates (noYear : Bool) (ref : DT) (year month day : Int) : DT × DT :=
  let mk (y : Int) : DT := (safeCreateFromMinValue y month day).getD minValue
  let futureDate := mk year
  let pastDate := mk year
  if noYear then
    if month = 2 ∧ day = 29 then
      if isLeapYear year then
        if futureDate.lt ref then (mk (year + 4), pastDate) else (futureDate, mk (year - 4))
      else
        -- `past_year >> 2 << 2`: floor to a multiple of 4
        let pastYear := year.fdiv 4 * 4
        let pastYear := if !isLeapYear pastYear then pastYear - 4 else pastYear
        let futureYear := pastYear + 4
        let futureYear := if !isLeapYear futureYear then futureYear + 4 else futureYear
        (mk futureYear, mk pastYear)
    else
      let futureDate := if futureDate.lt ref && isValidDate year month day then mk (year + 1) else futureDate
      let pastDate := if !(pastDate.lt ref) && isValidDate year month day then mk (year - 1) else pastDate
      (futureDate, pastDate)
  else (futureDate, pastDate)

/-! ## `DateTimeResolutionResult` and the parsers' `parse` post-processing -/

/-- The fields of `DateTimeResolutionResult` used on these paths. -/
structure Res where
  success : Bool := false
  timex : Str := []
  comment : Str := []
  future : DT := minValue
  past : DT := minValue
deriving DecidableEq, Repr, Inhabited

def sAmPm : Str := [97, 109, 112, 109]   -- Constants.AM_PM_GROUP_NAME = 'ampm'

/-! ## `BaseTimeParser.match_to_time` -/

/-- Values of the named groups `match_to_time` reads (`''` when the group is absent or did not take part), plus
the outcome of the three description regexes on the lower-cased `desc` group. -/
structure TimeGroups where
  writtenTime : Str := []
  hourNum : Str := []
  minNum : Str := []
  tens : Str := []
  mid : Str := []
  midNight : Str := []
  midMorning : Str := []
  midAfternoon : Str := []
  midDay : Str := []
  hour : Str := []
  min : Str := []
  sec : Str := []
  /-- `regex.search(am_desc_regex, desc)` is a match -/
  amDesc : Bool := false
  /-- `regex.search(am_pm_desc_regex, desc)` is a match -/
  amPmDesc : Bool := false
  /-- `regex.search(pm_desc__regex, desc)` is a match -/
  pmDesc : Bool := false
  implAm : Str := []
  implPm : Str := []
  pfx : Str := []
  sfx : Str := []
deriving Repr, Inhabited

/-- `AdjustParams` -/
structure Adjust where
  hour : Int
  minute : Int
  hasMinute : Bool
  hasAm : Bool := false
  hasPm : Bool := false
deriving DecidableEq, Repr, Inhabited

/-- The parts of `TimeParserConfiguration` that `match_to_time` calls. Errors: `"KeyError"`, `"ValueError"`, `"Other"`. -/
structure TimeCfg where
  numbers : List (Str × Nat)
  /-- Variant switch (DESIGN 2.5). `true` = the code as found: `if not hour: return result`, which treats hour `0`
  like a missing hour (defect `hour0-unresolved`); `false` = the repaired test `if hour is None`. The
  correspondence check determines which variant the working tree follows. -/
  zeroHourIsNone : Bool := true
  adjustByPrefix : Str → Adjust → Except String Adjust
  adjustBySuffix : Str → Adjust → Except String Adjust

def getNum (cfg : TimeCfg) (k : Str) : Except String Int :=
  match lookup cfg.numbers k with
  | some v => .ok v
  | none => .error "KeyError"

def intOf (u : Uni) (s : Str) : Except String Int :=
  match pyInt u s with
  | some v => .ok v
  | none => .error "ValueError"

/-- hour / minute / second and the flags after the group-decoding part of `match_to_time`. -/
structure Fields where
  hour : Int := 0
  minute : Int := 0
  second : Int := 0
  hasMinute : Bool := false
  hasSeconds : Bool := false
  hasMid : Bool := false
deriving DecidableEq, Repr, Inhabited

/-- Decoding of the groups; `none` = the early `return result` (unsuccessful result). -/
def decodeFields (u : Uni) (cfg : TimeCfg) (g : TimeGroups) : Except String (Option Fields) := do
  if !blank u g.writtenTime then
    let hour ← getNum cfg g.hourNum
    if !blank u g.minNum then
      let minute ← getNum cfg g.minNum
      let minute ← (if !blank u g.tens then do pure (minute + (← getNum cfg g.tens)) else pure minute)
      return some { hour := hour, minute := minute, hasMinute := true }
    else return some { hour := hour }
  else if !blank u g.mid then
    let hour : Int :=
      if !blank u g.midNight then 0 else if !blank u g.midMorning then 10
      else if !blank u g.midAfternoon then 14 else if !blank u g.midDay then 12 else 0
    return some { hour := hour, hasMid := true }
  else
    -- hour
    let hour? : Except String (Option Int) :=
      if blank u g.hour then
        match lookup cfg.numbers g.hourNum with
        | none => .ok none
        | some v => .ok (some (v : Int))
      else do
        let h : Option Int ← (if isNumericStr u g.hour then do pure (some (← intOf u g.hour))
                             else pure ((lookup cfg.numbers g.hour).map Int.ofNat))
        -- `if not hour: return result` — `None` and `0` are both falsy (repaired variant: `if hour is None`)
        match h with
        | none => pure none
        | some v => if cfg.zeroHourIsNone && v == 0 then pure none else pure (some v)
    match (← hour?) with
    | none => return none
    | some hour =>
      -- minute
      let (minute, hasMinute) ← (
        if blank u g.min then do
          let (minute, hasMinute) ← (if !blank u g.minNum then do pure ((← getNum cfg g.minNum), true)
                                     else pure ((0 : Int), false))
          if !blank u g.tens then do pure (minute + (← getNum cfg g.tens), true) else pure (minute, hasMinute)
        else do pure ((← intOf u g.min), true))
      -- second
      let (second, hasSeconds) ← (if !blank u g.sec then do pure ((← intOf u g.sec), true) else pure ((0 : Int), false))
      return some { hour := hour, minute := minute, second := second, hasMinute := hasMinute, hasSeconds := hasSeconds }

/-- "adjust by desc string": (hour, has_am, has_pm) after the am / pm description and implicit-am/pm groups. -/
def descAdjust (g : TimeGroups) (hour : Int) : Int × Bool × Bool :=
  if g.amDesc || g.amPmDesc || !g.implAm.isEmpty then
    ((if hour ≥ 12 then hour - 12 else hour), !g.amPmDesc, false)
  else if g.pmDesc || !g.implPm.isEmpty then
    ((if hour < 12 then hour + 12 else hour), false, true)
  else (hour, false, false)

/-- The tail of `match_to_time`: hour 24 → 0, TIMEX assembly, the `ampm` comment, the value. -/
def assembleTime (ref : DT) (hour minute second : Int) (hasMinute hasSeconds hasAm hasPm hasMid : Bool) :
    Except String Res :=
  let hour := if hour = 24 then 0 else hour
  let timex := 84 :: fmtD 2 hour
  let timex := if hasMinute then timex ++ sColon ++ fmtD 2 minute else timex
  let timex := if hasSeconds then timex ++ sColon ++ fmtD 2 second else timex
  let comment := if 0 < hour ∧ hour ≤ 12 ∧ !hasPm ∧ !hasAm ∧ !hasMid then sAmPm else []
  match mkDateTime ref.y ref.m ref.d hour minute second with
  | none => .error "ValueError"
  | some v => .ok { success := true, timex := timex, comment := comment, future := v, past := v }

/-- `match_to_time(match, reference)` on the group values. -/
def matchToTime (u : Uni) (cfg : TimeCfg) (g : TimeGroups) (ref : DT) : Except String Res := do
  match (← decodeFields u cfg g) with
  | none => return {}
  | some f =>
    -- adjust by desc string
    let (hour, hasAm, hasPm) := descAdjust g f.hour
    -- adjust min by prefix
    let (hour, minute, hasMinute) ← (
      if !blank u g.pfx then do
        let a ← cfg.adjustByPrefix g.pfx { hour := hour, minute := f.minute, hasMinute := f.hasMinute }
        pure (a.hour, a.minute, a.hasMinute)
      else pure (hour, f.minute, f.hasMinute))
    -- adjust min by suffix
    let a ← (
      if !blank u g.sfx then
        cfg.adjustBySuffix g.sfx { hour := hour, minute := minute, hasMinute := hasMinute, hasAm := hasAm, hasPm := hasPm }
      else pure { hour := hour, minute := minute, hasMinute := hasMinute, hasAm := hasAm, hasPm := hasPm })
    assembleTime ref a.hour a.minute f.second a.hasMinute f.hasSeconds a.hasAm a.hasPm f.hasMid

/-- The pure number-word branch of `BaseTimeParser.parse_basic_regex_match` (`numbers.get(source, -1)` with
`0 <= hour <= 24`); `none` = the branch is not taken. -/
def wordHourToTime (cfg : TimeCfg) (source : Str) (ref : DT) : Option Res :=
  match lookup cfg.numbers source with
  | none => none
  | some hour =>
    if hour ≤ 24 then
      let hour := if hour = 24 then 0 else hour
      let comment := if hour ≤ 12 ∧ hour ≠ 0 then sAmPm else []
      let v := (safeCreateFromMinValue ref.y ref.m ref.d hour 0 0).getD minValue
      some { success := true, timex := 84 :: fmtD 2 hour, comment := comment, future := v, past := v }
    else none

/-! ### `adjust_by_prefix` / `adjust_by_suffix` of the culture configurations

All eight `*TimeParserConfiguration.adjust_by_prefix` have one shape: a chain of fixed-phrase tests giving a delta,
else the `LessThanOneHour` regex (guarded by `if match:` or not; `numbers[...]` or `numbers.get(...)`), then a sign /
half-hour rule, then the carry into the hour. The phrases are string literals *in the code* (not in the resource
files), so the per-culture `PrefixStyle` values below are hand-written and tied by unit correspondence. German and
Dutch test token regexes instead of literals: their outcomes are inputs (`flags`). -/

inductive PTest where
  | starts (s : Str)
  | ends (s : Str)
  | contains (s : Str)
  /-- outcome of the i-th token regex searched in the (untrimmed) prefix -/
  | flag (i : Nat)
deriving Repr

def PTest.eval (p : Str) (flags : List Bool) : PTest → Bool
  | .starts s => startsWith p s
  | .ends s => endsWith p s
  | .contains s => (findFrom p s 0).isSome
  | .flag i => flags.getD i false

inductive PostOp where
  | keep        -- `pass`
  | neg         -- `delta_min * -1`
  | subHalf     -- `delta_min - 30`
  | negSubHalf  -- `-delta_min - 30`
deriving Repr, DecidableEq

structure PrefixStyle where
  /-- `if … elif …` chain of phrase tests (a disjunction each) with the delta they assign -/
  fixed : List (List PTest × Int)
  /-- the regex branch is guarded by `if match:` (no match leaves delta 0) -/
  guarded : Bool
  /-- `numbers.get(min_str)` (a miss gives `None`, a TypeError follows) rather than `numbers[min_str]` (KeyError) -/
  numbersGet : Bool
  /-- `if … elif …` chain applied afterwards; first hit wins -/
  post : List (List PTest × PostOp)
deriving Repr

def firstHit (p : Str) (flags : List Bool) : List (List PTest × α) → Option α
  | [] => none
  | (ts, v) :: r => if ts.any (PTest.eval p flags) then some v else firstHit p flags r

/-- `adjust_by_prefix(prefix, adjust)`. `ltoh` = groups (`deltamin`, `deltaminnum`) of
`regex.search(less_than_one_hour, prefix.strip())`, `none` when there is no match. Errors: `"Other"` = AttributeError /
TypeError on `None`. -/
def adjustByPrefixG (u : Uni) (numbers : List (Str × Nat)) (st : PrefixStyle) (flags : List Bool)
    (ltoh : Option (Str × Str)) (pfx : Str) (a : Adjust) : Except String Adjust := do
  let p := strip u.isSpace pfx
  let delta : Int ←
    match firstHit p flags st.fixed with
    | some d => pure d
    | none =>
      match ltoh with
      | none => if st.guarded then pure 0 else throw "Other"
      | some (dm, dmn) =>
        if !dm.isEmpty then intOf u dm
        else match lookup numbers dmn with
          | some v => pure (v : Int)
          | none => if st.numbersGet then throw "Other" else throw "KeyError"
  let delta : Int :=
    match firstHit p flags st.post with
    | some .neg => delta * -1
    | some .subHalf => delta - 30
    | some .negSubHalf => -delta - 30
    | _ => delta
  let minute := a.minute + delta
  let (minute, hour) := if minute < 0 then (minute + 60, a.hour - 1) else (minute, a.hour)
  return { a with hour := hour, minute := minute, hasMinute := true }

def enPrefixStyle : PrefixStyle :=
  { fixed := [([.starts [104, 97, 108, 102]], 30), ([.starts [97, 32, 113, 117, 97, 114, 116, 101, 114], .starts [113, 117, 97, 114, 116, 101, 114]], 15), ([.starts [116, 104, 114, 101, 101, 32, 113, 117, 97, 114, 116, 101, 114]], 45)],
    guarded := false, numbersGet := false, post := [([.ends [116, 111]], .neg)] }

def esPrefixStyle : PrefixStyle :=
  { fixed := [([.starts [99, 117, 97, 114, 116, 111], .starts [121, 32, 99, 117, 97, 114, 116, 111]], 15), ([.starts [109, 101, 110, 111, 115, 32, 99, 117, 97, 114, 116, 111]], -15),
              ([.starts [109, 101, 100, 105, 97], .starts [121, 32, 109, 101, 100, 105, 97]], 30), ([.starts [116, 104, 114, 101, 101, 32, 113, 117, 97, 114, 116, 101, 114]], 45)],
    guarded := true, numbersGet := true,
    post := [([.ends [112, 97, 115, 97, 100, 97, 115], .ends [112, 97, 115, 97, 100, 111, 115], .ends [112, 97, 115, 97, 100, 97, 115, 32, 108, 97, 115], .ends [112, 97, 115, 97, 100, 111, 115, 32, 108, 97, 115], .ends [112, 97, 115, 97, 100, 97, 115, 32, 100, 101, 32, 108, 97, 115],
               .ends [112, 97, 115, 97, 100, 111, 115, 32, 100, 101, 32, 108, 97, 115]], .keep),
             ([.ends [112, 97, 114, 97, 32, 108, 97], .ends [112, 97, 114, 97, 32, 108, 97, 115], .ends [97, 110, 116, 101, 115, 32, 100, 101, 32, 108, 97], .ends [97, 110, 116, 101, 115, 32, 100, 101, 32, 108, 97, 115]], .neg)] }

def frPrefixStyle : PrefixStyle :=
  { fixed := [([.ends [100, 101, 109, 105, 101]], 30), ([.ends [117, 110, 32, 113, 117, 97, 114, 116], .ends [113, 117, 97, 114, 116]], 15), ([.ends [116, 114, 111, 105, 115, 32, 113, 117, 97, 114, 116, 115]], 45)],
    guarded := true, numbersGet := true, post := [([.ends [224], .contains [109, 111, 105, 110, 115]], .neg)] }

def ptPrefixStyle : PrefixStyle :=
  { fixed := [([.starts [109, 101, 105, 97], .starts [101, 32, 109, 101, 105, 97]], 30),
              ([.starts [113, 117, 97, 114, 116, 111], .starts [101, 32, 117, 109, 32, 113, 117, 97, 114, 116, 111], .starts [113, 117, 105, 110, 122, 101], .starts [101, 32, 113, 117, 105, 110, 122, 101]], 15),
              ([.starts [109, 101, 110, 111, 115, 32, 117, 109, 32, 113, 117, 97, 114, 116, 111]], -15)],
    guarded := false, numbersGet := false,
    post := [([.ends [112, 97, 114, 97, 32, 97], .ends [112, 97, 114, 97, 32, 97, 115], .ends [112, 114, 97], .ends [112, 114, 97, 115], .ends [97, 110, 116, 101, 115, 32, 100, 97], .ends [97, 110, 116, 101, 115, 32, 100, 97, 115]], .neg)] }

def itPrefixStyle : PrefixStyle :=
  { fixed := [([.ends [109, 101, 122, 122, 97], .ends [109, 101, 122, 122, 111]], 30), ([.ends [117, 110, 32, 113, 117, 97, 114, 116, 111], .ends [113, 117, 97, 114, 116, 111]], 15), ([.ends [116, 114, 101, 32, 113, 117, 97, 114, 116, 105]], 45)],
    guarded := true, numbersGet := true, post := [([.starts [109, 101, 110, 111], .ends [97, 108, 108, 101]], .neg)] }

/-- flags: half, quarter-to, quarter-past, three-quarter-to, three-quarter-past token regexes -/
def dePrefixStyle : PrefixStyle :=
  { fixed := [([.flag 0], -30), ([.flag 1], -15), ([.flag 2], 15), ([.flag 3], -45), ([.flag 4], 45)],
    guarded := true, numbersGet := true, post := [([.starts [122, 117, 109]], .neg)] }

/-- flags: half, quarter, three-quarter token regexes; to-half, for-half, to token regexes -/
def nlPrefixStyle : PrefixStyle :=
  { fixed := [([.flag 0], -30), ([.flag 1], 15), ([.flag 2], 45)],
    guarded := true, numbersGet := true, post := [([.flag 3], .subHalf), ([.flag 4], .negSubHalf), ([.flag 5], .neg)] }

/-- `EnglishTimeParserConfiguration.adjust_by_prefix` -/
def enAdjustByPrefix (u : Uni) (numbers : List (Str × Nat)) (ltoh : Option (Str × Str)) (pfx : Str) (a : Adjust) :
    Except String Adjust := adjustByPrefixG u numbers enPrefixStyle [] ltoh pfx a

/-- Outcome of the regex searches `adjust_by_suffix` performs. -/
structure SuffixInfo where
  /-- the culture's time-suffix regex matches the whole (stripped) suffix -/
  full : Bool := false
  /-- group `oclock` (`heures` in French) -/
  oclock : Str := []
  am : Str := []
  pm : Str := []
  /-- `regex.search(lunch_regex, pm_str)` -/
  lunch : Bool := false
  /-- `regex.search(night_regex, pm_str)` -/
  night : Bool := false
deriving Repr, Inhabited

/-- The four shapes of `adjust_by_suffix` in the tree. -/
structure SuffixStyle where
  /-- Spanish / French: `has_am` / `has_pm` are set whenever the am / pm group is there; no lunch / night rules -/
  simple : Bool
  /-- the lunch rule exists (English, Dutch) -/
  lunch : Bool
  /-- the closing `else: adjust.has_pm = True` of the pm branch exists (Dutch; English / Portuguese / Italian /
  German after the repair of finding `afternoon-12`) -/
  elsePm : Bool
deriving Repr, DecidableEq

/-- `adjust_by_suffix(suffix, adjust)` -/
def adjustBySuffixG (st : SuffixStyle) (si : SuffixInfo) (a : Adjust) : Adjust :=
  let (a, delta) : Adjust × Int :=
    if si.full && si.oclock.isEmpty then
      if st.simple then
        let (a, delta) : Adjust × Int :=
          if !si.am.isEmpty then ({ a with hasAm := true }, (if a.hour ≥ 12 then -12 else 0)) else (a, 0)
        if !si.pm.isEmpty then ({ a with hasPm := true }, (if a.hour < 12 then 12 else delta)) else (a, delta)
      else
        let (a, delta) : Adjust × Int :=
          if !si.am.isEmpty then (if a.hour ≥ 12 then (a, -12) else ({ a with hasAm := true }, 0)) else (a, 0)
        if !si.pm.isEmpty then
          let delta := if a.hour < 12 then 12 else delta
          if st.lunch && si.lunch then
            if 10 ≤ a.hour ∧ a.hour ≤ 12 then
              (if a.hour = 12 then { a with hasPm := true } else { a with hasAm := true }, 0)
            else ({ a with hasPm := true }, delta)
          else if si.night then
            if a.hour ≤ 3 ∨ a.hour = 12 then
              ({ a with hour := (if a.hour = 12 then 0 else a.hour), hasAm := true }, 0)
            else ({ a with hasPm := true }, delta)
          else if st.elsePm then ({ a with hasPm := true }, delta)
          else (a, delta)
        else (a, delta)
    else (a, 0)
  { a with hour := (a.hour + delta) % 24 }

/-- English as found: lunch rule, no closing `else` -/
def enSuffixStyle (repaired : Bool) : SuffixStyle := { simple := false, lunch := true, elsePm := repaired }
/-- Portuguese, Italian, German: night rule only -/
def nightSuffixStyle (repaired : Bool) : SuffixStyle := { simple := false, lunch := false, elsePm := repaired }
def nlSuffixStyle : SuffixStyle := { simple := false, lunch := true, elsePm := true }
def simpleSuffixStyle : SuffixStyle := { simple := true, lunch := false, elsePm := false }

/-- `EnglishTimeParserConfiguration.adjust_by_suffix` (as found) -/
def enAdjustBySuffix (si : SuffixInfo) (a : Adjust) : Adjust := adjustBySuffixG (enSuffixStyle false) si a

/-! ## `BaseDateParser.match_to_date` -/

structure DateGroups where
  year : Str := []
  fullYear : Str := []
  month : Str := []
  day : Str := []
deriving Repr, Inhabited

structure DateCfg where
  monthOfYear : List (Str × Nat)
  dayOfMonth : List (Str × Nat)
  /-- `Constants.MIN_TWO_DIGIT_YEAR_PAST_NUM` -/
  minTwoDigitYearPast : Int
  /-- `Constants.MAX_TWO_DIGIT_YEAR_FUTURE_NUM` -/
  maxTwoDigitYearFuture : Int

/-- the two-digit-year pivot of `match_to_date` -/
def pivotYear (cfg : DateCfg) (year : Int) : Int :=
  if year < 100 ∧ year ≥ cfg.minTwoDigitYearPast then year + 1900
  else if 0 ≤ year ∧ year < cfg.maxTwoDigitYearFuture then year + 2000
  else year

/-- month, day, year after the group decoding of `match_to_date`; `writtenYear` = what
`date_extractor.get_year_from_text(match)` answers (read only when the `fullyear` group is non-empty). -/
def decodeDate (u : Uni) (cfg : DateCfg) (g : DateGroups) (writtenYear : Int) : Except String (Int × Int × Int) :=
  match lookup cfg.monthOfYear g.month, lookup cfg.dayOfMonth g.day with
  | some month, some day =>
    if !g.fullYear.isEmpty then .ok (month, day, writtenYear)
    else if !g.year.isEmpty then
      if isNumericStr u g.year then
        match pyInt u g.year with
        | none => .error "ValueError"
        | some y => .ok (month, day, pivotYear cfg y)
      else .ok (month, day, pivotYear cfg 0)
    else .ok (month, day, 0)
  | _, _ => .ok (0, 0, 0)

/-- `match_to_date(match, reference)` on the group values. -/
def matchToDate (u : Uni) (cfg : DateCfg) (g : DateGroups) (writtenYear : Int) (ref : DT) : Except String Res := do
  let (month, day, year) ← decodeDate u cfg g writtenYear
  let (year, timex, noYear) : Int × Str × Bool :=
    if year = 0 then ((ref.y : Int), luisDate (-1) month day, true) else (year, luisDate year month day, false)
  let (future, past) := generateDates noYear ref year month day
  return { success := true, timex := timex, future := future, past := past }

/-! ## `BaseMergedParser._date_time_resolution` for date / time / datetime, no modifier -/

inductive DType | date | time | datetime
deriving DecidableEq, Repr, Inhabited

def DType.name : DType → Str
  | .date => [100, 97, 116, 101]
  | .time => [116, 105, 109, 101]
  | .datetime => [100, 97, 116, 101, 116, 105, 109, 101]

/-- One entry of `resolution['values']`. -/
structure Value where
  timex : Str
  type : Str
  value : Option Str
deriving DecidableEq, Repr, Inhabited

/-- What a sub-parser's `parse` hands to the merged parser: `timex_str` and `value` (`none` when the inner result
was not successful) with the formatted `future_resolution[...]` / `past_resolution[...]` strings. -/
structure Slot where
  dtype : DType
  timex : Str
  res : Option Res
deriving DecidableEq, Repr, Inhabited

def fmtFor : DType → DT → Str
  | .date => formatDate
  | .time => formatTime
  | .datetime => formatDateTime

/-- `BaseDateParser.parse` / `BaseTimeParser.parse` / `BaseDateTimeParser.parse` after the inner result is known. -/
def toSlot (dtype : DType) (r : Res) : Slot :=
  if r.success then { dtype := dtype, timex := r.timex, res := some r } else { dtype := dtype, timex := [], res := none }

def sDateMin : Str := formatDate minValue      -- self.__date_min_value
def sNotResolved : Str := [110, 111, 116, 32, 114, 101, 115, 111, 108, 118, 101, 100]

/-- `_generate_from_resolution` + `__add_single_date_time_to_resolution` with `mod = ''`: the `'value'` entry or
nothing. -/
def generateFromResolution (s : Str) : Option Str :=
  if s.isEmpty || startsWith s sDateMin then none else some s

/-- `_resolve_ampm`'s PM entry for one resolution dict (`{'value': v}`) of the given type: (timex, value). -/
def resolvePm (u : Uni) (dtype : DType) (timex : Str) (v : Str) : Except String (Str × Option Str) :=
  match dtype with
  | .time =>
    match toPm u v, toPm u timex with
    | some v', some t' => .ok (t', some v')
    | _, _ => .error "ValueError"
  | .datetime =>
    match splitOn 32 v with
    | d :: t :: _ =>
      match toPm u t, allStrToPm u timex with
      | some t', some tx => .ok (tx, some (d ++ [32] ++ t'))
      | _, _ => .error "ValueError"
    | _ => .error "IndexError"
  | .date => .ok (timex, none)   -- no branch of `_resolve_ampm` applies: the PM dict stays empty

/-- `_date_time_resolution(slot, False, False, False)['values']`; `none` = `None` (slot has no value). -/
def dateTimeResolution (u : Uni) (slot : Slot) : Except String (Option (List Value)) :=
  match slot.res with
  | none => .ok none
  | some r =>
    let ty := slot.dtype.name
    let future := generateFromResolution (fmtFor slot.dtype r.future)
    let past := generateFromResolution (fmtFor slot.dtype r.past)
    -- keys of `result` that hold a dict, in insertion order: resolve | resolveToPast, resolveToFuture
    let dicts : List Str :=
      if future = past then (match past with | some p => [p] | none => [])
      else (match past with | some p => [p] | none => []) ++ (match future with | some f => [f] | none => [])
    if dicts.isEmpty then
      .ok (some [{ timex := slot.timex, type := ty, value := some sNotResolved }])
    else if r.comment = sAmPm then
      if slot.timex.isEmpty then
        -- `_add_resolution_fields_any` drops an empty timex, `_resolve_ampm` then returns early
        .ok (some (dicts.map fun v => { timex := slot.timex, type := ty, value := some v }))
      else do
        let vals ← dicts.mapM fun v => do
          let (tx, pv) ← resolvePm u slot.dtype slot.timex v
          pure [{ timex := slot.timex, type := ty, value := some v }, { timex := tx, type := ty, value := pv : Value }]
        pure (some vals.flatten)
    else .ok (some (dicts.map fun v => { timex := slot.timex, type := ty, value := some v }))

/-! ## `BaseDateTimeParser.merge_date_and_time` (after both sub-entities are parsed) -/

/-- `pmTime` / `amTime`: `regex.search(pm_time_regex / am_time_regex, source)` is a match. -/
def mergeDateAndTime (dateSlot timeSlot : Slot) (pmTime amTime : Bool) (shiftOnlyAmbiguous : Bool := false) :
    Except String Res :=
  match dateSlot.res, timeSlot.res with
  | some dr, some tr =>
    let time := tr.future
    -- Variant switch (DESIGN 2.5): `shiftOnlyAmbiguous = false` is the code as found — the "morning / afternoon /
    -- night" word in the text shifts the hour whatever the time parser decided (finding `night-attached-shift`);
    -- `true` = the shift is applied only when the time was left ambiguous (`comment = 'ampm'`).
    let shift := !shiftOnlyAmbiguous || tr.comment == sAmPm
    let hour : Nat :=
      if shift && pmTime && time.hh < 12 then time.hh + 12
      else if shift && amTime && time.hh ≥ 12 then time.hh - 12 else time.hh
    let timeStr := timeSlot.timex
    let timeStr := if endsWith timeStr sAmPm then sliceI timeStr 0 (-4) else timeStr
    let timeStr := 84 :: fmtD 2 hour ++ timeStr.drop 3
    let comment := if hour ≤ 12 ∧ !(pmTime && amTime) ∧ !tr.comment.isEmpty then sAmPm else []
    match mkDateTime dr.future.y dr.future.m dr.future.d hour time.mi time.ss,
          mkDateTime dr.past.y dr.past.m dr.past.d hour time.mi time.ss with
    | some f, some p =>
      .ok { success := true, timex := dateSlot.timex ++ timeStr, comment := comment, future := f, past := p }
    | _, _ => .error "ValueError"
  | _, _ => .ok {}

/-! ## `BaseDateTimeParser.parse_time_of_today` ("tonight at 7", "this morning at 7:30"), end of day, now -/

/-- `EnglishDateTimeParserConfiguration.get_swift_day` -/
def enGetSwiftDay (u : Uni) (s : Str) : Int :=
  let t := strip u.isSpace s
  if startsWith t [110, 101, 120, 116] then 1 else if startsWith t [108, 97, 115, 116] then -1 else 0

/-- `EnglishDateTimeParserConfiguration.get_hour` -/
def enGetHour (u : Uni) (s : Str) (hour : Int) : Int :=
  let t := strip u.isSpace s
  let morning := endsWith t [109, 111, 114, 110, 105, 110, 103]
  if morning && hour ≥ 12 then hour - 12
  else if !morning && hour < 12 && !(endsWith t [110, 105, 103, 104, 116] && hour < 6) then hour + 12
  else hour

/-- the culture hooks `parse_time_of_today` calls -/
structure TodCfg where
  numbers : List (Str × Nat)
  getSwiftDay : Str → Int
  getHour : Str → Int → Int

/-- where the time comes from: the simple "time of today" regexes matched the whole text (`hour` / `hournum` groups;
`hour` may be absent = `none`), or the time extractor + time parser were used (the parser's slot) -/
inductive TodTime where
  | whole (hour : Option Str) (hourNum : Str)
  | parsed (slot : Slot)
  /-- the time extractor found nothing even after the token prefix: `return result` -/
  | nothing

/-- `parse_time_of_today(source, reference)`; `matchStr` = lower-cased first match of `specific_time_of_day_regex`
(`none` = no match). Errors: `"Other"` = TypeError on a `None` hour / OverflowError of the date. -/
def parseTimeOfToday (u : Uni) (cfg : TodCfg) (t : TodTime) (matchStr : Option Str) (ref : DT) : Except String Res := do
  let r : Option (Int × Int × Int × Str) ← (
    match t with
    | .whole hour hourNum =>
      match hour with
      | some hs =>
        if !hs.isEmpty then do
          let h ← intOf u hs
          pure (some (h, 0, 0, 84 :: fmtD 2 h))
        else
          match lookup cfg.numbers hourNum with
          | some v => pure (some ((v : Int), 0, 0, 84 :: fmtD 2 (v : Int)))
          | none => throw "Other"
      | none =>
        match lookup cfg.numbers hourNum with
        | some v => pure (some ((v : Int), 0, 0, 84 :: fmtD 2 (v : Int)))
        | none => throw "Other"
    | .parsed slot =>
      match slot.res with
      | none => pure none
      | some tr => pure (some ((tr.future.hh : Int), (tr.future.mi : Int), (tr.future.ss : Int), slot.timex))
    | .nothing => pure none)
  match r with
  | none => return {}
  | some (hour, minute, second, timeStr) =>
    match matchStr with
    | none => return {}
    | some ms =>
      let swift := cfg.getSwiftDay ms
      match ref.date.addDays swift with
      | none => throw "Other"
      | some date =>
        let hour := cfg.getHour ms hour
        let timeStr := if endsWith timeStr sAmPm then sliceI timeStr 0 (-4) else timeStr
        let timeStr := 84 :: fmtD 2 hour ++ timeStr.drop 3
        match mkDateTime date.y date.m date.d hour minute second with
        | none => throw "ValueError"
        | some v =>
          return { success := true, timex := formatDate ⟨date.y, date.m, date.d, 0, 0, 0⟩ ++ timeStr, future := v, past := v }

/-- `resolve_end_of_day(timex_prefix, future_date, past_date)` -/
def resolveEndOfDay (timexPrefix : Str) (future past : DT) : Res :=
  { success := true, timex := timexPrefix ++ [84, 50, 51, 58, 53, 57, 58, 53, 57],
    future := ⟨future.y, future.m, future.d, 23, 59, 59⟩, past := ⟨past.y, past.m, past.d, 23, 59, 59⟩ }

/-- `parse_unspecific_time_of_date` when the `eod` regex matches -/
def endOfToday (ref : DT) : Res := resolveEndOfDay (formatDate ref) ref ref

/-- today-relative datetime entity: `parse_time_of_today` → `BaseDateTimeParser.parse` → `_date_time_resolution` -/
def resolveTimeOfToday (u : Uni) (cfg : TodCfg) (t : TodTime) (matchStr : Option Str) (ref : DT) :
    Except String (Option (List Value)) := do
  dateTimeResolution u (toSlot .datetime (← parseTimeOfToday u cfg t matchStr ref))

/-! ## `BaseTimePeriodParser.merge_two_time_points` (after both time points are parsed) and time-range resolution -/

/-- the fields of a time-range `DateTimeResolutionResult`: start / end as seconds from midnight of the reference date
(an end on the next day is ≥ 86400) -/
structure PRes where
  success : Bool := false
  timex : Str := []
  comment : Str := []
  startS : Nat := 0
  endS : Nat := 0
deriving DecidableEq, Repr, Inhabited

def DT.secs (x : DT) : Nat := x.hh * 3600 + x.mi * 60 + x.ss

/-- `f'T{t.hour}'` + `f':{t.minute}'` when the minute is positive — no zero padding as written in the code (finding
`timerange-loose-timex`); `padded = true` is the repaired variant (`:02d`) -/
def looseTimex (s : Nat) (padded : Bool := false) : Str :=
  let hour := (s / 3600) % 24
  let minute := (s / 60) % 60
  if padded then 84 :: fmtD 2 hour ++ (if minute > 0 then sColon ++ fmtD 2 minute else [])
  else 84 :: decStr hour ++ (if minute > 0 then sColon ++ decStr minute else [])

/-- `PT{hours}H{minutes}M` of `merge_two_time_points`. As found (`secs = false`) the minutes are the *float*
`total_seconds() / 60 % 60`: for a span with seconds Python prints its `repr` (`0.5`, `0.3333333333333144`) — the float
arithmetic and `repr` of the running interpreter are an input, `fl diff` (finding `timerange-float-minutes`).
`secs = true` is the repaired variant: integer minutes and an `…S` component. -/
def spanText (fl : Nat → Str) (secs : Bool) (diff : Nat) : Str :=
  let hours := diff / 3600
  let minutes := (diff / 60) % 60
  let seconds := diff % 60
  [80, 84] ++ (if hours > 0 then decStr hours ++ [72] else []) ++
    (if secs then (if 0 < minutes then decStr minutes ++ [77] else []) ++ (if 0 < seconds then decStr seconds ++ [83] else [])
     else if seconds = 0 then (if 0 < minutes then decStr minutes ++ [77] else [])
     else fl diff ++ [77])

/-- `merge_two_time_points` once `pr1`, `pr2` are there. -/
def mergeTwoTimePoints (s1 s2 : Slot) (padded : Bool := false) (fl : Nat → Str := fun _ => []) (secs : Bool := false) :
    Except String PRes :=
  match s1.res, s2.res with
  | some r1, some r2 =>
    let b := r1.future.secs
    let e := r2.future.secs
    let amb1 := !r1.comment.isEmpty && endsWith r1.comment sAmPm
    let amb2 := !r2.comment.isEmpty && endsWith r2.comment sAmPm
    let (e, tx2) := if amb2 && e ≤ b && b < e + 43200 then (e + 43200, looseTimex (e + 43200) padded) else (e, s2.timex)
    let (b, tx1) := if amb1 && e > b + 43200 then (b + 43200, looseTimex (b + 43200) padded) else (b, s1.timex)
    let e := if e < b then e + 86400 else e
    .ok { success := true, timex := [40] ++ tx1 ++ [44] ++ tx2 ++ [44] ++ spanText fl secs (e - b) ++ [41],
          comment := if amb1 && amb2 then sAmPm else [], startS := b, endS := e }
  | _, _ => .ok {}

/-- `format_time` of a start / end (`datetime` arithmetic wraps into the next day) -/
def fmtSecs (s : Nat) : Str := formatTime ⟨1, 1, 1, (s / 3600) % 24, (s / 60) % 60, s % 60⟩

/-- One entry of `resolution['values']` of a range. -/
structure PValue where
  timex : Str
  type : Str
  start : Str
  «end» : Str
deriving DecidableEq, Repr, Inhabited

def sTimeRange : Str := [116, 105, 109, 101, 114, 97, 110, 103, 101]

/-- `BaseTimePeriodParser.parse` post-processing + `_date_time_resolution` for a `timerange` slot with no modifier:
`__add_period_to_resolution`, and the TIMEPERIOD branch of `_resolve_ampm` (`to_pm` on start and end,
`all_str_to_pm` on the TIMEX). -/
def timeRangeResolution (u : Uni) (r : PRes) : Except String (Option (List PValue)) :=
  if !r.success then .ok none
  else
    let st := fmtSecs r.startS
    let en := fmtSecs r.endS
    let am : PValue := { timex := r.timex, type := sTimeRange, start := st, «end» := en }
    if r.comment = sAmPm && !r.timex.isEmpty then
      match toPm u st, toPm u en, allStrToPm u r.timex with
      | some st', some en', some tx => .ok (some [am, { timex := tx, type := sTimeRange, start := st', «end» := en' }])
      | _, _, _ => .error "ValueError"
    else .ok (some [am])

/-! ## `ChineseTimeParser` (digit and 汉字 clock times; `handle_less` — "差五分十点" — is not modelled) -/

structure ZhCfg where
  /-- `ChineseDateTime.TimeNumberDictionary` (one-character keys) -/
  numbersMap : List (Str × Nat)
  /-- `ChineseDateTime.TimeLowBoundDesc` -/
  lowBound : List (Str × Nat)
  /-- Variant switch: `true` = the code as found, `pack_time_result` comments every description-less time `ampm`
  (finding `zh-ampm-any-hour`); `false` = guarded like `BaseTimeParser` (`0 < hour <= 12`). -/
  ampmAnyHour : Bool := true

/-- `TimeResolutionUtils.match_to_value(only_digit_match, numbers_map, source)` -/
def zhMatchToValue (u : Uni) (cfg : ZhCfg) (s : Str) : Except String Int :=
  if blank u s then .ok (-1)
  else match s with
    | [] => .ok (-1)
    | c0 :: _ =>
      if (u.digitVal c0).isSome then intOf u s     -- `regex.match(r'\d+', source)` then `int(source)`
      else if s.length = 1 then
        match lookup cfg.numbersMap s with
        | some v => .ok v
        | none => .error "KeyError"
      else
        let step (acc : Except String (Int × Nat)) (ch : Nat) : Except String (Int × Nat) := do
          let (value, index) ← acc
          if ch = 21313 then pure (value * 10, index + 1)        -- '十'
          else match lookup cfg.numbersMap [ch] with
            | none => throw "KeyError"
            | some v => if index = 0 then pure (value * v, index + 1) else pure (value + v, index + 1)
        (s.foldl step (.ok (1, 0))).map (·.1)

/-- first elements of the `named_entity` lists (`''` when absent) -/
structure ZhGroups where
  hour : Str := []
  min : Str := []
  sec : Str := []
  quarter : Str := []
  half : Str := []
  daydesc : Str := []
deriving Repr, Inhabited

/-- `handle_digit` (`chinese = false`) / `handle_chinese` (`chinese = true`): (hour, minute, second), `-1` = absent -/
def zhHandle (u : Uni) (cfg : ZhCfg) (chinese : Bool) (g : ZhGroups) : Except String (Int × Int × Int) := do
  let hour ← zhMatchToValue u cfg g.hour
  if chinese then
    let quarter ← zhMatchToValue u cfg g.quarter
    let minute ← (if !g.half.isEmpty then pure 30 else if quarter ≠ -1 then pure (quarter * 15) else zhMatchToValue u cfg g.min)
    let second ← zhMatchToValue u cfg g.sec
    return (hour, minute, second)
  else
    let minute ← zhMatchToValue u cfg g.min
    let second ← zhMatchToValue u cfg g.sec
    return (hour, minute, second)

/-- `pack_time_result(extra, time_result, reference)` (with `add_description`) -/
def zhPackTime (u : Uni) (cfg : ZhCfg) (g : ZhGroups) (t : Int × Int × Int) (ref : DT) : Except String Res :=
  let (hour0, minute0, second0) := t
  let noDesc := blank u g.daydesc
  -- add_description
  let hourT : Int :=
    if noDesc then hour0
    else match lookup cfg.lowBound g.daydesc with
      | some lb => if hour0 < lb then hour0 + 12 else hour0
      | none => hour0
  let comment := if noDesc && (cfg.ampmAnyHour || (0 < hourT && hourT ≤ 12)) then sAmPm else []
  let floor0 (x : Int) : Int := if x > 0 then x else 0
  let hour := floor0 hourT
  let timex : Str :=
    if hourT ≥ 0 then
      (84 :: fmtD 2 hourT) ++ (if minute0 ≥ 0 then sColon ++ fmtD 2 minute0 ++ (if second0 ≥ 0 then sColon ++ fmtD 2 second0 else []) else [])
    else [84]
  let hour := if hour = 24 then 0 else hour
  match safeCreateFromMinValue ref.y ref.m ref.d hour (floor0 minute0) (floor0 second0) with
  | none => .error "ValueError"
  | some v => .ok { success := true, timex := timex, comment := comment, future := v, past := v }

/-- Chinese time entity: `handle_*` → `pack_time_result` → `ChineseTimeParser.parse` → `_date_time_resolution` -/
def resolveTimeZh (u : Uni) (cfg : ZhCfg) (chinese : Bool) (g : ZhGroups) (ref : DT) :
    Except String (Option (List Value)) := do
  dateTimeResolution u (toSlot .time (← zhPackTime u cfg g (← zhHandle u cfg chinese g) ref))

/-! ## `ChineseDateParser.match_to_date` -/

/-- `get_month_of_year` / `get_day_of_month`: table value, reduced modulo 12 / 31 when above -/
def zhReduce (limit v : Nat) : Nat := if v > limit then v % limit else v

/-- month, day, year after the group decoding of the Chinese `match_to_date`; `chsYear` = what
`convert_chinese_year_to_number(yearchs group)` answers (`-1` = none; it goes through the number recogniser). -/
def decodeDateZh (u : Uni) (cfg : DateCfg) (g : DateGroups) (chsYear : Int) : Except String (Int × Int × Int) :=
  let year0 : Int := if chsYear = -1 then 0 else chsYear
  match lookup cfg.monthOfYear g.month, lookup cfg.dayOfMonth g.day with
  | some mv, some dv =>
    let month : Int := zhReduce 12 mv
    let day : Int := zhReduce 31 dv
    if !blank u g.year then
      if isNumericStr u g.year then
        match pyInt u g.year with
        | none => .error "ValueError"
        | some y =>
          let y : Int := y
          .ok (month, day, if y < 100 ∧ y ≥ cfg.minTwoDigitYearPast then y + 1900
                           else if y < 100 ∧ y < cfg.maxTwoDigitYearFuture then y + 2000 else y)
      else .ok (month, day, if (0 : Int) ≥ cfg.minTwoDigitYearPast then 1900 else if (0 : Int) < cfg.maxTwoDigitYearFuture then 2000 else 0)
    else .ok (month, day, year0)
  | _, _ => .ok (0, 0, year0)

/-- `ChineseDateParser.match_to_date(match, reference)` on the group values -/
def matchToDateZh (u : Uni) (cfg : DateCfg) (g : DateGroups) (chsYear : Int) (ref : DT) : Except String Res := do
  let (month, day, year) ← decodeDateZh u cfg g chsYear
  let (year, timex, noYear) : Int × Str × Bool :=
    if year = 0 then ((ref.y : Int), luisDate (-1) month day, true) else (year, luisDate year month day, false)
  let (future, past) := generateDates noYear ref year month day
  return { success := true, timex := timex, future := future, past := past }

/-- Chinese date entity: `match_to_date` → `ChineseDateParser.parse` → `_date_time_resolution` -/
def resolveDateZh (u : Uni) (cfg : DateCfg) (g : DateGroups) (chsYear : Int) (ref : DT) :
    Except String (Option (List Value)) := do
  dateTimeResolution u (toSlot .date (← matchToDateZh u cfg g chsYear ref))

/-! ## Compositions used by the properties -/

/-- date entity: `match_to_date` → `BaseDateParser.parse` → `_date_time_resolution` -/
def resolveDate (u : Uni) (cfg : DateCfg) (g : DateGroups) (writtenYear : Int) (ref : DT) :
    Except String (Option (List Value)) := do
  dateTimeResolution u (toSlot .date (← matchToDate u cfg g writtenYear ref))

/-- time entity: `match_to_time` → `BaseTimeParser.parse` → `_date_time_resolution` -/
def resolveTime (u : Uni) (cfg : TimeCfg) (g : TimeGroups) (ref : DT) : Except String (Option (List Value)) := do
  dateTimeResolution u (toSlot .time (← matchToTime u cfg g ref))

/-- datetime entity `<date> at <time>`: both sub-parsers, `merge_date_and_time`, `BaseDateTimeParser.parse`,
`_date_time_resolution`. -/
def resolveDateAtTime (u : Uni) (dcfg : DateCfg) (dg : DateGroups) (writtenYear : Int) (tcfg : TimeCfg)
    (tg : TimeGroups) (pmTime amTime : Bool) (ref : DT) (shiftOnlyAmbiguous : Bool := false) :
    Except String (Option (List Value)) := do
  let ds := toSlot .date (← matchToDate u dcfg dg writtenYear ref)
  let ts := toSlot .time (← matchToTime u tcfg tg ref)
  dateTimeResolution u (toSlot .datetime (← mergeDateAndTime ds ts pmTime amTime shiftOnlyAmbiguous))

end RTV.DtRes
