import RTV.Model.Span
/-!
L2c `DtExtract` — token arithmetic of the date-time SUB-EXTRACTORS, i.e. what happens between "a regex matched /
a sub-extractor returned an entity" and "tokens are handed to `merge_all_tokens`" (C01, C12).
Mirrors /repo/Python/libraries/recognizers-date-time/recognizers_date_time/date_time:

* `base_date.py` `BaseDateExtractor`: `basic_regex_match`, `implicit_date`, `number_with_month` (all branches),
  `get_year_index`, `extend_with_week_day_and_year`, `relative_duration_date`,
  `extract_relative_duration_date_with_in_prefix` / `extract_in_connector`;
* `utilities.py` `AgoLaterUtil.extractor_duration_with_before_and_after` (the `check_both_before_after = False`
  path, which is what every shipped culture configures), `get_tokens_from_regex`;
* `base_time.py` `BaseTimeExtractor`: `basic_regex_match`, `at_regex_match`, `specials_regex_match`;
* `base_duration.py` `BaseDurationExtractor`: `number_with_unit` (`__cardinal_to_token`), `number_with_unit_and_suffix`
  (`__base_to_token`), `implicit_duration`, `merge_multiple_duration` (span part), `tag_inequality_prefix`;
* `base_datetime.py` `BaseDateTimeExtractor`: `merge_date_and_time` (pairing loop, middle-string gate, year
  extension, suffix / prefix widening), `time_of_today_before`, `time_of_today_after`, `special_time_of_date`,
  `duration_with_before_and_after`;
* `base_dateperiod.py` `BaseDatePeriodExtractor`: `merge_multiple_extractions` (`merge_two_time_points`),
  `match_duration` + `_match_within_next_affix_regex`;
* `base_timeperiod.py` `BaseTimePeriodExtractor.merge_two_time_points` (the token-building loop);
* `base_datetimeperiod.py` `BaseDateTimePeriodExtractor.merge_two_time_points` (the first token-building loop).

The regex engine and the sub-recognisers are PARAMETERS: a match object is `(start, end)` on the string it was run
on (often a prefix / suffix slice of the query — the offset translation is what the theorems are about); a
`ConditionalMatch` is `(index, length, success)` with `index = string.index(match.group())`; a sub-extractor
result is `(start, length)`. Python ints are `Int` (tokens may become negative / reversed; `Token.length` clamps).
Import-free apart from RTV models.
-/
namespace RTV.DtExtract
open RTV.Py RTV.Span

/-- `Token(start, end)` with Python ints. -/
structure Tok where
  start : Int
  stop : Int
deriving DecidableEq, Repr, Inhabited

/-- `Token.length`. -/
def Tok.length (t : Tok) : Int := if t.start > t.stop then 0 else t.stop - t.start

/-- the token lies inside a text of length `n`: `0 ≤ start ≤ end ≤ n`. -/
def Tok.Inside (n : Int) (t : Tok) : Prop := 0 ≤ t.start ∧ t.start ≤ t.stop ∧ t.stop ≤ n

instance (n : Int) (t : Tok) : Decidable (t.Inside n) := by unfold Tok.Inside; infer_instance

/-- the `Span.Tk` that `merge_all_tokens` works on (for tokens with non-negative offsets). -/
def Tok.toTk (t : Tok) (id : Nat) : Tk := ⟨t.start.toNat, t.stop.toNat, id⟩

/-- a regex match object: `m.start()`, `m.end()` on the string it was run on. -/
structure Mt where
  s : Int
  e : Int
deriving DecidableEq, Repr, Inhabited

/-- `len(match.group())`. -/
def Mt.len (m : Mt) : Int := m.e - m.s

/-- the match lies in a string of length `L`. -/
def Mt.In (L : Int) (m : Mt) : Prop := 0 ≤ m.s ∧ m.s ≤ m.e ∧ m.e ≤ L

instance (L : Int) (m : Mt) : Decidable (m.In L) := by unfold Mt.In; infer_instance

/-- `ConditionalMatch`: `index` (= first occurrence of the matched text in the searched string), `length`,
`success`. -/
structure CM where
  idx : Int
  len : Int
  succ : Bool
deriving DecidableEq, Repr, Inhabited

def CM.In (L : Int) (c : CM) : Prop := 0 ≤ c.idx ∧ 0 ≤ c.len ∧ c.idx + c.len ≤ L

instance (L : Int) (c : CM) : Decidable (c.In L) := by unfold CM.In; infer_instance

/-- a sub-extractor result `(start, length)`. -/
structure Ent where
  start : Int
  len : Int
deriving DecidableEq, Repr, Inhabited

def Ent.In (n : Int) (e : Ent) : Prop := 0 ≤ e.start ∧ 0 ≤ e.len ∧ e.start + e.len ≤ n

instance (n : Int) (e : Ent) : Decidable (e.In n) := by unfold Ent.In; infer_instance

/-- `MatchedIndex(matched, index)`. -/
structure MI where
  matched : Bool
  index : Int
deriving DecidableEq, Repr, Inhabited

/-- which of the three repairs the working tree contains (probed by the harness on fixed inputs):
`basicMatchStart` — `basic_regex_match` places the token at `match.start()` instead of `source.index(match.group())`;
`mdtLenFixed` — `merge_date_and_time` slices the middle string up to `len(middle_str)` instead of evaluating
`len(middle_end)` on an int; `rangeRstrip` — the from / between look-ups of the period extractors run on
`source[0:begin].rstrip()` (indices are source offsets) instead of `.strip()`. `Variant.current` = none of them. -/
structure Variant where
  basicMatchStart : Bool
  mdtLenFixed : Bool
  rangeRstrip : Bool
deriving DecidableEq, Repr, Inhabited

def Variant.current : Variant := ⟨false, false, false⟩
def Variant.repaired : Variant := ⟨true, true, true⟩

/-- `get_tokens_from_regex`: `Token(x.start(), x.end())` per match. -/
def tokensOf (ms : List Mt) : List Tok := ms.map fun m => ⟨m.s, m.e⟩

/-! ## BaseDateExtractor -/

/-- one validated match of `basic_regex_match`: `idx = source.index(match.group())` (the FIRST occurrence of the
matched text, not `match.start()`), the match, and `match_end(strict_relative_regex, source[0:idx], True)`. -/
structure BasicFact where
  idx : Int
  m : Mt
  rel : Option CM
deriving DecidableEq, Repr, Inhabited

def dateBasicOne (f : BasicFact) : Tok :=
  match f.rel with
  | some c => if c.succ then ⟨c.idx, f.idx + (f.m.e - f.m.s)⟩ else ⟨f.idx, f.idx + (f.m.e - f.m.s)⟩
  | none => ⟨f.idx, f.idx + (f.m.e - f.m.s)⟩

/-- `BaseDateExtractor.basic_regex_match` (`fs` = the matches that passed `validate_match`, regex by regex). -/
def dateBasic (fs : List BasicFact) : List Tok := fs.map dateBasicOne

/-- the repaired `basic_regex_match`: `pre_text = source[0:match.start()]`, token `[match.start(), match.end())`
(or from the relative term in front of it). -/
def dateBasicOneFixed (f : BasicFact) : Tok :=
  match f.rel with
  | some c => if c.succ then ⟨c.idx, f.m.e⟩ else ⟨f.m.s, f.m.e⟩
  | none => ⟨f.m.s, f.m.e⟩

def dateBasicV (v : Variant) (fs : List BasicFact) : List Tok :=
  if v.basicMatchStart then fs.map dateBasicOneFixed else dateBasic fs

/-- what `get_year_index(affix, year, in_prefix)` sees: `year_suffix.match(affix)`, whether the year read from it
is in `[MIN_YEAR_NUM, MAX_YEAR_NUM]`, `len(affix)`, `len(affix.strip())`. -/
structure YearIdx where
  m : Option Mt
  yearOK : Bool
  affixLen : Int
  stripLen : Int
deriving DecidableEq, Repr, Inhabited

/-- `get_year_index`: `success = not (m and m.start())` (suffix) / `m and m.start() + m.end() == len(affix.strip())`
(prefix); the index is only computed on success and for a plausible year. -/
def getYearIndex (y : YearIdx) (inPrefix : Bool) : Int × Bool :=
  let success : Bool :=
    match y.m with
    | some m => if inPrefix then m.s + m.e == y.stripLen else !(m.s != 0)
    | none => !inPrefix
  let index : Int :=
    if success then
      match y.m with
      | some m => if y.yearOK then (if inPrefix then m.e + (y.affixLen - y.stripLen) else m.e - m.s) else 0
      | none => 0
    else 0
  (index, success)

/-- match facts of `extend_with_week_day_and_year`: both year look-ups run on `suffix = text[end_index:]` (sic —
the "prefix" look-up is also given the suffix), `week_day_end.match(prefix)`, `week_day_start.match(suffix)` (the
suffix taken BEFORE the year extension), `agree` = both weekdays known and truthy, date valid, same weekday. -/
structure ExtFacts where
  y1 : YearIdx
  checkBoth : Bool
  y2 : YearIdx
  wdEnd : Option Mt
  wdStart : Option Mt
  agree : Bool
deriving DecidableEq, Repr, Inhabited

def extendWdYear (si ei : Int) (f : ExtFacts) : Int × Int :=
  let r1 := getYearIndex f.y1 false
  let ei1 := ei + r1.1
  let si1 := if !r1.2 && f.checkBoth then si - (getYearIndex f.y2 true).1 else si
  match f.wdEnd with
  | some m => if f.agree then (m.s, ei1) else (si1, ei1)
  | none =>
    match f.wdStart with
    | some m => if f.agree then (si1, ei1 + m.e) else (si1, ei1)
    | none => (si1, ei1)

/-- everything one iteration of `number_with_month` sees for one ordinal / integer result. -/
structure NwmFacts where
  num : Int
  start : Int
  len : Int
  isOrd : Bool
  /-- `MatchingUtil.is_invalid_day_number_prefix(source[0:start])` -/
  invalidPrefix : Bool
  /-- `regex.search(month_end, source[0:start])` -/
  monthEnd : Option Mt
  ext1 : ExtFacts
  /-- `for_the_regex` matches on the source: match, `len(group('end'))`, `group('DayOfMonth') == result.text` -/
  forThe : List (Mt × Int × Bool)
  /-- `week_day_and_day_of_month_regex` matches: match, ordinal text equal ∧ date valid ∧ same weekday -/
  wdDom : List (Mt × Bool)
  /-- `week_day_and_day_regex` matches -/
  wdDay : List Mt
  /-- `regex.match(relative_month_regex, suffix.lower().strip())` -/
  relMonth : Option Mt
  /-- `len(suffix_str) - len(suffix_str.strip())` (leading AND trailing blanks of the suffix) -/
  spaceLen : Int
  /-- `prefix_article_regex.match(source[:start])` -/
  prefixArt : Option Mt
  /-- `regex.match(week_day_regex, suffix.strip())`, and whether its `weekday` group is a key of `day_of_week` -/
  weekDay : Option Mt
  weekDayOK : Bool
  /-- `regex.match(of_month, source[start+len:])` -/
  ofMonth : Option Mt
  ext2 : ExtFacts
deriving Repr, Inhabited

/-- the part of the iteration inside `if result.start >= 0:`; the flag says that a `continue` was hit. -/
def nwmFront (f : NwmFacts) : List Tok × Bool :=
  if f.invalidPrefix then ([], true)
  else
    match f.monthEnd with
    | some m =>
      -- `Token(match.start(), end_index)`: the start index returned by the extension is dropped
      ([⟨m.s, (extendWdYear m.s (m.s + (m.e - m.s) + f.len) f.ext1).2⟩], true)
    | none =>
      let t1 : List Tok := f.forThe.filterMap fun x => if x.2.2 then some ⟨x.1.s, x.1.e - x.2.1⟩ else none
      if !t1.isEmpty then (t1, true)
      else
        let t2 : List Tok := f.wdDom.filterMap fun x => if x.2 then some ⟨x.1.s, x.1.e⟩ else none
        if !t2.isEmpty then (t2, true)
        else
          let t3 : List Tok := f.wdDay.filterMap fun m =>
            if f.start + f.len - m.s == m.e - m.s then some ⟨m.s, m.e⟩ else none
          if !t3.isEmpty then (t3, true)
          else
            let t4 : List Tok :=
              match f.relMonth with
              | some m =>
                if m.s == 0 then
                  [⟨(match f.prefixArt with | some p => p.s | none => f.start),
                    f.start + f.len + f.spaceLen + (m.e - m.s)⟩]
                else []
              | none => []
            let t5 : List Tok :=
              match f.weekDay with
              | some m =>
                if m.s == 0 && decide (1 ≤ f.num) && decide (f.num ≤ 5) && f.isOrd && f.weekDayOK then
                  [⟨f.start, f.start + f.len + f.spaceLen + (m.e - m.s)⟩]
                else []
              | none => []
            (t4 ++ t5, false)

/-- one iteration of `for result in extract_results` of `number_with_month` (`n = len(source)`). -/
def nwmOne (n : Int) (f : NwmFacts) : List Tok :=
  if f.num < 1 || f.num > 31 then []
  else
    let fr := if f.start ≥ 0 then nwmFront f else ([], false)
    if fr.2 then fr.1
    else
      fr.1 ++
        (if f.start + f.len < n then
          match f.ofMonth with
          | some m =>
            let r := extendWdYear f.start (f.start + f.len + (m.e - m.s)) f.ext2
            [⟨r.1, r.2⟩]
          | none => []
        else [])

/-- `BaseDateExtractor.number_with_month`. -/
def numberWithMonth (n : Int) (fs : List NwmFacts) : List Tok := fs.flatMap (nwmOne n)

/-! ## AgoLaterUtil.extractor_duration_with_before_and_after (check_both_before_after = False) -/

structure AgoFacts where
  er : Ent
  /-- `time_unit_regex.search(er.text)` -/
  isTime : Bool
  /-- for `ago_regex` / `later_regex`: `get_ago_later_index(after_string, regexp, True)` and whether the `day`
  group of `regexp.match(after_string)` is non-empty -/
  ago : MI × Bool
  later : MI × Bool
  /-- for `in_connector_regex` / `within_next_prefix_regex`: `get_term_index(before_string, regexp).index` and
  whether one of the unit regexes matches at the start of `er.text` -/
  inIdx : Int
  inUnit : Bool
  withinIdx : Int
  withinUnit : Bool
deriving Repr, Inhabited

/-- the tokens the call APPENDS to `ret`. -/
def agoLaterNew (n : Int) (f : AgoFacts) : List Tok :=
  let pos := f.er.start + f.er.len
  if pos ≤ n then
    let tokAfter (x : MI × Bool) : Option Tok :=
      if x.1.matched && !(f.isTime && x.2) then some ⟨f.er.start, f.er.start + f.er.len + x.1.index⟩ else none
    match tokAfter f.ago with
    | some t => [t]
    | none =>
      match tokAfter f.later with
      | some t => [t]
      | none =>
        let term (index : Int) (unit : Bool) : List Tok :=
          if !unit && decide (f.er.start ≥ index) then [⟨f.er.start - index, f.er.start + f.er.len⟩] else []
        if f.inIdx > 0 then term f.inIdx f.inUnit
        else if f.withinIdx > 0 then term f.withinIdx f.withinUnit
        else []
  else []

/-- the call mutates `ret` and returns it. -/
def agoLater (n : Int) (ret : List Tok) (f : AgoFacts) : List Tok := ret ++ agoLaterNew n f

/-! ## BaseDateExtractor.relative_duration_date -/

structure DurFact where
  /-- `is_multiple_duration(er) and not is_multiple_duration_date(er)` → `break` -/
  multiNotDate : Bool
  /-- `date_unit_regex.search(er.text)` -/
  hasDateUnit : Bool
  ago : AgoFacts
deriving Repr, Inhabited

/-- the first loop: `tokens.extend(extractor_duration_with_before_and_after(source, er, tokens, cfg))` — the
callee appends to `tokens` and returns the SAME list, so the `extend` doubles it. -/
def relDurLoop (n : Int) : List DurFact → List Tok → List Tok
  | [], acc => acc
  | d :: rest, acc =>
    if d.multiNotDate then acc
    else if d.hasDateUnit then
      let r := agoLater n acc d.ago
      relDurLoop n rest (r ++ r)
    else relDurLoop n rest acc

/-- one duration of `extract_relative_duration_date_with_in_prefix`. `cm` = `match_end(in_connector_regex,
after_str, True)` (sic: the text AFTER the duration), `rangeUnit` = `range_unit_regex.match(duration text)`,
`sinceYear` = `since_year_suffix_regex.match(before_str)` (then the code evaluates `len(<Match>)`: TypeError). -/
structure InPrefFact where
  dur : Ent
  bothBlank : Bool
  cm : Option CM
  rangeUnit : Bool
  sinceYear : Bool
deriving Repr, Inhabited

/-- `none` = the code raises `TypeError`. -/
def inPrefixOne (f : InPrefFact) : Option (List Tok) :=
  if f.bothBlank then some []
  else
    match f.cm with
    | some c =>
      if c.succ && f.rangeUnit then
        if f.sinceYear then none else some [⟨c.idx, f.dur.start + f.dur.len⟩]
      else some []
    | none => some []

def inPrefixAll : List InPrefFact → Option (List Tok)
  | [] => some []
  | f :: rest =>
    match inPrefixOne f, inPrefixAll rest with
    | some a, some b => some (a ++ b)
    | _, _ => none

/-- `is_overlap_with_exist_extractions`. -/
def overlapsAny (t : Tok) (ex : List Tok) : Bool := ex.any fun x => decide (t.start < x.stop) && decide (t.stop > x.start)

/-- `BaseDateExtractor.relative_duration_date`. -/
def relativeDurationDate (n : Int) (ds : List DurFact) (ps : List InPrefFact) : Option (List Tok) :=
  let tokens := relDurLoop n ds []
  match inPrefixAll ps with
  | none => none
  | some extra => some (extra.foldl (fun acc t => if overlapsAny t acc then acc else acc ++ [t]) tokens)

/-! ## BaseTimeExtractor -/

/-- `basic_regex_match` (`keep` = `lth_check`), `at_regex_match` (`keep` = non-empty and not followed by `%`),
`specials_regex_match` (`keep` = non-empty). -/
def tokensOfKept (ms : List (Mt × Bool)) : List Tok := ms.filterMap fun x => if x.2 then some ⟨x.1.s, x.1.e⟩ else none

/-! ## BaseDurationExtractor -/

/-- `__cardinal_to_token`: `m = regex.match(followed_unit, source[c.start + c.length:])`. -/
def cardinalToToken (c : Ent) (m : Option Mt) : Option Tok :=
  m.map fun m => ⟨c.start, c.start + c.len + (m.e - m.s)⟩

/-- `number_with_unit`. -/
def numberWithUnit (cs : List (Ent × Option Mt)) (combined anUnit inexact : List Mt) : List Tok :=
  (cs.filterMap fun x => cardinalToToken x.1 x.2) ++ tokensOf combined ++ tokensOf anUnit ++ tokensOf inexact

/-- `__base_to_token`: `m = regex.match(suffix_and_regex, source[token.start + token.length:])`. -/
def baseToToken (t : Tok) (m : Option Mt) : Option Tok :=
  m.map fun m => ⟨t.start, t.start + t.length + (m.e - m.s)⟩

/-- `number_with_unit_and_suffix`. -/
def numberWithUnitAndSuffix (ts : List (Tok × Option Mt)) : List Tok := ts.filterMap fun x => baseToToken x.1 x.2

/-- an extraction as `merge_multiple_duration` sees it: span, value of its unit (`none` = no unit of `unit_map` in
its text), and whether `duration_connector_regex` matched between the PREVIOUS extraction and this one. -/
structure MmItem where
  ent : Ent
  unit : Option Nat
  conn : Bool
deriving DecidableEq, Repr, Inhabited

/-- the inner `while second_extraction_index < len(...)`: returns how many were absorbed, the last absorbed span,
and what is left. -/
def mmScan (cur : Nat) (k : Nat) (last : Ent) : List MmItem → Nat × Ent × List MmItem
  | [] => (k, last, [])
  | it :: rest =>
    if it.conn then
      match it.unit with
      | some v => if v != cur then mmScan (if v < cur then v else cur) (k + 1) it.ent rest else (k, last, it :: rest)
      | none => (k, last, it :: rest)
    else (k, last, it :: rest)

theorem mmScan_length (cur k : Nat) (last : Ent) (l : List MmItem) : (mmScan cur k last l).2.2.length ≤ l.length := by
  induction l generalizing cur k last with
  | nil => simp [mmScan]
  | cons it rest ih =>
    unfold mmScan
    split
    · split
      · split
        · exact Nat.le_trans (ih _ _ _) (by simp)
        · simp
      · simp
    · simp

/-- the outer loop; an extraction without a unit is skipped (and not returned). -/
def mmGo : Nat → List MmItem → List Ent
  | 0, _ => []
  | _ + 1, [] => []
  | fuel + 1, it :: rest =>
    match it.unit with
    | none => mmGo fuel rest
    | some v =>
      let r := mmScan v 0 it.ent rest
      (if r.1 > 0 then ⟨it.ent.start, r.2.1.start + r.2.1.len - it.ent.start⟩ else it.ent) :: mmGo fuel r.2.2

/-- `merge_multiple_duration` (spans). -/
def mergeMultipleDuration (items : List MmItem) : List Ent :=
  if items.length ≤ 1 then items.map (·.ent) else mmGo items.length items

/-- `tag_inequality_prefix` for one result: `more` / `less` = `match_end(more_than_regex / less_than_regex,
text[0:start], True)` with `firstIdx = text.index(match.group())` on the WHOLE text. -/
def tagInequality (e : Ent) (more less : Option (CM × Int)) : Ent :=
  let pick : Option Int :=
    match more with
    | some (c, i) => if c.succ then some i else (match less with | some (c2, i2) => if c2.succ then some i2 else none | none => none)
    | none => (match less with | some (c2, i2) => if c2.succ then some i2 else none | none => none)
  match pick with
  | some i => ⟨i, e.len + (e.start - i)⟩
  | none => e

/-! ## BaseDateTimeExtractor -/

/-- `ExtractResult.overlap` on `(start, length)`. -/
def entOverlap (a b : Ent) : Bool :=
  !decide (a.start > b.start + b.len - 1) && !decide (b.start > a.start + a.len - 1)

/-- what the middle-string gate of `merge_date_and_time` sees for a (date, time) / (time, date) pair:
`sufAfter` = `suffix_after_regex.search(middle_str)` matched; `restEmpty` = what is left of the middle string behind
that match is empty; `conn` = `is_connector_token` of the middle string (of the rest, when `sufAfter`); `yext` = what
`extend_with_date_time_and_year` adds to the end. -/
structure Gate where
  sufAfter : Bool
  restEmpty : Bool
  conn : Bool
  yext : Int
deriving DecidableEq, Repr, Inhabited

/-- `none` = the code raises: the current tree evaluates `len(middle_end)` on an int as soon as `suffix_after_regex`
matches; the repaired tree slices up to `len(middle_str)`. -/
def gateValid (v : Variant) (g : Gate) : Option Bool :=
  if g.sufAfter then (if v.mdtLenFixed then some (!g.restEmpty && g.conn) else none)
  else some g.conn

/-- the token built for a valid (date, time) / (time, date) pair. -/
def mdtPairTok (a b : Ent) (g : Gate) : Tok := ⟨a.start, b.start + b.len + g.yext⟩

/-- advance `j` over the results overlapping `ers[i]`. -/
def skipOverlap (ers : Array (Ent × Bool)) (i : Nat) : Nat → Nat → Nat
  | 0, j => j
  | fuel + 1, j =>
    match ers[i]?, ers[j]? with
    | some a, some b => if entOverlap a.1 b.1 then skipOverlap ers i fuel (j + 1) else j
    | _, _ => j

/-- the pairing loop (`isDate` flags the kind; only date / time kinds: `options` = 0). Gates are consumed in the
order the code evaluates them. `none` = TypeError. -/
def mdtLoop (v : Variant) (ers : Array (Ent × Bool)) : Nat → Nat → List Gate → List Tok → Option (List Tok)
  | 0, _, _, acc => some acc
  | fuel + 1, i, gates, acc =>
    if i + 1 < ers.size then
      let j := skipOverlap ers i ers.size (i + 1)
      if j ≥ ers.size then some acc
      else
        match ers[i]?, ers[j]? with
        | some a, some b =>
          if a.2 != b.2 then
            let mb := a.1.start + a.1.len
            let me := b.1.start
            if mb > me then mdtLoop v ers fuel (j + 1) gates acc
            else
              match gates with
              | [] => some acc     -- (no recorded gate: cannot happen on a faithful replay)
              | g :: gs =>
                match gateValid v g with
                | none => none
                | some true => mdtLoop v ers fuel (j + 1) gs (acc ++ [mdtPairTok a.1 b.1 g])
                | some false => mdtLoop v ers fuel j gs acc
          else mdtLoop v ers fuel j gates acc
        | _, _ => some acc
    else some acc

/-- the two widening passes: `suffix_regex.search(source[token.end:])` → `end += len(group)`;
`common_date_prefix_regex.search(source[0:token.start])` → `start -= len(group)`. -/
def mdtWiden (t : Tok) (suf pre : Option Mt) : Tok :=
  let t1 : Tok := match suf with | some m => ⟨t.start, t.stop + (m.e - m.s)⟩ | none => t
  match pre with | some m => ⟨t1.start - (m.e - m.s), t1.stop⟩ | none => t1

/-- `merge_date_and_time` after the early returns; `wid` = the (suffix, prefix) match per produced token. -/
def mergeDateAndTime (v : Variant) (ers : List (Ent × Bool)) (gates : List Gate) (wid : List (Option Mt × Option Mt)) :
    Option (List Tok) :=
  match mdtLoop v ers.toArray ers.length 0 gates [] with
  | none => none
  | some ts => some ((ts.zip (wid ++ List.replicate ts.length (none, none))).map fun x => mdtWiden x.1 x.2.1 x.2.2)

/-- `time_of_today_before` for one time result: `inner` = `regex.search(night_regex, er.text)`, `m` =
`regex.search(time_of_today_before_regex, before)`. -/
def todBeforeOne (n : Int) (e : Ent) (inner m : Option Mt) : Option Tok :=
  let cut : Int := match inner with | some i => if i.s == 0 then e.start + (i.e - i.s) else e.start | none => e.start
  -- `if not before: continue` (`before = source[:cut]`)
  if cut ≤ 0 || n ≤ 0 then none
  else m.map fun m => ⟨m.s, e.start + e.len⟩

def timeOfTodayBefore (n : Int) (fs : List (Ent × Option Mt × Option Mt)) (simple : List Mt) : List Tok :=
  (fs.filterMap fun x => todBeforeOne n x.1 x.2.1 x.2.2) ++ tokensOf simple

/-- `time_of_today_after` for one time result: `m` = `regex.search(time_of_today_after_regex, after)` — only the
LENGTH of the match is used. -/
def todAfterOne (n : Int) (e : Ent) (m : Option Mt) : Option Tok :=
  if e.start + e.len ≥ n then none   -- `if not after: continue`
  else m.map fun m => ⟨e.start, e.start + e.len + (m.e - m.s)⟩

def timeOfTodayAfter (n : Int) (fs : List (Ent × Option Mt)) (simple : List Mt) : List Tok :=
  (fs.filterMap fun x => todAfterOne n x.1 x.2) ++ tokensOf simple

/-- `special_time_of_date` for one date result: `b` = `match_end(specific_end_of_regex, source[:start].strip(), True)`
(its index is an index into the STRIPPED prefix), `a` = `match_begin(specific_end_of_regex, after, True)`. -/
def specialOne (e : Ent) (b a : Option CM) : Option Tok :=
  let viaAfter : Option Tok :=
    match a with
    | some c => if c.succ then some ⟨e.start, e.start + e.len + c.idx + c.len⟩ else none
    | none => none
  match b with
  | some c => if c.succ then some ⟨c.idx, e.start + e.len⟩ else viaAfter
  | none => viaAfter

def specialTimeOfDate (fs : List (Ent × Option CM × Option CM)) (eod : List Mt) : List Tok :=
  (fs.filterMap fun x => specialOne x.1 x.2.1 x.2.2) ++ tokensOf eod

/-- `duration_with_before_and_after`: `tokens = extractor_duration_with_before_and_after(..., tokens, ...)` for every
duration whose text contains a unit. -/
def durationWithBeforeAndAfter (n : Int) (fs : List AgoFacts) : List Tok := fs.foldl (agoLater n) []

/-! ## BaseDatePeriodExtractor / BaseTimePeriodExtractor / BaseDateTimePeriodExtractor: two points → a range -/

/-- what one iteration that reaches the connector test sees. `fromI` / `betweenI`: whether `get_from_token_index` /
`get_between_token_index` found the word in front of the first point and WHERE THE WORD IS IN THE SOURCE (`index` =
source offset); `lead` = number of leading blanks of `source[0:period_begin]`. The current tree runs the look-ups on
`.strip()` of that prefix, so what it gets back is `index - lead`; the repaired tree (`.rstrip()`) gets `index`.
`afterBetween` = `get_between_token_index(after)` (time period only; its index as returned). -/
structure PairFact where
  till : Bool
  conn : Bool
  fromI : MI
  betweenI : MI
  afterBetween : MI
  lead : Int
deriving DecidableEq, Repr, Inhabited

/-- the index the look-up hands back. -/
def lookupIndex (v : Variant) (f : PairFact) (m : MI) : Int := if v.rangeRstrip then m.index else m.index - f.lead

/-- which extractor's loop. -/
inductive RangeKind
  | datePeriod | timePeriod | dateTimePeriod
deriving DecidableEq, Repr, Inhabited

/-- what one reached pair `(a, b)` contributes: `some token` (and the loop moves on by two) or `none`. -/
def rangePairTok (v : Variant) (k : RangeKind) (a b : Ent) (f : PairFact) : Option Tok :=
  let pe := b.start + b.len
  if f.till then
    let pb : Int :=
      match k with
      | .timePeriod =>
        -- `if from: begin = from.index`, then `if between: begin = between.index` (between wins)
        if f.betweenI.matched then lookupIndex v f f.betweenI
        else if f.fromI.matched then lookupIndex v f f.fromI else a.start
      | _ =>
        if f.fromI.matched then lookupIndex v f f.fromI
        else if f.betweenI.matched then lookupIndex v f f.betweenI else a.start
    -- time period: "between" found in `after` REPLACES the end by an index into `after`
    let pe' : Int := if k == .timePeriod && f.afterBetween.matched then f.afterBetween.index else pe
    some ⟨pb, pe'⟩
  else if f.conn && f.betweenI.matched then some ⟨lookupIndex v f f.betweenI, pe⟩
  else none

/-- the token-building loop (`check_both_before_after = False`). `skipPair i` = the pair `(i, i+1)` is both
TIME results (date-time period only: the loop then ends). Pair facts are consumed in order. -/
def rangeLoop (v : Variant) (k : RangeKind) (ers : Array Ent) (skipPair : Nat → Bool) : Nat → Nat → List PairFact → List Tok → List Tok
  | 0, _, _, acc => acc
  | fuel + 1, i, facts, acc =>
    if i + 1 < ers.size then
      match ers[i]?, ers[i + 1]? with
      | some a, some b =>
        -- date-time period: two adjacent TIME points end the loop (`break`, sic)
        if skipPair i then (if k == .dateTimePeriod then acc else rangeLoop v k ers skipPair fuel (i + 1) facts acc)
        else
          -- date period: `middle_begin >= middle_end` skips the pair; the other two have no such test
          if k == .datePeriod && decide (a.start + a.len ≥ b.start) then rangeLoop v k ers skipPair fuel (i + 1) facts acc
          else
            match facts with
            | [] => acc
            | f :: fs =>
              match rangePairTok v k a b f with
              | some t =>
                -- date-time period: `break` after the first token (sic, a mis-ported `continue`)
                if k == .dateTimePeriod then acc ++ [t] else rangeLoop v k ers skipPair fuel (i + 2) fs (acc ++ [t])
              | none => rangeLoop v k ers skipPair fuel (i + 1) fs acc
      | _, _ => acc
    else acc

def rangeMerge (v : Variant) (k : RangeKind) (ers : List Ent) (skipPair : Nat → Bool) (facts : List PairFact) : List Tok :=
  if ers.length ≤ 1 then [] else rangeLoop v k ers.toArray skipPair ers.length 0 facts []

/-- one date-unit duration of `BaseDatePeriodExtractor.match_duration`. -/
structure MdFact where
  dur : Ent
  /-- `not before_str or not after_str` (`after_str` is the duration's own text) -/
  emptySide : Bool
  /-- `_match_within_next_affix_regex(source, duration, True)`: `match_end(within_next_prefix_regex, before_str, True)`
  and `date_unit_regex.match(duration_str) and not time_unit_regex.match(duration_str)` -/
  within : Option CM
  withinDate : Bool
  /-- `match_end(past_regex, before_str, True)`, `match_end(future_regex, before_str, True)` -/
  past : Option CM
  future : Option CM
  /-- `cardinal_extractor.extract(prefix)` on `prefix = before_str[0:index].strip()`, `len(prefix)`, and whether the
  duration text contains a number -/
  numsInPrefix : List Ent
  prefixLen : Int
  numInDuration : Bool
  /-- `match_begin(past_regex, after_str, True)`, `match_begin(future_suffix_regex, after_str, True)` on the
  duration's own text (sic) -/
  pastSuffix : Option CM
  futureSuffix : Option CM
deriving Repr, Inhabited

/-- `sorted(numbers_in_prefix, key=end).pop()`: the last among those with the greatest end. -/
def lastByEnd : List Ent → Option Ent
  | [] => none
  | e :: rest =>
    match lastByEnd rest with
    | none => some e
    | some b => if b.start + b.len ≥ e.start + e.len then some b else some e

/-- `_match_within_next_affix_regex(source, duration, True)` when it yields a token. -/
def mdWithin (f : MdFact) : Option Tok :=
  match f.within with
  | some c => if c.succ && f.withinDate then some ⟨c.idx, f.dur.start + f.dur.len⟩ else none
  | none => none

def cmIdx (c : Option CM) : Int :=
  match c with
  | some c => if c.succ then c.idx else -1
  | none => -1

/-- `index`: the past prefix, else the future prefix, else `-1`. -/
def mdIndex (f : MdFact) : Int := if cmIdx f.past < 0 then cmIdx f.future else cmIdx f.past

/-- the prefix branch (`index >= 0`). -/
def mdPrefix (f : MdFact) (index : Int) : List Tok :=
  if !f.numsInPrefix.isEmpty && !f.numInDuration then
    match lastByEnd f.numsInPrefix with
    | some l => if l.start + l.len == f.prefixLen then [⟨l.start, f.dur.start + f.dur.len⟩] else []
    | none => []
  else [⟨index, f.dur.start + f.dur.len⟩]

def mdSufTok (f : MdFact) (c : Option CM) : Option Tok :=
  match c with
  | some c => if c.succ then some ⟨f.dur.start, f.dur.start + f.dur.len + c.idx + c.len⟩ else none
  | none => none

/-- the suffix branch. -/
def mdSuffix (f : MdFact) : List Tok :=
  match mdSufTok f f.pastSuffix with
  | some t => [t]
  | none => match mdSufTok f f.futureSuffix with | some t => [t] | none => []

def matchDurationOne (f : MdFact) : List Tok :=
  if f.emptySide then []
  else
    match mdWithin f with
    | some t => if t.start ≥ 0 then [t] else []   -- (a negative start falls through in the code; unreachable: idx ≥ 0)
    | none => if mdIndex f ≥ 0 then mdPrefix f (mdIndex f) else mdSuffix f

/-- `BaseDatePeriodExtractor.match_duration`. -/
def matchDuration (fs : List MdFact) : List Tok := fs.flatMap matchDurationOne

end RTV.DtExtract
