import RTV.Model.Seq
import RTV.Model.Url
import RTV.Model.Phone
import RTV.Gen.PyTables
import RTV.Gen.Tlds
import RTV.Model.Preprocess
import RTV.Model.ChoiceEnv
import RTV.Gen.Regexes
import RTV.Gen.CharTables
import RTV.Gen.Preprocess
/-! The sequence models end to end on the regenerated data, as `IpAddressModel.parse` / `GUIDModel.parse` /
`BooleanModel.parse` produce the fields the repository's spec runner compares (type name, text, resolution value,
score when the spec states one).  `fast*` = ASCII answered by formula, everything else by the tables (proved equal in
`RTV/Lemmas/SpecRun.lean`). -/
namespace RTV.Seq
open RTV.Py RTV.Re RTV.Match

def pyChars : CharClass where
  isSpace c := inRangesArr RTV.Gen.spaceRanges c
  isDigit c := inRangesArr RTV.Gen.digitRanges c
  isAlpha c := inRangesArr RTV.Gen.alphaRanges c

def fastChars : CharClass where
  isSpace c := if c < 128 then ((9 ≤ c && c ≤ 13) || (28 ≤ c && c ≤ 32)) else pyChars.isSpace c
  isDigit c := if c < 128 then (48 ≤ c && c ≤ 57) else pyChars.isDigit c
  isAlpha c := if c < 128 then ((65 ≤ c && c ≤ 90) || (97 ≤ c && c ≤ 122)) else pyChars.isAlpha c

structure SeqEnv where
  T : Tables
  K : CharClass
  lowerC : Nat → Str

def genSeqEnv : SeqEnv := ⟨RTV.Gen.reTables, pyChars, RTV.Preprocess.lowerFull RTV.Gen.lowerPairs RTV.Gen.lowerExpanding⟩
def fastSeqEnv : SeqEnv := ⟨RTV.Choice.fastTables, fastChars, RTV.Choice.fastLowerC⟩

def urlEnvOf (E : SeqEnv) : RTV.Url.UrlEnv where
  T := E.T
  K := E.K
  ipUrl := RTV.Gen.ipUrlRegex
  url := RTV.Gen.urlRegex
  url2 := RTV.Gen.urlRegex2
  timeTerm := RTV.Gen.urlAmbiguousTimeTerm
  gTld := RTV.Gen.urlRegex_g_Tld
  gTld2 := RTV.Gen.urlRegex2_g_Tld
  tlds := RTV.Gen.tldList

/-- `ChineseURLExtractorConfiguration` (cultures zh-*, ja-*): its own `UrlRegex` / `IpUrlRegex`; `UrlRegex2`, the time
term and the TLD list are the base ones -/
def urlEnvZh (E : SeqEnv) : RTV.Url.UrlEnv :=
  { urlEnvOf E with ipUrl := RTV.Gen.zhIpUrlRegex, url := RTV.Gen.zhUrlRegex, gTld := RTV.Gen.zhUrlRegex_g_Tld }

/-- `AbstractSequenceModel.parse` with a one-regex `SequenceExtractor` (hashtag, mention, e-mail): preprocess,
finditer, sweep, value = text. Fields: type name, text, value. -/
def simpleModelRun (E : SeqEnv) (re : RE) (typeName : Str) (q : Str) : List (Str × Str × Str) :=
  match RTV.Preprocess.preprocess RTV.Gen.recodePairs E.lowerC false [] q with
  | none => []
  | some p => (seqSweep E.K p (tagged "x" (findAll E.T p.toArray re))).map fun r => (typeName, r.text, r.text)

/-- `recognize_url(q, culture)` reduced to the fields the spec runner compares -/
def urlSpecRun (E : SeqEnv) (zh : Bool) (q : Str) : List (Str × Str × Str) :=
  match RTV.Preprocess.preprocess RTV.Gen.recodePairs E.lowerC false [] q with
  | none => []
  | some p =>
    match RTV.Url.urlExtract (if zh then urlEnvZh E else urlEnvOf E) p with
    | none => []
    | some ers => ers.map fun r => (ofString "url", r.text, r.text)

/-- `recognize_url(q, 'en-us')`: `QueryProcessor.preprocess`, `BaseURLExtractor.extract`, `SequenceParser.parse`
(value = text); an exception inside the `try` yields no entity. Fields: type name, start, end, text, value. -/
def urlModelRun (E : SeqEnv) (q : Str) : List (Str × Nat × Int × Str × Str) :=
  match RTV.Preprocess.preprocess RTV.Gen.recodePairs E.lowerC false [] q with
  | none => []
  | some p =>
    match RTV.Url.urlExtract (urlEnvOf E) p with
    | none => []
    | some ers => ers.map fun r => (ofString "url", r.start, (r.start : Int) + r.len - 1, r.text, r.text)

/-- `pattern.search(text)`: span of the first match -/
def searchSpan (T : Tables) (r : RE) (t : Str) : Option (Nat × Nat) := (findAll T t.toArray r).head?

/-- the regex outcomes `BasePhoneNumberExtractor.extract` consults, from the regenerated patterns (English
configuration: `EnglishPhoneNumbers.FalsePositivePrefixRegex`, base forbidden prefix markers `, : %`) -/
def phoneOracleOf (E : SeqEnv) : RTV.Phone.PhoneOracle where
  isDigit := E.K.isDigit
  isLower c := inRangesArr RTV.Gen.islowerRanges c
  isSpace := E.K.isSpace
  ssn t := searches E.T t.toArray RTV.Gen.phoneSSNFilterRegex
  fpPrefix := some fun f => searches E.T f.toArray RTV.Gen.enPhoneFalsePositivePrefixRegex
  fmtInd t := searches E.T t.toArray RTV.Gen.phoneFormatIndicatorRegex
  intl f := searchSpan E.T RTV.Gen.phoneIntlPrefixRegex f
  colonOk f := searches E.T f.toArray RTV.Gen.phoneColonPrefixCheckRegex
  forbiddenPrefix := [44, 58, 37]

/-- the ten `ReVal`s of `BasePhoneNumberExtractor.__init__`, in order -/
def phoneRegexes : List (RE × String) :=
  [(RTV.Gen.phoneGeneralRegex, "GeneralPhoneNumber"), (RTV.Gen.phoneBRRegex, "BRPhoneNumber"),
   (RTV.Gen.phoneUKRegex, "UKPhoneNumber"), (RTV.Gen.phoneDERegex, "DEPhoneNumber"),
   (RTV.Gen.phoneUSRegex, "USPhoneNumber"), (RTV.Gen.phoneCNRegex, "CNPhoneNumber"),
   (RTV.Gen.phoneDKRegex, "DKPhoneNumber"), (RTV.Gen.phoneITRegex, "ITPhoneNumber"),
   (RTV.Gen.phoneNLRegex, "NLPhoneNumber"), (RTV.Gen.phoneSpecialRegex, "SpecialPhoneNumber")]

/-- `BasePhoneNumberExtractor.extract(source)` (English configuration) -/
def phoneExtract (E : SeqEnv) (source : Str) : List ER :=
  if !(searches E.T source.toArray RTV.Gen.phonePreCheckRegex) then []
  else
    let ms := phoneRegexes.flatMap fun p => tagged p.2 (findAll E.T source.toArray p.1)
    RTV.Phone.postProcess (phoneOracleOf E) (findAll E.T source.toArray RTV.Gen.phoneMaskRegex) source
      (seqSweep E.K source ms)

/-- `recognize_ip_address(q, culture)`: `zh` = the Chinese configuration (zh-*, ja-*), else English. No preprocessing
(`IpAddressModel.parse` passes the query as it is). Fields: type name, text, resolution `value`. -/
def ipModelRun (E : SeqEnv) (zh : Bool) (q : Str) : List (Str × Str × Str) :=
  let v4 := if zh then RTV.Gen.zhIpv4Regex else RTV.Gen.ipv4Regex
  let v6 := if zh then RTV.Gen.zhIpv6Regex else RTV.Gen.ipv6Regex
  (ipExtract E.T E.K v4 v6 q).map fun r => (ofString "ip", r.text, dropLeadingZeros r.text)

/-- `'%g' % (n / 100)` for the integer scores `0..100` -/
def gfmt (n : Int) : Str :=
  let n := n.toNat
  if n ≥ 100 then [49] else if n = 0 then [48]
  else if n % 10 = 0 then [48, 46, 48 + n / 10] else [48, 46, 48 + n / 10, 48 + n % 10]

/-- `recognize_guid(q, 'en-us')`: `QueryProcessor.preprocess`, extract, `GUIDParser.parse`.
Fields: type name, text, resolution `value`, resolution `score`. -/
def guidModelRun (E : SeqEnv) (q : Str) : List (Str × Str × Str × Str) :=
  match RTV.Preprocess.preprocess RTV.Gen.recodePairs E.lowerC false [] q with
  | none => []
  | some p =>
    (guidExtract E.T E.K RTV.Gen.guidRegex p).map fun r =>
      (ofString "guid", r.text, r.text, gfmt (scoreGuid E.T RTV.Gen.guidElementRegex r.text))

/-- `recognize_boolean(q, 'en-us')`: type name, text, resolution `value` (the runner does not compare the score) -/
def boolModelRun (E : RTV.Choice.Env) (q : Str) : Option (List (Str × Str × Bool)) :=
  (RTV.Choice.recognise E q).map fun rs => rs.map fun r => (ofString "boolean", r.text, r.value)

end RTV.Seq
