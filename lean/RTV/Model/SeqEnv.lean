import RTV.Model.Seq
import RTV.Model.Url
import RTV.Model.Phone
import RTV.Gen.PyTables
import RTV.Gen.Tlds
import RTV.Model.Preprocess
import RTV.Model.ChoiceEnv
import RTV.Gen.Regexes
import RTV.Gen.CharTables
import RTV.Gen.Preprocess
/-! The sequence models end to end on the regenerated data, as `IpAddressModel.parse` / `GUIDModel.parse` /
`BooleanModel.parse` / `AbstractSequenceModel.parse` build a `ModelResult`: type name, text, start, end and the whole
resolution dict (`SpecEnt`) — every field a Specs case can state.  `fast*` = ASCII answered by formula, everything else
by the tables (proved equal in `RTV/Lemmas/SpecRun.lean`). -/
namespace RTV.Seq
open RTV.Py RTV.Re RTV.Match

/-- a resolution value: a text (`str` as it is, `bool` as `True` / `False`), or a `float` as the exact fraction the
model computes for it (the float rounding of the implementation is not modelled: compared within 1e-9) -/
inductive RVal where
  | text (s : Str)
  | frac (num den : Int)
deriving Repr, DecidableEq, Inhabited

/-- a `ModelResult` as a Specs case describes one: `type_name`, `text`, `start`, `end`, and the `resolution` dict as
(key, value) pairs in insertion order -/
structure SpecEnt where
  typeName : Str
  text : Str
  start : Nat
  stop : Int
  res : List (Str × RVal)
deriving Repr, DecidableEq, Inhabited

/-- `model_result.end = parse_result.start + parse_result.length - 1` -/
def entOf (typeName : Str) (r : ER) (res : List (Str × RVal)) : SpecEnt :=
  ⟨typeName, r.text, r.start, (r.start : Int) + r.len - 1, res⟩

def kValue : Str := ofString "value"
def kScore : Str := ofString "score"
def kType : Str := ofString "type"

def pyChars : CharClass where
  isSpace c := inRangesArr RTV.Gen.spaceRanges c
  isDigit c := inRangesArr RTV.Gen.digitRanges c
  isAlpha c := inRangesArr RTV.Gen.alphaRanges c

def fastChars : CharClass where
  isSpace c := if c < 128 then ((9 ≤ c && c ≤ 13) || (28 ≤ c && c ≤ 32)) else pyChars.isSpace c
  isDigit c := if c < 128 then (48 ≤ c && c ≤ 57) else pyChars.isDigit c
  isAlpha c := if c < 128 then ((65 ≤ c && c ≤ 90) || (97 ≤ c && c ≤ 122)) else pyChars.isAlpha c

structure SeqEnv where
  T : Tables
  K : CharClass
  lowerC : Nat → Str

def genSeqEnv : SeqEnv := ⟨RTV.Gen.reTables, pyChars, RTV.Preprocess.lowerFull RTV.Gen.lowerPairs RTV.Gen.lowerExpanding⟩
def fastSeqEnv : SeqEnv := ⟨RTV.Choice.fastTables, fastChars, RTV.Choice.fastLowerC⟩

def urlEnvOf (E : SeqEnv) : RTV.Url.UrlEnv where
  T := E.T
  K := E.K
  ipUrl := RTV.Gen.ipUrlRegex
  url := RTV.Gen.urlRegex
  url2 := RTV.Gen.urlRegex2
  timeTerm := RTV.Gen.urlAmbiguousTimeTerm
  gTld := RTV.Gen.urlRegex_g_Tld
  gTld2 := RTV.Gen.urlRegex2_g_Tld
  tlds := RTV.Gen.tldList

/-- `ChineseURLExtractorConfiguration` (cultures zh-*, ja-*): its own `UrlRegex` / `IpUrlRegex`; `UrlRegex2`, the time
term and the TLD list are the base ones -/
def urlEnvZh (E : SeqEnv) : RTV.Url.UrlEnv :=
  { urlEnvOf E with ipUrl := RTV.Gen.zhIpUrlRegex, url := RTV.Gen.zhUrlRegex, gTld := RTV.Gen.zhUrlRegex_g_Tld }

/-- `AbstractSequenceModel.parse` with a one-regex `SequenceExtractor` (hashtag, mention, e-mail): preprocess,
finditer, sweep; resolution `{'value': text}` (`AbstractSequenceModel.get_resolution`). -/
def simpleModelRun (E : SeqEnv) (re : RE) (typeName : Str) (q : Str) : List SpecEnt :=
  match RTV.Preprocess.preprocess RTV.Gen.recodePairs E.lowerC false [] q with
  | none => []
  | some p => (seqSweep E.K p (tagged "x" (findAll E.T p.toArray re))).map fun r => entOf typeName r [(kValue, .text r.text)]

/-- `recognize_url(q, culture)`: every field of the results (`start` / `end` are offsets in the preprocessed query) -/
def urlSpecRun (E : SeqEnv) (zh : Bool) (q : Str) : List SpecEnt :=
  match RTV.Preprocess.preprocess RTV.Gen.recodePairs E.lowerC false [] q with
  | none => []
  | some p =>
    match RTV.Url.urlExtract (if zh then urlEnvZh E else urlEnvOf E) p with
    | none => []
    | some ers => ers.map fun r => entOf (ofString "url") r [(kValue, .text r.text)]

/-- `recognize_url(q, 'en-us')`: `QueryProcessor.preprocess`, `BaseURLExtractor.extract`, `SequenceParser.parse`
(value = text); an exception inside the `try` yields no entity. Fields: type name, start, end, text, value. -/
def urlModelRun (E : SeqEnv) (q : Str) : List (Str × Nat × Int × Str × Str) :=
  match RTV.Preprocess.preprocess RTV.Gen.recodePairs E.lowerC false [] q with
  | none => []
  | some p =>
    match RTV.Url.urlExtract (urlEnvOf E) p with
    | none => []
    | some ers => ers.map fun r => (ofString "url", r.start, (r.start : Int) + r.len - 1, r.text, r.text)

/-- `pattern.search(text)`: span of the first match -/
def searchSpan (T : Tables) (r : RE) (t : Str) : Option (Nat × Nat) := (findAll T t.toArray r).head?

/-- the regex outcomes `BasePhoneNumberExtractor.extract` consults, from the regenerated patterns (English
configuration: `EnglishPhoneNumbers.FalsePositivePrefixRegex`, base forbidden prefix markers `, : %`) -/
def phoneOracleOf (E : SeqEnv) : RTV.Phone.PhoneOracle where
  isDigit := E.K.isDigit
  isLower c := inRangesArr RTV.Gen.islowerRanges c
  isSpace := E.K.isSpace
  ssn t := searches E.T t.toArray RTV.Gen.phoneSSNFilterRegex
  fpPrefix := some fun f => searches E.T f.toArray RTV.Gen.enPhoneFalsePositivePrefixRegex
  fmtInd t := searches E.T t.toArray RTV.Gen.phoneFormatIndicatorRegex
  intl f := searchSpan E.T RTV.Gen.phoneIntlPrefixRegex f
  colonOk f := searches E.T f.toArray RTV.Gen.phoneColonPrefixCheckRegex
  forbiddenPrefix := [44, 58, 37]

/-- the ten `ReVal`s of `BasePhoneNumberExtractor.__init__`, in order -/
def phoneRegexes : List (RE × String) :=
  [(RTV.Gen.phoneGeneralRegex, "GeneralPhoneNumber"), (RTV.Gen.phoneBRRegex, "BRPhoneNumber"),
   (RTV.Gen.phoneUKRegex, "UKPhoneNumber"), (RTV.Gen.phoneDERegex, "DEPhoneNumber"),
   (RTV.Gen.phoneUSRegex, "USPhoneNumber"), (RTV.Gen.phoneCNRegex, "CNPhoneNumber"),
   (RTV.Gen.phoneDKRegex, "DKPhoneNumber"), (RTV.Gen.phoneITRegex, "ITPhoneNumber"),
   (RTV.Gen.phoneNLRegex, "NLPhoneNumber"), (RTV.Gen.phoneSpecialRegex, "SpecialPhoneNumber")]

/-- `BasePhoneNumberExtractor.extract(source)` (English configuration) -/
def phoneExtract (E : SeqEnv) (source : Str) : List ER :=
  if !(searches E.T source.toArray RTV.Gen.phonePreCheckRegex) then []
  else
    let ms := phoneRegexes.flatMap fun p => tagged p.2 (findAll E.T source.toArray p.1)
    RTV.Phone.postProcess (phoneOracleOf E) (findAll E.T source.toArray RTV.Gen.phoneMaskRegex) source
      (seqSweep E.K source ms)

/-- `recognize_ip_address(q, culture)`: `zh` = the Chinese configuration (zh-*, ja-*), else English. No preprocessing
(`IpAddressModel.parse` passes the query as it is).  `typed = true` (code after the `Resolution.type` fix):
`IpAddressModel.get_resolution` builds `{'value': resolution_str, 'type': data.data}` — `ipv4` / `ipv6`, the `ReVal` of the
regex that matched.  `typed = false` (code before): `{'value': resolution_str, 'score': str(data.value)}`;
`BaseIpParser.parse` never sets `value`, so the score was the text `None` — and there was NO `type` key, although the
Specs state it. -/
def ipModelRun (E : SeqEnv) (zh : Bool) (typed : Bool) (q : Str) : List SpecEnt :=
  let v4 := if zh then RTV.Gen.zhIpv4Regex else RTV.Gen.ipv4Regex
  let v6 := if zh then RTV.Gen.zhIpv6Regex else RTV.Gen.ipv6Regex
  (ipExtract E.T E.K v4 v6 q).map fun r =>
    entOf (ofString "ip") r
      (if typed then [(kValue, .text (dropLeadingZeros r.text)), (kType, .text (ofString r.data))]
       else [(kValue, .text (dropLeadingZeros r.text)), (kScore, .text (ofString "None"))])

/-- `'%g' % (n / 100)` for the integer scores `0..100` -/
def gfmt (n : Int) : Str :=
  let n := n.toNat
  if n ≥ 100 then [49] else if n = 0 then [48]
  else if n % 10 = 0 then [48, 46, 48 + n / 10] else [48, 46, 48 + n / 10, 48 + n % 10]

/-- `recognize_guid(q, 'en-us')`: `QueryProcessor.preprocess`, extract, `GUIDParser.parse`;
resolution `{'value': text, 'score': '%g' % score}`. -/
def guidModelRun (E : SeqEnv) (q : Str) : List SpecEnt :=
  match RTV.Preprocess.preprocess RTV.Gen.recodePairs E.lowerC false [] q with
  | none => []
  | some p =>
    (guidExtract E.T E.K RTV.Gen.guidRegex p).map fun r =>
      entOf (ofString "guid") r
        [(kValue, .text r.text), (kScore, .text (gfmt (scoreGuid E.T RTV.Gen.guidElementRegex r.text)))]

/-- `recognize_boolean(q, 'en-us')`: resolution `{'value': True|False, 'score': <the score the parser hands on>}`
(`RTV.Choice.parserScore`: the extractor's `top_score`, or — before the `Resolution.score` fix — the default `0.0`), as the
exact fraction -/
def boolModelRun (E : RTV.Choice.Env) (q : Str) : Option (List SpecEnt) :=
  (RTV.Choice.recognise E q).map fun rs => rs.map fun r =>
    ⟨ofString "boolean", r.text, r.start, r.stop,
     [(kValue, .text (ofString (if r.value then "True" else "False"))), (kScore, .frac r.score.num r.score.den)]⟩

end RTV.Seq
