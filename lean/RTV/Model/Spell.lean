import RTV.Model.Num
/-!
English numeral generator — the *specification side* of C04: `pieces v ord n` is the standard written-out form of
`n` (`0 ≤ n < 10^15`) as a list of words, each marked with whether it is joined to the previous word by a hyphen;
`spell` = the words (= the tokens `text_number_regex` yields), `spellText` = the surface string.
Variants: `andHundred` ("one hundred and five"), `andFinal` ("one thousand and five"), `hyphen` ("twenty-one").
`ord = true` puts the last word in ordinal form ("twenty-first", "two hundredth", "one millionth").
The correspondence harness obtains its inputs from this function through the driver (`spell` operation).
-/
namespace RTV.Num
open RTV.Py

structure Variant where
  andHundred : Bool
  andFinal : Bool
  hyphen : Bool
deriving DecidableEq, Repr

def allVariants : List Variant :=
  [⟨false, false, false⟩, ⟨false, false, true⟩, ⟨true, false, false⟩, ⟨true, false, true⟩,
   ⟨true, true, false⟩, ⟨true, true, true⟩, ⟨false, true, false⟩, ⟨false, true, true⟩]

def small : List Str := [[122, 101, 114, 111],
  [111, 110, 101],
  [116, 119, 111],
  [116, 104, 114, 101, 101],
  [102, 111, 117, 114],
  [102, 105, 118, 101],
  [115, 105, 120],
  [115, 101, 118, 101, 110],
  [101, 105, 103, 104, 116],
  [110, 105, 110, 101],
  [116, 101, 110],
  [101, 108, 101, 118, 101, 110],
  [116, 119, 101, 108, 118, 101],
  [116, 104, 105, 114, 116, 101, 101, 110],
  [102, 111, 117, 114, 116, 101, 101, 110],
  [102, 105, 102, 116, 101, 101, 110],
  [115, 105, 120, 116, 101, 101, 110],
  [115, 101, 118, 101, 110, 116, 101, 101, 110],
  [101, 105, 103, 104, 116, 101, 101, 110],
  [110, 105, 110, 101, 116, 101, 101, 110]]
def tens : List Str := [[116, 119, 101, 110, 116, 121],
  [116, 104, 105, 114, 116, 121],
  [102, 111, 114, 116, 121],
  [102, 105, 102, 116, 121],
  [115, 105, 120, 116, 121],
  [115, 101, 118, 101, 110, 116, 121],
  [101, 105, 103, 104, 116, 121],
  [110, 105, 110, 101, 116, 121]]
def smallOrd : List Str := [[122, 101, 114, 111, 116, 104],
  [102, 105, 114, 115, 116],
  [115, 101, 99, 111, 110, 100],
  [116, 104, 105, 114, 100],
  [102, 111, 117, 114, 116, 104],
  [102, 105, 102, 116, 104],
  [115, 105, 120, 116, 104],
  [115, 101, 118, 101, 110, 116, 104],
  [101, 105, 103, 104, 116, 104],
  [110, 105, 110, 116, 104],
  [116, 101, 110, 116, 104],
  [101, 108, 101, 118, 101, 110, 116, 104],
  [116, 119, 101, 108, 102, 116, 104],
  [116, 104, 105, 114, 116, 101, 101, 110, 116, 104],
  [102, 111, 117, 114, 116, 101, 101, 110, 116, 104],
  [102, 105, 102, 116, 101, 101, 110, 116, 104],
  [115, 105, 120, 116, 101, 101, 110, 116, 104],
  [115, 101, 118, 101, 110, 116, 101, 101, 110, 116, 104],
  [101, 105, 103, 104, 116, 101, 101, 110, 116, 104],
  [110, 105, 110, 101, 116, 101, 101, 110, 116, 104]]
def tensOrd : List Str := [[116, 119, 101, 110, 116, 105, 101, 116, 104],
  [116, 104, 105, 114, 116, 105, 101, 116, 104],
  [102, 111, 114, 116, 105, 101, 116, 104],
  [102, 105, 102, 116, 105, 101, 116, 104],
  [115, 105, 120, 116, 105, 101, 116, 104],
  [115, 101, 118, 101, 110, 116, 105, 101, 116, 104],
  [101, 105, 103, 104, 116, 105, 101, 116, 104],
  [110, 105, 110, 101, 116, 105, 101, 116, 104]]
def w_hundred : Str := [104, 117, 110, 100, 114, 101, 100]
def w_thousand : Str := [116, 104, 111, 117, 115, 97, 110, 100]
def w_million : Str := [109, 105, 108, 108, 105, 111, 110]
def w_billion : Str := [98, 105, 108, 108, 105, 111, 110]
def w_trillion : Str := [116, 114, 105, 108, 108, 105, 111, 110]
def w_and : Str := [97, 110, 100]
def w_hundredth : Str := [104, 117, 110, 100, 114, 101, 100, 116, 104]
def w_thousandth : Str := [116, 104, 111, 117, 115, 97, 110, 100, 116, 104]
def w_millionth : Str := [109, 105, 108, 108, 105, 111, 110, 116, 104]
def w_billionth : Str := [98, 105, 108, 108, 105, 111, 110, 116, 104]
def w_trillionth : Str := [116, 114, 105, 108, 108, 105, 111, 110, 116, 104]

/-- a word and "joined to the previous word by a hyphen" -/
abbrev Piece := Str × Bool

def wordAt (l : List Str) (i : Nat) : Str := l.getD i []

/-- 1 ≤ n ≤ 99 -/
def sub100 (v : Variant) (ord : Bool) (n : Nat) : List Piece :=
  if n < 20 then [(wordAt (if ord then smallOrd else small) n, false)]
  else if n % 10 == 0 then [(wordAt (if ord then tensOrd else tens) (n / 10 - 2), false)]
  else [(wordAt tens (n / 10 - 2), false), (wordAt (if ord then smallOrd else small) (n % 10), v.hyphen)]

/-- 1 ≤ n ≤ 999 -/
def sub1000 (v : Variant) (ord : Bool) (n : Nat) : List Piece :=
  if n < 100 then sub100 v ord n
  else if n % 100 == 0 then [(wordAt small (n / 100), false), (if ord then w_hundredth else w_hundred, false)]
  else [(wordAt small (n / 100), false), (w_hundred, false)] ++
       (if v.andHundred then [(w_and, false)] else []) ++ sub100 v ord (n % 100)

/-- a group of three digits with its scale word; nothing when the group is zero -/
def group (v : Variant) (g : Nat) (w : Str) : List Piece :=
  if g == 0 then [] else sub1000 v false g ++ [(w, false)]

/-- the last group (no scale word); "and" first when it is below 100 and follows a scale word (British) -/
def lastGroup (v : Variant) (ord : Bool) (hasHigher : Bool) (u : Nat) : List Piece :=
  if u == 0 then []
  else (if v.andFinal && hasHigher && u < 100 then [(w_and, false)] else []) ++ sub1000 v ord u

def pieces (v : Variant) (ord : Bool) (n : Nat) : List Piece :=
  if n == 0 then [(wordAt (if ord then smallOrd else small) 0, false)]
  else
    let t := n / 1000000000000 % 1000
    let b := n / 1000000000 % 1000
    let m := n / 1000000 % 1000
    let k := n / 1000 % 1000
    let u := n % 1000
    group v t (if ord && b == 0 && m == 0 && k == 0 && u == 0 then w_trillionth else w_trillion) ++
    (group v b (if ord && m == 0 && k == 0 && u == 0 then w_billionth else w_billion) ++
    (group v m (if ord && k == 0 && u == 0 then w_millionth else w_million) ++
    (group v k (if ord && u == 0 then w_thousandth else w_thousand) ++
     lastGroup v ord (n ≥ 1000) u)))

/-- the token list -/
def spell (n : Nat) (v : Variant) : List Str := (pieces v false n).map (·.1)
def spellOrd (n : Nat) (v : Variant) : List Str := (pieces v true n).map (·.1)

/-- the surface string: words joined by a space or a hyphen -/
def joinPieces : List Piece → Str
  | [] => []
  | (w, _) :: rest => w ++ (rest.foldr (fun (p : Piece) acc => (if p.2 then 45 else 32) :: (p.1 ++ acc)) [])

def spellText (n : Nat) (v : Variant) (ord : Bool) : Str := joinPieces (pieces v ord n)

end RTV.Num
