import RTV.Model.Choice
import RTV.Model.Preprocess
import RTV.Gen.RegexesChoice
import RTV.Gen.CharTables
import RTV.Gen.Emoji
/-! The environment of the boolean model built from the regenerated data: the rewritten True/False regexes, the
tokenizer regex, the engine tables, the emoji table, `str.isspace`, `str.lower`.

`fast*` variants answer ASCII code points by a formula and everything else from the tables; `RTV/Props/C20.lean`
proves them equal to the table-driven ones (so that kernel evaluation of the finite theorems stays cheap). -/
namespace RTV.Choice
open RTV.Py RTV.Re

def tableLower : Str → Str :=
  RTV.Preprocess.lowerWith (RTV.Preprocess.lowerFull RTV.Gen.lowerPairs RTV.Gen.lowerExpanding)

def tableEmoji (c : Nat) : Bool := inRangesArr RTV.Gen.emojiRanges c
def tableSpace (c : Nat) : Bool := inRangesArr RTV.Gen.spaceRanges c

/-- the environment the driver runs (everything from the tables) -/
def genEnv : Env where
  T := RTV.Gen.reTables
  trueRe := RTV.Gen.boolTrueRegex
  falseRe := RTV.Gen.boolFalseRegex
  tokenRe := RTV.Gen.boolTokenizerRegex
  isEmoji := tableEmoji
  isSpace := tableSpace
  lower := tableLower
  useMatchOffset := true
  missIndex := -1
  parseInit := true
  parserKeepsScore := true

def fastTables : Tables where
  digit c := if c < 128 then asciiTables.digit c else RTV.Gen.reTables.digit c
  word c := if c < 128 then asciiTables.word c else RTV.Gen.reTables.word c
  space c := if c < 128 then asciiTables.space c else RTV.Gen.reTables.space c

def fastLowerC (c : Nat) : Str :=
  if c < 128 then [if 65 ≤ c ∧ c ≤ 90 then c + 32 else c]
  else RTV.Preprocess.lowerFull RTV.Gen.lowerPairs RTV.Gen.lowerExpanding c

def fastEmoji (c : Nat) : Bool := if c < 128 then false else tableEmoji c
def fastSpace (c : Nat) : Bool := if c < 128 then ((9 ≤ c && c ≤ 13) || (28 ≤ c && c ≤ 32)) else tableSpace c

def fastEnv : Env where
  T := fastTables
  trueRe := RTV.Gen.boolTrueRegex
  falseRe := RTV.Gen.boolFalseRegex
  tokenRe := RTV.Gen.boolTokenizerRegex
  isEmoji := fastEmoji
  isSpace := fastSpace
  lower := RTV.Preprocess.lowerWith fastLowerC
  useMatchOffset := true
  missIndex := -1
  parseInit := true
  parserKeepsScore := true

end RTV.Choice

namespace RTV.Choice
/-- the code before the `spec-field:Boolean:Resolution.score` fix: the parser reports the default score `0.0` -/
def genEnvPreFix3 : Env := { genEnv with parserKeepsScore := false }
def fastEnvPreFix3 : Env := { fastEnv with parserKeepsScore := false }
/-- the code before the `first-occurrence-span` fix (older than the score fix as well) -/
def genEnvPreFix : Env := { genEnv with useMatchOffset := false, parserKeepsScore := false }
def fastEnvPreFix : Env := { fastEnv with useMatchOffset := false, parserKeepsScore := false }
/-- the code before /repo 4afb7c9b1 (`index_of` answers 1 on a miss) and 74161fefc (`parse_results` unbound) -/
def genEnvPreFix2 : Env := { genEnv with missIndex := 1, parseInit := false, parserKeepsScore := false }
def fastEnvPreFix2 : Env := { fastEnv with missIndex := 1, parseInit := false, parserKeepsScore := false }
end RTV.Choice
