import RTV.Model.TimexResolve
import RTV.Gen.TimexRegex
/-!
L7 `Timex` (part 4) — the configuration regenerated from the working tree (`genCfg`) and the configuration the
theorems were written for (`stdCfg`): the 18 patterns of `timex_regex.py`, the `TimexCreator` part-of-day strings
and `Constants.DAYS`, as they stood when the proofs were made.  `RTV/Props/C14.lean` proves `genCfg_ok`
(`decide`): every list regenerated from the tree equals the expected one and the regenerated digit table maps
the ASCII digits to their values and rejects the separator letters.  An edit of `timex_regex.py`,
`timex_creator.py` or `timex_constants.py` therefore breaks that obligation while the driver (which runs
`genCfg`) keeps following the code.
-/
namespace RTV.Timex
open RTV.Py

def genDv : Nat → Option Nat := digitVal RTV.Gen.TimexRegex.ndZeros

def genCfg : Cfg where
  dv := genDv
  date := RTV.Gen.TimexRegex.datePatterns
  time := RTV.Gen.TimexRegex.timePatterns
  period := RTV.Gen.TimexRegex.periodPatterns
  daytime := RTV.Gen.TimexRegex.creatorDaytime
  morning := RTV.Gen.TimexRegex.creatorMorning
  afternoon := RTV.Gen.TimexRegex.creatorAfternoon
  evening := RTV.Gen.TimexRegex.creatorEvening
  night := RTV.Gen.TimexRegex.creatorNight
  monday := RTV.Gen.TimexRegex.daysMonday
  sunday := RTV.Gen.TimexRegex.daysSunday

def seasons : List Str := [[83, 80], [83, 85], [70, 65], [87, 73]]
def partsOfDay : List Str := [[68, 84], [78, 73], [77, 79], [65, 70], [69, 86]]
def xxxx : List Item := [.lit 88, .lit 88, .lit 88, .lit 88]

-- no correspondence: stdDate stdTime stdPeriod: constants (the configuration the theorems were written for); theorem genCfg_ok (Props/C14, `decide`, re-checked every run) equates them with the lists regenerated from the working tree (RTV/Gen/TimexRegex), and the driver evaluates genCfg
/-- `TimexRegex.timexRegex['date']` as the theorems expect it -/
def stdDate : List (List Item) := [
  [.digits .year 4, .lit 45, .digits .month 2, .lit 45, .digits .dayOfMonth 2],
  xxxx ++ [.lit 45, .lit 87, .lit 88, .lit 88, .lit 45, .digits .dayOfWeek 1],
  xxxx ++ [.lit 45, .digits .month 2, .lit 45, .digits .dayOfMonth 2],
  [.digits .year 4],
  [.digits .year 4, .lit 45, .digits .month 2],
  [.alts .season seasons],
  [.digits .year 4, .lit 45, .alts .season seasons],
  [.digits .year 4, .lit 45, .lit 87, .digits .weekOfYear 2],
  [.digits .year 4, .lit 45, .lit 87, .digits .weekOfYear 2, .lit 45, .alts .weekend [[87, 69]]],
  xxxx ++ [.lit 45, .digits .month 2],
  xxxx ++ [.lit 45, .digits .month 2, .lit 45, .lit 87, .digits .weekOfMonth 2],
  xxxx ++ [.lit 45, .digits .month 2, .lit 45, .lit 87, .lit 88, .lit 88, .lit 45, .digits .weekOfMonth 1, .lit 45,
           .digits .dayOfWeek 1]]

def stdTime : List (List Item) := [
  [.lit 84, .digits .hour 2],
  [.lit 84, .digits .hour 2, .lit 58, .digits .minute 2],
  [.lit 84, .digits .hour 2, .lit 58, .digits .minute 2, .lit 58, .digits .second 2],
  [.lit 84, .alts .partOfDay partsOfDay]]

def stdPeriod : List (List Item) := [
  [.lit 80, .amount, .alts .dateUnit [[89], [77], [87], [68]]],
  [.lit 80, .lit 84, .amount, .alts .timeUnit [[72], [77], [83]]]]

/-- what the theorems need of the digit table: ASCII digits have their values; the letters and separators the
patterns and the formatter use are not digits; nothing is a digit with a value ≥ 10. -/
def DvOK (dv : Nat → Option Nat) : Prop :=
  (∀ k, k < 10 → dv (48 + k) = some k) ∧
  (∀ c ∈ [10, 40, 41, 44, 45, 46, 58, 65, 68, 69, 70, 72, 73, 77, 78, 79, 80, 83, 84, 85, 86, 87, 88, 89, 95, 82],
      dv c = none)

instance (dv : Nat → Option Nat) : Decidable (DvOK dv) := by unfold DvOK; infer_instance

/-- The configuration is the one the theorems are about. -/
structure CfgOK (cfg : Cfg) : Prop where
  dv : DvOK cfg.dv
  date : cfg.date = stdDate
  time : cfg.time = stdTime
  period : cfg.period = stdPeriod
  daytime : cfg.daytime = [40, 84, 48, 56, 44, 84, 49, 56, 44, 80, 84, 49, 48, 72, 41]
  morning : cfg.morning = [40, 84, 48, 56, 44, 84, 49, 50, 44, 80, 84, 52, 72, 41]
  afternoon : cfg.afternoon = [40, 84, 49, 50, 44, 84, 49, 54, 44, 80, 84, 52, 72, 41]
  evening : cfg.evening = [40, 84, 49, 54, 44, 84, 50, 48, 44, 80, 84, 52, 72, 41]
  night : cfg.night = [40, 84, 50, 48, 44, 84, 50, 52, 44, 80, 84, 49, 48, 72, 41]
  monday : cfg.monday = 0
  sunday : cfg.sunday = 6

end RTV.Timex
