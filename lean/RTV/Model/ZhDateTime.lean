import RTV.Model.DateUtils
import RTV.Model.Periods
/-!
L5 `ZhDateTime` — the Chinese date-time parsers (`recognizers_date_time/date_time/chinese/*.py`), which re-implement the
Base logic. Mirrored function by function, with the **regex outcomes as inputs** (which groups matched, what the
culture tables made of them) and the string classifiers of the two configuration classes modelled on the strings
themselves:

* `chinese/date_parser_config.py`: `get_swift_day`
* `chinese/date_parser.py`: `parse_implicit_date` (the `SpecialDate` branch 十二日 / 本月十一日 / 明年这个月三日 with
  `get_month_max_day` / `is_valid_date`; special days 今天 / 明天 / 后天 / 大后天 / 昨天 / 前天 / 大前天; 这 / 下 / 上 + weekday;
  bare weekday), `parser_duration_with_ago_and_later` (N天前 / N周后 / N个月前 / N年后), `convert_chinese_year_to_number`
* `chinese/dateperiod_parser_config.py`: `get_swift_day_or_month`, `get_swift_year`, `is_year_to_date`, `is_week_only`,
  `is_weekend`, `is_month_only`, `is_year_only`
* `chinese/dateperiod_parser.py`: `_parse_simple_cases` (5月1日到5日), `BaseDatePeriodParser._parse_one_word_period` as it
  runs under the Chinese configuration (这周 / 下个月 / 去年 / 今年 / 明年五月 / 五月), `__parse_common_duration_with_unit`
  (前3天 / 未来两周, reached from `_parse_number_with_unit` and `_parse_duration`), `_parse_year`, `_convert_year`,
  `_parse_year_to_year`, `_parse_year_and_month`, `_parse_quarter`, `_parse_season`, `_compute_date` /
  `_get_week_of_month` (the Chinese overrides)
* `chinese/duration_parser.py`: `parse` (number × unit)
* `chinese/datetime_parser.py`: `_merge_date_and_time`, `_parse_time_of_today` (the arithmetic)

Strings handed to a classifier are `source.strip().lower()` (Chinese text has no case). `regex.search` of the three prefix
patterns `这个|这一个|这|这一|本`, `下个|下一个|下|下一`, `上个|上一个|上|上一` is "contains 这 or 本" / "contains 下" / "contains 上".
Results: `DRes` for a date (timex, future, past), `Periods.Res` for a range. `raises` = the Python code raises
(`OverflowError`, `ValueError` of `datetime.replace` / `datetime(...)`).
-/
namespace RTV.ZhDT
open RTV.Cal RTV.DateUtils RTV.WF

/-! ### code points -/
def cJin : Nat := 20170      -- 今
def cTian : Nat := 22825     -- 天
def cRi : Nat := 26085       -- 日
def cMing : Nat := 26126     -- 明
def cZuo : Nat := 26152      -- 昨
def cDa : Nat := 22823       -- 大
def cHou : Nat := 21518      -- 后
def cHouT : Nat := 24460     -- 後
def cQian : Nat := 21069     -- 前
def cNian : Nat := 24180     -- 年
def cQu : Nat := 21435       -- 去
def cXia : Nat := 19979      -- 下
def cShang : Nat := 19978    -- 上
def cGe : Nat := 20010       -- 个
def cZhe : Nat := 36825      -- 这
def cBen : Nat := 26412      -- 本
def cZhou : Nat := 21608     -- 周
def cXing : Nat := 26143     -- 星
def cQi : Nat := 26399       -- 期
def cMo : Nat := 26411       -- 末
def cYue : Nat := 26376      -- 月

/-- What a date-parsing function yields. -/
inductive DRes
  | raises
  | noResult
  | ok (timex : Str) (future past : DateTime)
deriving DecidableEq, Repr

def pStartsWith (s p : Str) : Bool := s.take p.length = p
def pEndsWith (s p : Str) : Bool := p.length ≤ s.length && s.drop (s.length - p.length) = p

/-! ## `ChineseDateParserConfiguration.get_swift_day` -/

def swiftDay (s : Str) : Int :=
  if s = [cJin, cTian] ∨ s = [cJin, cRi] ∨ s = [26368, 36817] then 0            -- 今天 今日 最近
  else if pStartsWith s [cMing] then 1                                           -- 明…
  else if pStartsWith s [cZuo] then -1                                           -- 昨…
  else if s = [cDa, cHou, cTian] ∨ s = [cDa, cHouT, cTian] then 3                -- 大后天 大後天
  else if s = [cDa, cQian, cTian] then -3                                        -- 大前天
  else if s = [cHou, cTian] ∨ s = [cHouT, cTian] then 2                          -- 后天 後天
  else if s = [cQian, cTian] then -2                                             -- 前天
  else 0

/-! ## `ChineseDateParser.parse_implicit_date` -/

/-- special-day branch: `value = reference + timedelta(days=swift)`; TIMEX = the date of `value`; future = past =
`safe_create_from_min_value(value.year, value.month, value.day)` (midnight). -/
def zhSpecialDay (ref : DateTime) (swift : Int) : DRes :=
  match addDays ref swift with
  | none => .raises
  | some value =>
    let v := safeCreateFromMinValue value.date.y value.date.m value.date.d
    .ok (luisDateOf value) v v

inductive Rel | this | next | last
deriving DecidableEq, Repr

/-- 这周三 / 下周一 / 上周五: `DateUtils.this / next / last (reference, day_of_week[weekday])`, time of day kept. -/
def relWeekday (rel : Rel) (ref : DateTime) (dow : Nat) : DRes :=
  match (match rel with
         | .this => DateUtils.this ref dow
         | .next => DateUtils.next ref dow
         | .last => DateUtils.last ref dow) with
  | none => .raises
  | some v => .ok (luisDateOf v) v v

/-- bare weekday 周五 (unlike the Base parser the two candidates keep the reference's time of day). -/
def zhBareWeekday (ref : DateTime) (dow : Nat) : DRes :=
  match DateUtils.this ref dow with
  | none => .raises
  | some value0 =>
    let weekday := if dow == 0 then 7 else dow
    match (if weekday < ref.date.isoWeekday then DateUtils.next ref weekday else some value0) with
    | none => .raises
    | some value =>
      match (if value.lt ref then addDays value 7 else some value),
            (if ref.le value then addDays value (-7) else some value) with
      | some f, some p => .ok ([88, 88, 88, 88, 45, 87, 88, 88, 45] ++ Py.natStr weekday) f p
      | _, _ => .raises

/-- `get_month_max_day(year, month)` for `1 ≤ month ≤ 12` (`month_max_days[month - 1]`, February 29 → 28 in a
non-leap year by `DateUtils.is_leap_year`). -/
def monthMaxDay (year : Int) (month : Nat) : Nat :=
  let base := match month with
    | 1 => 31 | 2 => 29 | 3 => 31 | 4 => 30 | 5 => 31 | 6 => 30 | 7 => 31 | 8 => 31 | 9 => 30 | 10 => 31 | 11 => 30 | _ => 31
  if !isLeapYear year && month == 2 then base - 1 else base

/-- `ChineseDateParser.is_valid_date(year, month, day)` (`month` may be 0 or 13). -/
def isValidDateZh (year : Int) (month : Int) (day : Nat) : Bool :=
  let (year, month) : Int × Int := if month < 1 then (year - 1, 12) else (year, month)
  let (year, month) : Int × Int := if month > 12 then (year + 1, 1) else (year, month)
  isValidDate year month.toNat day

/-- the `SpecialDate` branch. `day` = `day_of_month[day_str]` (32 for 初一); `monthRel` = `some k` when the `thismonth`
group matched (k = +1 for a next-prefix, −1 for a last-prefix, 0 otherwise); `yearRel` likewise for `thisyear`
(only looked at when the month group matched). -/
def specialDate (ref : DateTime) (day : Nat) (monthRel yearRel : Option Int) : DRes :=
  let m0 : Int := ref.date.m
  let y0 : Int := ref.date.y
  let hasMonth := monthRel.isSome
  let (month, year1) : Int × Int :=
    match monthRel with
    | some k =>
      if k = 1 then (if m0 + 1 = 13 then (1, y0 + 1) else (m0 + 1, y0))
      else if k = -1 then (if m0 - 1 = 0 then (12, y0 - 1) else (m0 - 1, y0))
      else (m0, y0)
    | none => (m0, y0)
  let hasYear := hasMonth && yearRel.isSome
  let year : Int := if hasYear then year1 + yearRel.getD 0 else year1
  let mN := month.toNat
  let timex : Str :=
    (if hasYear then pad 4 year.toNat else [88, 88, 88, 88]) ++ [45] ++
    (if hasYear || hasMonth then pad 2 mN else [88, 88]) ++ [45] ++ pad 2 day
  if day > monthMaxDay year mN then
    let (fm, fy) : Int × Int := if month + 1 = 13 then (1, year + 1) else (month + 1, year)
    let (pm, py) : Int × Int := if month - 1 = 0 then (12, year - 1) else (month - 1, year)
    let fv := isValidDate fy fm.toNat day
    let pv := isValidDate py pm.toNat day
    if fv && pv then .ok timex (safeCreateFromMinValue fy fm.toNat day) (safeCreateFromMinValue py pm.toNat day)
    else if fv && !pv then .ok timex (safeCreateFromMinValue fy fm.toNat day) (safeCreateFromMinValue fy fm.toNat day)
    else if !fv && !pv then .ok timex (safeCreateFromMinValue py pm.toNat day) (safeCreateFromMinValue py pm.toNat day)
    else .ok timex (safeCreateFromMinValue year mN day) (safeCreateFromMinValue year mN day)
  else
    let d0 := safeCreateFromMinValue year mN day
    if !hasMonth then
      let fut : Option DateTime :=
        if d0.lt ref && isValidDateZh year (month + 1) day then addDelta d0 0 1 0 else some d0
      let past : Option DateTime :=
        if ref.le d0 then
          (if isValidDateZh year (month - 1) day then addDelta d0 0 (-1) 0
           else if month - 1 = 2 ∧ day = 29 then addDelta d0 0 (-2) 0 else some d0)
        else some d0
      match fut, past with
      | some f, some p => .ok timex f p
      | _, _ => .raises
    else if !hasYear then
      let fut : Option DateTime :=
        if d0.lt ref && isValidDateZh (year + 1) month day then addDelta d0 1 0 0 else some d0
      let past : Option DateTime :=
        if ref.le d0 && isValidDateZh (year - 1) month day then addDelta d0 (-1) 0 0 else some d0
      match fut, past with
      | some f, some p => .ok timex f p
      | _, _ => .raises
    else .ok timex d0 d0

/-! ## `ChineseDateParser.parser_duration_with_ago_and_later` (N天前 / N周后 / N个月前 / N年后) -/

/-- `unit_map[src_unit]`: `D`, `W`, `MON`, `Y`, anything else. -/
inductive AUnit | D | W | MON | Y | other
deriving DecidableEq, Repr

/-- `datetime.replace(month=m)`: `none` = ValueError. -/
def replaceMonth (x : DateTime) (m : Int) : Option DateTime :=
  if 1 ≤ m ∧ m ≤ 12 ∧ (⟨x.date.y, m.toNat, x.date.d⟩ : Date).valid = true then
    some ⟨⟨x.date.y, m.toNat, x.date.d⟩, x.secs⟩
  else none

/-- `parser_duration_with_ago_and_later` as it was BEFORE `fix: Chinese 'N 个月前 / 年后' shift by N months / years`
(findings/zhdt/zh-ago-month-year-number-ignored.diff). `number` = `parse_chinese_written_number_to_value(number_str)`
(−1 when the integer extractor finds nothing); `before` / `after` = the suffix after the duration starts with a match of
`BeforeRegex` / `AfterRegex` (before is tested first). Days and weeks are arithmetic on the reference; for months and
years the pre-fix code called `reference.replace(month=reference.month ∓ 1)` / `replace(year=reference.year ∓ 1)` —
**the number was not used**. Kept as the labelled pre-fix variant (regression witness `zh_months_years_prefix_regression`). -/
def agoLaterPreFix (ref : DateTime) (u : AUnit) (number : Int) (before after : Bool) : DRes :=
  let fin (o : Option DateTime) : DRes :=
    match o with
    | none => .raises
    | some d => .ok (luisDateOf d) d d
  if before then
    match u with
    | .D => fin (addDays ref (-number))
    | .W => fin (addDays ref (-7 * number))
    | .MON => fin (replaceMonth ref ((ref.date.m : Int) - 1))
    | .Y => fin (replaceYear ref ((ref.date.y : Int) - 1))
    | .other => .noResult
  else if after then
    match u with
    | .D => fin (addDays ref number)
    | .W => fin (addDays ref (7 * number))
    | .MON => fin (replaceMonth ref ((ref.date.m : Int) + 1))
    | .Y => fin (replaceYear ref ((ref.date.y : Int) + 1))
    | .other => .noResult
  else .noResult

/-- `parser_duration_with_ago_and_later` of the repaired code: months and years go through
`reference + datedelta(months=∓number)` / `datedelta(years=∓number)` (like the C# original's `AddMonths` / `AddYears`);
days and weeks as before. -/
def agoLater (ref : DateTime) (u : AUnit) (number : Int) (before after : Bool) : DRes :=
  let fin (o : Option DateTime) : DRes :=
    match o with
    | none => .raises
    | some d => .ok (luisDateOf d) d d
  if before then
    match u with
    | .MON => fin (addDelta ref 0 (-number) 0)
    | .Y => fin (addDelta ref (-number) 0 0)
    | u => agoLaterPreFix ref u number true after
  else if after then
    match u with
    | .MON => fin (addDelta ref 0 number 0)
    | .Y => fin (addDelta ref number 0 0)
    | u => agoLaterPreFix ref u number false true
  else .noResult

/-! ## year conversion (`convert_chinese_year_to_number`, `_convert_year`) -/

/-- the digit-by-digit reading: `for char in source: year = year * 10 (+ value of char when it is a numeral)`. -/
def digitFold (digits : List (Option Int)) : Int :=
  digits.foldl (fun acc d => acc * 10 + d.getD 0) 0

/-- `ChineseDateParser.convert_chinese_year_to_number` without a dynasty year: `whole` = the value of the first integer
the extractor finds in the text (0 when none), `digits` = per character the value of that character as a numeral. -/
def convertYearDate (whole : Int) (digits : List (Option Int)) : Int :=
  let year := if whole < 10 then digitFold digits else whole
  if year < 10 then -1 else year

/-- `ChineseDatePeriodParser._convert_year(year_str, is_chinese=True)` without a dynasty year. -/
def convertYearPeriod (whole : Int) (digits : List (Option Int)) : Int :=
  let year := if whole < 10 then digitFold digits else whole
  if year = 0 then -1 else year

/-- the pivot shared by `_parse_year_and_month`, `_parse_season`, `_parse_quarter`, `__sanitize_year`:
90..99 → 19xx, below 20 → 20xx, 20..89 untouched. -/
def adjust9020 (y : Int) : Int :=
  if 90 ≤ y ∧ y < 100 then y + 1900 else if y < 100 ∧ y < 20 then y + 2000 else y

/-- `f'{year:04d}'` for any `int`. -/
def fmt04 (y : Int) : Str :=
  if y < 0 then [45] ++ Py.zfill 3 (Py.natStr y.natAbs) else pad 4 y.toNat

def fmt02 (y : Int) : Str :=
  if y < 0 then [45] ++ Py.zfill 1 (Py.natStr y.natAbs) else pad 2 y.toNat

/-! ## `ChineseDatePeriodParserConfiguration` classifiers -/

def hasThis (s : Str) : Bool := s.any fun c => c == cZhe || c == cBen
def hasNext (s : Str) : Bool := s.any fun c => c == cXia
def hasPrev (s : Str) : Bool := s.any fun c => c == cShang

/-- `get_swift_day_or_month` -/
def swiftDayOrMonth (s : Str) : Int :=
  if pEndsWith s [cQu, cNian] then -1
  else if pEndsWith s [cMing, cNian] then 1
  else if pEndsWith s [cQian, cNian] then -2
  else if pEndsWith s [cHou, cNian] then 2
  else if pStartsWith s [cXia, cGe] then 1
  else if pStartsWith s [cShang, cGe] then -1
  else if hasThis s then 0
  else if hasNext s then 1
  else if hasPrev s then -1
  else 0

/-- `get_swift_year` -/
def swiftYear (s : Str) : Int :=
  if pStartsWith s [cMing, cNian] then 1
  else if pStartsWith s [cQu, cNian] then -1
  else if pStartsWith s [cJin, cNian] then 0
  else -10

def isYearToDate (s : Str) : Bool := s = [cJin, cNian]
def isWeekOnly (s : Str) : Bool := pEndsWith s [cZhou] || pEndsWith s [cXing, cQi]
def isWeekend (s : Str) : Bool := pEndsWith s [cZhou, cMo]
def isMonthOnly (s : Str) : Bool := pEndsWith s [cYue]
def isYearOnly (s : Str) : Bool := pEndsWith s [cNian]
/-- `is_future(month_str)`: a this- or next-prefix occurs -/
def isFuture (s : Str) : Bool := hasThis s || hasNext s

/-! ## `_parse_one_word_period` under the Chinese configuration -/

def ofTriple (o : Option (Str × DateTime × DateTime)) : Periods.Res :=
  match o with
  | none => .raises
  | some (t, b, e) => .ok t b e b e

/-- the common tail of the month branches: `[1st of the month, + datedelta(months=1))` for the future and the past year. -/
def monthTail (timex : Str) (fy py : Int) (month : Nat) : Periods.Res :=
  match addDelta (Periods.mk fy month 1) 0 1 0, addDelta (Periods.mk py month 1) 0 1 0 with
  | some fe, some pe => .ok timex (Periods.mk fy month 1) fe (Periods.mk py month 1) pe
  | _, _ => .raises

/-- `src` = `source.strip().lower()` (it matched `OneWordPeriodRegex` exactly); `monthGroup` =
`month_of_year.get(month_str)` when the `month` group matched (13 for 正月 — not reduced). No early / mid / late
groups exist in the Chinese pattern. Order of the tests as in the code: year-to-date (今年), month (with 明年 / 去年 /
今年), week (ends with 周 / 星期), weekend (周末), month (月), year (年); a text that passes the pattern but none of
the classifiers (下週) falls through to "this month" with no TIMEX. -/
def oneWord (ref : DateTime) (src : Str) (monthGroup : Option Nat) : Periods.Res :=
  let y : Int := ref.date.y
  if isYearToDate src then
    let r := yearToDate ref
    .ok r.1 r.2.1 r.2.2 r.2.1 r.2.2
  else
    match monthGroup with
    | some month =>
      let swift := swiftYear src
      if swift ≥ -1 then monthTail (fmt04 (y + swift) ++ [45] ++ pad 2 month) (y + swift) (y + swift) month
      else monthTail ([88, 88, 88, 88, 45] ++ pad 2 month)
             (if month < ref.date.m then y + 1 else y) (if month ≥ ref.date.m then y - 1 else y) month
    | none =>
      let swift := swiftDayOrMonth src
      if isWeekOnly src then ofTriple (weekPeriod ref swift)
      else if isWeekend src then ofTriple (weekendPeriod ref swift)
      else if isMonthOnly src then ofTriple (monthPeriod ref swift)
      else if isYearOnly src then ofTriple (yearPeriod ref swift)
      else monthTail [] y y ref.date.m

/-! ## `_parse_simple_cases` (5月1日到5日, 这个月1日到5日, 2019年5月1日到5日) -/

/-- `monthNamed` = `month_of_year[month_str]` when the `month` group matched; otherwise the `relmonth` group matched and
`relSwift` = `get_swift_day_or_month(rel)`. `isFut` = `is_future(month_str)` of whichever string was used.
`yearStr` = `int(year_str)` when the `year` group matched.
`fixed = false` is the code BEFORE `fix: Chinese 'this/next/last month D1 to D2' stays in that month`
(findings/zhdt/zh-simple-cases-relative-month.diff): the month window of a relative month was `< 0 → 0`, `> 11 → 11` (a port
of 0-based month arithmetic onto 1-based months) and `no_year` was set for a relative month too, so `generate_dates` moved
the values into another year than the (definite) TIMEX. `fixed = true`: window `< 1 → December of the year before`,
`> 12 → January of the year after`, and `no_year` only for a named month without a year. -/
def simpleCasesG (fixed : Bool) (ref : DateTime) (beginDay endDay : Nat) (monthNamed : Option Nat) (relSwift : Int)
    (isFut : Bool) (yearStr : Option Int) : Periods.Res :=
  let y0 : Int := ref.date.y
  let (year0, month) : Int × Nat :=
    match monthNamed with
    | some m => (y0, m)
    | none =>
      let m : Int := (ref.date.m : Int) + relSwift
      if fixed then (if m < 1 then (y0 - 1, 12) else if m > 12 then (y0 + 1, 1) else (y0, m.toNat))
      else (if m < 0 then (y0 - 1, 0) else if m > 11 then (y0 + 1, 11) else (y0, m.toNat))
  let year : Int := yearStr.getD year0
  let inputYear := yearStr.isSome
  let noYear := if fixed then !inputYear && monthNamed.isSome else !inputYear
  let ly : Option Int := if inputYear || isFut then some year else none
  let fb := generateDates noYear ref year month beginDay
  let fe := generateDates noYear ref year month endDay
  .ok ([40] ++ Periods.luis ly month beginDay ++ [44] ++ Periods.luis ly month endDay ++ [44, 80] ++
        Periods.intStr ((endDay : Int) - beginDay) ++ [68, 41]) fb.1 fe.1 fb.2 fe.2

/-- the repaired code -/
def simpleCases := simpleCasesG true
def simpleCasesPreFix := simpleCasesG false

/-! ## `__parse_common_duration_with_unit` (前3天, 未来两周, 过去3个月, 后三年) -/

/-- `u` = `unit_map[unit]` as a `PerUnit` (`none` = hours etc.: no result); `num` = the number (`float(num)` is
integral for the texts modelled; −1 when `__convert_chinese_to_number` finds nothing); `hasPast` / `hasFuture` = the
text before the number is exactly a match of `PastRegex` / `FutureRegex`. -/
def commonDuration (ref : DateTime) (u : Option Periods.PerUnit) (num : Int) (hasPast hasFuture : Bool) : Periods.Res :=
  if !hasFuture && !hasPast then .noResult
  else
    match u with
    | none => .noResult
    | some u =>
      let shift (x : DateTime) (k : Int) : Option DateTime :=
        match u with
        | .D => addDays x k
        | .W => addDays x (7 * k)
        | .M => addDelta x 0 k 0
        | .Y => addDelta x k 0 0
      let b0 := if hasPast then shift ref (-num) else some ref
      let e0 := if hasFuture then shift ref num else some ref
      let b1 := if hasFuture then b0.bind (addDays · 1) else b0
      let e1 := if hasFuture then e0.bind (addDays · 1) else e0
      match b1, e1 with
      | some b, some e =>
        .ok ([40] ++ Periods.luisOf b ++ [44] ++ Periods.luisOf e ++ [44, 80] ++ Periods.intStr num ++ [u.letter, 41]) b e b e
      | _, _ => .raises

/-! ## `_parse_year`, `_parse_year_to_year`, `_parse_year_and_month`, `_parse_quarter`, `_parse_season` -/

/-- `_parse_year`: `len` = `len(year_str)` after the trailing 年 is cut, `year0` = `_convert_year(year_str, …)`;
two characters: 30..99 → 19xx, below 30 → 20xx. -/
def zhParseYear (len : Nat) (year0 : Int) : Periods.Res :=
  let year := if len = 2 then (if 30 ≤ year0 ∧ year0 < 100 then year0 + 1900 else if year0 < 30 then year0 + 2000 else year0)
              else year0
  .ok (fmt04 year) (Periods.mk year 1 1) (Periods.mk (year + 1) 1 1) (Periods.mk year 1 1) (Periods.mk (year + 1) 1 1)

/-- `_parse_year_to_year` after the two years are read. -/
def yearToYear (beginYear endYear : Int) : Periods.Res :=
  let b := Periods.mk (adjust9020 beginYear) 1 1
  let e := Periods.mk (adjust9020 endYear) 1 1
  .ok ([40] ++ Periods.luisOf b ++ [44] ++ Periods.luisOf e ++ [44, 80] ++ Periods.intStr (adjust9020 endYear - adjust9020 beginYear) ++ [89, 41]) b e b e

/-- `_parse_year_and_month`: `year0` = the year read (number, Chinese numerals or reference year + relative swift);
`monthVal` = `month_of_year.get(month_str, 0)`. -/
def yearAndMonth (year0 : Int) (monthVal : Nat) : Periods.Res :=
  let year := adjust9020 year0
  let month := if monthVal % 12 = 0 then 12 else monthVal % 12
  match addDelta (Periods.mk year month 1) 0 1 0 with
  | none => .raises
  | some e => .ok (fmt04 year ++ [45] ++ pad 2 month) (Periods.mk year month 1) e (Periods.mk year month 1) e

/-- `_parse_quarter`: `q` = `cardinal_map[cardinal]`. `fixed = false` is the code BEFORE `fix: the fourth quarter ends on
1 January of the next year` (findings/zhdt/zh-quarter-4-end.diff): the end was `safe_create_from_min_value(year, q * 3 + 1, 1)`
— month 13 for the fourth quarter, i.e. `0001-01-01`. `fixed = true`: `end = begin + datedelta(months=3)`. -/
def zhQuarterG (fixed : Bool) (year0 : Int) (q : Nat) : Periods.Res :=
  let year := adjust9020 year0
  let b := Periods.mk year (q * 3 - 2) 1
  let tx (e : DateTime) : Str := [40] ++ Periods.luisOf b ++ [44] ++ Periods.luisOf e ++ [44, 80, 51, 77, 41]
  if fixed then
    match addDelta b 0 3 0 with
    | none => .raises
    | some e => .ok (tx e) b e b e
  else
    let e := Periods.mk year (q * 3 + 1) 1
    .ok (tx e) b e b e

/-- the repaired code -/
def zhQuarter := zhQuarterG true
def zhQuarterPreFix := zhQuarterG false

/-- `_parse_season`: only a TIMEX (`f'{year:02d}-{season}'` when a year is present, otherwise none). -/
def zhSeasonTimex (year0 : Option Int) (season : Str) : Str :=
  match year0 with
  | some y => fmt02 (adjust9020 y) ++ [45] ++ season
  | none => []

/-! ## the Chinese `_compute_date` / `_get_week_of_month` -/

/-- `_compute_date(cardinal, DayOfWeek.MONDAY … , month, year)` of `ChineseDatePeriodParser` (Sunday counts as 0 when
the first day of the month is compared with the wanted weekday). -/
def zhComputeDate (cardinal : Int) (weekday : Nat) (month : Nat) (year : Int) : Option DateTime :=
  if isValidDate year month 1 then
    let first : DateTime := ⟨⟨year.toNat, month, 1⟩, 0⟩
    (DateUtils.this first weekday).bind fun fw0 =>
    let wd := if weekday == 0 then 7 else weekday
    let fdow := if first.date.isoWeekday == 7 then 0 else first.date.isoWeekday
    (if wd < fdow then DateUtils.next first wd else some fw0).bind fun fw =>
    addDays fw (7 * (cardinal - 1))
  else none

def zhGetWeekOfMonth (ref : DateTime) (cardinal : Int) (month : Nat) (year : Int) (noYear : Bool) : Periods.Res :=
  match zhComputeDate cardinal 1 month year with
  | none => .raises
  | some seed =>
    let back (d : DateTime) : Option DateTime := if d.date.m ≠ month then addDays d (-7) else some d
    let fut := if noYear && seed.lt ref then (zhComputeDate cardinal 1 month (year + 1)).bind back else some seed
    let past := if noYear && ref.le seed then (zhComputeDate cardinal 1 month (year - 1)).bind back else some seed
    match fut, past with
    | some f, some p =>
      match addDays f 7, addDays p 7 with
      | some fe, some pe =>
        .ok ((if noYear then [88, 88, 88, 88] else fmt04 year) ++ [45] ++ pad 2 month ++ [45, 87] ++ fmt02 cardinal) f fe p pe
      | _, _ => .raises
    | _, _ => .raises

/-! ## `ChineseDurationParser.parse` -/

/-- `time_value = int(float(number_str) * unit_value_map[unit_str])` for an integral number; TIMEX
`P[T]<number><first letter of the unit>`. -/
def durationValue (number : Nat) (unitSeconds : Nat) : Nat := number * unitSeconds

def durationTimexZh (lessThanDay : Bool) (numberStr : Str) (unitLetter : Nat) : Str :=
  [80] ++ (if lessThanDay then [84] else []) ++ numberStr ++ [unitLetter]

/-! ## `ChineseDateTimeParser._merge_date_and_time` / `_parse_time_of_today` (the arithmetic) -/

/-- the hour shift: `pm` / `am` = `pm_time_regex` / `am_time_regex` found in the text. -/
def shiftHour (hour : Nat) (pm am : Bool) : Nat :=
  if pm && hour < 12 then hour + 12 else if am && hour ≥ 12 then hour - 12 else hour

/-- `datetime(date.year, date.month, date.day, hour, minute, second)` of the date parser's value with the time parser's
value: `(future, past)`; `none` = ValueError. -/
def mergeDateAndTime (future past : DateTime) (hour minute second : Nat) (pm am : Bool) : Option (DateTime × DateTime) :=
  let h := shiftHour hour pm am
  if h < 24 ∧ minute < 60 ∧ second < 60 ∧ future.date.valid = true ∧ past.date.valid = true then
    some (⟨future.date, h * 3600 + minute * 60 + second⟩, ⟨past.date, h * 3600 + minute * 60 + second⟩)
  else none

/-- `_parse_time_of_today`: the date is `reference + swift days`, the hour comes from `get_hour(match, hour)`;
TIMEX date part = `format_date(date)`. -/
def timeOfToday (ref : DateTime) (swift : Int) (hour minute second : Nat) : Option (Str × DateTime) :=
  (addDays ref swift).bind fun date =>
  if hour < 24 ∧ minute < 60 ∧ second < 60 then
    some (luisDateOf date, ⟨date.date, hour * 3600 + minute * 60 + second⟩)
  else none

end RTV.ZhDT
