import RTV.Model.WellFormed
/-
C11 ("when the TIMEX is fully definite the value equals it") for RANGE values: a `daterange` whose TIMEX names a
definite calendar period — an ISO week `YYYY-Www`, its weekend `YYYY-Www-WE`, a month `YYYY-MM`, a year `YYYY` — and
that carries no modifier must span exactly that period, as the half-open range `[first day, first day after)`.
Import-free apart from `RTV.Model.WellFormed` (→ `RTV.Model.Cal`).
-/
namespace RTV.DefRange
open RTV.Cal RTV.WF

/-- the calendar period a definite range TIMEX names: ordinals of its first day and of the first day after it -/
def periodOf (timex : Str) : Option (Nat × Nat) :=
  match timex with
  | [a, b, c, d] =>                                          -- YYYY
    (digitsN 4 [a, b, c, d]).bind fun y =>
      if 1 ≤ y ∧ y < 9999 then some ((⟨y, 1, 1⟩ : Date).ord, (⟨y + 1, 1, 1⟩ : Date).ord) else none
  | [a, b, c, d, 45, e, f] =>                                -- YYYY-MM
    match digitsN 4 [a, b, c, d], digitsN 2 [e, f] with
    | some y, some m =>
      if 1 ≤ y ∧ y < 9999 ∧ 1 ≤ m ∧ m ≤ 12 then
        some ((⟨y, m, 1⟩ : Date).ord, if m = 12 then (⟨y + 1, 1, 1⟩ : Date).ord else (⟨y, m + 1, 1⟩ : Date).ord)
      else none
    | _, _ => none
  | [a, b, c, d, 45, 87, e, f] =>                            -- YYYY-Www
    match digitsN 4 [a, b, c, d], digitsN 2 [e, f] with
    | some y, some w =>
      if 1 ≤ y ∧ y < 9999 ∧ 1 ≤ w ∧ w ≤ 53 then
        let m := isoWeek1Monday y + 7 * (w - 1)
        some (m, m + 7)
      else none
    | _, _ => none
  | [a, b, c, d, 45, 87, e, f, 45, 87, 69] =>                -- YYYY-Www-WE
    match digitsN 4 [a, b, c, d], digitsN 2 [e, f] with
    | some y, some w =>
      if 1 ≤ y ∧ y < 9999 ∧ 1 ≤ w ∧ w ≤ 53 then
        let m := isoWeek1Monday y + 7 * (w - 1)
        some (m + 5, m + 7)
      else none
    | _, _ => none
  | _ => none

/-- the predicate. `hasMod` = the value carries a `Mod` key (early/late/before/after/since … narrow or open the range:
never constrained). Without a modifier the emitted `[start, end)` must lie INSIDE the period the TIMEX names ("later
this week", "year to date" are emitted by every platform as a sub-range of the named week / year without a `Mod` key);
with `strict` (the caller knows the expression is a plain period: "this week", "next month", "2019") it must BE the period. -/
def rangeDefiniteOK (hasMod strict : Bool) (v : Value) : Bool :=
  if hasMod || v.type ≠ sDateRange then true
  else match v.start, v.stop, periodOf v.timex with
    | some s, some e, some (b, a) =>
      if strict then s == formatDate (Date.ofOrd b) && e == formatDate (Date.ofOrd a)
      else match parseDate s, parseDate e with
        | some ds, some de => decide (b ≤ ds.ord) && decide (de.ord ≤ a)
        | _, _ => true                       -- ill-formed ends are `shapeOK`'s business
    | _, _, _ => true

end RTV.DefRange
