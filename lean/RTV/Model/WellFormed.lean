import RTV.Model.Cal
/-
Spec predicates of C10 / C11 on the *observable output* of the date-time model (one resolution value =
`type`, `timex`, and the fields `value` / `start` / `end`), plus the formatting functions of
`DateTimeFormatUtil` that produce those strings (`format_date`, `format_time`, `luis_date`, `luis_time`,
`luis_time_span`) so that theorems can say "what the code emits is well formed".
Strings are lists of code points. Import-free apart from `RTV.Model.Cal`.
-/
namespace RTV.WF
open RTV.Cal

abbrev Str := List Nat

def isDigit (c : Nat) : Bool := 48 ≤ c && c ≤ 57

/-- exactly `n` ASCII digits → their value -/
def digitsN (n : Nat) (s : Str) : Option Nat :=
  if s.length = n ∧ s.all isDigit then some (s.foldl (fun a c => a * 10 + (c - 48)) 0) else none

/-- one or more ASCII digits → value -/
def digits (s : Str) : Option Nat :=
  if s ≠ [] ∧ s.all isDigit then some (s.foldl (fun a c => a * 10 + (c - 48)) 0) else none

/-- `f'{n:02d}'` for `n < 100` (the only values the modelled code formats: month, day, hour, minute, second) -/
def pad2 (n : Nat) : Str := [48 + n / 10 % 10, 48 + n % 10]
/-- `f'{y:04d}'` for `y < 10000` (`datetime.year ≤ 9999`) -/
def pad4 (y : Nat) : Str := [48 + y / 1000 % 10, 48 + y / 100 % 10, 48 + y / 10 % 10, 48 + y % 10]

/-- decimal digits of `n` (fuel-bounded so that it is structurally recursive; `natStr` uses enough fuel) -/
def natDigits : Nat → Nat → Str
  | 0, _ => []
  | fuel + 1, n => if n < 10 then [48 + n] else natDigits fuel (n / 10) ++ [48 + n % 10]

/-- `str(n)` for a natural number -/
def natStr (n : Nat) : Str := natDigits (n + 1) n

/-- `DateTimeFormatUtil.format_date` / `luis_date` with a definite year: `f'{y:04d}-{m:02d}-{d:02d}'` -/
def formatDate (x : Date) : Str := pad4 x.y ++ [45] ++ pad2 x.m ++ [45] ++ pad2 x.d
/-- `format_time`: `f'{h:02d}:{m:02d}:{s:02d}'` -/
def formatTime (h m s : Nat) : Str := pad2 h ++ [58] ++ pad2 m ++ [58] ++ pad2 s
/-- `format_date_time` -/
def formatDateTime (x : Date) (h m s : Nat) : Str := formatDate x ++ [32] ++ formatTime h m s

/-- `YYYY-MM-DD` naming a date that `datetime` accepts -/
def parseDate (s : Str) : Option Date :=
  match s with
  | [a, b, c, d, 45, e, f, 45, g, h] =>
    match digitsN 4 [a, b, c, d], digitsN 2 [e, f], digitsN 2 [g, h] with
    | some y, some m, some dd => let x : Date := ⟨y, m, dd⟩; if x.valid then some x else none
    | _, _, _ => none
  | _ => none

/-- `HH:MM:SS` with h < 24, m < 60, s < 60 → seconds since midnight -/
def parseTime (s : Str) : Option Nat :=
  match s with
  | [a, b, 58, c, d, 58, e, f] =>
    match digitsN 2 [a, b], digitsN 2 [c, d], digitsN 2 [e, f] with
    | some h, some m, some ss => if h < 24 ∧ m < 60 ∧ ss < 60 then some (h * 3600 + m * 60 + ss) else none
    | _, _, _ => none
  | _ => none

/-- `YYYY-MM-DD HH:MM:SS` -/
def parseDateTime (s : Str) : Option (Date × Nat) :=
  if s.length = 19 ∧ s.getD 10 0 = 32 then
    match parseDate (s.take 10), parseTime (s.drop 11) with
    | some d, some t => some (d, t)
    | _, _ => none
  else none

/-- longest prefix of ASCII digits and the rest (`List.span isDigit`, written structurally) -/
def spanDigits : Str → Str × Str
  | [] => ([], [])
  | c :: r => if isDigit c then ((c :: (spanDigits r).1), (spanDigits r).2) else ([], c :: r)

/-- a duration value: a decimal number of seconds (digits, optionally `.` digits). No sign: a length of time is not
negative (`'-259200'`, which the model emits for `-3 days` / TIMEX `P-3D`, is rejected), no exponent. -/
def isNumber (s : Str) : Bool :=
  match spanDigits s with
  | (ip, []) => !ip.isEmpty
  | (ip, 46 :: fp) => !ip.isEmpty && !fp.isEmpty && fp.all isDigit
  | _ => false

/-- A resolution value as emitted in `resolution['values'][i]`. -/
structure Value where
  type : Str
  timex : Str
  value : Option Str
  start : Option Str
  stop : Option Str

def sDate : Str := [100, 97, 116, 101]   -- 'date'
def sTime : Str := [116, 105, 109, 101]   -- 'time'
def sDateTime : Str := [100, 97, 116, 101, 116, 105, 109, 101]   -- 'datetime'
def sDuration : Str := [100, 117, 114, 97, 116, 105, 111, 110]   -- 'duration'
def sDateRange : Str := [100, 97, 116, 101, 114, 97, 110, 103, 101]   -- 'daterange'
def sTimeRange : Str := [116, 105, 109, 101, 114, 97, 110, 103, 101]   -- 'timerange'
def sDateTimeRange : Str := [100, 97, 116, 101, 116, 105, 109, 101, 114, 97, 110, 103, 101]   -- 'datetimerange'
def sSet : Str := [115, 101, 116]   -- 'set'
def sNotResolved : Str := [110, 111, 116, 32, 114, 101, 115, 111, 108, 118, 101, 100]   -- 'not resolved'

def optOk (p : Str → Bool) : Option Str → Bool
  | none => true
  | some s => p s

/-- C11 shape: the value has the shape its type promises. A value `'not resolved'` is always acceptable (it is what
the model emits instead of an invalid value). For ranges a missing end (open range through a before/after/since
modifier) is acceptable, a present one must be well formed; a pure date range with both ends must have
start strictly before end. -/
def shapeOK (v : Value) : Bool :=
  if v.value = some sNotResolved then true
  else if v.type = sDate then
    match v.value with | some s => (parseDate s).isSome | none => optOk (fun s => (parseDate s).isSome) v.start && optOk (fun s => (parseDate s).isSome) v.stop && (v.start.isSome || v.stop.isSome)
  else if v.type = sTime then
    match v.value with | some s => (parseTime s).isSome | none => optOk (fun s => (parseTime s).isSome) v.start && optOk (fun s => (parseTime s).isSome) v.stop && (v.start.isSome || v.stop.isSome)
  else if v.type = sDateTime then
    match v.value with | some s => (parseDateTime s).isSome | none => optOk (fun s => (parseDateTime s).isSome) v.start && optOk (fun s => (parseDateTime s).isSome) v.stop && (v.start.isSome || v.stop.isSome)
  else if v.type = sDuration then
    match v.value with | some s => isNumber s | none => false
  else if v.type = sDateRange then
    (v.start.isSome || v.stop.isSome) &&
    (match v.start, v.stop with
     | some a, some b =>
       (match parseDate a, parseDate b with
        | some x, some y => x.ord < y.ord
        | _, _ => false)
     | some a, none => (parseDate a).isSome
     | none, some b => (parseDate b).isSome
     | none, none => false)
  else if v.type = sTimeRange then
    (v.start.isSome || v.stop.isSome) &&
    optOk (fun s => (parseTime s).isSome) v.start && optOk (fun s => (parseTime s).isSome) v.stop
  else if v.type = sDateTimeRange then
    (v.start.isSome || v.stop.isSome) &&
    optOk (fun s => (parseDateTime s).isSome) v.start && optOk (fun s => (parseDateTime s).isSome) v.stop
  else if v.type = sSet then true
  else false

/-- decimal amount `N` or `N.F` as a rational (num, den) -/
def amount (s : Str) : Option (Nat × Nat) :=
  match spanDigits s with
  | (ip, []) => (digits ip).map (·, 1)
  | (ip, 46 :: fp) =>
    match digits ip, digits fp with
    | some a, some b => some (a * 10 ^ fp.length + b, 10 ^ fp.length)
    | _, _ => none
  | _ => none

inductive DUnit | Y | MON | W | D | H | MIN | S
deriving DecidableEq, Repr

/-- `P<n><U>` / `PT<n><U>` with a single unit → (amount, unit) -/
def parseDuration (s : Str) : Option ((Nat × Nat) × DUnit) :=
  match s with
  | 80 :: 84 :: rest =>
    match rest.getLast?, amount rest.dropLast with
    | some 72, some a => some (a, .H)
    | some 77, some a => some (a, .MIN)
    | some 83, some a => some (a, .S)
    | _, _ => none
  | 80 :: rest =>
    match rest.getLast?, amount rest.dropLast with
    | some 89, some a => some (a, .Y)
    | some 77, some a => some (a, .MON)
    | some 87, some a => some (a, .W)
    | some 68, some a => some (a, .D)
    | _, _ => none
  | _ => none

/-- `PT<a>H<b>M<c>S` (any subset, in this order or not; amounts may be decimals) → total seconds as a rational.
Fuel-bounded scan: amount, unit letter, repeat. `none` if anything else is met. -/
def ptSeconds : Nat → Str → Option (Nat × Nat)
  | 0, _ => none
  | _ + 1, [] => some (0, 1)
  | fuel + 1, s =>
    match spanDigits s with
    | (ip, 46 :: r) =>
      (match spanDigits r with
       | (fp, u :: rest) =>
         (match digits ip, digits fp, (if u = 72 then some 3600 else if u = 77 then some 60 else if u = 83 then some 1 else none),
                ptSeconds fuel rest with
          | some a, some b, some k, some (n, d) =>
            let den := 10 ^ fp.length
            some ((a * den + b) * k * d + n * den, den * d)
          | _, _, _, _ => none)
       | _ => none)
    | (ip, u :: rest) =>
      (match digits ip, (if u = 72 then some 3600 else if u = 77 then some 60 else if u = 83 then some 1 else none),
             ptSeconds fuel rest with
       | some a, some k, some (n, d) => some (a * k * d + n, d)
       | _, _, _ => none)
    | _ => none

/-- `THH`, `THH:MM`, `THH:MM:SS` (definite time TIMEX) → the `HH:MM:SS` it denotes, if in range -/
def timexTime (t : Str) : Option Str :=
  match t with
  | 84 :: rest =>
    let full : Option Str :=
      match rest with
      | [a, b] => some ([a, b] ++ [58, 48, 48, 58, 48, 48])
      | [a, b, 58, c, d] => some ([a, b, 58, c, d] ++ [58, 48, 48])
      | [a, b, 58, c, d, 58, e, f] => some [a, b, 58, c, d, 58, e, f]
      | _ => none
    match full with
    | some s => if (parseTime s).isSome then some s else none
    | none => none
  | _ => none

/-- seconds, as a rational `(num, den)`, denoted by a duration TIMEX whose length is fixed: `PT…` with one or several
H / M / S components, `P<n>D`, `P<n>W` (amounts may be decimals). Months and years (`P1M`, `P1Y`), open amounts (`PXD`),
signed amounts (`P-3D`) and calendar compounds denote no fixed number of seconds: `none`. -/
def durationSeconds (t : Str) : Option (Nat × Nat) :=
  match t with
  | 80 :: 84 :: rest => if rest = [] then none else ptSeconds (rest.length + 4) rest
  | _ =>
    match parseDuration t with
    | some ((n, d), .D) => some (n * 86400, d)
    | some ((n, d), .W) => some (n * 604800, d)
    | _ => none

/-- the point `YYYY-MM-DD HH:MM:SS` a definite datetime TIMEX `YYYY-MM-DDTHH[:MM[:SS]]` denotes -/
def timexDateTime (t : Str) : Option Str :=
  if t.length ≥ 13 ∧ t.getD 10 0 = 84 then
    match parseDate (t.take 10), timexTime (t.drop 10) with
    | some _, some s => some (t.take 10 ++ [32] ++ s)
    | _, _ => none
  else none

/-- C11 agreement: when the TIMEX is fully definite the value equals it.
* a plain `value` of a date / time / datetime whose TIMEX is `YYYY-MM-DD`, `THH[:MM[:SS]]`, `YYYY-MM-DDTHH[:MM[:SS]]`
  is that date / time / datetime;
* a `duration` value whose TIMEX has a fixed length (`durationSeconds`) is that number of seconds (compared as
  rationals: `PT1.5H` ↔ `5400`); a value that is not a decimal number does not equal it;
* a before / after / since / until modifier turns a point into an open range (`type` becomes the range type, the TIMEX
  stays the point's, exactly one of `start` / `end` is written): the end that is written is still the point the TIMEX
  names. -/
def definiteOK (v : Value) : Bool :=
  match v.value with
  | none =>
    if v.start.isSome != v.stop.isSome then
      let pt : Option Str :=
        if v.type = sDateRange then (parseDate v.timex).map fun _ => v.timex
        else if v.type = sTimeRange then timexTime v.timex
        else if v.type = sDateTimeRange then timexDateTime v.timex
        else none
      match pt with
      | some s => optOk (fun x => x = s) v.start && optOk (fun x => x = s) v.stop
      | none => true
    else true
  | some val =>
    if val = sNotResolved then true
    else if v.type = sDate then
      (match parseDate v.timex with | some _ => val = v.timex | none => true)
    else if v.type = sTime then
      (match timexTime v.timex with | some s => val = s | none => true)
    else if v.type = sDateTime then
      (match timexDateTime v.timex with | some s => val = s | none => true)
    else if v.type = sDuration then
      (match durationSeconds v.timex with
       | some (n, d) => (match amount val with | some (a, b) => a * d = n * b | none => false)
       | none => true)
    else true

/-- `p` occurs in `s` -/
def hasSub (s p : Str) : Bool := (List.range (s.length + 1)).any fun i => (s.drop i).take p.length = p

def sYear1 : Str := [48, 48, 48, 49, 45]   -- '0001-'

/-- C11 ("a non-existent date yields 'not resolved', never an invalid value"): the minimum date `0001-01-01` is the
implementation's marker for a date that does not exist, and a value computed FROM the marker (`0001-02-01` = marker plus
one month, `0001-01-08` = marker plus a week …) is as invalid as the marker itself.  No `value` / `start` / `end` may lie
in year 0001 unless the TIMEX itself names that year. -/
def sentinelOK (v : Value) : Bool :=
  let bad (o : Option Str) : Bool := match o with | some s => s.take 5 = sYear1 | none => false
  !(bad v.value || bad v.start || bad v.stop) || hasSub v.timex [48, 48, 48, 49]

def sPrefix : Str := [100, 97, 116, 101, 116, 105, 109, 101, 86, 50, 46]   -- 'datetimeV2.'

/-- C11: the entity's type name equals `datetimeV2.` ++ the type of (each of) its values. -/
def typeNameOK (typeName : Str) (vs : List Value) : Bool := vs.all fun v => typeName = sPrefix ++ v.type

def wellFormed (typeName : Str) (vs : List Value) : Bool :=
  typeNameOK typeName vs && vs.all fun v => shapeOK v && definiteOK v

/-! ### C10: `(start,end,duration)` TIMEX triples -/

def splitOn (sep : Nat) : Str → List Str
  | [] => [[]]
  | c :: rest =>
    if c = sep then [] :: splitOn sep rest
    else match splitOn sep rest with
      | [] => [[c]]
      | w :: ws => (c :: w) :: ws

/-- a definite point inside a triple: date, time, or datetime `YYYY-MM-DDTHH[:MM[:SS]]` → (ordinal or 0, seconds) -/
def parsePoint (s : Str) : Option (Option Date × Option Nat) :=
  match parseDate s with
  | some d => some (some d, none)
  | none =>
    match timexTime s with
    | some t => some (none, parseTime t)
    | none =>
      if s.length ≥ 13 ∧ s.getD 10 0 = 84 then
        match parseDate (s.take 10), timexTime (s.drop 10) with
        | some d, some t => some (some d, parseTime t)
        | _, _ => none
      else none

/-- seconds between two points of the same kind (`none` = different kinds); for two times of day the difference is
taken modulo 24 h (17:00 → 03:00 is ten hours). -/
def diffSeconds (a b : Option Date × Option Nat) : Option Int :=
  match a, b with
  | (some d1, none), (some d2, none) => some (((d2.ord : Int) - d1.ord) * 86400)
  | (none, some t1), (none, some t2) => some (((t2 : Int) - t1) % 86400)   -- a time-of-day range may cross midnight
  | (some d1, some t1), (some d2, some t2) => some (((d2.ord : Int) - d1.ord) * 86400 + ((t2 : Int) - t1))
  | _, _ => none

def unitSeconds : DUnit → Nat
  | .S => 1 | .MIN => 60 | .H => 3600 | .D => 86400 | .W => 604800 | .MON => 0 | .Y => 0

/-- C10: for a TIMEX `(A,B,P…)` whose two points are definite: A and B equal the resolved start / end and
B − A equals the duration. Months/years are calendar arithmetic: B = A shifted by n months (same day of month, or
both day 1), n integral. A triple with non-definite points, several units (`PT1H30M`) handled through seconds. -/
def tripleOK (timex : Str) (start stop : Option Str) : Bool :=
  if timex.head? = some 40 ∧ timex.getLast? = some 41 then
    match splitOn 44 ((timex.drop 1).dropLast) with
    | [a, b, p] =>
      match parsePoint a, parsePoint b with
      | some pa, some pb =>
        -- endpoints equal the resolved values
        let fmt (pt : Option Date × Option Nat) : Option Str :=
          match pt with
          | (some d, none) => some (formatDate d)
          | (none, some t) => some (formatTime (t / 3600) (t / 60 % 60) (t % 60))
          | (some d, some t) => some (formatDateTime d (t / 3600) (t / 60 % 60) (t % 60))
          | _ => none
        let endsOK := (match start with | some s => fmt pa = some s | none => true) &&
                      (match stop with | some s => fmt pb = some s | none => true)
        let durOK :=
          match p with
          | 80 :: 84 :: rest =>
            -- `PT…`: one or several H/M/S components (amounts may be decimals), compared through seconds
            (match ptSeconds (rest.length + 4) rest, diffSeconds pa pb with
             | some (n, d), some secs => rest ≠ [] ∧ secs * d = (n : Int)
             | some _, none => false
             | none, _ => rest.contains 88)   -- `PTXH` (an open amount, written with X): nothing demanded; anything else
                                              -- that does not read as H/M/S components (`PT2H-1M35S`) is malformed
          | _ =>
            match parseDuration p, diffSeconds pa pb with
            | some ((n, den), u), some secs =>
              (match u with
               | .MON =>
                 (match pa.1, pb.1 with
                  | some d1, some d2 => den = 1 ∧ ((d2.y * 12 + d2.m : Nat) : Int) - (d1.y * 12 + d1.m : Nat) = n ∧ d1.d = d2.d
                  | _, _ => false)
               | .Y =>
                 (match pa.1, pb.1 with
                  | some d1, some d2 => den = 1 ∧ (d2.y : Int) - d1.y = n ∧ d1.m = d2.m ∧ d1.d = d2.d
                  | _, _ => false)
               | u => secs * den = (n * unitSeconds u : Nat))
            | none, _ =>
              -- not a single `P<n><U>`: an open amount written with X (`PXD`) or a calendar compound made of digits and
              -- unit letters (`P1Y2M`) is not definite — nothing demanded; anything else between two DEFINITE points
              -- (a sign as in `P-4D`, a stray word) is not a duration: the triple is inconsistent
              p.contains 88 || (p.head? = some 80 && p.length ≥ 3 && (p.drop 1).all fun c => isDigit c || c = 46 || (65 ≤ c && c ≤ 90))
            | _, none => false
        endsOK && durOK
      | _, _ => true   -- not definite: nothing demanded
    | _ => true
  else true

/-- `luis_time_span(begin, end)` for `end ≥ begin`, given the difference in seconds: `PT[<h>H][<m>M][<s>S]` -/
def luisTimeSpan (secs : Nat) : Str :=
  let days := secs / 86400
  let r := secs % 86400
  let h := r / 3600
  let m := r % 3600 / 60
  let s := r % 3600 % 60
  let nat (n : Nat) : Str := natStr n
  [80, 84] ++ (if days > 0 ∨ h > 0 then nat (days * 24 + h) ++ [72] else []) ++
    (if m > 0 then nat m ++ [77] else []) ++ (if s > 0 then nat s ++ [83] else [])

/-- seconds denoted by the H/M/S components `luis_time_span` writes -/
def spanSeconds (hms : Nat × Nat × Nat) : Nat := hms.1 * 3600 + hms.2.1 * 60 + hms.2.2

/-- `BaseDurationParser`: number × unit → TIMEX `P[T]<n><U>`; `code` is the unit code of `unit_map` (`Y`, `MON`, `W`,
`D`, `H`, `M`, `S`); the `T` is written for units shorter than a day (`is_less_than_day`: S, M, H). -/
def durationTimex (n : Nat) (code : Str) : Str :=
  let isTime := code = [83] ∨ code = [77] ∨ code = [72]
  [80] ++ (if isTime then [84] else []) ++ natStr n ++ code.take 1

/-- seconds per unit code as `UnitValueMap` must assign them (checked against the regenerated maps) -/
def codeSeconds (code : Str) : Option Nat :=
  if code = [83] then some 1 else if code = [77] then some 60 else if code = [72] then some 3600
  else if code = [68] then some 86400 else if code = [87] then some 604800
  else if code = [77, 79, 78] then some 2592000 else if code = [89] then some 31536000 else none

/-- `_determine_date_time_types` with default options (no SPLIT_DATE_AND_TIME): a before/after/since modifier turns
a point into the period type. -/
def determineType (dtype : Str) (hasMod : Bool) : Str :=
  if hasMod then
    if dtype = sDate then sDateRange
    else if dtype = sTime then sTimeRange
    else if dtype = sDateTime then sDateTimeRange
    else dtype
  else dtype

def startsWith (s p : Str) : Bool := s.take p.length = p
def minValue : Str := [48, 48, 48, 49, 45, 48, 49, 45, 48, 49]   -- '0001-01-01'

/-- `__add_single_date_time_to_resolution` without modifier: the value is dropped when empty or when it starts with
the minimum date. -/
def addSingle (value : Str) : Option Str := if value = [] ∨ startsWith value minValue then none else some value

/-- `_date_time_resolution` for a date/time/datetime slot without modifier or comment: equal past and future collapse
into one value; nothing left → one `'not resolved'` value. -/
def resolveSingle (outType timex past future : Str) : List Value :=
  let mk (v : Str) : Value := ⟨outType, timex, some v, none, none⟩
  match addSingle past, addSingle future with
  | none, none => [mk sNotResolved]
  | some p, none => [mk p]
  | none, some f => [mk f]
  | some p, some f => if p = f then [mk p] else [mk p, mk f]

/-! ### periods: `__add_period_to_resolution` and `_date_time_resolution` for daterange / timerange / datetimerange
slots. `mod` is the modifier string of the slot value (`''`/None = no modifier). -/

def sBefore : Str := [98, 101, 102, 111, 114, 101]      -- 'before'
def sAfter : Str := [97, 102, 116, 101, 114]            -- 'after'
def sSince : Str := [115, 105, 110, 99, 101]            -- 'since'
def sLate : Str := [101, 110, 100]                      -- 'end'   (TimeTypeConstants.LATE_MOD)
def sEarly : Str := [115, 116, 97, 114, 116]            -- 'start' (TimeTypeConstants.EARLY_MOD)
def sInvalidDate : Str := minValue                      -- Constants.INVALID_DATE_STRING = '0001-01-01'

def endsWith (s p : Str) : Bool := p.length ≤ s.length && s.drop (s.length - p.length) = p

/-- `__add_period_to_resolution(resolutions, start_type, end_type, mod, result)`: the (start, end) keys it writes.
`start` / `stop` are `resolutions.get(...)` (None = `none`). Result: (start?, end?) where the inner option
distinguishes "key written with value None" (the code writes `result[END] = end` even when `end` is None). -/
def addPeriod (mod : Str) (start stop : Option Str) : Option (Option Str) × Option (Option Str) :=
  if mod ≠ [] ∧ startsWith mod sBefore then
    (none, some (if endsWith mod sLate then stop else start))
  else if mod ≠ [] ∧ startsWith mod sAfter then
    (some (if endsWith mod sEarly then start else stop), none)
  else if mod = sSince then (some start, none)
  else
    match start, stop with
    | some a, some b =>
      if a = [] ∨ b = [] then (none, none)
      else if startsWith a sInvalidDate ∨ startsWith b sInvalidDate then (none, none)
      else (some (some a), some (some b))
    | _, _ => (none, none)

/-- the value a period slot contributes (one of past / future), or nothing -/
def periodValue (outType timex mod : Str) (start stop : Option Str) : Option Value :=
  match addPeriod mod start stop with
  | (none, none) => none
  | (s, e) => some ⟨outType, timex, none, s.join, e.join⟩

end RTV.WF
