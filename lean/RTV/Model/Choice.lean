import RTV.Model.Py
import RTV.Model.Re
/-
L11 `Choice` — mirrors recognizers_choice/choice/extractors.py (`ChoiceExtractor.__tokenize`, `match_value`, `extract`,
`BooleanExtractor` configuration), choice/parsers.py (`ChoiceParser.parse`, `BooleanParser`), choice/models.py
(`ChoiceModel.parse`, `BooleanModel.get_resolution`) and the Python-side rewrite
`StringUtility.remove_unicode_matches` / `RegExpUtility.get_matches` of recognizers_text/utilities.py.

Quirks kept: `StringUtility.index_of` answers `1` (not −1) when the token is absent; an emoji is appended to the token
list *before* the pending token; the span start is the first textual occurrence of the matched text
(`trimmed_source.index(match)`); before the `Resolution.score` fix `ChoiceParser.parse` built
`ChoiceExtractDataResult(ext_result.data)`, i.e. passed the extractor's data as the `source` argument, so the score it
read was the default `0.0` (`Env.parserKeepsScore = false`); `other_matches` is empty either way (the extractor sets
it on a local object it then drops).
-/
namespace RTV.Choice
open RTV.Py RTV.Re

/-- what the model needs from the runtime and the resources -/
structure Env where
  T : Tables                 -- `regex` engine tables
  trueRe : RE                -- remove_unicode_matches(TrueRegex), no flags
  falseRe : RE
  tokenRe : RE               -- TokenizerRegex
  isEmoji : Nat → Bool       -- StringUtility.is_emoji on one code point
  isSpace : Nat → Bool       -- str.isspace (for str.strip)
  lower : Str → Str          -- str.lower
  /-- `true`: the span start is the regex match's own offset (code after the `first-occurrence-span` fix);
      `false`: `trimmed_source.index(match)`, the first textual occurrence (code before it) -/
  useMatchOffset : Bool
  /-- what `StringUtility.index_of` answers on a miss: `-1` (code after /repo 4afb7c9b1), `1` (before) -/
  missIndex : Int
  /-- `ChoiceModel.parse` starts with `parse_results = []` (after /repo 74161fefc): an exception during extraction
      yields no entity; before it surfaced as UnboundLocalError -/
  parseInit : Bool
  /-- `ChoiceParser.parse`: `true` = `data = ext_result.data` (the extractor's own score is handed on; code after the
      `spec-field:Boolean:Resolution.score` fix); `false` = `data = ChoiceExtractDataResult(ext_result.data)` (a NEW
      object whose `source` is the extractor's data and whose score is the constructor default `0.0`; code before) -/
  parserKeepsScore : Bool

/-! ### `remove_unicode_matches` on the pattern text
PRE-FIX code (kept for the regression theorems): `re.sub('\\\\u.{4}[\\|\\\\]', '', pattern)` then
`re.sub('\\\\u', '\\\\U', …)`. -/

/-- first pass: delete every `\uXXXX` that is followed by `|` or `\` (together with that character); `.` does not
match a newline. Leftmost, non-overlapping, scanning resumes after the deleted text. -/
def stripU : Nat → Str → Str
  | 0, s => s
  | fuel + 1, s =>
    match s with
    | [] => []
    | 92 :: 117 :: a :: b :: c :: d :: e :: rest =>
      if a ≠ 10 ∧ b ≠ 10 ∧ c ≠ 10 ∧ d ≠ 10 ∧ (e = 124 ∨ e = 92) then stripU fuel rest
      else 92 :: stripU fuel (117 :: a :: b :: c :: d :: e :: rest)
    | x :: rest => x :: stripU fuel rest

/-- second pass: `\u` → `\U` -/
def upperU : Str → Str
  | 92 :: 117 :: rest => 92 :: 85 :: upperU rest
  | x :: rest => x :: upperU rest
  | [] => []

def removeUnicodeMatchesPreFix (pattern : Str) : Str := upperU (stripU (pattern.length + 1) pattern)

/-! CURRENT code (after the `emoji-unreachable` fix):
`re.sub('\\u([dD][89abAB][0-9a-fA-F]{2})\\u([dD][c-fC-F][0-9a-fA-F]{2})', pair -> '\\U%08X', pattern)` then
`re.sub('\\u(000[0-9a-fA-F]{5})', '\\U\\1', …)`. -/

def hexVal? (c : Nat) : Option Nat :=
  if 48 ≤ c ∧ c ≤ 57 then some (c - 48) else if 97 ≤ c ∧ c ≤ 102 then some (c - 87)
  else if 65 ≤ c ∧ c ≤ 70 then some (c - 55) else none

def hexDigitUpper (v : Nat) : Nat := if v < 10 then 48 + v else 55 + v

/-- `'%08X' % n` -/
def hex8 (n : Nat) : Str :=
  [28, 24, 20, 16, 12, 8, 4, 0].map fun sh => hexDigitUpper ((n >>> sh) % 16)

/-- four hex digits `a b c d` → value, provided `a` is `d/D`, `b` is in `lo` (values) -/
def surrogate? (a b c d : Nat) (bLo bHi : Nat) : Option Nat := do
  let va ← hexVal? a
  let vb ← hexVal? b
  let vc ← hexVal? c
  let vd ← hexVal? d
  if va = 13 ∧ bLo ≤ vb ∧ vb ≤ bHi then some (va * 4096 + vb * 256 + vc * 16 + vd) else none

/-- first pass: `\uD8xx–\uDBxx` followed by `\uDCxx–\uDFxx` becomes `\U` + 8 hex digits of the code point -/
def joinPairs : Nat → Str → Str
  | 0, s => s
  | fuel + 1, s =>
    match s with
    | [] => []
    | 92 :: 117 :: a :: b :: c :: d :: 92 :: 117 :: e :: f :: g :: h :: rest =>
      match surrogate? a b c d 8 11, surrogate? e f g h 12 15 with
      | some hi, some lo => 92 :: 85 :: (hex8 (0x10000 + ((hi - 0xD800) <<< 10) + (lo - 0xDC00)) ++ joinPairs fuel rest)
      | _, _ => 92 :: joinPairs fuel (117 :: a :: b :: c :: d :: 92 :: 117 :: e :: f :: g :: h :: rest)
    | x :: rest => x :: joinPairs fuel rest

/-- second pass: `\u000` + five hex digits becomes `\U000` + the same digits -/
def widen : Nat → Str → Str
  | 0, s => s
  | fuel + 1, s =>
    match s with
    | [] => []
    | 92 :: 117 :: 48 :: 48 :: 48 :: a :: b :: c :: d :: e :: rest =>
      if (hexVal? a).isSome ∧ (hexVal? b).isSome ∧ (hexVal? c).isSome ∧ (hexVal? d).isSome ∧ (hexVal? e).isSome then
        92 :: 85 :: 48 :: 48 :: 48 :: a :: b :: c :: d :: e :: widen fuel rest
      else 92 :: widen fuel (117 :: 48 :: 48 :: 48 :: a :: b :: c :: d :: e :: rest)
    | x :: rest => x :: widen fuel rest

def removeUnicodeMatches (pattern : Str) : Str :=
  let p := joinPairs (pattern.length + 1) pattern
  widen (p.length + 1) p

/-! ### tokenizer -/

/-- `pattern.search(char) is not None` for a one-character string -/
def isSepChar (E : Env) (c : Nat) : Bool := searches E.T #[c] E.tokenRe

/-- `ChoiceExtractor.__tokenize` (`grapheme.slice(source)` without bounds returns the string itself, so the loop runs
over code points). `token` is the pending token. The string is never blank here (`chars.strip() == ''` is false). -/
def tokGo (E : Env) : Str → Str → List Str
  | [], token => if token ≠ [] then [token] else []
  | c :: rest, token =>
    if E.isEmoji c then
      if strip E.isSpace token = [] then [c] :: tokGo E rest token
      else [c] :: token :: tokGo E rest []
    else if !(isSepChar E c) then tokGo E rest (token ++ [c])
    else if token ≠ [] then token :: tokGo E rest []
    else tokGo E rest token

def tokenize (E : Env) (s : Str) : List Str := tokGo E s []

/-! ### `match_value` in exact rationals -/

/-- first index `≥ k` (counting from offset `k`) at which `t` stands in `l` -/
def findTok (t : Str) : List Str → Nat → Option Nat
  | [], _ => none
  | x :: r, k => if x == t then some k else findTok t r (k + 1)

/-- `StringUtility.index_of(list, token, position)`: `list.index(token, position)`, and `miss` on ValueError
(`-1` in the current code, `1` before /repo 4afb7c9b1). -/
def indexOf (miss : Int) (source : List Str) (token : Str) (position : Int) : Int :=
  let n : Int := source.length
  let p : Int := if position < 0 then max (position + n) 0 else position
  match findTok token (source.drop p.toNat) p.toNat with
  | some r => r
  | none => miss

/-- the loop of `match_value`: `(matched, total_deviation, start_pos)` -/
def mvGo (miss : Int) (maxDistance : Int) (source : List Str) : List Str → Int → Int → Int → Int × Int
  | [], matched, dev, _ => (matched, dev)
  | t :: rest, matched, dev, startPos =>
    let pos := indexOf miss source t startPos
    if pos ≥ 0 then
      let distance := if matched > 0 then pos - startPos else 0
      if distance ≤ maxDistance then mvGo miss maxDistance source rest (matched + 1) (dev + distance) (pos + 1)
      else mvGo miss maxDistance source rest matched dev startPos
    else mvGo miss maxDistance source rest matched dev startPos

/-- a score as an exact fraction `num / den` (`den > 0`), or exactly `0.0` -/
structure Score where
  num : Int
  den : Int
deriving Repr, DecidableEq, Inhabited

def Score.zero : Score := ⟨0, 1⟩
/-- `a > b` for fractions with positive denominators (a non-positive denominator only arises from the negative
deviations the `index_of` quirk can produce; the comparison is then normalised by the sign) -/
def Score.gt (a b : Score) : Bool :=
  let sa : Int := if a.den < 0 then -1 else 1
  let sb : Int := if b.den < 0 then -1 else 1
  a.num * sa * (b.den * sb) > b.num * sb * (a.den * sa)

/-- `ChoiceExtractor.match_value` with `allow_partial_match = False`, `max_distance = 2` (BooleanExtractor):
`0.4 + 0.6 * (matched/len(match)) * (matched/(matched+dev)) * (matched/len(source))` as a fraction; `none` = ZeroDivisionError. -/
def matchValue (miss : Int) (source match_ : List Str) (startPos : Int) : Option Score :=
  let (matched, dev) := mvGo miss 2 source match_ 0 0 startPos
  let lm : Int := match_.length
  if matched > 0 ∧ matched = lm then
    let d := lm * (matched + dev) * (source.length : Int)
    if d = 0 then none
    else some ⟨4 * d + 6 * (matched * matched * matched), 10 * d⟩
  else some Score.zero

/-! ### extractor -/

structure ER where
  start : Nat
  len : Nat
  text : Str
  value : Bool         -- SYS_BOOLEAN_TRUE / SYS_BOOLEAN_FALSE
  score : Score
deriving Repr, DecidableEq, Inhabited

/-- `RegExpUtility.get_matches`: lower-cased non-empty matched texts -/
def getMatches (E : Env) (re : RE) (s : Str) : List (Nat × Str) :=
  ((findAll E.T s.toArray re).map fun (a, b) => (a, E.lower (sliceI s a b))).filter (·.2 ≠ [])

/-- `top_score = max(top_score, score)` over every start position; `none` = an exception inside -/
def topScore (miss : Int) (source match_ : List Str) : Option Score :=
  (List.range source.length).foldl (fun acc (i : Nat) =>
    match acc, matchValue miss source match_ (i : Int) with
    | some t, some sc => some (if sc.gt t then sc else t)
    | _, _ => none) (some Score.zero)

def partialFor (E : Env) (source trimmed : Str) (srcTokens : List Str) (re : RE) (value : Bool) : Option (List ER) :=
  (getMatches E re trimmed).foldl (fun acc am =>
    let m := am.2
    match acc with
    | none => none
    | some out =>
      match topScore E.missIndex srcTokens (tokenize E m) with
      | none => none
      | some top =>
        if top.gt Score.zero then
          match (if E.useMatchOffset then some am.1 else findFrom trimmed m 0) with
          | none => none            -- ValueError from `.index`
          | some start =>
            some (out ++ [⟨start, m.length, strip E.isSpace (sliceI source start (start + m.length)), value, top⟩])
        else some out) (some [])

/-- insertion sort by `start`, stable (Python `sorted`) -/
def insertByStart (x : ER) : List ER → List ER
  | [] => [x]
  | y :: ys => if x.start < y.start then x :: y :: ys else y :: insertByStart x ys

/-- first index with the strictly greatest score (`if data.score > top_score`) -/
def topIndex (l : List ER) : Nat :=
  (l.zipIdx.foldl (fun (acc : Score × Nat) (p : ER × Nat) =>
    if p.1.score.gt acc.1 then (p.1.score, p.2) else acc) (Score.zero, 0)).2

/-- `ChoiceExtractor.extract` with `only_top_match = True`; `none` = an exception escapes -/
def extract (E : Env) (source : Str) : Option (List ER) :=
  let trimmed := E.lower source
  if strip E.isSpace source = [] then some []
  else
    let srcTokens := tokenize E trimmed
    match partialFor E source trimmed srcTokens E.trueRe true with
    | none => none
    | some ts =>
      match partialFor E source trimmed srcTokens E.falseRe false with
      | none => none
      | some fs =>
        let partials := ts ++ fs
        if partials = [] then some []
        else
          let sorted := stableSort partials
          some [sorted.getD (topIndex sorted) default]
where
  stableSort (l : List ER) : List ER := l.foldl (fun acc x => insertByStart x acc) []

/-! ### parser + model -/

/-- `ChoiceExtractDataResult.__init__(self, source='', score=0.0, other_matches=[])` — the two fields the parser reads -/
structure EDR (α : Type) where
  source : α
  score : Score := Score.zero

/-- the score `ChoiceParser.parse` hands on to `get_resolution` (`result.data = ChoiceParseDataResult(data.score, …)`):
the extractor's `top_score` when `data = ext_result.data`; before that fix `data = ChoiceExtractDataResult(ext_result.data)`
built a NEW object with the extractor's data object as its `source` argument, so `data.score` was the constructor's
default — NOT the extractor's score. -/
def parserScore (E : Env) (e : ER) : Score :=
  if E.parserKeepsScore then e.score else ({ source := e.score } : EDR Score).score

structure MR where
  start : Nat
  stop : Int           -- `o.start + len(o.text) - 1`
  text : Str
  value : Bool
  score : Score        -- `resolution['score']`
deriving Repr, DecidableEq, Inhabited

/-- `recognize_boolean`: `BooleanModel.parse` ∘ `BooleanParser.parse` ∘ `BooleanExtractor.extract`.
`none` = an exception escapes (before /repo 74161fefc `parse_results` was unbound when the `try` block raised). -/
def recognise (E : Env) (q : Str) : Option (List MR) :=
  match extract E q with
  | some ers => some (ers.map fun e => ⟨e.start, (e.start : Int) + e.text.length - 1, e.text, e.value, parserScore E e⟩)
  | none => if E.parseInit then some [] else none

end RTV.Choice
