import RTV.Model.Timex
/-!
L7 `Timex` (part 3) — `TimexValue`, `TimexDateHelpers`, `TimexResolver`, `DateRange`, `TimeRange`,
`TimexConstraintsHelper`, the rest of `TimexHelpers` (`expand_time_range`, `add_time`, `*_from_timex`) and
`TimexRangeResolver.evaluate` with its stages.

Conventions:
* a reference `datetime` is its `Date` (only `.year/.month/.day/.weekday()` are ever read, and time-of-day is carried
  unchanged through `± timedelta(days=…)`);
* a `DateRange` is a pair of CPython ordinals; a `TimeRange` is a pair of millisecond counts (`Time.get_time()`),
  modelled when every count is a whole number of seconds (`Err.unmodelled` otherwise: `Time.from_seconds` then
  produces non-integral floats);
* `TimexConstraintsHelper.collapse` takes FUEL: `del ranges[i:1]` deletes nothing unless `i = 0`, so the loop may
  append for ever; running out of fuel is `Err.hang`.
-/
namespace RTV.Timex
open RTV.Py RTV.Cal

/-! ## `TimexValue` -/

def dateValue (t : Timex) : Str :=
  if andChainNotNone [t.year, t.month, t.dayOfMonth] then
    fixedFormat t.year 4 ++ 45 :: fixedFormat t.month 2 ++ 45 :: fixedFormat t.dayOfMonth 2
  else []

/-- `TimexValue.time_value`: `None` when the `and`-chain is `None` -/
def timeValue (t : Timex) : Option Str :=
  if andChainNotNone [t.hour, t.minute, t.second] then
    some (fixedFormat t.hour 2 ++ 58 :: fixedFormat t.minute 2 ++ 58 :: fixedFormat t.second 2)
  else none

def optS : Option Str → Str
  | none => sNone
  | some s => s

def durationValue (t : Timex) : R Str :=
  match t.years with
  | some x => (Num.mulInt 31536000 x).map Num.str
  | none => match t.months with
  | some x => (Num.mulInt 2592000 x).map Num.str
  | none => match t.weeks with
  | some x => (Num.mulInt 604800 x).map Num.str
  | none => match t.days with
  | some x => (Num.mulInt 86400 x).map Num.str
  | none => match t.hours with
  | some x => (Num.mulInt 3600 x).map Num.str
  | none => match t.minutes with
  | some x => (Num.mulInt 60 x).map Num.str
  | none => match t.seconds with
  | some x => pure x.str
  | none => pure []

/-! ## `TimexDateHelpers` -/

/-- `date_of_last_day(day, reference_date)` -/
def dateOfLastDay (day : Int) (ref : Date) : R Date :=
  addDays ref (-(((6 - day + ref.weekday).fmod 7) + 1))

/-- `date_of_next_day(day, reference_date)` -/
def dateOfNextDay (day : Int) (ref : Date) : R Date :=
  addDays ref (((6 + day - ref.weekday).fmod 7) + 1)

/-- `dates_matching_day(day, start, end)` on ordinals: the loop `while d != end` walks forward one day at a
time, so a reversed range runs into `OverflowError` after 9999-12-31. -/
def datesMatchingDay (day : Int) (s e : Nat) : R (List Nat) :=
  if s ≤ e then pure ((List.range (e - s)).filterMap fun k =>
    if ((weekdayOrd (s + k) : Nat) : Int) = day then some (s + k) else none)
  else throw .overflowError

/-! ## entries -/

/-- an attribute of `Entry`: never assigned / `None` / a string -/
inductive PV
  | unset | none | str (s : Str)
deriving DecidableEq, Repr, Inhabited

structure Entry where
  timex : PV := .unset
  type : PV := .unset
  value : PV := .unset
  start : PV := .unset
  «end» : PV := .unset
deriving DecidableEq, Repr, Inhabited

def tDate : Str := [100, 97, 116, 101]
def tDatetime : Str := tDate ++ [116, 105, 109, 101]
def tDaterange : Str := tDate ++ [114, 97, 110, 103, 101]
def tTime : Str := [116, 105, 109, 101]
def tTimerange : Str := tTime ++ [114, 97, 110, 103, 101]
def tDatetimerange : Str := tDatetime ++ [114, 97, 110, 103, 101]
def tDuration : Str := [100, 117, 114, 97, 116, 105, 111, 110]
def sNotResolved : Str := [110, 111, 116, 32, 114, 101, 115, 111, 108, 118, 101, 100]

def ymd (d : Date) : Timex := { year := some (.int d.y), month := some (.int d.m), dayOfMonth := some (.int d.d) }

/-! ## `TimexHelpers` (time ranges) -/

/-- `int((hours or 0) * 3600 + (minutes or 0) * 60 + (seconds or 0))`: exact sum, truncated -/
def durSeconds (d : Timex) : Int :=
  let term (x : Option Num) (k : Int) : Int × Nat := match x with
    | none => (0, 0)
    | some v => let (n, sc) := v.scaled; (n * k, sc)
  let a := term d.hours 3600
  let b := term d.minutes 60
  let c := term d.seconds 1
  let sc := max a.2 (max b.2 c.2)
  let num : Int := a.1 * (pow10 (sc - a.2) : Nat) + b.1 * (pow10 (sc - b.2) : Nat) + c.1 * (pow10 (sc - c.2) : Nat)
  Int.tdiv num (pow10 sc : Nat)

/-- `TimexHelpers.add_time(start, duration)` (since fix 6f9f17986: adds in seconds and normalises; before it read
the misspelt `duration.minue` and the time-of-day property `duration.second`). -/
def addTime (start duration : Timex) : R Timex := do
  let h ← needInt start.hour
  let m ← needInt start.minute
  let s ← needInt start.second
  let total : Int := h * 3600 + m * 60 + s + durSeconds duration
  return ({} : Timex).initTime (some (.int (total.fdiv 3600))) (some (.int ((total.fdiv 60).fmod 60)))
    (some (.int (total.fmod 60)))

def sDT : Str := [68, 84]
def sMO : Str := [77, 79]
def sAF : Str := [65, 70]
def sEV : Str := [69, 86]
def sNI : Str := [78, 73]

/-- `TimexHelpers.expand_time_range(timex)` -/
def expandTimeRange (cfg : Cfg) (t : Timex) : R TimexRange := do
  if !(infer t).timerange then throw .typeError
  let t ← match t.partOfDay with
    | none => pure t
    | some p =>
      if p = sDT then pure (parse cfg cfg.daytime)
      else if p = sMO then pure (parse cfg cfg.morning)
      else if p = sAF then pure (parse cfg cfg.afternoon)
      else if p = sEV then pure (parse cfg cfg.evening)
      else if p = sNI then pure (parse cfg cfg.night)
      else throw .typeError
  let start := ({} : Timex).initTime t.hour t.minute t.second
  let duration := cloneDuration t
  let e ← addTime start duration
  return ⟨start, e, none⟩

/-- `TimexHelpers.date_from_timex` (ordinal) -/
def dateFromTimex (t : Timex) : R Date :=
  let g (x : Option Num) (dflt : Int) : Int := match x with
    | some v => v.toInt
    | none => dflt
  mkDate (some (.int (g t.year 2001))) (some (.int (g t.month 1))) (some (.int (g t.dayOfMonth 1)))

structure DateRange where
  s : Nat
  e : Nat
deriving DecidableEq, Repr, Inhabited

/-- `TimexHelpers.daterange_from_timex` -/
def daterangeFromTimex (t : Timex) : R DateRange := do
  let x ← expandDatetimeRange t
  let a ← dateFromTimex x.start
  let b ← dateFromTimex x.end
  return ⟨a.ord, b.ord⟩

/-- `DateRange.is_overlapping` (not symmetric) -/
def DateRange.isOverlapping (a b : DateRange) : Bool :=
  (a.e > b.e && a.s ≤ b.s) || (b.e > a.s && a.s ≥ b.s)

/-- `DateRange.collapse_overlapping`: the intersection -/
def DateRange.collapseOverlapping (a b : DateRange) : DateRange := ⟨max a.s b.s, min a.e b.e⟩

/-- milliseconds of a time-of-day field triple (`Time.get_time`), whole seconds only -/
def msOf (h m s : Num) : R Int :=
  let part (x : Num) (k : Int) : R Int :=
    let (n, sc) := x.scaled
    let v := n * k
    let p : Int := (pow10 sc : Nat)
    if v % (p * 1000) = 0 then pure (v / p) else throw .unmodelled
  do
    let a ← part s 1000
    let b ← part m 60000
    let c ← part h 3600000
    return a + b + c

structure TimeRange where
  s : Int
  e : Int
deriving DecidableEq, Repr, Inhabited

/-- `TimexHelpers.time_from_timex` followed by `get_time()` -/
def timeFromTimexMs (t : Timex) : R Int :=
  msOf (t.hour.getD (.int 0)) (t.minute.getD (.int 0)) (t.second.getD (.int 0))

def timeFromTimex (t : Timex) : Time :=
  ⟨t.hour.getD (.int 0), t.minute.getD (.int 0), t.second.getD (.int 0)⟩

/-- `TimexHelpers.timerange_from_timex` -/
def timerangeFromTimex (cfg : Cfg) (t : Timex) : R TimeRange := do
  let x ← expandTimeRange cfg t
  let a ← timeFromTimexMs x.start
  let b ← timeFromTimexMs x.end
  return ⟨a, b⟩

/-- `TimeRange.is_overlapping` -/
def TimeRange.isOverlapping (a b : TimeRange) : Bool :=
  (a.e > b.s && a.s ≤ b.s) || (a.s < b.e && a.s ≥ b.s)

/-- `TimeRange.collapse_overlapping` (through `Time.from_seconds`, value-preserving on whole seconds) -/
def TimeRange.collapseOverlapping (a b : TimeRange) : TimeRange := ⟨max a.s b.s, min a.e b.e⟩

/-! ## `TimexConstraintsHelper` -/

section collapse
variable {α : Type}

def findJ (ov : α → α → Bool) (r1 : α) : List α → Nat → Option (Nat × α)
  | [], _ => none
  | r2 :: rest, j => if ov r1 r2 then some (j, r2) else findJ ov r1 rest (j + 1)

/-- the first overlapping pair `(i, j, ranges[i], ranges[j])`, `i < j`, in the order of the two `for` loops -/
def firstPair (ov : α → α → Bool) : List α → Nat → Option (Nat × Nat × α × α)
  | [], _ => none
  | r1 :: rest, i =>
    match findJ ov r1 rest (i + 1) with
    | some (j, r2) => some (i, j, r1, r2)
    | none => firstPair ov rest (i + 1)

/-- `del ranges[i:1]` of the code before fix d3c7bf705: removes `ranges[0]` when `i = 0`, nothing otherwise -/
def delTo1 (i : Nat) (rs : List α) : List α := if i = 0 then rs.drop 1 else rs

/-- `inner_collapse` before the fix (kept for the regression theorem `inner_collapse_before_fix_stuck`) -/
def innerCollapseBeforeFix (ov : α → α → Bool) (inter : α → α → α) (rs : List α) : Option (List α) :=
  if rs.length = 1 then none else
  match firstPair ov rs 0 with
  | none => none
  | some (i, j, r1, r2) => some (delTo1 (j - 1) (delTo1 i rs) ++ [inter r1 r2])

/-- `inner_collapse`: `none` = returned `False` (nothing changed); `del ranges[i]; del ranges[j-1]` -/
def innerCollapse (ov : α → α → Bool) (inter : α → α → α) (rs : List α) : Option (List α) :=
  if rs.length = 1 then none else
  match firstPair ov rs 0 with
  | none => none
  | some (i, j, r1, r2) => some ((rs.eraseIdx i).eraseIdx (j - 1) ++ [inter r1 r2])

/-- `while self.inner_collapse(ranges): True` — `none` = out of fuel -/
def collapseLoop (ov : α → α → Bool) (inter : α → α → α) : Nat → List α → Option (List α)
  | 0, _ => none
  | fuel + 1, rs =>
    match innerCollapse ov inter rs with
    | none => some rs
    | some rs' => collapseLoop ov inter fuel rs'

/-- `sorted(ranges, key=…)` (stable) as insertion sort -/
def insertBy (key : α → Int) (x : α) : List α → List α
  | [] => [x]
  | y :: r => if key x < key y then x :: y :: r else y :: insertBy key x r

def sortBy (key : α → Int) (l : List α) : List α := l.foldr (fun x acc => insertBy key x acc) []

end collapse

/-- the fuel `evaluate` runs `collapse` with in the driver and the theorems' default -/
def collapseFuel : Nat := 64

def collapseDates (fuel : Nat) (rs : List DateRange) : R (List DateRange) :=
  match collapseLoop DateRange.isOverlapping DateRange.collapseOverlapping fuel rs with
  | some r => pure (sortBy (fun r => (r.s : Int)) r)
  | none => throw .hang

def collapseTimes (fuel : Nat) (rs : List TimeRange) : R (List TimeRange) :=
  match collapseLoop TimeRange.isOverlapping TimeRange.collapseOverlapping fuel rs with
  | some r => pure (sortBy (fun r => r.s) r)
  | none => throw .hang

/-! ## `TimexResolver` -/

/-- `year_date_range(year)` -/
def yearDateRange (y : Num) : R (Str × Str) := do
  let y1 ← y.add (.int 1)
  return (dateValue { year := some y, month := some (.int 1), dayOfMonth := some (.int 1) },
          dateValue { year := some y1, month := some (.int 1), dayOfMonth := some (.int 1) })

/-- `month_date_range(year, month)` before fix d71f0ec63: the end is `month + 1` of the **same** year -/
def monthDateRangeBeforeFix (y : Option Num) (m : Option Num) : R (Str × Str) := do
  let m1 ← optAdd m (.int 1)
  return (dateValue { year := y, month := m, dayOfMonth := some (.int 1) },
          dateValue { year := y, month := some m1, dayOfMonth := some (.int 1) })

/-- `month_date_range(year, month)`: `(year + 1, 1) if month == 12 else (year, month + 1)` -/
def monthDateRange (y : Option Num) (m : Option Num) : R (Str × Str) := do
  let is12 := match m with
    | some v => v.eqInt 12
    | none => false
  let (ey, em) ← if is12 then do
      let y1 ← optAdd y (.int 1)
      pure (some y1, some (Num.int 1))
    else do
      let m1 ← optAdd m (.int 1)
      pure (y, some m1)
  return (dateValue { year := y, month := m, dayOfMonth := some (.int 1) },
          dateValue { year := ey, month := em, dayOfMonth := some (.int 1) })

/-- `week_date_range(year, week_of_year)`: Monday of the week and the Monday after it (before fix 878b0c295 the
end's **day** was pasted onto the start's year and month) -/
def weekDateRange (cfg : Cfg) (y w : Option Num) : R (Str × Str) := do
  let d ← mkDate y (some (.int 1)) (some (.int 1))
  let wd : Int := d.weekday
  let d ← if wd ≤ 3 then addDays d (-wd) else addDays d (7 - wd)
  let w ← match w with
    | some (.int w) => pure w
    | some _ => throw .unmodelled
    | none => throw .typeError
  let d ← addDays d (w * 7)
  let start ← dateOfLastDay cfg.monday d
  let d7 ← addDays d 7
  let e ← dateOfLastDay cfg.monday d7
  return (dateValue (ymd start), dateValue (ymd e))

def weekdayArg (cfg : Cfg) (t : Timex) : R Int :=
  match t.dayOfWeek with
  | some (.int w) => pure ((if w = 6 then cfg.sunday else w) - 1)
  | some _ => throw .unmodelled
  | none => throw .typeError

/-- `last_date_value(timex, date)` -/
def lastDateValue (cfg : Cfg) (t : Timex) (ref : Date) : R Str := do
  if andChainNotNone [t.month, t.dayOfMonth] then
    return dateValue { year := some (.int ((ref.y : Int) - 1)), month := t.month, dayOfMonth := t.dayOfMonth }
  if t.dayOfWeek.isSome then
    let day ← weekdayArg cfg t
    let r ← dateOfLastDay day ref
    return dateValue (ymd r)
  return []

/-- `next_date_value(timex, date)` -/
def nextDateValue (cfg : Cfg) (t : Timex) (ref : Date) : R Str := do
  if andChainNotNone [t.month, t.dayOfMonth] then
    return dateValue { year := some (.int ref.y), month := t.month, dayOfMonth := t.dayOfMonth }
  if t.dayOfWeek.isSome then
    let day ← weekdayArg cfg t
    let r ← dateOfNextDay day ref
    return dateValue (ymd r)
  return []

def resolveDate (cfg : Cfg) (t : Timex) (ref : Date) : R (List Entry) := do
  let tv ← formatT t
  let a ← lastDateValue cfg t ref
  let tv2 ← formatT t
  let b ← nextDateValue cfg t ref
  return [{ timex := .str tv, type := .str tDate, value := .str a, start := .none, «end» := .none },
          { timex := .str tv2, type := .str tDate, value := .str b, start := .none, «end» := .none }]

def partOfDayTimerange (t : Timex) : Str × Str :=
  let c (h : Nat) : Str := fixedFormat (some (.int h)) 2 ++ [58, 48, 48, 58, 48, 48]
  if t.partOfDay = some sMO then (c 8, c 12)
  else if t.partOfDay = some sAF then (c 12, c 16)
  else if t.partOfDay = some sEV then (c 16, c 20)
  else if t.partOfDay = some sNI then (c 20, c 24)
  else (sNotResolved, sNotResolved)

def rangeEntry (tv : Str) (ty : Str) (r : Str × Str) : Entry :=
  { timex := .str tv, type := .str ty, start := .str r.1, «end» := .str r.2, value := .none }

def resolveDateRange (cfg : Cfg) (t : Timex) (ref : Date) : R (List Entry) := do
  if t.season.isSome then
    let tv ← formatT t
    return [{ timex := .str tv, type := .str tDaterange, value := .str sNotResolved, start := .none, «end» := .none }]
  if andChainNotNone [t.year, t.month] then
    let r ← monthDateRange t.year t.month
    let tv ← formatT t
    return [rangeEntry tv tDaterange r]
  if andChainNotNone [t.year, t.weekOfYear] then
    let r ← weekDateRange cfg t.year t.weekOfYear
    let tv ← formatT t
    return [rangeEntry tv tDaterange r]
  if t.month.isSome then
    let y : Int := ref.y
    let r1 ← monthDateRange (some (.int (y - 1))) t.month
    let r2 ← monthDateRange (some (.int y)) t.month
    let tv ← formatT t
    return [rangeEntry tv tDaterange r1, rangeEntry tv tDaterange r2]
  match t.year with
  | some y =>
    let r ← yearDateRange y
    let tv ← formatT t
    return [rangeEntry tv tDaterange r]
  | none => return [{}]

def pvOpt : Option Str → PV
  | none => .none
  | some s => .str s

def resolveTimeRange (cfg : Cfg) (t : Timex) : R (List Entry) := do
  if t.partOfDay.isSome then
    let r := partOfDayTimerange t
    let tv ← formatT t
    return [rangeEntry tv tTimerange r]
  else
    let r ← expandTimeRange cfg t
    let tv ← formatT t
    return [{ timex := .str tv, type := .str tTimerange, start := pvOpt (timeValue r.start),
              «end» := pvOpt (timeValue r.end), value := .none }]

def resolveDateTimerange (t : Timex) : R (List Entry) := do
  if t.partOfDay.isSome then
    let d := dateValue t
    let r := partOfDayTimerange t
    let tv ← formatT t
    return [rangeEntry tv tDatetimerange (d ++ 32 :: r.1, d ++ 32 :: r.2)]
  else
    let r ← expandDatetimeRange t
    let tv ← formatT t
    return [rangeEntry tv tDatetimerange
      (dateValue r.start ++ 32 :: optS (timeValue r.start), dateValue r.end ++ 32 :: optS (timeValue r.end))]

/-- `TimexResolver.resolve_timex(timex, date)` -/
def resolveTimex (cfg : Cfg) (t : Timex) (ref : Date) : R (List Entry) := do
  let ty := infer t
  if ty.datetimerange then return (← resolveDateTimerange t)
  if ty.definite && ty.time then
    let tv ← formatT t
    return [{ timex := .str tv, type := .str tDatetime, value := .str (dateValue t ++ 32 :: optS (timeValue t)),
              start := .none, «end» := .none }]
  if ty.definite && ty.daterange then
    let r ← expandDatetimeRange t
    let tv ← formatT t
    return [{ timex := .str tv, type := .str tDaterange, start := .str (dateValue r.start),
              «end» := .str (dateValue r.end) }]
  if ty.daterange then return (← resolveDateRange cfg t ref)
  if ty.definite then
    let tv ← formatT t
    return [{ timex := .str tv, type := .str tDate, value := .str (dateValue t), start := .none, «end» := .none }]
  if ty.timerange then return (← resolveTimeRange cfg t)
  if ty.datetime then
    let es ← resolveDate cfg t ref
    return es.map fun e => { e with type := .str tDatetime,
                                    value := match e.value with
                                      | .str v => .str (v ++ 32 :: optS (timeValue t))
                                      | x => x }
  if ty.duration then
    let tv ← formatT t
    let v ← durationValue t
    return [{ timex := .str tv, type := .str tDuration, value := .str v, start := .none, «end» := .none }]
  if ty.date then return (← resolveDate cfg t ref)
  if ty.time then
    let tv ← formatT t
    return [{ timex := .str tv, type := .str tTime, value := pvOpt (timeValue t), start := .none, «end» := .none }]
  return [{}]

/-- `TimexResolver.resolve(timex_array, date).values` -/
def resolve (cfg : Cfg) (ts : List Str) (ref : Date) : R (List Entry) :=
  ts.foldlM (fun acc s => do
    let r ← resolveTimex cfg (parse cfg s) ref
    return acc ++ r) []

/-! ## `TimexRangeResolver` -/

/-- `list(dict.fromkeys(original))` -/
def removeDuplicates : List Str → List Str
  | [] => []
  | x :: r => x :: (removeDuplicates r).filter (· ≠ x)

def resolveDuration (cand : Timex) (constraints : List Timex) : R (List Timex) :=
  constraints.foldlM (fun acc c => do
    let ty := infer c
    if ty.datetime then
      let r ← timexDatetimeAdd c cand
      return acc ++ [r]
    else if ty.time then
      let r ← timexTimeAdd c cand
      return acc ++ [r]
    else return acc) []

def resolveDurations (cfg : Cfg) (cands : List Str) (constraints : List Timex) : R (List Str) :=
  cands.foldlM (fun acc c => do
    let t := parse cfg c
    if (infer t).duration then
      let rs ← resolveDuration t constraints
      let ss ← rs.mapM formatT
      return acc ++ ss
    else return acc ++ [c]) []

def resolveDefiniteAgainstConstraint (t : Timex) (c : DateRange) : R (List Str) := do
  -- fix 87c68cc2f: `except ValueError: return ['']` (XXXX-02-29 in a non-leap year)
  let d ← match dateFromTimex t with
    | .ok d => pure d
    | .error .valueError => return [[]]
    | .error e => throw e
  if c.s ≤ d.ord ∧ d.ord < c.e then
    let v ← formatT t
    return [v]
  else return [[]]

def yearsLoop (t : Timex) (c : DateRange) : Nat → Nat → R (List Str)
  | 0, _ => pure []
  | n + 1, y => do
    let r ← resolveDefiniteAgainstConstraint { t with year := some (.int y) } c
    let rest ← yearsLoop t c n (y + 1)
    return r ++ rest

def resolveDateAgainstConstraint (t : Timex) (c : DateRange) : R (List Str) := do
  if andChainNotNone [t.month, t.dayOfMonth] then
    let ys := (Date.ofOrd c.s).y
    let ye := (Date.ofOrd c.e).y
    -- `while year-1 != constraint.end.year`: years ys … ye; when ys > ye + 1 (a reversed range, not produced by
    -- the constructors of constraints) the loop never ends: the ValueError of `date(year > 9999, …)` is caught now
    if ys ≤ ye + 1 then
      let r ← yearsLoop t c (ye + 1 - ys) ys
      return r.filter (· ≠ [])
    else
      throw .hang
  match t.dayOfWeek with
  | some w =>
    let day ← match w with
      | .int w => pure (w - 1)
      | _ => throw .unmodelled
    let ds ← datesMatchingDay day c.s c.e
    ds.mapM fun o =>
      let d := Date.ofOrd o
      formatT { t with dayOfWeek := none, year := some (.int d.y), month := some (.int d.m),
                       dayOfMonth := some (.int d.d) }
  -- fix 5cd31f22f: no candidate (before: `['']`, which came back as an empty TIMEX)
  | none => return []

def resolveByDateRangeConstraints (cfg : Cfg) (fuel : Nat) (cands : List Str) (constraints : List Timex) :
    R (List Str) := do
  let ranges ← (constraints.filter fun t => (infer t).daterange).mapM daterangeFromTimex
  let collapsed ← collapseDates fuel ranges
  if collapsed.isEmpty then return cands
  let res ← cands.foldlM (fun acc c => do
    let t := parse cfg c
    let r ← collapsed.foldlM (fun acc2 k => do
      let x ← resolveDateAgainstConstraint t k
      return acc2 ++ x) []
    return acc ++ r) []
  return removeDuplicates res

def resolveByTimeConstraints (cfg : Cfg) (cands : List Str) (constraints : List Timex) : R (List Str) := do
  let times := (constraints.filter fun t => (infer t).time).map timeFromTimex
  if times.isEmpty then return cands
  let res ← cands.foldlM (fun acc c => do
    let t := parse cfg c
    let ty := infer t
    if ty.date && !ty.time then
      let (_, out) ← times.foldlM (fun (st : Timex × List Str) tm => do
        let t' := ((st.1.setHour (some tm.hour)).setMinute (some tm.minute)).setSecond (some tm.second)
        let v ← formatT t'
        return (t', st.2 ++ [v])) (t, [])
      return acc ++ out
    else
      let v ← formatT t
      return acc ++ [v]) []
  return removeDuplicates res

/-- `Time.from_seconds(ms)` on a whole number of seconds: `(hour, minute, float second)` -/
def fromSeconds (ms : Int) : R Time :=
  let h := ms.fdiv 3600000
  let m := (ms - h * 3600000).fdiv 60000
  let r := ms - h * 3600000 - m * 60000
  if r % 1000 = 0 then pure ⟨.int h, .int m, .flt (r / 1000)⟩ else throw .unmodelled

def resolveTimerage (cfg : Cfg) (t : Timex) (constraints : List TimeRange) : R (List Str) := do
  let cand ← timerangeFromTimex cfg t
  constraints.foldlM (fun acc k => do
    if cand.isOverlapping k then
      let tm ← fromSeconds (max cand.s k.s)
      let r := { t with partOfDay := none, seconds := none, minutes := none, hours := none }
      let r := ((r.setSecond (some tm.second)).setMinute (some tm.minute)).setHour (some tm.hour)
      let v ← formatT r
      return acc ++ [v]
    else return acc) []

def resolveTime (t : Timex) (constraints : List TimeRange) : R (List Str) := do
  constraints.foldlM (fun acc k => do
    let ms ← match t.time with
      | some tm => msOf tm.hour tm.minute tm.second
      | none => throw .typeError
    if k.s ≤ ms ∧ ms < k.e then
      let v ← formatT t
      return acc ++ [v]
    else return acc) []

def resolveByTimerangeConstraints (cfg : Cfg) (fuel : Nat) (cands : List Str) (constraints : List Timex) :
    R (List Str) := do
  let ranges ← (constraints.filter fun t => (infer t).timerange).mapM (timerangeFromTimex cfg)
  let collapsed ← collapseTimes fuel ranges
  if collapsed.isEmpty then return cands
  let res ← cands.foldlM (fun acc c => do
    let t := parse cfg c
    let ty := infer t
    if ty.timerange then
      let r ← resolveTimerage cfg t collapsed
      return acc ++ r
    else if ty.time then
      let r ← resolveTime t collapsed
      return acc ++ r
    else return acc) []
  return removeDuplicates res

/-- `TimexRangeResolver.evaluate(candidates, constraints)`: the TIMEX strings of the result (the code wraps
each in `Timex(…)`). -/
def evaluate (cfg : Cfg) (fuel : Nat) (cands constraints : List Str) : R (List Str) := do
  let tcs := constraints.map (parse cfg)
  let a ← resolveDurations cfg cands tcs
  let b ← resolveByDateRangeConstraints cfg fuel a tcs
  let c ← resolveByTimeConstraints cfg b tcs
  resolveByTimerangeConstraints cfg fuel c tcs

end RTV.Timex
