import RTV.Model.WellFormed
/-
The resolution ASSEMBLY of `BaseMergedParser` (base_merged.py), for every slot kind and every modifier string:
`_generate_from_resolution`, `__add_single_date_time_to_resolution` (WITH the modifier branches), `__add_period_to_resolution`
(`RTV.WF.addPeriod`), `_date_time_resolution` and `set_parse_result`.

Not modelled here: the `comment == 'ampm'` branch (`_resolve_ampm`; modelled for single slots in `RTV.DtRes.dateTimeResolution`),
double TIMEXes, the SPLIT_DATE_AND_TIME option, the keys `Mod` / `sourceEntity` / `isLunar` / `comment` of a value (they are
not part of `RTV.WF.Value`).  A slot is what a sub-parser hands over after `parse` restored the modifier: `type`, `timex_str`,
`value.mod`, `value.past_resolution`, `value.future_resolution`.
Import-free apart from `RTV.Model.WellFormed`.
-/
namespace RTV.WF

/-- `value.past_resolution` / `value.future_resolution` as the assembly reads it: `single` = the entry under the key of
the slot's own type (`'date'` / `'time'` / `'dateTime'`; `none` = the key is missing, `resolutions[dtype]` raises
KeyError), `start` / `stop` = `resolutions.get('start…')` / `.get('end…')`, `duration` = the `'duration'` entry. -/
structure Resolution where
  single : Option Str := none
  start : Option Str := none
  stop : Option Str := none
  duration : Option Str := none
deriving DecidableEq, Repr, Inhabited

/-- the dict `_generate_from_resolution` returns: which of the keys `value` / `start` / `end` are written; the inner option
distinguishes a key written with the value `None` (`result[END] = start` with `start is None`). -/
structure Fields where
  value : Option (Option Str) := none
  start : Option (Option Str) := none
  stop : Option (Option Str) := none
deriving DecidableEq, Repr, Inhabited

def Fields.isEmpty (f : Fields) : Bool := f.value.isNone && f.start.isNone && f.stop.isNone
/-- `dict.values()` -/
def Fields.values (f : Fields) : List (Option Str) := f.value.toList ++ f.start.toList ++ f.stop.toList

def sUntil : Str := [117, 110, 116, 105, 108]   -- 'until'

/-- `__add_single_date_time_to_resolution(resolutions, dtype, mod, result)`; `none` = KeyError. An empty value or one that
starts with the minimum date writes nothing; otherwise the key is `end` for a `before…` / `until…` modifier, `start` for
`after…` / `since…`, `value` else. -/
def addSingleMod (mod : Str) (value : Option Str) : Option Fields :=
  match value with
  | none => none
  | some v =>
    if v = [] ∨ startsWith v minValue then some {}
    else if mod ≠ [] ∧ startsWith mod sBefore then some { stop := some (some v) }
    else if mod ≠ [] ∧ startsWith mod sAfter then some { start := some (some v) }
    else if mod ≠ [] ∧ startsWith mod sSince then some { start := some (some v) }
    else if mod ≠ [] ∧ startsWith mod sUntil then some { stop := some (some v) }
    else some { value := some (some v) }

/-- `_generate_from_resolution(dtype, resolution, mod)`; `none` = KeyError. `set` (and any other type) yields `{}`. -/
def generate (dtype mod : Str) (r : Resolution) : Option Fields :=
  if dtype = sDateTime ∨ dtype = sTime ∨ dtype = sDate then addSingleMod mod r.single
  else if dtype = sDuration then
    some (match r.duration with | some d => { value := some (some d) } | none => {})
  else if dtype = sTimeRange ∨ dtype = sDateRange ∨ dtype = sDateTimeRange then
    let (s, e) := addPeriod mod r.start r.stop
    some { start := s, stop := e }
  else some {}

/-- a slot handed to `set_parse_result` (with a non-`None` value) -/
structure ASlot where
  dtype : Str
  timex : Str
  mod : Str
  past : Resolution
  future : Resolution
deriving DecidableEq, Repr, Inhabited

/-- one entry of `resolution['values']`, restricted to the keys `type`, `timex`, `value`, `start`, `end` (an empty `timex`
is not written by `_add_resolution_fields`: absent and empty are identified) -/
structure AValue where
  type : Str
  timex : Str
  value : Option (Option Str)
  start : Option (Option Str)
  stop : Option (Option Str)
deriving DecidableEq, Repr, Inhabited

/-- `_date_time_resolution(slot, has_before, has_after, has_since)['values']` for a slot whose comment is not `'ampm'`;
`hasMod = has_before or has_after or has_since`; `none` = KeyError.
`sorted(future.values())` equals `sorted(past.values())` element by element iff the two are permutations of each other
(a dict with two values holds two non-empty strings: `sorted` cannot raise). -/
def resolveSlot (slot : ASlot) (hasMod : Bool) : Option (List AValue) :=
  let outType := determineType slot.dtype hasMod
  match generate slot.dtype slot.mod slot.future, generate slot.dtype slot.mod slot.past with
  | some future, some past =>
    let mk (f : Fields) : AValue := ⟨outType, slot.timex, f.value, f.start, f.stop⟩
    let p := if past.isEmpty then [] else [mk past]
    let f := if future.isEmpty then [] else [mk future]
    let dicts := if future.values.isPerm past.values then p else p ++ f
    some (dicts ++ (if past.isEmpty ∧ future.isEmpty then [⟨outType, slot.timex, some (some sNotResolved), none, none⟩] else []))
  | _, _ => none

/-- `set_parse_result`: the entity's type name — a SECOND call of `_determine_date_time_types` on the slot's type. -/
def slotTypeName (slot : ASlot) (hasMod : Bool) : Str := sPrefix ++ determineType slot.dtype hasMod

def sNoneType : Str := [60, 78, 111, 110, 101, 84, 121, 112, 101, 62]   -- '<NoneType>'

/-- the observable value the predicates are evaluated on: a key written with `None` is a present, ill-formed string
(the harness encodes it the same way: `dtcorpus.wf_line`) -/
def AValue.toValue (v : AValue) : Value :=
  let f (o : Option (Option Str)) : Option Str := o.map fun x => x.getD sNoneType
  ⟨v.type, v.timex, f v.value, f v.start, f v.stop⟩

end RTV.WF
