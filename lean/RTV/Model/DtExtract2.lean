import RTV.Model.DtExtract
/-!
L2c `DtExtract2` — the REMAINING token arithmetic of the date-time sub-extractors (C01, C12); continues
`RTV.Model.DtExtract`. Mirrors /repo/Python/libraries/recognizers-date-time/recognizers_date_time/date_time:

* `base_dateperiod.py` `BaseDatePeriodExtractor`: `match_simple_cases`, `match_ordinal_number_with_century_suffix`,
  `match_year_period` (token construction; the year / dash filters are Boolean facts), `single_time_point_with_patterns`
  (`__get_token_for_regex_matching`, `__extract_within_next_prefix`), `match_complex_cases` (the list handed to
  `merge_multiple_extractions`, which is `DtExtract.rangeMerge .datePeriod`);
* `base_timeperiod.py` `BaseTimePeriodExtractor`: `match_simple_cases`, `match_time_of_day` (tokens at the FIRST
  occurrence of the matched text), `merge_two_time_points` (the number-as-time-point preamble; the loop is
  `DtExtract.rangeMerge .timePeriod`);
* `base_datetimeperiod.py` `BaseDateTimePeriodExtractor`: the second loop of `merge_two_time_points` ({Date} {TimePeriod}),
  `match_duration` + `match_within_next_prefix`, `match_time_of_day`, `match_relative_unit`,
  `match_date_with_period_prefix`, `merge_date_with_time_period_suffix`;
* `base_set.py` `BaseSetExtractor`: `match_each_unit`, `match_periodic`, `match_each_duration`, `time_everyday`, `match_each`;
* `base_holiday.py` `BaseHolidayExtractor.__holiday_match`.

Not modelled because not reachable with default options: the time-zone handling of `BaseMergedExtractor.extract`
(behind `DateTimeOptions.ENABLE_PREVIEW`), `datetime_alt_extractor` (behind `EXTENDED_TYPES`, and `None` in the English
configuration), `BaseTimePeriodExtractor.match_pure_number_cases` (behind `CALENDAR`), every `check_both_before_after`
branch (false in every shipped configuration).

Same conventions as `DtExtract`: the regex engine and the sub-recognisers are parameters (`Mt`, `CM`, `Ent`), Python
ints are `Int`. Import-free apart from RTV models.
-/
namespace RTV.DtExtract2
open RTV.Py RTV.Span RTV.DtExtract

/-- which repairs the working tree contains (probed by the harness on fixed inputs): `yearPeriodEnd` —
`match_year_period` builds `Token(start, end)` instead of `Token(start, start - length)`; `centuryOffset` —
`match_ordinal_number_with_century_suffix` strips the text behind the ordinal on the LEFT and adds the match end
instead of stripping on the right and adding `text.index(match.group())`; `dtpDurShift` — the date-time period
`match_duration` adds the number of stripped leading blanks back to the tokens it computed on `source.strip()`. -/
structure V2 where
  yearPeriodEnd : Bool
  centuryOffset : Bool
  dtpDurShift : Bool
deriving DecidableEq, Repr, Inhabited

def V2.current : V2 := ⟨false, false, false⟩
def V2.repaired : V2 := ⟨true, true, true⟩

/-- stable insertion sort by `start` (`sorted(…, key=lambda x: x.start)`). -/
def insertByStart {α : Type} (key : α → Int) (x : α) : List α → List α
  | [] => [x]
  | y :: r => if key x < key y then x :: y :: r else y :: insertByStart key x r

def sortByStart {α : Type} (key : α → Int) (l : List α) : List α :=
  l.foldl (fun acc x => insertByStart key x acc) []

/-! ## BaseDatePeriodExtractor -/

/-- `match_simple_cases`: `Token(match.start(), match.end())` for every match that survives the year-range and the
`-YYYY-` (illegal year) filters (`keep`). -/
def dpSimpleCases (ms : List (Mt × Bool)) : List Tok := tokensOfKept ms

/-- what `match_ordinal_number_with_century_suffix` sees for one ordinal: `ws` = `len(after) - len(after.rstrip())`
(TRAILING blanks, sic — the repaired tree: leading blanks), `m` = `regex.match(century_suffix_regex, trimmed)`,
`first` = `text.index(match.group())` (first occurrence in the WHOLE text, sic). -/
structure CenturyFact where
  er : Ent
  ws : Int
  m : Option Mt
  first : Int
deriving DecidableEq, Repr, Inhabited

def centuryOne (v : V2) (n : Int) (f : CenturyFact) : Option Tok :=
  if f.er.start + f.er.len ≥ n then none
  else f.m.map fun m =>
    if v.centuryOffset then ⟨f.er.start, f.er.start + f.er.len + f.ws + m.e⟩
    else ⟨f.er.start, f.er.start + f.er.len + f.ws + f.first + (m.e - m.s)⟩

def centurySuffix (v : V2) (n : Int) (fs : List CenturyFact) : List Tok := fs.filterMap (centuryOne v n)

/-- `match_year_period`: `Token(match.start(), match.start() - (match.end() - match.start()))` (sic: minus). -/
def yearPeriodTok (v : V2) (m : Mt) : Tok :=
  if v.yearPeriodEnd then ⟨m.s, m.e⟩ else ⟨m.s, m.s - (m.e - m.s)⟩

/-- `keep` = the match survives the year-range / dash-context filters. -/
def yearPeriod (v : V2) (ms : List (Mt × Bool)) : List Tok :=
  ms.filterMap fun x => if x.2 then some (yearPeriodTok v x.1) else none

/-- one call of `__get_token_for_regex_matching(source, regexp, er, in_prefix)`: `m` = `regex.search(regexp, source)`,
`edge` = `is_match_at_edge`, `rfind` = `source.rfind(match.group())`. -/
structure RegexTokFact where
  m : Option Mt
  edge : Bool
  rfind : Int
  inPrefix : Bool
deriving DecidableEq, Repr, Inhabited

/-- `none` = the code raises (`match.index` on a `Match`: AttributeError) — the `in_prefix = False` calls
(`less_than_regex` / `more_than_regex` in front of a relative date) when the match sits at the edge. -/
def tokenForRegex (er : Ent) (f : RegexTokFact) : Option (List Tok) :=
  match f.m with
  | some _ =>
    if f.edge then (if f.inPrefix then some [⟨f.rfind, er.start + er.len⟩] else none) else some []
  | none => some []

def tokensForRegexes (er : Ent) : List RegexTokFact → Option (List Tok)
  | [] => some []
  | f :: rest =>
    match tokenForRegex er f, tokensForRegexes er rest with
    | some a, some b => some (a ++ b)
    | _, _ => none

/-- the points `single_time_point_with_patterns` looks at: the date points, then the ordinals that overlap none of
them (`"week of the 18th"`). -/
def singlePoints (dates ords : List Ent) : List Ent :=
  dates ++ ords.filter fun o => !(dates.any fun x => entOverlap x o)

/-- `single_time_point_with_patterns`: per date point (or un-overlapped ordinal) the regex calls the code makes, in
order (week-of, month-of, then for relative dates less-than, more-than, then within-next when it gets that far). -/
def singleTimePoint : List (Ent × List RegexTokFact) → Option (List Tok)
  | [] => some []
  | p :: rest =>
    match tokensForRegexes p.1 p.2, singleTimePoint rest with
    | some a, some b => some (a ++ b)
    | _, _ => none

/-- `match_complex_cases`: the date points plus the simple date ranges that are not part of a date point, sorted
by start — the list handed to `merge_multiple_extractions`. -/
def complexInputs (dates simples : List Ent) : List Ent :=
  sortByStart (·.start)
    (dates ++ simples.filter fun s =>
      !(dates.any fun d => decide (d.start ≤ s.start) && decide (d.start + d.len ≥ s.start + s.len)))

def matchComplexCases (v : Variant) (dates simples : List Ent) (facts : List PairFact) : List Tok :=
  rangeMerge v .datePeriod (complexInputs dates simples) (fun _ => false) facts

/-! ## BaseTimePeriodExtractor -/

/-- `Token(source.index(match.group()), source.index(match.group()) + (match.end() - match.start()))`: the token is
placed at the FIRST occurrence `idx` of the matched text (`match_simple_cases`, `match_time_of_day`). -/
def firstOccTok (idx : Int) (m : Mt) : Tok := ⟨idx, idx + (m.e - m.s)⟩

def firstOccToks (fs : List (Int × Mt × Bool)) : List Tok :=
  fs.filterMap fun x => if x.2.2 then some (firstOccTok x.1 x.2.1) else none

/-- the `while i < len(num_extract_results)` loop of `merge_two_time_points`: a number followed by a till / connector
word and then a time point becomes a time point itself. `conns` = the outcome of the middle-string test per number
that has a later time point, in order. -/
def tpPick : List Ent → List Ent → List Bool → List Ent
  | [], _, _ => []
  | num :: rest, times, conns =>
    match times.dropWhile (fun t => decide (t.start ≤ num.start + num.len)) with
    | [] => []
    | t :: ts =>
      match conns with
      | [] => []
      | c :: cs => (if c then [num] else []) ++ tpPick rest (t :: ts) cs

/-- `for time_num in time_numbers: if not any(overlap): time_extract_results.append(time_num)`. -/
def tpAddNumbers (times nums : List Ent) : List Ent :=
  nums.foldl (fun acc tn => if acc.any (fun t => entOverlap tn t) then acc else acc ++ [tn]) times

/-- the time points the merging loop works on. `ending` = the last number ends the text or is followed by a general
ending. -/
def tpPoints (times nums : List Ent) (ending : Bool) (conns : List Bool) : List Ent :=
  match nums.getLast? with
  | none => times
  | some last => sortByStart (·.start) (tpAddNumbers times ((if ending then [last] else []) ++ tpPick nums times conns))

/-- `BaseTimePeriodExtractor.merge_two_time_points`. -/
def tpMergeTwoTimePoints (v : Variant) (times nums : List Ent) (ending : Bool) (conns : List Bool)
    (facts : List PairFact) : List Tok :=
  rangeMerge v .timePeriod (tpPoints times nums ending conns) (fun _ => false) facts

/-! ## BaseDateTimePeriodExtractor -/

/-- the second loop of `merge_two_time_points` — "{Date} {TimePeriod}" / "{TimePeriod} {Date}": `pts` = dates and
non-mealtime time periods sorted by start with their kind (`true` = date); `ok i` = the text between point `i` and
point `i + 1` is blank or starts with `token_before_date` (a fact about the text, asked only for reached pairs with a
non-empty middle). After a token the index moves on by THREE (`index += 2` and then the unconditional `index += 1`,
sic). `extended_date_str.index == 0` compares a bound method with 0: the offset is always 0. -/
def dtpSecondLoop (pts : Array (Ent × Bool)) (ok : Nat → Bool) : Nat → Nat → List Tok → List Tok
  | 0, _, acc => acc
  | fuel + 1, i, acc =>
    if i + 1 < pts.size then
      match pts[i]?, pts[i + 1]? with
      | some a, some b =>
        if a.2 == b.2 then acc
        else if b.1.start - (a.1.start + a.1.len) > 0 then
          if ok i then dtpSecondLoop pts ok fuel (i + 3) (acc ++ [⟨a.1.start, b.1.start + b.1.len⟩])
          else dtpSecondLoop pts ok fuel (i + 1) acc
        else dtpSecondLoop pts ok fuel (i + 1) acc
      | _, _ => acc
    else acc

def dtpSecondPoints (dates periods : List Ent) : List (Ent × Bool) :=
  sortByStart (·.1.start) (dates.map (·, true) ++ periods.map (·, false))

def dtpDateWithTimePeriod (dates periods : List Ent) (ok : Nat → Bool) : List Tok :=
  let pts := dtpSecondPoints dates periods
  dtpSecondLoop pts.toArray ok pts.length 0 []

/-- one time-unit duration of `match_duration`. ALL offsets are offsets into `source.strip().lower()` (the function
re-binds `source`); the tokens are used as offsets into the un-stripped text. `withinM` / `withinSeg` / `withinFirst` /
`withinUnit`: `within_next_prefix_regex.match(before_str)`, `match_prefix_regex_in_segment`, `source.index(match.group())`,
`time_unit_regex.match(source[duration.start : duration.length])` (sic: `length`, not `end`). -/
structure DtpDurFact where
  dur : Ent
  bothEmpty : Bool
  withinM : Option Mt
  withinSeg : Bool
  withinFirst : Int
  withinUnit : Bool
  prev : Option CM
  next : Option CM
  numsInPrefix : List Ent
  prefixLen : Int
  numInDuration : Bool
  /-- `regex.search(date_unit_regex, after_str)` -/
  dateUnitAfter : Bool
  prevSuffix : Option CM
  nextSuffix : Option CM
  futureSuffix : Option CM
deriving Repr, Inhabited

/-- `match_within_next_prefix(before_str, source, duration, True)`. -/
def dtpWithin (f : DtpDurFact) : Tok :=
  match f.withinM with
  | some _ => if f.withinSeg && f.withinUnit then ⟨f.withinFirst, f.dur.start + f.dur.len⟩ else ⟨-1, -1⟩
  | none => ⟨-1, -1⟩

def dtpDurIndex (f : DtpDurFact) : Int := if cmIdx f.prev < 0 then cmIdx f.next else cmIdx f.prev

def dtpDurPrefix (f : DtpDurFact) (index : Int) : List Tok :=
  if !f.numsInPrefix.isEmpty && !f.numInDuration then
    match lastByEnd f.numsInPrefix with
    | some l => if l.start + l.len == f.prefixLen then [⟨l.start, f.dur.start + f.dur.len⟩] else []
    | none => []
  else [⟨index, f.dur.start + f.dur.len⟩]

def dtpSufTok (f : DtpDurFact) (c : Option CM) (extra : Int) : Option Tok :=
  match c with
  | some c => if c.succ then some ⟨f.dur.start, f.dur.start + f.dur.len + c.idx + c.len + extra⟩ else none
  | none => none

/-- the suffix branch: previous (`+ 1`, sic), next, future-suffix. -/
def dtpDurSuffix (f : DtpDurFact) : List Tok :=
  if f.dateUnitAfter then []
  else
    match dtpSufTok f f.prevSuffix 1 with
    | some t => [t]
    | none =>
      match dtpSufTok f f.nextSuffix 0 with
      | some t => [t]
      | none => match dtpSufTok f f.futureSuffix 0 with | some t => [t] | none => []

/-- the loop: `break` (sic) when the duration is the whole text and after a within-next token. -/
def dtpMatchDuration : List DtpDurFact → List Tok
  | [] => []
  | f :: rest =>
    if f.bothEmpty then []
    else if (dtpWithin f).start ≥ 0 then [dtpWithin f]
    else if dtpDurIndex f ≥ 0 then dtpDurPrefix f (dtpDurIndex f) ++ dtpMatchDuration rest
    else dtpDurSuffix f ++ dtpMatchDuration rest

/-- `match_duration` as its caller sees it: `lead` = the number of leading blanks `source.strip()` removed. The current
tree hands out the stripped-text offsets unchanged, the repaired tree (dtp-duration-leading-blank.diff) moves them
right by `lead`. -/
def dtpMatchDurationV (v : V2) (lead : Int) (fs : List DtpDurFact) : List Tok :=
  if v.dtpDurShift then (dtpMatchDuration fs).map fun t => ⟨t.start + lead, t.stop + lead⟩ else dtpMatchDuration fs

/-- what `match_time_of_day` sees for one date result. `m1` = `period_time_of_day_with_date_regex.search(after_str)`
with its `timeOfDay` group (`todS`, `todLen`), `blank1` = nothing but blanks in front of it, `pause1` = the text in
front is a middle pause and a general ending follows; `am` / `pm` = the am / pm descriptor searches in `after_str`
(recorded when made); `m2` = the same regex on the prefix, `rest2Blank` = nothing but blanks behind it in the prefix,
`mid2Space` = `source[match.end() : start]` is non-empty and blank, `pause2` as `pause1`. -/
structure TodFact where
  er : Ent
  m1 : Option Mt
  todS : Int
  todLen : Int
  blank1 : Bool
  pause1 : Bool
  am : Option Mt
  pm : Option Mt
  m2 : Option Mt
  rest2Blank : Bool
  mid2Space : Bool
  pause2 : Bool
deriving Repr, Inhabited

/-- which match the am / pm part ends up with: what the after-string search left, else the am descriptor, replaced
by the pm descriptor when there is none or it does not start the after-string. -/
def todPick (f : TodFact) : Option Mt :=
  let m0 : Option Mt := match f.m1 with | some m => some m | none => f.am
  match m0 with
  | none => f.pm
  | some x => if x.s > 0 then f.pm else some x

/-- `ExtractResult.end` is INCLUSIVE (`start + length - 1`), so the token ends one character short (sic). -/
def todAmPmTok (er : Ent) : Option Mt → List Tok
  | some x => if x.s == 0 then [⟨er.start, er.start + er.len - 1 + x.e⟩] else []
  | none => []

/-- the am / pm part (`monday pm`). -/
def todAmPm (f : TodFact) : List Tok := todAmPmTok f.er (todPick f)

def todPrefix (f : TodFact) : List Tok :=
  match f.m2 with
  | some m =>
    if f.rest2Blank then (if f.mid2Space then [⟨m.s, f.er.start + f.er.len⟩] else [])
    else if f.pause2 then [⟨m.s, f.er.start + f.er.len⟩] else []
  | none => []

/-- the loop over the date results; the flag = the `break` of the first branch was hit. -/
def todDates : List TodFact → List Tok
  | [] => []
  | f :: rest =>
    match f.m1 with
    | some m =>
      if f.blank1 then [⟨f.er.start, f.er.start + f.er.len + f.todLen + f.todS⟩]   -- and `break`
      else
        (if f.pause1 then [⟨f.er.start, f.er.start + f.er.len + m.e⟩] else []) ++ todAmPm f ++ todPrefix f ++ todDates rest
    | none => todAmPm f ++ todPrefix f ++ todDates rest

/-- the adjacency pass for one token of the first pass: `before` = the time periods found in `source[0:token.start]`,
each with `gap` = `len(mid_str)` and `ok` = the gap is blank and the period carries no metadata; `after` = those found in
`source[token.start + token.length:]`. `n` = `len(source)`. -/
def todAdjOne (n : Int) (t : Tok) (before : List (Ent × Int × Bool)) (after : List (Ent × Bool)) : List Tok :=
  (if t.start > 0 then
    before.filterMap fun x => if x.2.2 then some ⟨x.1.start, x.1.start + x.1.len + x.2.1 + t.length⟩ else none
   else []) ++
  (if t.stop ≤ n then
    after.filterMap fun x => if x.2 then some ⟨t.start, t.stop + x.1.start + x.1.len⟩ else none
   else [])

/-- what the time-period extractor returns on a prefix / suffix of the text, keyed by where the text is cut (the same
string gives the same answer): `adjB` by `token.start`, `adjA` by `token.start + token.length`. -/
structure TodAdj where
  adjB : List (Int × List (Ent × Int × Bool))
  adjA : List (Int × List (Ent × Bool))
deriving Repr, Inhabited

def lookupCut {α : Type} (k : Int) : List (Int × List α) → List α
  | [] => []
  | x :: r => if x.1 == k then x.2 else lookupCut k r

/-- `match_time_of_day`: `spec` = `specific_time_of_day_regex` matches; without date results only those. -/
def dtpTimeOfDay (n : Int) (spec : List Mt) (dates : List TodFact) (adj : TodAdj) : List Tok :=
  if dates.isEmpty then tokensOf spec
  else
    let first := tokensOf spec ++ todDates dates
    first ++ first.flatMap fun t => todAdjOne n t (lookupCut t.start adj.adjB) (lookupCut (t.start + t.length) adj.adjA)

/-- `match_relative_unit`: the relative-time-unit matches, or (when there are none) the rest-of-date-time ones. -/
def dtpRelativeUnit (rel rest : List Mt) : List Tok := if rel.isEmpty then tokensOf rest else tokensOf rel

/-- `match_date_with_period_prefix`: `m` = `prefix_day_regex.search(source[0:date.start].strip())` — `match.start()`
is an offset into the STRIPPED prefix and is used as a source offset. -/
def prefixDayOne (date : Ent) (m : Option Mt) : Option Tok := m.map fun m => ⟨m.s, date.start + date.len⟩

def dtpPeriodPrefix (fs : List (Ent × Option Mt)) : List Tok := fs.filterMap fun x => prefixDayOne x.1 x.2

/-- the pairing loop of `merge_date_with_time_period_suffix`: the overlap / kind / middle tests read the UNSORTED
concatenation `unsorted` (dates then times), the token is built from the SORTED list `sorted` at the same indices
(sic). `valid` = per reached (date, time) pair: the middle string is a before / after connector. -/
def dwtLoop (unsorted sorted : Array (Ent × Bool)) : Nat → Nat → List Bool → List Tok → List Tok
  | 0, _, _, acc => acc
  | fuel + 1, i, valid, acc =>
    if i + 1 < unsorted.size then
      let j := skipOverlap unsorted i unsorted.size (i + 1)
      if j ≥ unsorted.size then acc
      else
        match unsorted[i]?, unsorted[j]? with
        | some a, some b =>
          if a.2 && !b.2 then
            if a.1.start + a.1.len > b.1.start then dwtLoop unsorted sorted fuel (j + 1) valid acc
            else
              match valid with
              | [] => acc
              | ok :: rest =>
                let acc' :=
                  if ok then
                    match sorted[i]?, sorted[j]? with
                    | some p, some q => acc ++ [⟨p.1.start, q.1.start + q.1.len⟩]
                    | _, _ => acc
                  else acc
                dwtLoop unsorted sorted fuel (j + 1) rest acc'
          else dwtLoop unsorted sorted fuel j valid acc
        | _, _ => acc
    else acc

/-- the widening pass: every token but the last is extended by the length of a `suffix_regex` match found in the ONE
character `text[token.end]` (sic); `none` = `IndexError` (`token.end == len(text)`). -/
def dwtWiden (n : Int) : List Tok → List (Option Mt) → Option (List Tok)
  | [], _ => some []
  | [t], _ => some [t]
  | t :: rest, ms =>
    if t.stop ≥ n || t.stop < -n then none
    else
      let m := ms.head?.getD none
      match dwtWiden n rest ms.tail with
      | none => none
      | some r => some ((match m with | some m => (⟨t.start, t.stop + (m.e - m.s)⟩ : Tok) | none => t) :: r)

/-- `merge_date_with_time_period_suffix` (dates and times both non-empty, else `[]`). -/
def dtpDateWithSuffix (n : Int) (dates times : List Ent) (valid : List Bool) (wid : List (Option Mt)) : Option (List Tok) :=
  if dates.isEmpty || times.isEmpty then some []
  else
    let uns := dates.map (·, true) ++ times.map (·, false)
    let srt := sortByStart (·.1.start) uns
    dwtWiden n (dwtLoop uns.toArray srt.toArray uns.length 0 valid []) wid

/-! ## BaseSetExtractor -/

/-- `match_each_duration`: `m` = `each_prefix_regex.search(source[0:start])` (durations with `last_regex` skipped). -/
def eachDurationOne (e : Ent) (m : Option Mt) : Option Tok := m.map fun m => ⟨m.s, e.start + e.len⟩

def setEachDuration (fs : List (Ent × Option Mt)) : List Tok := fs.filterMap fun x => eachDurationOne x.1 x.2

/-- `time_everyday`: at the end of the text (and with a `before_each_day_regex`) the each-day word is looked for in
front (`m` = that search, `useBefore`), otherwise behind (`len(after_match.group())` is added). -/
def timeEverydayOne (e : Ent) (useBefore : Bool) (m : Option Mt) : Option Tok :=
  m.map fun m => if useBefore then ⟨m.s, e.start + e.len⟩ else ⟨e.start, e.start + e.len + (m.e - m.s)⟩

def setTimeEveryday (fs : List (Ent × Bool × Option Mt)) : List Tok := fs.filterMap fun x => timeEverydayOne x.1 x.2.1 x.2.2

/-- `match_each`, first loop: for a `set_each_regex` match `m` the extractor runs on the text WITHOUT the match;
a result that spans the cut is extended by the length of the match. -/
def matchEachCut (m : Mt) (ers : List Ent) : List Tok :=
  ers.filterMap fun e =>
    if decide (e.start ≤ m.s) && decide (m.s < e.start + e.len) then some ⟨e.start, e.start + e.len + (m.e - m.s)⟩ else none

/-- second loop: for a `set_week_day_regex` match the text is re-run with the match replaced by its `weekday` group;
`inText` = that group occurs in the result's text; `plen` = `len(prefix group)` (0 when absent): the result is extended
by `1 + plen`. -/
def matchEachWeekday (m : Mt) (plen : Int) (ers : List (Ent × Bool)) : List Tok :=
  ers.filterMap fun x =>
    if decide (x.1.start ≤ m.s) && x.2 then some ⟨x.1.start, x.1.start + (x.1.len + 1 + (if plen > 0 then plen else 0))⟩ else none

def setMatchEach (cuts : List (Mt × List Ent)) (wds : List (Mt × Int × List (Ent × Bool))) : List Tok :=
  (cuts.flatMap fun x => matchEachCut x.1 x.2) ++ (wds.flatMap fun x => matchEachWeekday x.1 x.2.1 x.2.2)

/-! ## BaseHolidayExtractor -/

/-- `__holiday_match`: every match of every holiday regex. -/
def holidayMatch (ms : List Mt) : List Tok := tokensOf ms

end RTV.DtExtract2
