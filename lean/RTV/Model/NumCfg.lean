import RTV.Model.Num
import RTV.Gen.NumEn
import RTV.Gen.NumEs
import RTV.Gen.NumEsMx
import RTV.Gen.NumFr
import RTV.Gen.NumPt
import RTV.Gen.NumDe
import RTV.Gen.NumIt
import RTV.Gen.NumNl
import RTV.Gen.NumZh
import RTV.Gen.NumJa
/-!
The ten number configurations, assembled from the regenerated data (`RTV/Gen/Num*.lean`, read from the parser
configuration objects of the working tree). What is *code* rather than data — which `resolve_composite_number`
a culture's configuration class implements — is written here by hand and tied by the unit correspondence.
-/
namespace RTV.Num
open RTV.Gen

structure Culture where
  code : List Nat
  sep : SepCfg
  longFormat : Option (Nat × Nat)
  lang : LangCfg

def mkCulture (code : List Nat) (decSep nonDecSep : Nat) (multiDec nonStd : Bool) (lf : Option (Nat × Nat))
    (card ord round : List (List Nat × Nat)) (wis : List (List Nat)) (rk : ResolveKind) : Culture :=
  { code, sep := ⟨decSep, nonDecSep, multiDec, nonStd⟩, longFormat := lf,
    lang := ⟨card, ord, round, wis, rk⟩ }

def en : Culture := mkCulture NumEn.code NumEn.decSep NumEn.nonDecSep NumEn.multiDec NumEn.nonStdVariant
  NumEn.longFormat NumEn.cardinal NumEn.ordinal NumEn.round NumEn.writtenIntSep .hyphen
def es : Culture := mkCulture NumEs.code NumEs.decSep NumEs.nonDecSep NumEs.multiDec NumEs.nonStdVariant
  NumEs.longFormat NumEs.cardinal NumEs.ordinal NumEs.round NumEs.writtenIntSep .greedyPos
def esMx : Culture := mkCulture NumEsMx.code NumEsMx.decSep NumEsMx.nonDecSep NumEsMx.multiDec NumEsMx.nonStdVariant
  NumEsMx.longFormat NumEsMx.cardinal NumEsMx.ordinal NumEsMx.round NumEsMx.writtenIntSep .greedyPos
def fr : Culture := mkCulture NumFr.code NumFr.decSep NumFr.nonDecSep NumFr.multiDec NumFr.nonStdVariant
  NumFr.longFormat NumFr.cardinal NumFr.ordinal NumFr.round NumFr.writtenIntSep .greedyGt
def pt : Culture := mkCulture NumPt.code NumPt.decSep NumPt.nonDecSep NumPt.multiDec NumPt.nonStdVariant
  NumPt.longFormat NumPt.cardinal NumPt.ordinal NumPt.round NumPt.writtenIntSep .greedyGt
def de : Culture := mkCulture NumDe.code NumDe.decSep NumDe.nonDecSep NumDe.multiDec NumDe.nonStdVariant
  NumDe.longFormat NumDe.cardinal NumDe.ordinal NumDe.round NumDe.writtenIntSep .hyphen
def it : Culture := mkCulture NumIt.code NumIt.decSep NumIt.nonDecSep NumIt.multiDec NumIt.nonStdVariant
  NumIt.longFormat NumIt.cardinal NumIt.ordinal NumIt.round NumIt.writtenIntSep .hyphen
def nl : Culture := mkCulture NumNl.code NumNl.decSep NumNl.nonDecSep NumNl.multiDec NumNl.nonStdVariant
  NumNl.longFormat NumNl.cardinal NumNl.ordinal NumNl.round NumNl.writtenIntSep .hyphen
def zh : Culture := mkCulture NumZh.code NumZh.decSep NumZh.nonDecSep NumZh.multiDec NumZh.nonStdVariant
  NumZh.longFormat NumZh.cardinal NumZh.ordinal NumZh.round NumZh.writtenIntSep .hyphen
def ja : Culture := mkCulture NumJa.code NumJa.decSep NumJa.nonDecSep NumJa.multiDec NumJa.nonStdVariant
  NumJa.longFormat NumJa.cardinal NumJa.ordinal NumJa.round NumJa.writtenIntSep .hyphen

def cultures : List Culture := [en, es, esMx, fr, pt, de, it, nl, zh, ja]

def cultureOf (code : List Nat) : Option Culture := cultures.find? fun c => c.code = code

/-- `Culture.Japanese` = "ja-jp": the flag `culture_info.code == Culture.Japanese` is computed from the regenerated code -/
def japaneseCode : List Nat := [106, 97, 45, 106, 112]
def zhCjk : CjkCfg := ⟨NumZh.zeroToNine, NumZh.roundChar, NumZh.roundDirect, NumZh.tenChars, NumZh.zeroChar,
  NumZh.cultureInfoCode == japaneseCode⟩
def jaCjk : CjkCfg := ⟨NumJa.zeroToNine, NumJa.roundChar, NumJa.roundDirect, NumJa.tenChars, NumJa.zeroChar,
  NumJa.cultureInfoCode == japaneseCode⟩

end RTV.Num
