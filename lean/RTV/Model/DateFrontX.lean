import RTV.Model.DateFront
/-!
L6 `DateFront`, other cultures (C06 front end of es-es / es-mx / fr-fr / pt-br / de-de …): what the culture-generic
front end (`RTV.DateFront.parseBasic`, `frontResolve` take the regex list, the token prefix and the configuration as
arguments) needs in addition to the English layer.

`latinTables`: the reference tables of the symbolic evaluation for texts with Latin-1 letters (`février`, `août`,
`março`, `märz`): the ASCII tables, plus `\w` on the Latin-1 letters (U+00AA, U+00B5, U+00BA, U+00C0–U+00D6,
U+00D8–U+00F6, U+00F8–U+00FF), no further digit or white space below U+0100 except U+0085 / U+00A0 (white space for `\s`
of the `regex` module).  Props/C06FrontX `retables_latin` shows that the tables exported from the running `regex` module
agree with them below 256.

`attempt` / `badAt`: `regex.search` start position by start position — a regex is rejected by the loop when NO start position
of the text and of prefix + text yields a whole-text match; Lemmas/DateFrontCoverX certifies that position by position
(each with its own, as coarse as possible, abstract texts).
-/
namespace RTV.DateFront
open RTV.Re RTV.Py

def latinTables : Tables where
  digit c := asciiTables.digit c
  word c := asciiTables.word c || c == 170 || c == 181 || c == 186 || (192 ≤ c && c ≤ 214) || (216 ≤ c && c ≤ 246) ||
    (248 ≤ c && c ≤ 255)
  space c := asciiTables.space c || c == 133 || c == 160

/-- one match attempt of `regex.search` at the start position `p` -/
def attempt (O : Oracle) (r : RE) (p : Nat) : R := matchK O r (fun j e => .found j e) p []

/-- the outcome of the attempt at start position `p` is known and is NOT a match the loop of `parse_basic_regex_match`
accepts (start `off`, length `n`): no match there, or a match with another start or length -/
def badAt (off n p : Nat) : R → Bool
  | .unk => false
  | .fail => true
  | .found j _ => !(p == off && j - p == n)

end RTV.DateFront
