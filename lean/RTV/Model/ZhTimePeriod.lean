import RTV.Model.DtPeriod
import RTV.Model.Holiday
import RTV.Model.ZhDateTime
/-!
L5 `ZhTimePeriod` — the remaining Chinese date-time parsers (`recognizers_date_time/date_time/chinese/`), mirrored function
by function with the **regex / sub-parser outcomes as inputs** (which groups matched, what the number tables made of
them, what the date / time sub-parsers returned for the pieces of the text):

* `time_parser.py`: `handle_less` (差五分十点) and what `parse` hands on as `.data` (the `TimeResult` after
  `pack_time_result` applied the day description); `base_date_time_extractor.py`: `TimeResolutionUtils.add_description`
* `timeperiod_parser.py`: `get_short_left`, `parse_time_period` (the am/pm inference across the two ends, `build_date`,
  the day roll, `build_timex`, `build_span`, `sanitize_time_result`), `get_matched_timex_range` /
  `parse_chinese_time_of_day` (上午 / 下午 / 晚上 … with `TimexUtil.parse_time_of_day`), `parse`
* `datetimeperiod_parser.py`: `merge_date_and_time_periods` (明天下午三点到五点), `merge_two_time_points`,
  `parse_specific_time_of_day` (+ `ChineseDateTimePeriodParserConfiguration.get_matched_time_range`: 今晚 / 明早 / 昨晚 …;
  the 上午 / 中午 / 下午 / 晚上 / 深夜 table; a date followed by a part of day), `_parse_number_with_unit` /
  `__parse_common_duration_with_unit` (前3小时 / 未来20分钟)
* `set_parser.py`: `parse` (the order of the five attempts), `parse_each_unit`;
  `set_parser_config.py`: `get_matched_unit_timex`
* `holiday_parser.py`: the fixed-date table, `_match2date` (year reading with its quirks, fixed / variable holidays),
  `__convert_year`, `__get_date_value`, the lunar flag; `holiday_parser_config.py`: `get_swift_year`, the three variable
  holidays (父亲节 / 母亲节 / 感恩节 through `BaseHolidayParserConfiguration.get_day`, modelled by `RTV.Holiday.Fn`)

Conventions: a Python `datetime` is `Cal.DateTime`; results are `Periods.Res` (`raises` = the Python code raises,
`noResult` = `success` stays False, `ok timex futureBegin futureEnd pastBegin pastEnd`). Strings are built with the `RTV.WF`
formatting functions so that `tripleOK` / `parseDate` apply to them directly. Word tables that are literals *in the code*
(term lists, the 今晚-table, the holiday dictionary) are written here by hand and compared row by row with the real
objects by `harness/lib/zhcorr2.py`.
-/
set_option linter.unusedVariables false
namespace RTV.ZhTP
open RTV.Cal RTV.DateUtils RTV.WF RTV.Periods RTV.DtPeriod

/-! ## `TimeResult`, `add_description`, `handle_less` -/

/-- `TimeResult(hour, minute, second, low_bound = -1)`; `-1` in a field = absent -/
structure TR where
  hour : Int
  minute : Int
  second : Int
  lowBound : Int := -1
deriving DecidableEq, Repr

/-- `TimeResolutionUtils.add_description(time_result, low_bound_map, description)`; `lb` = `low_bound_map.get(description)` -/
def addDescription (lb : Option Int) (t : TR) : TR :=
  match lb with
  | some b => if t.hour < b then { t with hour := t.hour + 12, lowBound := b } else { t with lowBound := 0 }
  | none => { t with lowBound := 0 }

/-- what `ChineseTimeParser.parse(...)` hands on as `.data`: `handle_digit` / `handle_chinese` gave (hour, minute, second);
`desc = none`: the `daydesc` group is blank (no description applied, `low_bound` stays −1); `desc = some lb`: a description
is there and `low_bound_map.get(description) = lb`. -/
def parsedTime (hour minute second : Int) (desc : Option (Option Int)) : TR :=
  match desc with
  | none => ⟨hour, minute, second, -1⟩
  | some lb => addDescription lb ⟨hour, minute, second, -1⟩

/-- `handle_less` (差五分十点): `_all = hour * 60 + minute - less` (+1440 when negative), result
`TimeResult(_all / 60, _all % 60, second)` — `/` is Python's true division, so the hour is a `float`; returned here as the
total `_all` (the hour is `_all / 60` exactly when `60 ∣ _all`), the minute and the second. `half`: the `half` group
matched; `quarter`, `second`, `less`: `match_to_value` of those groups (−1 = absent). -/
def handleLess (hour quarter : Int) (half : Bool) (second less : Int) : Int × Int × Int :=
  let minute : Int := if half then 30 else if quarter ≠ -1 then quarter * 15 else 0
  let all := hour * 60 + minute - less
  let all := if all < 0 then all + 1440 else all
  (all, all % 60, second)

/-! ## `ChineseTimePeriodParser` -/

/-- `get_short_left(source)`: `hour` = `match_to_value(source[-1])` (the LAST character only), `lb` =
`low_bound_map.get(description)` with `description = source[:-1]` when the text starts with a day description, else `''`. -/
def getShortLeft (hour : Int) (lb : Option Int) : TR := addDescription lb ⟨hour, -1, -1, -1⟩

def floor0 (x : Int) : Int := if x > 0 then x else 0

/-- `build_date(time, reference)`: `safe_create_from_min_value(ref.year, ref.month, ref.day, hour, minute, second)` with the
three fields floored at 0. `is_valid_time` does not bound the second from above: `datetime(…, second ≥ 60)` raises
(`none`); an hour of 24 or a minute of 60 gives the minimum value. -/
def buildDate (t : TR) (ref : DateTime) : Option DateTime :=
  let h := floor0 t.hour
  let mi := floor0 t.minute
  let s := floor0 t.second
  if ref.date.valid && decide (h < 24) && decide (mi < 60) then
    (if s < 60 then some ⟨ref.date, (h * 3600 + mi * 60 + s).toNat⟩ else none)
  else some DateUtils.minValue

/-- `f'{n:02d}'` for an `int` -/
def fmt2 (n : Int) : Str := if n < 0 then [45] ++ natStr n.natAbs else pad2w n.toNat

/-- `build_timex(time_result)` -/
def buildTimex (t : TR) : Str :=
  [84] ++ (if t.hour ≥ 0 then
    fmt2 t.hour ++ (if t.minute ≥ 0 then
      [58] ++ fmt2 t.minute ++ (if t.second ≥ 0 then [58] ++ fmt2 t.second else []) else []) else [])

/-- the borrow arithmetic of `build_span(left, right)` (with `sanitize_time_result`: an absent minute / second counts as
0): `(span_hour, span_min, span_sec)` -/
def spanParts (l r : TR) : Int × Int × Int :=
  let z (x : Int) : Int := if x = -1 then 0 else x
  let ss0 := z r.second - z l.second
  let sm0 := z r.minute - z l.minute
  let sh0 := r.hour - l.hour
  let ss := if ss0 < 0 then ss0 + 60 else ss0
  let sm1 := if ss0 < 0 then sm0 - 1 else sm0
  let sm := if sm1 < 0 then sm1 + 60 else sm1
  let sh1 := if sm1 < 0 then sh0 - 1 else sh0
  let sh := if sh1 < 0 then sh1 + 24 else sh1
  (sh, sm, ss)

/-- `build_span(left, right)`: `PT` + the non-zero components -/
def buildSpan (l r : TR) : Str :=
  let p := spanParts l r
  [80, 84] ++ (if p.1 ≠ 0 then intStr p.1 ++ [72] else []) ++ (if p.2.1 ≠ 0 then intStr p.2.1 ++ [77] else []) ++
    (if p.2.2 ≠ 0 then intStr p.2.2 ++ [83] else [])

/-- the am/pm inference across the two ends: "the right side doesn't contain desc while the left side does" —
`if right.low_bound == -1 and left.low_bound != -1 and right.hour <= left.low_bound: right.hour += 12` -/
def adjustRight (l r : TR) : TR :=
  if r.lowBound = -1 ∧ l.lowBound ≠ -1 ∧ r.hour ≤ l.lowBound then { r with hour := r.hour + 12 } else r

/-- `parse_time_period(extra, reference)` once the two `TimeResult`s are there (`left` from `get_parse_time_result` or
`get_short_left`, `right` from `get_parse_time_result`): future = past = `[left_date, right_date]`, the right date rolled
by one day when its HOUR is below the left one's. -/
def parseTimePeriod (l r0 : TR) (ref : DateTime) : Res :=
  let r := adjustRight l r0
  match buildDate l ref, buildDate r ref with
  | some ld, some rd0 =>
    match (if hourOf rd0 < hourOf ld then addDays rd0 1 else some rd0) with
    | none => .raises
    | some rd => .ok (triple (buildTimex l) (buildTimex r) (buildSpan l r)) ld rd ld rd
  | _, _ => .raises

/-- `parse_time_period` after the proposed repair of finding `zh-timeperiod-empty-span`
(findings/zhtp/zh-timeperiod-empty-span.diff): a span without any component is written `PT0H`. Everything else identical. -/
def parseTimePeriodFixed (l r0 : TR) (ref : DateTime) : Res :=
  match parseTimePeriod l r0 ref with
  | .ok _ b e pb pe =>
    let r := adjustRight l r0
    .ok (triple (buildTimex l) (buildTimex r) (if buildSpan l r = [80, 84] then [80, 84, 48, 72] else buildSpan l r)) b e pb pe
  | x => x

/-- the part-of-day codes of `get_matched_timex_range` / `TimexUtil.parse_time_of_day` -/
inductive Tod6 | morning | midDay | afternoon | evening | daytime | night
deriving DecidableEq, Repr

/-- `TimexUtil.parse_time_of_day(tod)`: (timex, begin_hour, end_hour, end_min) -/
def Tod6.range : Tod6 → TimeRange
  | .morning => ⟨[84, 77, 79], 8, 12, 0⟩        -- TMO
  | .midDay => ⟨[84, 77, 73], 11, 13, 0⟩        -- TMI
  | .afternoon => ⟨[84, 65, 70], 12, 16, 0⟩     -- TAF
  | .evening => ⟨[84, 69, 86], 16, 20, 0⟩       -- TEV
  | .daytime => ⟨[84, 68, 84], 8, 18, 0⟩        -- TDT
  | .night => ⟨[84, 78, 73], 20, 23, 59⟩        -- TNI

def endsWithAny (s : Str) (ws : List Str) : Bool := ws.any fun w => ZhDT.pEndsWith s w

def morningTerms : List Str := [[26089], [19978, 21320], [26089, 38388], [26089, 19978], [28165, 26216]]   -- 早 上午 早间 早上 清晨
def midDayTerms : List Str := [[20013, 21320], [27491, 21320]]                                            -- 中午 正午
def afternoonTerms : List Str := [[19979, 21320], [21320, 21518]]                                         -- 下午 午后
def eveningTerms : List Str := [[26202], [26202, 19978], [22812, 37324], [20621, 26202], [22812, 26202]]   -- 晚 晚上 夜里 傍晚 夜晚
def daytimeTerms : List Str := [[30333, 22825], [26085, 38388]]                                           -- 白天 日间
def nightTerms : List Str := [[28145, 22812]]                                                             -- 深夜

/-- `get_matched_timex_range(text)` on the stripped text: which part of the day, by the order of the tests -/
def todOfText (s : Str) : Option Tod6 :=
  if endsWithAny s morningTerms then some .morning
  else if endsWithAny s midDayTerms then some .midDay
  else if endsWithAny s afternoonTerms then some .afternoon
  else if endsWithAny s eveningTerms then some .evening
  else if daytimeTerms.any (· == s) then some .daytime
  else if endsWithAny s nightTerms then some .night
  else none

/-- `parse_chinese_time_of_day(text, reference)`: `[safe_create(y, m, d, begin_hour, 0, 0), safe_create(y, m, d, end_hour,
end_min, 0)]` — the second of the end is 0 here (the date-time period parser passes `end_min` a second time) -/
def timeOfDay (s : Str) (ref : DateTime) : Res :=
  match todOfText s with
  | none => .noResult
  | some tod =>
    let v := tod.range
    let b := withTime ref.date v.beginHour 0 0
    let e := withTime ref.date v.endHour v.endMin 0
    .ok v.timeStr b e b e

/-- `ChineseTimePeriodParser.parse` (type = time period, `extra` present): the part-of-day words first, then the two-ended
range; `lr` = the two `TimeResult`s, `none` when the match has no `left` group (`extra.named_entity['left']` raises
KeyError: a part-of-day word outside the term lists, e.g. 凌晨) -/
def tpParse (s : Str) (lr : Option (TR × TR)) (ref : DateTime) : Res :=
  match timeOfDay s ref with
  | .noResult =>
    match lr with
    | none => .raises
    | some (l, r) => parseTimePeriod l r ref
  | x => x

/-! ## `ChineseDateTimePeriodParser` -/

/-- `merge_date_and_time_periods` once exactly one date and one time period were extracted and parsed: `fd` / `pd` the
date's future / past value, `dateTimex` its TIMEX, `tpTimex` the time period's TIMEX, `bt` / `et` its begin / end
(future value). The values paste the two clock times onto the date (no day roll); the TIMEX is rebuilt from
`tpTimex.split('T')`, which must have four parts (`(T15,T17,PT2H)`; a part-of-day code such as `TAF` has two). -/
def mergeDateAndTimePeriods (fd pd : DateTime) (dateTimex tpTimex : Str) (bt et : DateTime) : Res :=
  let mk (d t : DateTime) : DateTime := withTime d.date (hourOf t) (minuteOf t) (secondOf t)
  match WF.splitOn 84 tpTimex with
  | [s0, s1, s2, s3] =>
    .ok (s0 ++ dateTimex ++ [84] ++ s1 ++ dateTimex ++ [84] ++ s2 ++ [84] ++ s3) (mk fd bt) (mk fd et) (mk pd bt) (mk pd et)
  | _ => .noResult

/-- `merge_date_and_time_periods` after the proposed repair of finding `zh-dtperiod-cross-midnight`
(findings/zhtp/zh-dtperiod-cross-midnight.diff), the counterpart of the Base fix 94f8d37bb: on a DEFINITE date
(`date_str == luis_date(future_date)`) a time range whose end clock time is not after its begin's ends on the next day —
`+ timedelta(days=1)` on both end values (OverflowError at the end of the calendar) and the end point's TIMEX carries that
day's date. -/
def mergeDateAndTimePeriodsFixed (fd pd : DateTime) (dateTimex tpTimex : Str) (bt et : DateTime) : Res :=
  let mk (d t : DateTime) : DateTime := withTime d.date (hourOf t) (minuteOf t) (secondOf t)
  let nextDay : Bool := decide (et.secs ≤ bt.secs) && (dateTimex == formatDate fd.date)
  match (if nextDay then addDays (mk fd et) 1 else some (mk fd et)), (if nextDay then addDays (mk pd et) 1 else some (mk pd et)) with
  | some fe, some pe =>
    match WF.splitOn 84 tpTimex with
    | [s0, s1, s2, s3] =>
      .ok (s0 ++ dateTimex ++ [84] ++ s1 ++ (if nextDay then formatDate fe.date else dateTimex) ++ [84] ++ s2 ++ [84] ++ s3)
        (mk fd bt) fe (mk pd bt) pe
    | _ => .noResult
  | _, _ => .raises

def countCh (c : Nat) (s : Str) : Nat := (s.filter (· == c)).length

/-- `DateTimeFormatUtil.luis_date_short_time(time, timex)`: the date, then `T` + hour, the minute when the old TIMEX had one
or it is positive, the second likewise; a second without a minute prints the INVALID minute `-1`. -/
def luisDateShortTime (x : DateTime) (timex : Str) : Str :=
  let hasMin := timex.contains 58
  let hasSec := decide (countCh 58 timex ≥ 2)
  let m? := hasMin || decide (minuteOf x > 0)
  let s? := hasSec || decide (secondOf x > 0)
  formatDate x.date ++ [84] ++ pad2 (hourOf x) ++
    (if !m? && !s? then [] else [58] ++ (if m? then pad2 (minuteOf x) else [45, 49]) ++ (if s? then [58] ++ pad2 (secondOf x) else []))

/-- `safe_create_from_min_value_date_time(x)` + `timedelta(hours, minutes, seconds of t)` -/
def midnightPlus (x t : DateTime) : DateTime :=
  let m : DateTime := if x.date.valid then ⟨x.date, 0⟩ else DateUtils.minValue
  ⟨m.date, m.secs + t.secs⟩

/-- `merge_two_time_points` once the two points are parsed (`k`: two date-times / a date-time then a time / a time then a
date-time). Inputs: future / past value and TIMEX of the begin and of the end; `leftComment`: the begin's comment is
non-empty; `rightAmPm`: the end's comment is `'ampm'`. The side WITHOUT a date is put on the REFERENCE's date (the code's
TODO), then `+12 h` when the end is ambiguous, the begin is not, and the end lies before the begin; then `+1 day` when it
still does. future = past = `[left_time, right_time]`. -/
def mergeTwoTimePoints (ref : DateTime) (k : Ends) (fb pb : DateTime) (t1 : Str) (leftComment : Bool)
    (fe pe : DateTime) (t2 : Str) (rightAmPm : Bool) : Res :=
  let fb' := if fe.lt fb then pb else fb          -- if future_begin > future_end: future_begin = past_begin
  let (leftBase, rightBase) : DateTime × DateTime :=
    match k with
    | .both => (fb', fe)
    | .beginHasDate => (fb', ref)
    | .endHasDate => (ref, fe)
  let left := midnightPlus leftBase fb             -- the clock time of `prs.begin.value.future_value`
  let right0 := midnightPlus rightBase fe
  match (if rightAmPm && !leftComment && right0.lt left then addSeconds right0 43200 else some right0) with
  | none => .raises
  | some right1 =>
    match (if right1.lt left then addDays right1 1 else some right1) with
    | none => .raises
    | some right =>
      let lt := match k with | .endHasDate => luisDateShortTime left t1 | _ => t1
      let rt := match k with | .beginHasDate => luisDateShortTime right t2 | _ => t2
      .ok (triple lt rt (luisSpan left right)) left right left right

/-- `ChineseDateTimePeriodParserConfiguration.get_matched_time_range`: (swift, range) of 今晚 今早 今晨 明晚 明早 明晨 昨晚 -/
def nightRange (w : Str) : Option (Int × TimeRange) :=
  let ev : TimeRange := ⟨[84, 69, 86], 16, 20, 0⟩
  let mo : TimeRange := ⟨[84, 77, 79], 8, 12, 0⟩
  if w = [20170, 26202] then some (0, ev)                                   -- 今晚
  else if w = [20170, 26089] ∨ w = [20170, 26216] then some (0, mo)         -- 今早 今晨
  else if w = [26126, 26202] then some (1, ev)                              -- 明晚
  else if w = [26126, 26089] ∨ w = [26126, 26216] then some (1, mo)         -- 明早 明晨
  else if w = [26152, 26202] then some (-1, ev)                             -- 昨晚
  else none

/-- the first branch of `parse_specific_time_of_day`: the text matches `SpecificTimeOfDayRegex` exactly. A word of the
table resolves on `reference.date() + swift`; any other exact match (`这个 下午`: prefix, white space, part of day) reaches
`format_date(date) + None` and raises TypeError. -/
def specificNight (ref : DateTime) (w : Str) : Res :=
  match nightRange w with
  | none => .raises
  | some (swift, v) =>
    match addDays ref swift with
    | none => .raises
    | some x => .ok (formatDate x.date ++ v.timeStr) (todBegin x.date v) (todEnd x.date v) (todBegin x.date v) (todEnd x.date v)

/-- the five part-of-day patterns of `parse_specific_time_of_day` (`DateTimePeriodMO/MI/AF/EV/NIRegex`), tested in this order -/
inductive Pod | mo | mi | af | ev | ni
deriving DecidableEq, Repr

def Pod.range : Pod → TimeRange
  | .mo => ⟨[84, 77, 79], 8, 12, 0⟩
  | .mi => ⟨[84, 77, 73], 11, 13, 0⟩
  | .af => ⟨[84, 65, 70], 12, 16, 0⟩
  | .ev => ⟨[84, 69, 86], 16, 20, 0⟩
  | .ni => ⟨[84, 78, 73], 20, 23, 59⟩

def hasAny (s : Str) (ws : List Str) : Bool := ws.any fun w => hasSub s w

def moWords : List Str := [[20940, 26216], [28165, 26216], [26089, 19978], [26089, 38388], [26089], [19978, 21320]]   -- 凌晨 清晨 早上 早间 早 上午
def miWords : List Str := [[20013, 21320]]                                                                          -- 中午
def afWords : List Str := [[19979, 21320], [21320, 21518], [20621, 26202]]                                           -- 下午 午后 傍晚
def evWords : List Str := [[26202, 19978], [22812, 37324], [22812, 26202], [26202]]                                  -- 晚上 夜里 夜晚 晚
def niWords : List Str := [[21322, 22812], [22812, 38388], [28145, 22812]]                                           -- 半夜 夜间 深夜

/-- which pattern `regex.search` finds first in the text (`if … elif …` chain) -/
def podOfText (s : Str) : Option Pod :=
  if hasAny s moWords then some .mo
  else if hasAny s miWords then some .mi
  else if hasAny s afWords then some .af
  else if hasAny s evWords then some .ev
  else if hasAny s niWords then some .ni
  else none

/-- "handle Date followed by morning, afternoon": the date parser's future / past value and TIMEX, the part of day -/
def dateTimeOfDay (fd pd : DateTime) (dateTimex : Str) (p : Pod) : Res :=
  let v := p.range
  .ok (dateTimex ++ v.timeStr) (todBegin fd.date v) (todEnd fd.date v) (todBegin pd.date v) (todEnd pd.date v)

/-- `unit_str[0]` of `H` / `M` / `S` -/
def hmsLetter : TUnit → Nat
  | .H => 72 | .M => 77 | .S => 83

/-- `__parse_common_duration_with_unit(before, unit, num, swift, reference)` for a whole number `n` of units
(`num` = its text, `swift = float(n)`): `u` = `unit_map[unit]` when it is `H` / `M` / `S` (`none`: the unit is not in the map
or is a date unit — no result); `hasPast` / `hasFuture`: the text before the number is exactly a match of `PastRegex` /
`FutureRegex`. `datetime ± timedelta` raises OverflowError outside 0001..9999. -/
def commonDurationHMS (ref : DateTime) (u : Option TUnit) (num : Str) (n : Nat) (hasPast hasFuture : Bool) : Res :=
  match u with
  | none => .noResult
  | some u =>
    if !hasFuture && !hasPast then .noResult
    else
      match (if hasPast then addSeconds ref (-((n : Int) * u.seconds)) else some ref),
            (if hasFuture then addSeconds ref ((n : Int) * u.seconds) else some ref) with
      | some b, some e => .ok (triple (luisPoint b) (luisPoint e) ([80, 84] ++ num ++ [hmsLetter u])) b e b e
      | _, _ => .raises

/-! ## `ChineseSetParser` -/

/-- `ChineseSetParserConfiguration.get_matched_unit_timex(text)`: 天 日 → P1D, 周 星期 → P1W, 月 → P1M, 年 → P1Y -/
def matchedUnitTimex (u : Str) : Option Str :=
  if u = [22825] ∨ u = [26085] then some [80, 49, 68]
  else if u = [21608] ∨ u = [26143, 26399] then some [80, 49, 87]
  else if u = [26376] then some [80, 49, 77]
  else if u = [24180] then some [80, 49, 89]
  else none

/-- `parse_each_unit(source)`: `unit` = the `unit` group when `SetEachUnitRegex` matches the whole text (`none` otherwise),
`inMap` = it is a key of `unit_map` (小时 / 分钟 / 秒 are keys but have no TIMEX here) -/
def eachUnit (unit : Option Str) (inMap : Bool) : Option Str :=
  match unit with
  | none => none
  | some u => if u ≠ [] ∧ inMap then matchedUnitTimex u else none

def sSetColon : Str := [83, 101, 116, 58, 32]   -- 'Set: '

/-- `ChineseSetParser.parse`: the five attempts in order — each unit, each duration, time every day, each date-time, each
date; every input is the TIMEX the attempt would give (`none` = it does not succeed). Result: (timex, future = past value). -/
def setParse (unitT durT everydayT dateTimeT dateT : Option Str) : Option (Str × Str) :=
  (unitT <|> durT <|> everydayT <|> dateTimeT <|> dateT).map fun t => (t, sSetColon ++ t)

/-! ## `ChineseHolidayParser` -/

/-- a holiday date function of the Chinese parser -/
inductive ZFn where
  /-- `datetime(year, mo, d)` (the `__fixed_holiday_dictionary` functions) -/
  | fixed (mo d : Nat)
  /-- `new_year_eve`: `datetime(year, 1, 1) + timedelta(days=-1)` — 31 December of the year BEFORE -/
  | eve
  /-- a function of `holiday_func_dictionary` (`BaseHolidayParserConfiguration.get_day`) -/
  | var (f : Holiday.Fn)
deriving DecidableEq, Repr

/-- the function applied to a year (`none` = it raises) -/
def ZFn.eval (f : ZFn) (y : Int) : Option Date :=
  if 1 ≤ y ∧ y ≤ 9999 then
    match f with
    | .fixed mo d => Holiday.mkDate y.toNat mo d
    | .eve => (⟨y.toNat, 1, 1⟩ : Date).addDays (-1)
    | .var g => g.eval y.toNat
  else none

/-- `__fixed_holiday_dictionary`, then the three Chinese keys of `holiday_func_dictionary` -/
def holidayTable : List (Str × ZFn) := [
  ([20803, 26086], .fixed 1 1),            -- 元旦
  ([20803, 26086, 33410], .fixed 1 1),     -- 元旦节
  ([25945, 24072, 33410], .fixed 9 10),    -- 教师节
  ([38738, 24180, 33410], .fixed 5 4),     -- 青年节
  ([20799, 31461, 33410], .fixed 6 1),     -- 儿童节
  ([22919, 22899, 33410], .fixed 3 8),     -- 妇女节
  ([26893, 26641, 33410], .fixed 3 12),    -- 植树节
  ([24773, 20154, 33410], .fixed 2 14),    -- 情人节
  ([24179, 23433, 22812], .fixed 12 24),   -- 平安夜
  ([22307, 35806, 33410], .fixed 12 25),   -- 圣诞节
  ([26032, 24180], .fixed 1 1),            -- 新年
  ([24858, 20154, 33410], .fixed 4 1),     -- 愚人节
  ([20116, 19968], .fixed 5 1),            -- 五一
  ([21171, 21160, 33410], .fixed 5 1),     -- 劳动节
  ([19975, 22307, 33410], .fixed 10 31),   -- 万圣节
  ([20013, 31179, 33410], .fixed 8 15),    -- 中秋节
  ([20013, 31179], .fixed 8 15),           -- 中秋
  ([26149, 33410], .fixed 1 1),            -- 春节
  ([38500, 22805], .eve),                  -- 除夕
  ([20803, 23477, 33410], .fixed 1 15),    -- 元宵节
  ([28165, 26126, 33410], .fixed 4 4),     -- 清明节
  ([28165, 26126], .fixed 4 4),            -- 清明
  ([31471, 21320, 33410], .fixed 5 5),     -- 端午节
  ([31471, 21320], .fixed 5 5),            -- 端午
  ([22269, 24198, 33410], .fixed 10 1),    -- 国庆节
  ([24314, 20891, 33410], .fixed 8 1),     -- 建军节
  ([22899, 29983, 33410], .fixed 3 7),     -- 女生节
  ([20809, 26829, 33410], .fixed 11 11),   -- 光棍节
  ([21452, 21313, 19968], .fixed 11 11),   -- 双十一
  ([37325, 38451, 33410], .fixed 9 9),     -- 重阳节
  ([29238, 20146, 33410], .var (.nth 6 6 2 7)),    -- 父亲节: third Sunday of June
  ([27597, 20146, 33410], .var (.nth 5 5 1 7)),    -- 母亲节: second Sunday of May
  ([24863, 24681, 33410], .var (.nth 11 11 3 4))]  -- 感恩节: fourth Thursday of November

/-- `HolidayNoFixedTimex` -/
def variableTimex : List (Str × Str) := [
  ([29238, 20146, 33410], [45, 48, 54, 45, 87, 88, 88, 45, 54, 45, 51]),     -- 父亲节 -06-WXX-6-3
  ([27597, 20146, 33410], [45, 48, 53, 45, 87, 88, 88, 45, 55, 45, 50]),     -- 母亲节 -05-WXX-7-2
  ([24863, 24681, 33410], [45, 49, 49, 45, 87, 88, 88, 45, 52, 45, 52])]     -- 感恩节 -11-WXX-4-4

/-- the keys `LunarHolidayRegex` names (`is_lunar`) -/
def lunarKeys : List Str := [[38500, 22805], [26149, 33410], [20013, 31179, 33410], [20013, 31179], [20803, 23477, 33410],
  [31471, 21320, 33410], [31471, 21320], [37325, 38451, 33410]]

/-- which year group of the holiday patterns matched -/
inductive YearIn where
  | absent
  /-- the `year` group: `n` = `int` of its digits (2–4 digits, the 年 is outside the group) -/
  | digits (n : Nat)
  /-- the `yearCJK` group: `whole` = what the integer extractor + number parser make of the group text WITHOUT its last
  character (0 when nothing is found) -/
  | cjk (whole : Int)
  /-- the `yearrel` group: `get_swift_year` of 明年 / 去年 / 今年 -/
  | rel (swift : Int)
deriving DecidableEq, Repr

/-- `ChineseHolidayParserConfiguration.get_swift_year(text)` -/
def swiftYear (s : Str) : Int :=
  let a : Int := if ZhDT.pStartsWith s [26126] then 1 else 0      -- 明
  let b : Int := if ZhDT.pStartsWith s [21435] then -1 else a     -- 去
  if ZhDT.pStartsWith s [20170] then 0 else b                     -- 今

/-- the year `_match2date` works with and `has_year`. As the code stands: `get_swift_year` of a digit string is 0, so the
LAST CHARACTER of the `year` / `yearCJK` group is always cut off (`year_num[0:len(year_num) - 1]` — the groups do not include
the 年 that the cut was written for): `2019` is read as `201`; and `__convert_year(…, is_chinese=True)` returns its initial
`-1` whenever the whole-number reading is below 10 (the digit-by-digit value is computed and dropped). Then the two-digit
pivot (`ZhDT.adjust9020`). -/
def holidayYear (ref : DateTime) (yi : YearIn) : Int × Bool :=
  match yi with
  | .absent => (ZhDT.adjust9020 ref.date.y, false)
  | .digits n => (ZhDT.adjust9020 (if n / 10 = 0 then -1 else ((n / 10 : Nat) : Int)), true)
  | .cjk whole => (ZhDT.adjust9020 (if whole < 10 then -1 else whole), true)
  | .rel s => (ZhDT.adjust9020 ((ref.date.y : Int) + s), true)

/-- the year reading after the proposed repair (findings/zhtp/zh-holiday-year.diff): nothing is cut off the groups (for
`.cjk whole` the whole-number reading is then of the full group) and `__convert_year` returns the digit-by-digit value
`cjkDigits` when the whole-number reading is below 10 -/
def holidayYearFixed (ref : DateTime) (yi : YearIn) (cjkDigits : Int) : Int × Bool :=
  match yi with
  | .absent => (ZhDT.adjust9020 ref.date.y, false)
  | .digits n => (ZhDT.adjust9020 (if n = 0 then -1 else (n : Int)), true)
  | .cjk whole =>
    let y := if whole < 10 then cjkDigits else whole
    (ZhDT.adjust9020 (if y = 0 then -1 else y), true)
  | .rel s => (ZhDT.adjust9020 ((ref.date.y : Int) + s), true)

/-- `DateTimeFormatUtil.to_str(year, 4)` = `f'{year:04d}'` -/
def fmt4 (y : Int) : Str :=
  if 0 ≤ y then (if y < 10000 then pad4 y.toNat else natStr y.toNat)
  else [45] ++ (if y.natAbs < 10 then [48, 48] else if y.natAbs < 100 then [48] else []) ++ natStr y.natAbs

/-- `__get_date_value(date, reference, holiday, swift, comparer)` with `moved` = `comparer(date, reference)` already
evaluated: a fixed holiday moves by `datedelta(years=swift)`, a variable one is recomputed for `reference.year + swift` -/
def getDateValue (f : ZFn) (date : Date) (ref : DateTime) (swift : Int) (moved : Bool) : Option Date :=
  if moved then
    match f with
    | .var _ => f.eval ((ref.date.y : Int) + swift)
    | _ => datedeltaAdd date swift 0 0
  else some date

/-- `_match2date` from the holiday key on, once the year and `has_year` are read -/
def zhMatch2dateY (ref : DateTime) (key : Str) (yh : Int × Bool) : Holiday.Out :=
  if key = [] then .noResult else
  let (year, hasYear) := yh
  match Holiday.dictGet holidayTable key with
  | none => .noResult
  | some f =>
    let tail? : Option Str := match f with
      | .var _ => Holiday.dictGet variableTimex key
      | _ => some []
    match f.eval year, tail? with
    | some date, some tail0 =>
      let tail := match f with | .var _ => tail0 | _ => [45] ++ pad2 date.m ++ [45] ++ pad2 date.d
      if hasYear then
        match Holiday.mkDate year.toNat date.m date.d with
        | none => .raises
        | some x => .ok ⟨fmt4 year ++ tail, x, x⟩
      else
        let isLt := DateTime.lt ⟨date, 0⟩ ref
        match getDateValue f date ref 1 isLt, getDateValue f date ref (-1) (!isLt) with
        | some fu, some pa => .ok ⟨Holiday.sXXXX ++ tail, fu, pa⟩
        | _, _ => .raises
    | _, _ => .raises

/-- `_match2date` of the code as it stands -/
def zhMatch2date (ref : DateTime) (key : Str) (yi : YearIn) : Holiday.Out := zhMatch2dateY ref key (holidayYear ref yi)

/-- … and after the proposed repair of the year reading -/
def zhMatch2dateFixed (ref : DateTime) (key : Str) (yi : YearIn) (cjkDigits : Int) : Holiday.Out :=
  zhMatch2dateY ref key (holidayYearFixed ref yi cjkDigits)

end RTV.ZhTP
