import RTV.Lemmas.NumCjkFam
/-! kernel evaluation: the repaired point-value variant — every single-digit spelled decimal and longer samples print the
written decimal -/
namespace RTV.NumCjk
theorem zh_point_fx : pointBadFx = [] := by decide +kernel
theorem zh_point_fx_samples : fxSamples.all fxSampleOk = true := by decide +kernel
theorem zh_point_fx_percent : (fxSamples.take 5).all fxPercentOk = true := by decide +kernel
theorem zh_first_found_bad_samples : firstFoundBadSamples = 8 := by decide +kernel
end RTV.NumCjk
