import RTV.Model.SpellEu
import RTV.Model.NumCfg
/-! Dutch numerals below 1000 (`spellEu nlSpell`) against `getIntValue` with the regenerated Dutch maps and the
culture's `resolve_composite_number`: kernel evaluation in chunks of 50 (one declaration per chunk keeps the
kernel's caches small), then the case split over the chunk index. -/
namespace RTV.Num

/-- the numerals the statement is about (exact guard: what the faithful model gets right) -/
def nlGuard (n : Nat) : Bool := true

def nlCheck (n : Nat) : Bool :=
  !nlGuard n || decide (getIntValue true asciiDigits nl.lang (spellEu nlSpell n).2 = .ok n)

def nlChunk (k : Nat) : Bool := (List.range 50).all fun i => nlCheck (50 * k + i)

theorem nl_c0 : nlChunk 0 = true := by decide +kernel
theorem nl_c1 : nlChunk 1 = true := by decide +kernel
theorem nl_c2 : nlChunk 2 = true := by decide +kernel
theorem nl_c3 : nlChunk 3 = true := by decide +kernel
theorem nl_c4 : nlChunk 4 = true := by decide +kernel
theorem nl_c5 : nlChunk 5 = true := by decide +kernel
theorem nl_c6 : nlChunk 6 = true := by decide +kernel
theorem nl_c7 : nlChunk 7 = true := by decide +kernel
theorem nl_c8 : nlChunk 8 = true := by decide +kernel
theorem nl_c9 : nlChunk 9 = true := by decide +kernel
theorem nl_c10 : nlChunk 10 = true := by decide +kernel
theorem nl_c11 : nlChunk 11 = true := by decide +kernel
theorem nl_c12 : nlChunk 12 = true := by decide +kernel
theorem nl_c13 : nlChunk 13 = true := by decide +kernel
theorem nl_c14 : nlChunk 14 = true := by decide +kernel
theorem nl_c15 : nlChunk 15 = true := by decide +kernel
theorem nl_c16 : nlChunk 16 = true := by decide +kernel
theorem nl_c17 : nlChunk 17 = true := by decide +kernel
theorem nl_c18 : nlChunk 18 = true := by decide +kernel
theorem nl_c19 : nlChunk 19 = true := by decide +kernel

theorem nl_chunks (k : Nat) (hk : k < 20) : nlChunk k = true := by
  match k, hk with
  | 0, _ => exact nl_c0
  | 1, _ => exact nl_c1
  | 2, _ => exact nl_c2
  | 3, _ => exact nl_c3
  | 4, _ => exact nl_c4
  | 5, _ => exact nl_c5
  | 6, _ => exact nl_c6
  | 7, _ => exact nl_c7
  | 8, _ => exact nl_c8
  | 9, _ => exact nl_c9
  | 10, _ => exact nl_c10
  | 11, _ => exact nl_c11
  | 12, _ => exact nl_c12
  | 13, _ => exact nl_c13
  | 14, _ => exact nl_c14
  | 15, _ => exact nl_c15
  | 16, _ => exact nl_c16
  | 17, _ => exact nl_c17
  | 18, _ => exact nl_c18
  | 19, _ => exact nl_c19
  | k + 20, h => omega

theorem nl_all (n : Nat) (h : n < 1000) (hg : nlGuard n = true) :
    getIntValue true asciiDigits nl.lang (spellEu nlSpell n).2 = .ok n := by
  have hc := nl_chunks (n / 50) (by omega)
  simp only [nlChunk, List.all_eq_true, List.mem_range] at hc
  have := hc (n % 50) (Nat.mod_lt _ (by decide))
  have e : 50 * (n / 50) + n % 50 = n := Nat.div_add_mod n 50
  rw [e] at this
  simpa [nlCheck, hg] using this

end RTV.Num
