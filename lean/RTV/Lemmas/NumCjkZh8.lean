import RTV.Lemmas.NumCjk
/-! kernel evaluation of the typed `get_int_value` walk (int / binary64), numerals 8000..8999 -/
namespace RTV.NumCjk
theorem zh_l80 : zhLoopChunk 80 = true := by decide +kernel
theorem zh_l81 : zhLoopChunk 81 = true := by decide +kernel
theorem zh_l82 : zhLoopChunk 82 = true := by decide +kernel
theorem zh_l83 : zhLoopChunk 83 = true := by decide +kernel
theorem zh_l84 : zhLoopChunk 84 = true := by decide +kernel
theorem zh_l85 : zhLoopChunk 85 = true := by decide +kernel
theorem zh_l86 : zhLoopChunk 86 = true := by decide +kernel
theorem zh_l87 : zhLoopChunk 87 = true := by decide +kernel
theorem zh_l88 : zhLoopChunk 88 = true := by decide +kernel
theorem zh_l89 : zhLoopChunk 89 = true := by decide +kernel
end RTV.NumCjk
