import RTV.Lemmas.NumCjk
/-! Check functions of the kernel-evaluated families of `Props/C04Cjk`: the whole `parse` of the regenerated Chinese /
Japanese configuration (regexes included) on generated expressions, compared with the expected resolution string. -/
namespace RTV.NumCjk
open RTV.Py RTV.Dec RTV.Num

def allBelow (n : Nat) (p : Nat → Bool) : Bool := (List.range n).all p

theorem allBelow_spec {n : Nat} {p : Nat → Bool} (h : allBelow n p = true) (k : Nat) (hk : k < n) : p k = true := by
  simp only [allBelow, List.all_eq_true, List.mem_range] at h
  exact h k hk

def pct (s : Str) : Str := s ++ [37]
def minus (s : Str) : Str := 45 :: s

/-! Chinese -/
def zhInt (n : Nat) : Bool := resIs (parse zhCfg tagInteger (spellZh n)) (digitsOf n)
def zhOrd (n : Nat) : Bool := resIs (parse zhCfg tagOrdinal (cDi :: spellZh n)) (digitsOf n)
def zhNeg (n : Nat) : Bool := resIs (parse zhCfg tagInteger (cFu :: spellZh (n + 1))) (minus (digitsOf (n + 1)))
def zhDozen (n : Nat) : Bool := resIs (parse zhCfg tagInteger (spellZh n ++ [cDa])) (digitsOf (12 * n))
def zhPercent (n : Nat) : Bool := resIs (parse zhCfg tagPer (sBaiFenZhi ++ spellZh n)) (pct (digitsOf n))

/-- `k成m` / `km折` / `k成` / `k折` / `k成半`, digits 1..9 -/
def zhCheng2 (i : Nat) : Bool :=
  resIs (parse zhCfg tagPerSpe [cjkDigit (i / 9 + 1), cCheng, cjkDigit (i % 9 + 1)]) (pct (digitsOf (10 * (i / 9 + 1) + (i % 9 + 1))))
def zhZhe2 (i : Nat) : Bool :=
  resIs (parse zhCfg tagPerSpe [cjkDigit (i / 9 + 1), cjkDigit (i % 9 + 1), cZhe]) (pct (digitsOf (10 * (i / 9 + 1) + (i % 9 + 1))))
def zhCheng1 (i : Nat) : Bool := resIs (parse zhCfg tagPerSpe [cjkDigit (i + 1), cCheng]) (pct (digitsOf (10 * (i + 1))))
def zhZhe1 (i : Nat) : Bool := resIs (parse zhCfg tagPerSpe [cjkDigit (i + 1), cZhe]) (pct (digitsOf (10 * (i + 1))))
def zhChengHalf (i : Nat) : Bool :=
  resIs (parse zhCfg tagPerSpe [cjkDigit (i + 1), cCheng, cHalf]) (pct (digitsOf (10 * (i + 1) + 5)))

/-- `h点d` for single digits: the resolution the expression denotes, and the set where the code prints something else -/
def pointRes (h d : Nat) : Except Err (Val × Str) := parse zhCfg tagDou [cjkDigit h, cDian, cjkDigit d]
def expectPoint (h d : Nat) : Str := if d == 0 then digitsOf h else digitsOf h ++ [46] ++ digitsOf d
def pointBad : List Nat :=
  (List.range 100).filter fun k => !resIs (pointRes (k / 10) (k % 10)) (expectPoint (k / 10) (k % 10))

/-! the repaired variant (`zhCfgFx`, findings/numcjk/point-value-float.diff) -/
def pointResFx (h d : Nat) : Except Err (Val × Str) := parse zhCfgFx tagDou [cjkDigit h, cDian, cjkDigit d]
def pointBadFx : List Nat :=
  (List.range 100).filter fun k => !resIs (pointResFx (k / 10) (k % 10)) (expectPoint (k / 10) (k % 10))

/-- `spellZh h 点 d1 d2 …` and the decimal it denotes (tails without a trailing zero) -/
def zhDecText (h : Nat) (tail : List Nat) : Str := spellZh h ++ [cDian] ++ tail.map cjkDigit
def zhDecExpect (h : Nat) (tail : List Nat) : Str := digitsOf h ++ [46] ++ tail.map (48 + ·)
/-- longer tails: the four single-digit failures' relatives, and expressions that `int + float('0.…')` would still
print wrongly (`四点五六`, `一点一四`, `六十五点二二六〇七`), up to 14 significant digits -/
def fxSamples : List (Nat × List Nat) :=
  [(0, [0, 5]), (0, [1, 5]), (0, [7, 5]), (0, [4, 3]), (4, [5, 6]), (1, [1, 4]), (65, [2, 2, 6, 0, 7]), (1234, [5, 6]),
   (6, [9, 3, 3, 8, 8, 6, 1, 3, 6, 8, 2, 9, 4]), (2, [7, 1, 6, 2]), (1, [7, 0, 2, 8, 2, 1]), (3, [1, 4, 1, 5, 9, 2, 6, 5, 3, 5, 8, 9, 7, 9])]
def fxSampleOk (q : Nat × List Nat) : Bool := resIs (parse zhCfgFx tagDou (zhDecText q.1 q.2)) (zhDecExpect q.1 q.2)
def fxPercentOk (q : Nat × List Nat) : Bool :=
  resIs (parse zhCfgFx tagPer (sBaiFenZhi ++ zhDecText q.1 q.2)) (pct (zhDecExpect q.1 q.2))
/-- how many of the samples the code as first found prints wrongly -/
def firstFoundBadSamples : Nat :=
  (fxSamples.filter fun q => !resIs (parse zhCfg tagDou (zhDecText q.1 q.2)) (zhDecExpect q.1 q.2)).length

/-- `d分之m`: the 15-digit half-even quotient (`Dec.div`), added to `Decimal(0)`, printed by `CultureInfo.format` -/
def expectFrac (lf : Option (Nat × Nat)) (p c m d : Nat) : Str :=
  match Dec.div p (Dec.ofNat m) (Dec.ofNat d) with
  | some q => Dec.format lf (Dec.add p (Dec.ofNat c) q)
  | none => []
def zhFrac (i : Nat) : Bool :=
  let d := i / 8 + 2
  let m := i % 8 + 1
  resIs (parse zhCfg tagFrac (spellZh d ++ sFenZhi ++ spellZh m)) (expectFrac none 15 0 m d)
def zhFracMixed (i : Nat) : Bool :=
  let d := i / 4 + 2
  let m := i % 4 + 1
  resIs (parse zhCfg tagFrac (spellZh (i + 1) ++ [cYou] ++ spellZh d ++ sFenZhi ++ spellZh m)) (expectFrac none 15 (i + 1) m d)

/-- ASCII digit strings through `get_digit_value` -/
def digitReads (n : Nat) : Bool :=
  match getDigitValue zhCfg (digitsOf n) 1 with
  | .ok v => v.isNat n
  | .error _ => false
def digitSamples : List Nat := (List.range 30) ++ [99, 100, 101, 999, 1000, 2020, 65535, 123456789, 100000000000001, 999999999999999]

/-! Japanese -/
def sMinus : Str := [0x30DE, 0x30A4, 0x30CA, 0x30B9]     -- マイナス
def sDozenJa : Str := [0x30C0, 0x30FC, 0x30B9]           -- ダース
def sBunNo : Str := [0x5206, 0x306E]                     -- 分の
def jaInt (n : Nat) : Bool := resIs (parse jaCfg tagInteger (spellJa n)) (digitsOf n)
def jaOrd (n : Nat) : Bool := resIs (parse jaCfg tagOrdinal (cDi :: spellJa n)) (digitsOf n)
def jaNeg (n : Nat) : Bool := resIs (parse jaCfg tagInteger (sMinus ++ spellJa (n + 1))) (minus (digitsOf (n + 1)))
def jaDozen (n : Nat) : Bool := resIs (parse jaCfg tagInteger (spellJa n ++ sDozenJa)) (digitsOf (12 * n))
def jaFrac (i : Nat) : Bool :=
  let d := i / 4 + 2
  let m := i % 4 + 1
  resIs (parse jaCfg tagFrac (spellJa d ++ sBunNo ++ spellJa m)) (expectFrac (some (46, 44)) 15 0 m d)

end RTV.NumCjk
