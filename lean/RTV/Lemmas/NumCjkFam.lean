import RTV.Lemmas.NumCjk
/-! Check functions of the kernel-evaluated families of `Props/C04Cjk`: the whole `parse` of the regenerated Chinese /
Japanese configuration (regexes included) on generated expressions, compared with the expected resolution string. -/
namespace RTV.NumCjk
open RTV.Py RTV.Dec RTV.Num

def allBelow (n : Nat) (p : Nat → Bool) : Bool := (List.range n).all p

theorem allBelow_spec {n : Nat} {p : Nat → Bool} (h : allBelow n p = true) (k : Nat) (hk : k < n) : p k = true := by
  simp only [allBelow, List.all_eq_true, List.mem_range] at h
  exact h k hk

def pct (s : Str) : Str := s ++ [37]
def minus (s : Str) : Str := 45 :: s

/-! Chinese -/
def zhInt (n : Nat) : Bool := resIs (parse zhCfg tagInteger (spellZh n)) (digitsOf n)
def zhOrd (n : Nat) : Bool := resIs (parse zhCfg tagOrdinal (cDi :: spellZh n)) (digitsOf n)
def zhNeg (n : Nat) : Bool := resIs (parse zhCfg tagInteger (cFu :: spellZh (n + 1))) (minus (digitsOf (n + 1)))
def zhDozen (n : Nat) : Bool := resIs (parse zhCfg tagInteger (spellZh n ++ [cDa])) (digitsOf (12 * n))
def zhPercent (n : Nat) : Bool := resIs (parse zhCfg tagPer (sBaiFenZhi ++ spellZh n)) (pct (digitsOf n))

/-- `k成m` / `km折` / `k成` / `k折` / `k成半`, digits 1..9 -/
def zhCheng2 (i : Nat) : Bool :=
  resIs (parse zhCfg tagPerSpe [cjkDigit (i / 9 + 1), cCheng, cjkDigit (i % 9 + 1)]) (pct (digitsOf (10 * (i / 9 + 1) + (i % 9 + 1))))
def zhZhe2 (i : Nat) : Bool :=
  resIs (parse zhCfg tagPerSpe [cjkDigit (i / 9 + 1), cjkDigit (i % 9 + 1), cZhe]) (pct (digitsOf (10 * (i / 9 + 1) + (i % 9 + 1))))
def zhCheng1 (i : Nat) : Bool := resIs (parse zhCfg tagPerSpe [cjkDigit (i + 1), cCheng]) (pct (digitsOf (10 * (i + 1))))
def zhZhe1 (i : Nat) : Bool := resIs (parse zhCfg tagPerSpe [cjkDigit (i + 1), cZhe]) (pct (digitsOf (10 * (i + 1))))
def zhChengHalf (i : Nat) : Bool :=
  resIs (parse zhCfg tagPerSpe [cjkDigit (i + 1), cCheng, cHalf]) (pct (digitsOf (10 * (i + 1) + 5)))

/-- `h点d` for single digits: the resolution the expression denotes, and the set where the code prints something else -/
def pointRes (h d : Nat) : Except Err (Val × Str) := parse zhCfg tagDou [cjkDigit h, cDian, cjkDigit d]
def expectPoint (h d : Nat) : Str := if d == 0 then digitsOf h else digitsOf h ++ [46] ++ digitsOf d
def pointBad : List Nat :=
  (List.range 100).filter fun k => !resIs (pointRes (k / 10) (k % 10)) (expectPoint (k / 10) (k % 10))

/-- `d分之m`: the 15-digit half-even quotient (`Dec.div`), added to `Decimal(0)`, printed by `CultureInfo.format` -/
def expectFrac (lf : Option (Nat × Nat)) (p c m d : Nat) : Str :=
  match Dec.div p (Dec.ofNat m) (Dec.ofNat d) with
  | some q => Dec.format lf (Dec.add p (Dec.ofNat c) q)
  | none => []
def zhFrac (i : Nat) : Bool :=
  let d := i / 8 + 2
  let m := i % 8 + 1
  resIs (parse zhCfg tagFrac (spellZh d ++ sFenZhi ++ spellZh m)) (expectFrac none 15 0 m d)
def zhFracMixed (i : Nat) : Bool :=
  let d := i / 4 + 2
  let m := i % 4 + 1
  resIs (parse zhCfg tagFrac (spellZh (i + 1) ++ [cYou] ++ spellZh d ++ sFenZhi ++ spellZh m)) (expectFrac none 15 (i + 1) m d)

/-- ASCII digit strings through `get_digit_value` -/
def digitReads (n : Nat) : Bool :=
  match getDigitValue zhCfg (digitsOf n) 1 with
  | .ok v => v.isNat n
  | .error _ => false
def digitSamples : List Nat := (List.range 30) ++ [99, 100, 101, 999, 1000, 2020, 65535, 123456789, 100000000000001, 999999999999999]

/-! Japanese -/
def sMinus : Str := [0x30DE, 0x30A4, 0x30CA, 0x30B9]     -- マイナス
def sDozenJa : Str := [0x30C0, 0x30FC, 0x30B9]           -- ダース
def sBunNo : Str := [0x5206, 0x306E]                     -- 分の
def jaInt (n : Nat) : Bool := resIs (parse jaCfg tagInteger (spellJa n)) (digitsOf n)
def jaOrd (n : Nat) : Bool := resIs (parse jaCfg tagOrdinal (cDi :: spellJa n)) (digitsOf n)
def jaNeg (n : Nat) : Bool := resIs (parse jaCfg tagInteger (sMinus ++ spellJa (n + 1))) (minus (digitsOf (n + 1)))
def jaDozen (n : Nat) : Bool := resIs (parse jaCfg tagInteger (spellJa n ++ sDozenJa)) (digitsOf (12 * n))
def jaFrac (i : Nat) : Bool :=
  let d := i / 4 + 2
  let m := i % 4 + 1
  resIs (parse jaCfg tagFrac (spellJa d ++ sBunNo ++ spellJa m)) (expectFrac (some (46, 44)) 15 0 m d)

end RTV.NumCjk
