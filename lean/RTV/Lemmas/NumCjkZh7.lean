import RTV.Lemmas.NumCjk
/-! kernel evaluation of the typed `get_int_value` walk (int / binary64), numerals 7000..7999 -/
namespace RTV.NumCjk
theorem zh_l70 : zhLoopChunk 70 = true := by decide +kernel
theorem zh_l71 : zhLoopChunk 71 = true := by decide +kernel
theorem zh_l72 : zhLoopChunk 72 = true := by decide +kernel
theorem zh_l73 : zhLoopChunk 73 = true := by decide +kernel
theorem zh_l74 : zhLoopChunk 74 = true := by decide +kernel
theorem zh_l75 : zhLoopChunk 75 = true := by decide +kernel
theorem zh_l76 : zhLoopChunk 76 = true := by decide +kernel
theorem zh_l77 : zhLoopChunk 77 = true := by decide +kernel
theorem zh_l78 : zhLoopChunk 78 = true := by decide +kernel
theorem zh_l79 : zhLoopChunk 79 = true := by decide +kernel
end RTV.NumCjk
