import RTV.Lemmas.SpecRun
/-! Kernel evaluation of the spec cases (C19 through the model), family `ip_en`. -/
namespace RTV.Seq
set_option maxRecDepth 100000
theorem spec_ip_en_fast : ipOK fastSeqEnv false RTV.Gen.specCases_ipEn = true := by decide +kernel
end RTV.Seq
