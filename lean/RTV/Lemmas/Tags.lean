import RTV.Lemmas.Re
import RTV.Lemmas.Guid
import RTV.Gen.Regexes
/-!
Languages of the regenerated `BaseHashtag.HashtagRegex` and `BaseMention.MentionRegex` (compiled with IGNORECASE |
DOTALL), including what a greedy backtracking engine reports *first* for a hashtag (the longest run).
-/
namespace RTV.Re

variable {T : Tables} {s : Array Nat}

/-! ### equations for `ends` (order matters here, not only membership) -/

theorem ends_seq_eps_right (r : RE) (i : Nat) : ends T s (.seq r .eps) i = ends T s r i := by
  simp [ends]

theorem ends_grp (n : Nat) (r : RE) (i : Nat) : ends T s (.grp n r) i = ends T s r i := by simp [ends]

theorem ends_seq_cls (items : List Item) (neg : Bool) (b : RE) (i : Nat) :
    ends T s (.seq (.cls items neg) b) i =
      if i < s.size && clsTest T items neg (code s i) then ends T s b (i + 1) else [] := by
  simp only [ends]
  split <;> simp

theorem ends_rep (a : RE) (mn mx : Nat) (g : Bool) (i : Nat) :
    ends T s (.rep a mn mx g) i = repEnds (ends T s a) g mx mn i := by simp [ends]

theorem ends_repU (a : RE) (mn : Nat) (g : Bool) (i : Nat) :
    ends T s (.repU a mn g) i = ends T s (.rep a mn (mn + s.size + 1) g) i := by simp [ends]

theorem seq_repU {a c : RE} {mn : Nat} {g : Bool} {i j : Nat} :
    j ∈ ends T s (.seq (.repU a mn g) c) i ↔ j ∈ ends T s (.seq (.rep a mn (mn + s.size + 1) g) c) i := by
  simp only [mem_seq, ends_repU]

/-- length of the run of characters satisfying `ok` from position `i` (at most `fuel`) -/
def runLen (ok : Nat → Bool) : Nat → Nat → Nat
  | 0, _ => 0
  | fuel + 1, i => if ok i then runLen ok fuel (i + 1) + 1 else 0

theorem head?_append_ne_nil {α : Type} (l₁ l₂ : List α) (h : l₁ ≠ []) : (l₁ ++ l₂).head? = l₁.head? := by
  cases l₁ <;> simp_all

/-- a greedy repeat of a one-character step reports the longest admissible run first -/
theorem repEnds_greedy_head (ok : Nat → Bool) (mx : Nat) : ∀ mn i,
    (repEnds (fun k => if ok k then [k + 1] else []) true mx mn i).head? =
      if mn ≤ runLen ok mx i then some (i + runLen ok mx i) else none := by
  induction mx with
  | zero => intro mn i; by_cases h : mn = 0 <;> simp [repEnds, runLen, h]
  | succ mx ih =>
    intro mn i
    rw [repEnds]
    by_cases hok : ok i = true
    · simp only [hok, if_true, List.flatMap_cons, List.flatMap_nil, List.append_nil, runLen]
      have := ih (mn - 1) (i + 1)
      by_cases hm : mn - 1 ≤ runLen ok mx (i + 1)
      · rw [if_pos hm] at this
        have hne : repEnds (fun k => if ok k then [k + 1] else []) true mx (mn - 1) (i + 1) ≠ [] := by
          intro h0; rw [h0] at this; simp at this
        rw [head?_append_ne_nil _ _ hne, this, if_pos (by omega)]
        congr 1; omega
      · rw [if_neg hm] at this
        have h0 : repEnds (fun k => if ok k then [k + 1] else []) true mx (mn - 1) (i + 1) = [] :=
          List.head?_eq_none_iff.1 this
        have hmn : mn ≠ 0 := by omega
        have h2 : ¬ mn ≤ runLen ok mx (i + 1) + 1 := by omega
        simp [h0, hmn, h2]
    · have hok' : ok i = false := by simpa using hok
      simp only [hok', Bool.false_eq_true, if_false, List.flatMap_nil, List.nil_append, runLen]
      by_cases h : mn = 0 <;> simp [h]

/-! ### hashtag -/

/-- `[a-zA-Z0-9_]` under IGNORECASE as the translator emits it (`regex` adds U+0130, U+0131, U+017F, U+212A) -/
def tagItems : List Item :=
  [.range 65 90, .range 97 122, .range 304 304, .range 383 383, .range 8490 8490, .range 65 90, .range 97 122,
   .range 305 305, .range 383 383, .range 8490 8490, .range 48 57, .range 95 95]

def isTagChar (c : Nat) : Prop :=
  (65 ≤ c ∧ c ≤ 90) ∨ (97 ≤ c ∧ c ≤ 122) ∨ (48 ≤ c ∧ c ≤ 57) ∨ c = 95 ∨ c = 304 ∨ c = 305 ∨ c = 383 ∨ c = 8490

theorem clsTest_tag {c : Nat} : clsTest T tagItems false c = true ↔ isTagChar c := by
  simp [clsTest, Item.test, tagItems, isTagChar]; omega

theorem tag_pos : ∀ x, clsTest T tagItems false x = true → 0 < x := by
  intro x h; have := clsTest_tag.1 h; unfold isTagChar at this; omega

def lookBehindSpaceOrStart : RE :=
  .look false false (.seq (.alt (.seq (.cls [.space] false) .eps) (.seq .bol .eps)) .eps)

def hashtagRE : RE :=
  .seq (.grp 1 (.seq lookBehindSpaceOrStart (.seq (.cls [.range 35 35] false)
    (.seq (.grp 2 (.seq (.repU (.seq (.cls tagItems false) .eps) 1 true) .eps)) .eps)))) .eps

theorem gen_hashtag : RTV.Gen.hashtagRegex = hashtagRE := by decide

/-- `(?<=\s|^)` at `i`: start of the string or a `\s` character just before -/
def AfterSpaceOrStart (T : Tables) (s : Array Nat) (i : Nat) : Prop :=
  i = 0 ∨ (0 < i ∧ i - 1 < s.size ∧ T.space (code s (i - 1)) = true)

instance : Decidable (AfterSpaceOrStart T s i) := by unfold AfterSpaceOrStart; exact inferInstance

theorem lookBehind_iff (i : Nat) :
    ((List.range (i + 1)).any fun k =>
      (ends T s (.seq (.alt (.seq (.cls [.space] false) .eps) (.seq .bol .eps)) .eps) k).contains i) = true ↔
      AfterSpaceOrStart T s i := by
  simp only [List.any_eq_true, List.mem_range, List.contains_iff_mem, seq_eps_right, mem_alt, mem_cls, mem_bol,
    clsTest, List.any_cons, List.any_nil, Item.test, Bool.or_false, bne_iff_ne, ne_eq, Bool.not_eq_false]
  unfold AfterSpaceOrStart
  constructor
  · rintro ⟨k, hk, (⟨h1, h2, rfl⟩ | ⟨rfl, rfl⟩)⟩
    · exact .inr ⟨by omega, by simpa using h1, by simpa using h2⟩
    · exact .inl rfl
  · rintro (rfl | ⟨h0, h1, h2⟩)
    · exact ⟨0, by omega, .inr ⟨rfl, rfl⟩⟩
    · exact ⟨i - 1, by omega, .inl ⟨h1, h2, by omega⟩⟩

theorem ends_look_behind (a : RE) (i : Nat) :
    ends T s (.look false false a) i =
      if ((List.range (i + 1)).any fun k => (ends T s a k).contains i) = true then [i] else [] := by
  rw [ends]
  cases ((List.range (i + 1)).any fun k => (ends T s a k).contains i) <;> simp

theorem ends_lookBehind (i : Nat) :
    ends T s lookBehindSpaceOrStart i = if AfterSpaceOrStart T s i then [i] else [] := by
  unfold lookBehindSpaceOrStart
  rw [ends_look_behind]
  by_cases h : AfterSpaceOrStart T s i
  · rw [if_pos ((lookBehind_iff (T := T) (s := s) i).2 h), if_pos h]
  · rw [if_neg (fun h' => h ((lookBehind_iff (T := T) (s := s) i).1 h')), if_neg h]

/-- the step function of the tag repeat -/
def tagOk (T : Tables) (s : Array Nat) (k : Nat) : Bool := k < s.size && clsTest T tagItems false (code s k)

theorem tag_step : (ends T s (.seq (.cls tagItems false) .eps)) = fun k => if tagOk T s k then [k + 1] else [] := by
  funext k
  rw [ends_seq_cls]
  simp [tagOk, ends]

/-- the whole list of ends of the hashtag regex from `i`, in priority order -/
theorem ends_hashtag (i : Nat) :
    ends T s hashtagRE i =
      if AfterSpaceOrStart T s i then
        (if i < s.size && clsTest T [.range 35 35] false (code s i) then
          repEnds (fun k => if tagOk T s k then [k + 1] else []) true (1 + s.size + 1) 1 (i + 1) else [])
      else [] := by
  unfold hashtagRE
  rw [ends_seq_eps_right, ends_grp]
  have h1 : ends T s (.seq lookBehindSpaceOrStart (.seq (.cls [.range 35 35] false)
      (.seq (.grp 2 (.seq (.repU (.seq (.cls tagItems false) .eps) 1 true) .eps)) .eps))) i =
      (ends T s lookBehindSpaceOrStart i).flatMap (ends T s (.seq (.cls [.range 35 35] false)
      (.seq (.grp 2 (.seq (.repU (.seq (.cls tagItems false) .eps) 1 true) .eps)) .eps))) := by
    rw [ends]
  rw [h1, ends_lookBehind]
  by_cases h : AfterSpaceOrStart T s i
  · simp only [h, if_true, List.flatMap_cons, List.flatMap_nil, List.append_nil]
    rw [ends_seq_cls, ends_seq_eps_right, ends_grp, ends_seq_eps_right, ends_repU, ends_rep, tag_step]
  · simp [h]

/-- C13 (hashtag): what the engine reports for a match attempt at `i` — nothing unless `i` is at the start or after
white space and holds `#` followed by at least one tag character; otherwise exactly `#` plus the **whole** run of tag
characters. -/
theorem hashtagRE_firstEnd (i : Nat) :
    firstEnd T s hashtagRE i =
      if AfterSpaceOrStart T s i ∧ code s i = 35 ∧ 1 ≤ runLen (tagOk T s) (1 + s.size + 1) (i + 1) then
        some (i + 1 + runLen (tagOk T s) (1 + s.size + 1) (i + 1))
      else none := by
  unfold firstEnd
  rw [ends_hashtag]
  by_cases h : AfterSpaceOrStart T s i
  · by_cases h2 : code s i = 35
    · have hlt : i < s.size := code_lt_size (by omega)
      have hc : clsTest T [.range 35 35] false (code s i) = true := by simp [clsTest, Item.test, h2]
      have hcond : (decide (i < s.size) && clsTest T [.range 35 35] false (code s i)) = true := by simp [hlt, hc]
      rw [if_pos h, if_pos hcond, repEnds_greedy_head]
      by_cases hr : 1 ≤ runLen (tagOk T s) (1 + s.size + 1) (i + 1)
      · rw [if_pos hr, if_pos ⟨h, h2, hr⟩]
      · rw [if_neg hr, if_neg (fun hh => hr hh.2.2)]
    · have hc : (decide (i < s.size) && clsTest T [.range 35 35] false (code s i)) = false := by
        have : clsTest T [.range 35 35] false (code s i) = false := by
          simp [clsTest, Item.test]; omega
        simp [this]
      simp [h, hc, h2]
  · simp [h]

/-- membership form: the ends from `i` are `#` plus every non-empty prefix of a run of tag characters -/
theorem hashtagRE_lang (i j : Nat) :
    j ∈ ends T s hashtagRE i ↔
      AfterSpaceOrStart T s i ∧ code s i = 35 ∧ ∃ n, 1 ≤ n ∧ RunAt isTagChar s (i + 1) n ∧ j = i + 1 + n := by
  unfold hashtagRE
  rw [seq_eps_right, mem_grp, mem_seq]
  simp only [ends_lookBehind]
  constructor
  · rintro ⟨k, hk, h⟩
    by_cases hA : AfterSpaceOrStart T s i
    · simp only [hA, if_true, List.mem_singleton] at hk
      subst hk
      rw [seq_range (by decide), seq_eps_right, mem_grp, seq_repU] at h
      obtain ⟨h1, h2, h3⟩ := h
      have := (seq_rep_cls (T := T) (s := s) (c := .eps) (g := true) (j := j) tag_pos (1 + s.size + 1) 1 (k + 1)).1 h3
      obtain ⟨n, n1, _, hr, he⟩ := this
      simp only [mem_eps] at he
      refine ⟨hA, by omega, n, n1, ?_, he⟩
      intro p hp; exact clsTest_tag.1 (hr p hp)
    · simp [hA] at hk
  · rintro ⟨hA, h35, n, n1, hr, rfl⟩
    refine ⟨i, by simp [hA], ?_⟩
    rw [seq_range (by decide), seq_eps_right, mem_grp, seq_repU]
    refine ⟨by omega, by omega, ?_⟩
    apply (seq_rep_cls (T := T) (s := s) (c := .eps) (g := true) tag_pos (1 + s.size + 1) 1 (i + 1)).2
    refine ⟨n, n1, ?_, fun p hp => clsTest_tag.2 (hr p hp), by simp [mem_eps]⟩
    have := hr (n - 1) (by omega)
    have hlt := code_lt_size (s := s) (i := i + 1 + (n - 1)) (by unfold isTagChar at this; omega)
    omega

end RTV.Re

/-! ### mention -/
namespace RTV.Re
variable {T : Tables} {s : Array Nat}

def mentionRE : RE :=
  .seq (.cls [.range 64 64] false) (.seq (.grp 1 (.seq (.repU (.seq (.cls tagItems false) .eps) 1 true) .eps))
    (.seq (.look true true (.seq (.cls [.range 46 46] false) (.seq (.cls [.word] false) .eps))) (.seq .wordB .eps)))

theorem gen_mention : RTV.Gen.mentionRegex = mentionRE := by decide

/-- `(?![.]\w)` fails at `j` exactly when a `.` and then a word character follow -/
def DotWord (T : Tables) (s : Array Nat) (j : Nat) : Prop := code s j = 46 ∧ wordAt T s (j + 1) = true

theorem seq_look_ahead_neg {a b : RE} {i j : Nat} :
    j ∈ ends T s (.seq (.look true true a) b) i ↔ (∀ k, k ∉ ends T s a i) ∧ j ∈ ends T s b i := by
  rw [mem_seq]
  constructor
  · rintro ⟨k, hk, hb⟩
    rw [ends] at hk
    by_cases he : (ends T s a i).isEmpty = true
    · simp only [he, if_true, List.mem_singleton] at hk
      subst hk
      exact ⟨fun k hk => by simp [List.isEmpty_iff.1 he] at hk, hb⟩
    · simp [he] at hk
  · rintro ⟨hn, hb⟩
    refine ⟨i, ?_, hb⟩
    rw [ends]
    have : (ends T s a i).isEmpty = true := by
      cases h : ends T s a i with
      | nil => rfl
      | cons x xs => exact absurd (by simp [h]) (hn x)
    simp [this]

theorem dotword_iff (j : Nat) :
    (∀ k, k ∉ ends T s (.seq (.cls [.range 46 46] false) (.seq (.cls [.word] false) .eps)) j) ↔ ¬ DotWord T s j := by
  unfold DotWord wordAt
  simp only [seq_range (by decide : 0 < 46), seq_cls, mem_eps, clsTest, List.any_cons, List.any_nil, Item.test,
    Bool.or_false, bne_iff_ne, ne_eq, Bool.not_eq_false]
  constructor
  · intro h ⟨h1, h2⟩
    simp at h2
    exact h (j + 1 + 1) ⟨by omega, by omega, h2.1, h2.2, rfl⟩
  · intro h k ⟨h1, h2, h3, h4, _⟩
    exact h ⟨by omega, by simp [h3, h4]⟩

/-- C13 (mention): the ends from `i` — `@`, a run of tag characters, not followed by `.` + word character, and a word
boundary after it. -/
theorem mentionRE_lang (i j : Nat) :
    j ∈ ends T s mentionRE i ↔
      code s i = 64 ∧ ∃ n, 1 ≤ n ∧ RunAt isTagChar s (i + 1) n ∧ j = i + 1 + n ∧ ¬ DotWord T s j ∧
        isWordB T s j = true := by
  unfold mentionRE
  rw [seq_range (by decide), seq_grp, seq_seq, seq_repU, seq_rep_cls tag_pos]
  simp only [seq_eps, seq_look_ahead_neg, dotword_iff, seq_wordB, mem_eps, clsTest_tag]
  constructor
  · rintro ⟨h1, h2, n, n1, _, hr, hd, hb, rfl⟩
    exact ⟨by omega, n, n1, fun p hp => hr p hp, rfl, hd, hb⟩
  · rintro ⟨h64, n, n1, hr, rfl, hd, hb⟩
    refine ⟨by omega, by omega, n, n1, ?_, fun p hp => hr p hp, hd, hb, rfl⟩
    have := hr (n - 1) (by omega)
    have hlt := code_lt_size (s := s) (i := i + 1 + (n - 1)) (by unfold isTagChar at this; omega)
    omega

/-- all ends from `i` coincide when tag characters are word characters: a shorter run ends between two word
characters, which is no word boundary -/
theorem mentionRE_unique (hw : ∀ c, isTagChar c → T.word c = true) {i j j' : Nat}
    (h : j ∈ ends T s mentionRE i) (h' : j' ∈ ends T s mentionRE i) : j = j' := by
  obtain ⟨_, n, n1, hr, rfl, _, hb⟩ := (mentionRE_lang i j).1 h
  obtain ⟨_, n', n1', hr', rfl, _, hb'⟩ := (mentionRE_lang i j').1 h'
  have key : ∀ {a b : Nat}, 1 ≤ a → a < b → RunAt isTagChar s (i + 1) b → isWordB T s (i + 1 + a) = true → False := by
    intro a b a1 hab hrb hba
    have c1 := hrb (a - 1) (by omega)
    have c2 := hrb a (by omega)
    have w1 : wordAt T s (i + 1 + a - 1) = true := by
      have e : i + 1 + a - 1 = i + 1 + (a - 1) := by omega
      rw [e]; unfold wordAt
      simp [hw _ c1, code_lt_size (s := s) (i := i + 1 + (a - 1)) (by unfold isTagChar at c1; omega)]
    have w2 : wordAt T s (i + 1 + a) = true := by
      unfold wordAt
      simp [hw _ c2, code_lt_size (s := s) (i := i + 1 + a) (by unfold isTagChar at c2; omega)]
    have hpos : i + 1 + a > 0 := by omega
    unfold isWordB at hba
    simp [w2, hpos] at hba
    have e : i + 1 + a - 1 = i + a := by omega
    rw [e, hba] at w1
    cases w1
  rcases Nat.lt_trichotomy n n' with hlt | heq | hgt
  · exact absurd (key n1 hlt hr' hb) id
  · rw [heq]
  · exact absurd (key n1' hgt hr hb') id

end RTV.Re

/-! ### e-mail (`BaseEmail.EmailRegex`, the only pattern the Python extractor uses) -/
namespace RTV.Re
variable {T : Tables} {s : Array Nat}

def emailLocalItems : List Item :=
  [.range 45 45, .range 65 90, .range 97 122, .range 304 304, .range 383 383, .range 8490 8490, .range 48 57,
   .range 95 95, .range 43 43, .range 46 46]
def emailDomainItems : List Item :=
  [.range 45 45, .range 65 90, .range 97 122, .range 304 304, .range 383 383, .range 8490 8490, .digit, .range 46 46]
def emailTldItems : List Item :=
  [.range 65 90, .range 97 122, .range 304 304, .range 383 383, .range 8490 8490, .range 46 46]

def emailRE : RE :=
  .seq (.grp 1 (.seq (.grp 2 (.seq (.repU (.seq (.cls emailLocalItems false) .eps) 1 true) .eps))
    (.seq (.cls [.range 64 64] false) (.seq (.grp 3 (.seq (.repU (.seq (.cls emailDomainItems false) .eps) 1 true) .eps))
    (.seq (.cls [.range 46 46] false) (.seq (.grp 4 (.seq (.rep (.seq (.cls emailTldItems false) .eps) 2 6 true) .eps))
    .eps)))))) .eps

theorem gen_email : RTV.Gen.emailRegex = emailRE := by decide

/-- the three character classes (letters in either case incl. `regex`'s İ ſ K variants; the domain class uses `\d`) -/
def EmailLocal (T : Tables) (c : Nat) : Prop := clsTest T emailLocalItems false c = true
def EmailDomain (T : Tables) (c : Nat) : Prop := clsTest T emailDomainItems false c = true
def EmailTld (T : Tables) (c : Nat) : Prop := clsTest T emailTldItems false c = true

theorem emailLocal_pos : ∀ x, clsTest T emailLocalItems false x = true → 0 < x := by
  intro x h; simp [clsTest, Item.test, emailLocalItems] at h; omega
theorem emailTld_pos : ∀ x, clsTest T emailTldItems false x = true → 0 < x := by
  intro x h; simp [clsTest, Item.test, emailTldItems] at h; omega
theorem emailDomain_pos (hd0 : T.digit 0 = false) : ∀ x, clsTest T emailDomainItems false x = true → 0 < x := by
  intro x h
  by_cases hx : x = 0
  · subst hx; simp [clsTest, Item.test, emailDomainItems, hd0] at h
  · omega

/-- unbounded class repeat followed by `c` -/
theorem seq_repU_cls {items : List Item} {c : RE} {g : Bool} {mn i j : Nat}
    (hpos : ∀ x, clsTest T items false x = true → 0 < x) :
    j ∈ ends T s (.seq (.repU (.seq (.cls items false) .eps) mn g) c) i ↔
      ∃ n, mn ≤ n ∧ RunAt (fun x => clsTest T items false x = true) s i n ∧ j ∈ ends T s c (i + n) := by
  rw [seq_repU, seq_rep_cls hpos]
  constructor
  · rintro ⟨n, h1, _, h3, h4⟩; exact ⟨n, h1, h3, h4⟩
  · rintro ⟨n, h1, h3, h4⟩
    refine ⟨n, h1, ?_, h3, h4⟩
    cases n with
    | zero => omega
    | succ m =>
      have := hpos _ (h3 m (by omega))
      have := code_lt_size (s := s) (i := i + m) this
      omega

/-- C13 (e-mail): a match from `i` to `j` is exactly `local@domain.tld` — a non-empty run of local characters, `@`,
a non-empty run of domain characters, `.`, 2–6 tld characters (`.` itself is a domain and a tld character, so the
split need not be unique; which end a greedy engine reports first is covered by the correspondence). -/
theorem emailRE_lang (hd0 : T.digit 0 = false) (i j : Nat) :
    j ∈ ends T s emailRE i ↔
      ∃ a b n, 1 ≤ a ∧ RunAt (EmailLocal T) s i a ∧ code s (i + a) = 64 ∧
        1 ≤ b ∧ RunAt (EmailDomain T) s (i + a + 1) b ∧ code s (i + a + 1 + b) = 46 ∧
        2 ≤ n ∧ n ≤ 6 ∧ RunAt (EmailTld T) s (i + a + 1 + b + 1) n ∧ j = i + a + 1 + b + 1 + n := by
  unfold emailRE
  simp only [seq_eps_right, mem_grp, seq_grp, seq_seq, seq_repU_cls emailLocal_pos,
    seq_repU_cls (emailDomain_pos hd0), seq_rep_cls emailTld_pos, seq_eps, seq_range (by decide : 0 < 64),
    seq_range (by decide : 0 < 46), mem_eps]
  constructor
  · rintro ⟨a, a1, ha, h1, h2, b, b1, hb, h3, h4, n, n2, n6, hn, rfl⟩
    exact ⟨a, b, n, a1, ha, by omega, b1, hb, by omega, n2, n6, hn, rfl⟩
  · rintro ⟨a, b, n, a1, ha, h64, b1, hb, h46, n2, n6, hn, rfl⟩
    exact ⟨a, a1, ha, by omega, by omega, b, b1, hb, by omega, by omega, n, n2, n6, hn, rfl⟩

end RTV.Re
