import RTV.Lemmas.NumCjkFam
/-! kernel evaluation: Japanese cardinals, ordinals, signs, dozens, fractions (digits 0..9 / small denominators) -/
namespace RTV.NumCjk
theorem ja_int_fam : allBelow 10 jaInt = true := by decide +kernel
theorem ja_ord_fam : allBelow 10 jaOrd = true := by decide +kernel
theorem ja_neg_fam : allBelow 9 jaNeg = true := by decide +kernel
theorem ja_dozen_fam : allBelow 10 jaDozen = true := by decide +kernel
theorem ja_frac_fam : allBelow 32 jaFrac = true := by decide +kernel
end RTV.NumCjk
