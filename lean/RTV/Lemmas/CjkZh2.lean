import RTV.Lemmas.CjkZhBase
/-! kernel evaluation, chunks 50..74 (numerals 5000..7499) -/
namespace RTV.Num
theorem zh_c50 : zhChunk 50 = true := by decide +kernel
theorem zh_c51 : zhChunk 51 = true := by decide +kernel
theorem zh_c52 : zhChunk 52 = true := by decide +kernel
theorem zh_c53 : zhChunk 53 = true := by decide +kernel
theorem zh_c54 : zhChunk 54 = true := by decide +kernel
theorem zh_c55 : zhChunk 55 = true := by decide +kernel
theorem zh_c56 : zhChunk 56 = true := by decide +kernel
theorem zh_c57 : zhChunk 57 = true := by decide +kernel
theorem zh_c58 : zhChunk 58 = true := by decide +kernel
theorem zh_c59 : zhChunk 59 = true := by decide +kernel
theorem zh_c60 : zhChunk 60 = true := by decide +kernel
theorem zh_c61 : zhChunk 61 = true := by decide +kernel
theorem zh_c62 : zhChunk 62 = true := by decide +kernel
theorem zh_c63 : zhChunk 63 = true := by decide +kernel
theorem zh_c64 : zhChunk 64 = true := by decide +kernel
theorem zh_c65 : zhChunk 65 = true := by decide +kernel
theorem zh_c66 : zhChunk 66 = true := by decide +kernel
theorem zh_c67 : zhChunk 67 = true := by decide +kernel
theorem zh_c68 : zhChunk 68 = true := by decide +kernel
theorem zh_c69 : zhChunk 69 = true := by decide +kernel
theorem zh_c70 : zhChunk 70 = true := by decide +kernel
theorem zh_c71 : zhChunk 71 = true := by decide +kernel
theorem zh_c72 : zhChunk 72 = true := by decide +kernel
theorem zh_c73 : zhChunk 73 = true := by decide +kernel
theorem zh_c74 : zhChunk 74 = true := by decide +kernel
end RTV.Num
