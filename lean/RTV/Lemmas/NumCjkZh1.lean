import RTV.Lemmas.NumCjk
/-! kernel evaluation of the typed `get_int_value` walk (int / binary64), numerals 1000..1999 -/
namespace RTV.NumCjk
theorem zh_l10 : zhLoopChunk 10 = true := by decide +kernel
theorem zh_l11 : zhLoopChunk 11 = true := by decide +kernel
theorem zh_l12 : zhLoopChunk 12 = true := by decide +kernel
theorem zh_l13 : zhLoopChunk 13 = true := by decide +kernel
theorem zh_l14 : zhLoopChunk 14 = true := by decide +kernel
theorem zh_l15 : zhLoopChunk 15 = true := by decide +kernel
theorem zh_l16 : zhLoopChunk 16 = true := by decide +kernel
theorem zh_l17 : zhLoopChunk 17 = true := by decide +kernel
theorem zh_l18 : zhLoopChunk 18 = true := by decide +kernel
theorem zh_l19 : zhLoopChunk 19 = true := by decide +kernel
end RTV.NumCjk
