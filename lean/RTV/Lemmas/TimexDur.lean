import RTV.Lemmas.TimexEval2
/-! Stage 1 of `TimexRangeResolver.evaluate` (`resolve_durations`): a duration candidate against a definite datetime
constraint — `TimexHelpers.timex_datetime_add` is calendar arithmetic. -/
namespace RTV.Timex
open RTV.Py RTV.Cal
set_option linter.unusedSimpArgs false
set_option linter.unusedVariables false

theorem clone_dateTimex (d : Date) (tmo : Option Time) : (dateTimex d tmo).clone = dateTimex d tmo := by
  cases tmo with
  | none => simp [Timex.clone, dateTimex, Timex.fromDate, Timex.initTime, Timex.hour, Timex.minute, Timex.second,
      Timex.setHour, Timex.setMinute, Timex.setSecond]
  | some tm => simp [Timex.clone, dateTimex, Timex.fromDate, Timex.initTime, Timex.hour, Timex.minute, Timex.second,
      Timex.setHour, Timex.setMinute, Timex.setSecond]

/-- the duration candidates of C15: hours, minutes, days or weeks, a non-negative amount -/
inductive DurKind : Timex → Prop
  | hours (x : Num) (h : 0 ≤ x.toInt) : DurKind { hours := some x }
  | minutes (x : Num) (h : 0 ≤ x.toInt) : DurKind { minutes := some x }
  | days (x : Num) (h : 0 ≤ x.toInt) : DurKind { days := some x }
  | weeks (x : Num) (h : 0 ≤ x.toInt) : DurKind { weeks := some x }

theorem durKind_dur (t : Timex) (h : DurKind t) : (infer t).duration = true := by
  cases h <;> simp [infer, isDuration]

/-- what `start + duration` is for a start `d0 Th:m:s`: the end date (by ordinal) and the end time of day
(`none`: day and week durations drop the time of day — `timex_date_add` builds a fresh `Timex` with the date only) -/
def DurSpec (d0 : Date) (h m s : Nat) (cand : Timex) (d1 : Date) (tmo1 : Option Time) : Prop :=
  (∀ x, cand.hours = some x →
      (d1.ord : Int) = d0.ord + (h + x.toInt) / 24 ∧ tmo1 = some ⟨.int ((h + x.toInt) % 24), .int m, .int s⟩) ∧
  (∀ x, cand.hours = none → cand.minutes = some x →
      (d1.ord : Int) = d0.ord + (h + (m + x.toInt) / 60) / 24 ∧
      tmo1 = some ⟨.int ((h + (m + x.toInt) / 60) % 24), .int ((m + x.toInt) % 60), .int s⟩) ∧
  (∀ x, cand.days = some x → x.truthy = true → (d1.ord : Int) = d0.ord + x.toInt ∧ tmo1 = none) ∧
  (∀ x, cand.days = some x → x.truthy = false → d1 = d0 ∧ tmo1 = some ⟨.int h, .int m, .int s⟩) ∧
  (∀ x, cand.days = none → cand.weeks = some x → ∃ v, Num.mulInt 7 x = .ok v ∧
      ((v.truthy = true → (d1.ord : Int) = d0.ord + v.toInt ∧ tmo1 = none) ∧
       (v.truthy = false → d1 = d0 ∧ tmo1 = some ⟨.int h, .int m, .int s⟩)))

theorem mkDate_date (d : Date) (hv : d.valid = true) :
    mkDate (some (.int d.y)) (some (.int d.m)) (some (.int d.d)) = .ok d := by
  have h0 : (0 : Int) ≤ d.y ∧ (0 : Int) ≤ d.m ∧ (0 : Int) ≤ d.d := by omega
  simp [mkDate, h0, hv, pure, Except.pure]

theorem addDays_inv (d d' : Date) (k : Int) (hv : d.valid = true) (h : addDays d k = .ok d') :
    d'.valid = true ∧ (d'.ord : Int) = d.ord + k := by
  unfold addDays at h
  split at h
  · cases h
  · unfold Date.addDays addDaysOrd at h
    simp only at h
    split at h
    · rename_i o ho
      split at ho
      · rename_i hin
        simp at ho; subst ho
        simp only [pure, Except.pure] at h; cases h
        have := ord_ofOrd ((d.ord : Int) + k).toNat (by omega) (by omega)
        exact ⟨this.2, by rw [this.1]; omega⟩
      · simp at ho
    · cases h

theorem andChain3 (a b c : Num) : andChainNotNone [some a, some b, some c] = true := by
  simp only [andChainNotNone]
  split <;> (try split) <;> simp

/-- stage 1 for an **hours** candidate and a definite datetime constraint -/
theorem datetimeAdd_hours (d0 : Date) (hv : d0.valid = true) (h m s : Nat) (hh : h < 100) (hm : m < 100) (hs : s < 100)
    (x : Num) (hx : 0 ≤ x.toInt) (r : Timex)
    (hr : timexDatetimeAdd (dateTimex d0 (some ⟨.int h, .int m, .int s⟩)) { hours := some x } = .ok r) :
    ∃ d1 tm1, r = dateTimex d1 (some tm1) ∧ d1.valid = true ∧ ClockT tm1 ∧
      (d1.ord : Int) = d0.ord + (h + x.toInt) / 24 ∧ tm1 = ⟨.int ((h + x.toInt) % 24), .int m, .int s⟩ := by
  have hda : timexDateAdd (dateTimex d0 (some ⟨.int h, .int m, .int s⟩)) { hours := some x } =
      .ok (dateTimex d0 (some ⟨.int h, .int m, .int s⟩)) := by
    simp [timexDateAdd, dateTimex, Timex.fromDate, truthyO, bind, Except.bind, pure, Except.pure]
  unfold timexDatetimeAdd at hr
  simp only [hda, bind, Except.bind] at hr
  unfold timexTimeAdd at hr
  simp only [Option.isSome_some, true_or, if_true, clone_dateTimex, bind, Except.bind, pure, Except.pure] at hr
  simp only [dateTimex, Timex.fromDate, Timex.hour, Timex.setHour, needInt, Option.map_some, pure, Except.pure] at hr
  by_cases hbig : (h : Int) + x.toInt > 23
  · simp only [hbig, if_true, andChain3] at hr
    · rw [mkDate_date d0 hv] at hr
      simp only at hr
      cases ha : addDays d0 (((h : Int) + x.toInt).fdiv 24) with
      | error e => simp [ha] at hr
      | ok d1 =>
        simp only [ha] at hr
        cases hr
        obtain ⟨hv1, ho1⟩ := addDays_inv d0 d1 _ hv ha
        have f1 : ((h : Int) + x.toInt).fdiv 24 = ((h : Int) + x.toInt) / 24 := by
          rw [Int.fdiv_eq_ediv_of_nonneg _ (by omega)]
        have f2 : ((h : Int) + x.toInt).fmod 24 = ((h : Int) + x.toInt) % 24 := Int.fmod_eq_emod_of_nonneg _ (by omega)
        refine ⟨d1, _, rfl, hv1, ⟨(((h : Int) + x.toInt) % 24).toNat, m, s, by omega, hm, hs, ?_⟩, by rw [ho1, f1], by rw [f2]⟩
        rw [f2]; congr 2; omega
  · simp only [hbig, if_false] at hr
    cases hr
    have e1 : ((h : Int) + x.toInt) / 24 = 0 := by omega
    have e2 : ((h : Int) + x.toInt) % 24 = (h : Int) + x.toInt := by omega
    refine ⟨d0, _, rfl, hv, ⟨((h : Int) + x.toInt).toNat, m, s, by omega, hm, hs, ?_⟩, by omega, by rw [e2]⟩
    congr 2; omega

/-- stage 1 for a **minutes** candidate and a definite datetime constraint: minutes carry into hours, hours into days -/
theorem datetimeAdd_minutes (d0 : Date) (hv : d0.valid = true) (h m s : Nat) (hh : h < 100) (hm : m < 100) (hs : s < 100)
    (x : Num) (hx : 0 ≤ x.toInt) (r : Timex)
    (hr : timexDatetimeAdd (dateTimex d0 (some ⟨.int h, .int m, .int s⟩)) { minutes := some x } = .ok r) :
    ∃ d1 tm1, r = dateTimex d1 (some tm1) ∧ d1.valid = true ∧ ClockT tm1 ∧
      (d1.ord : Int) = d0.ord + (h + (m + x.toInt) / 60) / 24 ∧
      tm1 = ⟨.int ((h + (m + x.toInt) / 60) % 24), .int ((m + x.toInt) % 60), .int s⟩ := by
  have hda : timexDateAdd (dateTimex d0 (some ⟨.int h, .int m, .int s⟩)) { minutes := some x } =
      .ok (dateTimex d0 (some ⟨.int h, .int m, .int s⟩)) := by
    simp [timexDateAdd, dateTimex, Timex.fromDate, truthyO, bind, Except.bind, pure, Except.pure]
  have g1 : ((m : Int) + x.toInt).fdiv 60 = ((m : Int) + x.toInt) / 60 := by
    rw [Int.fdiv_eq_ediv_of_nonneg _ (by omega)]
  have g2 : ((m : Int) + x.toInt).fmod 60 = ((m : Int) + x.toInt) % 60 := Int.fmod_eq_emod_of_nonneg _ (by omega)
  unfold timexDatetimeAdd at hr
  simp only [hda, bind, Except.bind] at hr
  unfold timexTimeAdd at hr
  simp only [Option.isSome_some, or_true, if_true, clone_dateTimex, bind, Except.bind, pure, Except.pure] at hr
  simp only [dateTimex, Timex.fromDate, Timex.hour, Timex.minute, Timex.setHour, Timex.setMinute, needInt, Option.map_some,
    Option.getD_some, pure, Except.pure, g1, g2] at hr
  have hq : (0 : Int) ≤ ((m : Int) + x.toInt) / 60 := Int.ediv_nonneg (by omega) (by omega)
  have hmm : (0 : Int) ≤ ((m : Int) + x.toInt) % 60 ∧ ((m : Int) + x.toInt) % 60 < 60 := by omega
  by_cases hbig : (h : Int) + ((m : Int) + x.toInt) / 60 > 23
  · simp only [hbig, if_true, andChain3] at hr
    rw [mkDate_date d0 hv] at hr
    simp only at hr
    cases ha : addDays d0 (((h : Int) + ((m : Int) + x.toInt) / 60).fdiv 24) with
    | error e => simp [ha] at hr
    | ok d1 =>
      simp only [ha] at hr
      cases hr
      obtain ⟨hv1, ho1⟩ := addDays_inv d0 d1 _ hv ha
      have f1 : ((h : Int) + ((m : Int) + x.toInt) / 60).fdiv 24 = ((h : Int) + ((m : Int) + x.toInt) / 60) / 24 := by
        rw [Int.fdiv_eq_ediv_of_nonneg _ (by omega)]
      have f2 : ((h : Int) + ((m : Int) + x.toInt) / 60).fmod 24 = ((h : Int) + ((m : Int) + x.toInt) / 60) % 24 :=
        Int.fmod_eq_emod_of_nonneg _ (by omega)
      refine ⟨d1, _, rfl, hv1, ⟨(((h : Int) + ((m : Int) + x.toInt) / 60) % 24).toNat, (((m : Int) + x.toInt) % 60).toNat, s,
        by omega, by omega, hs, ?_⟩, by rw [ho1, f1], by rw [f2]⟩
      rw [f2]
      have a1 : (((((h : Int) + ((m : Int) + x.toInt) / 60) % 24).toNat : Nat) : Int) = ((h : Int) + ((m : Int) + x.toInt) / 60) % 24 := by omega
      have a2 : ((((( m : Int) + x.toInt) % 60).toNat : Nat) : Int) = ((m : Int) + x.toInt) % 60 := by omega
      rw [a1, a2]
  · simp only [hbig, if_false] at hr
    cases hr
    have e1 : ((h : Int) + ((m : Int) + x.toInt) / 60) / 24 = 0 := by omega
    have e2 : ((h : Int) + ((m : Int) + x.toInt) / 60) % 24 = (h : Int) + ((m : Int) + x.toInt) / 60 := by omega
    refine ⟨d0, _, rfl, hv, ⟨((h : Int) + ((m : Int) + x.toInt) / 60).toNat, (((m : Int) + x.toInt) % 60).toNat, s,
      by omega, by omega, hs, ?_⟩, by omega, by rw [e2]⟩
    have a1 : ((((h : Int) + ((m : Int) + x.toInt) / 60).toNat : Nat) : Int) = (h : Int) + ((m : Int) + x.toInt) / 60 := by omega
    have a2 : ((((( m : Int) + x.toInt) % 60).toNat : Nat) : Int) = ((m : Int) + x.toInt) % 60 := by omega
    rw [a1, a2]

theorem truthy_int (i : Int) : (Num.int i).truthy = (i != 0) := rfl

theorem year_ne_zero (d0 : Date) (hv : d0.valid = true) : ((d0.y : Int) != 0) = true := by
  have := (valid_iff d0).mp hv
  simp; omega

/-- stage 1 for a **days** candidate: `timex_date_add` with a truthy day count builds a fresh `Timex` holding only the
new date (the time of day is dropped); a zero count leaves the constraint as it is -/
theorem datetimeAdd_days (d0 : Date) (hv : d0.valid = true) (tm0 : Time) (x : Num) (r : Timex)
    (hr : timexDatetimeAdd (dateTimex d0 (some tm0)) { days := some x } = .ok r) :
    (x.truthy = true → ∃ d1, r = dateTimex d1 none ∧ d1.valid = true ∧ (d1.ord : Int) = d0.ord + x.toInt) ∧
    (x.truthy = false → r = dateTimex d0 (some tm0)) := by
  have hy := year_ne_zero d0 hv
  have hta : ∀ a', timexTimeAdd a' { days := some x } = .ok a' := by
    intro a'; simp [timexTimeAdd, pure, Except.pure]
  unfold timexDatetimeAdd at hr
  simp only [bind, Except.bind] at hr
  cases hda : timexDateAdd (dateTimex d0 (some tm0)) { days := some x } with
  | error e => simp [hda] at hr
  | ok a =>
    simp only [hda, hta] at hr
    cases hr
    by_cases ht : x.truthy = true
    · refine ⟨fun _ => ?_, fun h => by rw [ht] at h; exact absurd h (by decide)⟩
      simp [timexDateAdd, dateTimex, Timex.fromDate, truthyO, ht, truthy_int, hy, mkDate_date d0 hv, bind, Except.bind,
        pure, Except.pure] at hda
      cases hadd : addDays d0 x.toInt with
      | error e => simp [hadd] at hda
      | ok d1 =>
        simp only [hadd] at hda
        cases hda
        obtain ⟨hv1, ho1⟩ := addDays_inv d0 d1 _ hv hadd
        exact ⟨d1, rfl, hv1, ho1⟩
    · have hf : x.truthy = false := by simpa using ht
      refine ⟨fun h => by rw [hf] at h; exact absurd h (by decide), fun _ => ?_⟩
      simp [timexDateAdd, dateTimex, Timex.fromDate, truthyO, hf, truthy_int, hy, bind, Except.bind, pure, Except.pure] at hda
      rw [← hda]; rfl

/-- stage 1 for a **weeks** candidate: the day count is `7 * weeks` (`Decimal` arithmetic) -/
theorem datetimeAdd_weeks (d0 : Date) (hv : d0.valid = true) (tm0 : Time) (x : Num) (r : Timex)
    (hr : timexDatetimeAdd (dateTimex d0 (some tm0)) { weeks := some x } = .ok r) :
    ∃ v, Num.mulInt 7 x = .ok v ∧
      (v.truthy = true → ∃ d1, r = dateTimex d1 none ∧ d1.valid = true ∧ (d1.ord : Int) = d0.ord + v.toInt) ∧
      (v.truthy = false → r = dateTimex d0 (some tm0)) := by
  have hy := year_ne_zero d0 hv
  have hta : ∀ a', timexTimeAdd a' { weeks := some x } = .ok a' := by
    intro a'; simp [timexTimeAdd, pure, Except.pure]
  unfold timexDatetimeAdd at hr
  simp only [bind, Except.bind] at hr
  cases hda : timexDateAdd (dateTimex d0 (some tm0)) { weeks := some x } with
  | error e => simp [hda] at hr
  | ok a =>
    simp only [hda, hta] at hr
    cases hr
    cases hmul : Num.mulInt 7 x with
    | error e =>
      simp [timexDateAdd, hmul, Functor.map, Except.map, bind, Except.bind] at hda
    | ok v =>
      refine ⟨v, rfl, ?_⟩
      by_cases ht : v.truthy = true
      · refine ⟨fun _ => ?_, fun h => by rw [ht] at h; exact absurd h (by decide)⟩
        simp [timexDateAdd, hmul, Functor.map, Except.map, dateTimex, Timex.fromDate, truthyO, ht, truthy_int, hy,
          mkDate_date d0 hv, bind, Except.bind, pure, Except.pure] at hda
        cases hadd : addDays d0 v.toInt with
        | error e => simp [hadd] at hda
        | ok d1 =>
          simp only [hadd] at hda
          cases hda
          obtain ⟨hv1, ho1⟩ := addDays_inv d0 d1 _ hv hadd
          exact ⟨d1, rfl, hv1, ho1⟩
      · have hf : v.truthy = false := by simpa using ht
        refine ⟨fun h => by rw [hf] at h; exact absurd h (by decide), fun _ => ?_⟩
        simp [timexDateAdd, hmul, Functor.map, Except.map, dateTimex, Timex.fromDate, truthyO, hf, truthy_int, hy, bind,
          Except.bind, pure, Except.pure] at hda
        rw [← hda]; rfl

/-- **stage 1** (`resolve_durations`) for a duration candidate and a definite datetime constraint `d0 Th:m:s`: the
result is a definite date `d1` with time `tmo1` as `DurSpec` describes — the calendar sum, valid, clock-like -/
theorem datetimeAdd_dur (d0 : Date) (hv : d0.valid = true) (h m s : Nat) (hh : h < 100) (hm : m < 100) (hs : s < 100)
    (cand : Timex) (hk : DurKind cand) (r : Timex)
    (hr : timexDatetimeAdd (dateTimex d0 (some ⟨.int h, .int m, .int s⟩)) cand = .ok r) :
    ∃ d1 tmo1, r = dateTimex d1 tmo1 ∧ d1.valid = true ∧ (∀ tm, tmo1 = some tm → ClockT tm) ∧
      DurSpec d0 h m s cand d1 tmo1 := by
  have c0 : ClockT ⟨.int h, .int m, .int s⟩ := ⟨h, m, s, hh, hm, hs, rfl⟩
  cases hk with
  | hours x hx =>
    obtain ⟨d1, tm1, rfl, hv1, hc1, ho, ht⟩ := datetimeAdd_hours d0 hv h m s hh hm hs x hx r hr
    refine ⟨d1, some tm1, rfl, hv1, (fun tm e => by cases e; exact hc1), ?_, ?_, ?_, ?_, ?_⟩
    · intro x' hx'; simp at hx'; subst hx'; exact ⟨ho, by rw [ht]⟩
    all_goals (intro x'; simp)
  | minutes x hx =>
    obtain ⟨d1, tm1, rfl, hv1, hc1, ho, ht⟩ := datetimeAdd_minutes d0 hv h m s hh hm hs x hx r hr
    refine ⟨d1, some tm1, rfl, hv1, (fun tm e => by cases e; exact hc1), ?_, ?_, ?_, ?_, ?_⟩
    · intro x' h1; simp at h1
    · intro x' _ hx'; simp at hx'; subst hx'; exact ⟨ho, by rw [ht]⟩
    all_goals (intro x'; simp)
  | days x hx =>
    obtain ⟨h1, h2⟩ := datetimeAdd_days d0 hv _ x r hr
    by_cases ht : x.truthy = true
    · obtain ⟨d1, rfl, hv1, ho⟩ := h1 ht
      refine ⟨d1, none, rfl, hv1, (fun tm e => by cases e), ?_, ?_, ?_, ?_, ?_⟩
      · intro x' h1; simp at h1
      · intro x' _ h1; simp at h1
      · intro x' hx' _; simp at hx'; subst hx'; exact ⟨ho, rfl⟩
      · intro x' hx' hf; simp at hx'; subst hx'; rw [ht] at hf; exact absurd hf (by decide)
      · intro x' h1; simp at h1
    · have hf : x.truthy = false := by simpa using ht
      have := h2 hf; subst this
      refine ⟨d0, _, rfl, hv, (fun tm e => by cases e; exact c0), ?_, ?_, ?_, ?_, ?_⟩
      · intro x' h1; simp at h1
      · intro x' _ h1; simp at h1
      · intro x' hx' ht'; simp at hx'; subst hx'; exact absurd ht' ht
      · intro x' hx' _; exact ⟨rfl, rfl⟩
      · intro x' h1; simp at h1
  | weeks x hx =>
    obtain ⟨v, hmul, h1, h2⟩ := datetimeAdd_weeks d0 hv _ x r hr
    by_cases ht : v.truthy = true
    · obtain ⟨d1, rfl, hv1, ho⟩ := h1 ht
      refine ⟨d1, none, rfl, hv1, (fun tm e => by cases e), ?_, ?_, ?_, ?_, ?_⟩
      · intro x' h1; simp at h1
      · intro x' _ h1; simp at h1
      · intro x' h1; simp at h1
      · intro x' h1; simp at h1
      · intro x' _ hx'; simp at hx'; subst hx'
        exact ⟨v, hmul, fun _ => ⟨ho, rfl⟩, fun hf => by rw [ht] at hf; exact absurd hf (by decide)⟩
    · have hf : v.truthy = false := by simpa using ht
      have := h2 hf; subst this
      refine ⟨d0, _, rfl, hv, (fun tm e => by cases e; exact c0), ?_, ?_, ?_, ?_, ?_⟩
      · intro x' h1; simp at h1
      · intro x' _ h1; simp at h1
      · intro x' h1; simp at h1
      · intro x' h1; simp at h1
      · intro x' _ hx'; simp at hx'; subst hx'
        exact ⟨v, hmul, fun ht' => absurd ht' ht, fun _ => ⟨rfl, rfl⟩⟩

/-! ## the loop of `resolve_duration` / `resolve_durations` -/

/-- the loop body of `resolve_duration` -/
def stepRD (cand : Timex) : List Timex → Timex → R (List Timex) := fun acc c => do
    let ty := infer c
    if ty.datetime then
      let r ← timexDatetimeAdd c cand
      return acc ++ [r]
    else if ty.time then
      let r ← timexTimeAdd c cand
      return acc ++ [r]
    else return acc

theorem resolveDuration_eq (cand : Timex) (tcs : List Timex) :
    resolveDuration cand tcs = tcs.foldlM (stepRD cand) [] := rfl

def contribRD (cand : Timex) (c : Timex) : R (List Timex) :=
  if (infer c).datetime then (do let r ← timexDatetimeAdd c cand; pure [r])
  else if (infer c).time then (do let r ← timexTimeAdd c cand; pure [r])
  else pure []

theorem stepRD_eq (cand : Timex) (acc : List Timex) (c : Timex) :
    stepRD cand acc c = (do let r ← contribRD cand c; pure (acc ++ r)) := by
  unfold stepRD contribRD
  simp only [bind, Except.bind, pure, Except.pure]
  split
  · cases timexDatetimeAdd c cand <;> rfl
  · split
    · cases timexTimeAdd c cand <;> rfl
    · simp

def contribD (cfg : Cfg) (tcs : List Timex) (c : Str) : R (List Str) :=
  let t := parse cfg c
  if (infer t).duration then (do
    let rs ← resolveDuration t tcs
    let ss ← rs.mapM formatT
    pure ss)
  else pure [c]

theorem stepD_eq (cfg : Cfg) (tcs : List Timex) (acc : List Str) (c : Str) :
    stepD cfg tcs acc c = (do let r ← contribD cfg tcs c; pure (acc ++ r)) := by
  unfold stepD contribD
  simp only [bind, Except.bind, pure, Except.pure]
  split
  · cases resolveDuration (parse cfg c) tcs with
    | error e => rfl
    | ok rs => cases List.mapM formatT rs <;> rfl
  · rfl

/-- every constraint that carries a time of day is a definite clock datetime `d0 Th:m:s` -/
def TimedAreDatetimes (tcs : List Timex) : Prop :=
  ∀ t ∈ tcs, (infer t).time = true →
    ∃ (d0 : Date) (h m s : Nat), d0.valid = true ∧ h < 100 ∧ m < 100 ∧ s < 100 ∧
      t = dateTimex d0 (some ⟨.int h, .int m, .int s⟩)

/-- what stage 1 hands on for one string: the candidate itself, or — for a duration candidate — a definite date + time
that is the calendar sum of a datetime constraint and the duration -/
def Stage1Origin (cfg : Cfg) (cands : List Str) (tcs : List Timex) (s1 : Str) : Prop :=
  (s1 ∈ cands ∧ (infer (parse cfg s1)).duration = false) ∨
  (∃ c ∈ cands, DurKind (parse cfg c) ∧ ∃ S ∈ tcs, ∃ (d0 : Date) (h m s : Nat) (d1 : Date) (tmo1 : Option Time),
      S = dateTimex d0 (some ⟨.int h, .int m, .int s⟩) ∧ d1.valid = true ∧ (∀ tm, tmo1 = some tm → ClockT tm) ∧
      DurSpec d0 h m s (parse cfg c) d1 tmo1 ∧ s1 = isoDateStr d1 ++ fmtTime tmo1)

/-- **stage 1** (`resolve_durations`) for candidates that are either non-durations or hour/minute/day/week durations,
when every constraint with a time of day is a definite datetime -/
theorem durStage_sound (cfg : Cfg) (cands : List Str) (tcs : List Timex) (a : List Str)
    (hk : ∀ c ∈ cands, (infer (parse cfg c)).duration = false ∨ DurKind (parse cfg c))
    (htd : TimedAreDatetimes tcs) (h : resolveDurations cfg cands tcs = .ok a) :
    ∀ s1 ∈ a, Stage1Origin cfg cands tcs s1 := by
  rw [resolveDurations_eq] at h
  intro s1 hs1
  have hm := (foldlM_append_mem' _ _ (stepD_eq cfg tcs) cands [] a h s1).mp hs1
  simp only [List.not_mem_nil, false_or] at hm
  obtain ⟨c, hc, r, hr, hsr⟩ := hm
  unfold contribD at hr
  rcases hk c hc with hnd | hdk
  · simp only [hnd, Bool.false_eq_true, if_false, pure, Except.pure] at hr
    cases hr
    simp at hsr; subst hsr
    exact Or.inl ⟨hc, hnd⟩
  · simp only [durKind_dur _ hdk, if_true, bind, Except.bind] at hr
    cases hrd : resolveDuration (parse cfg c) tcs with
    | error e => simp [hrd] at hr
    | ok rs =>
      simp only [hrd] at hr
      cases hmm : rs.mapM formatT with
      | error e => simp [hmm] at hr
      | ok ss =>
        simp only [hmm, pure, Except.pure] at hr
        cases hr
        obtain ⟨r1, hr1, hf⟩ := (mapM_ok_mem formatT rs _ hmm s1).mp hsr
        rw [resolveDuration_eq] at hrd
        have hm2 := (foldlM_append_mem' _ _ (stepRD_eq (parse cfg c)) tcs [] rs hrd r1).mp hr1
        simp only [List.not_mem_nil, false_or] at hm2
        obtain ⟨S, hS, x, hx, hrx⟩ := hm2
        unfold contribRD at hx
        by_cases htime : (infer S).time = true
        · obtain ⟨d0, hh, mm, sec0, hv0, b1, b2, b3, rfl⟩ := htd S hS htime
          have hi := infer_dateTimex d0 (some ⟨.int hh, .int mm, .int sec0⟩)
          have hdt : (infer (dateTimex d0 (some ⟨.int hh, .int mm, .int sec0⟩))).datetime = true := by
            simp [infer, dateTimex, Timex.fromDate, isDate, isTime]
          simp only [hdt, if_true, bind, Except.bind] at hx
          cases hadd : timexDatetimeAdd (dateTimex d0 (some ⟨.int hh, .int mm, .int sec0⟩)) (parse cfg c) with
          | error e => simp [hadd] at hx
          | ok r2 =>
            simp only [hadd, pure, Except.pure] at hx
            cases hx
            simp at hrx; subst hrx
            obtain ⟨d1, tmo1, rfl, hv1, hc1, hspec⟩ := datetimeAdd_dur d0 hv0 hh mm sec0 b1 b2 b3 _ hdk r1 hadd
            rw [format_dateTimex d1 hv1] at hf
            cases hf
            exact Or.inr ⟨c, hc, hdk, _, hS, d0, hh, mm, sec0, d1, tmo1, rfl, hv1, hc1, hspec, rfl⟩
        · have hnt : (infer S).time = false := by simpa using htime
          have hnd : (infer S).datetime = false := by
            simp only [infer] at hnt ⊢
            simp only [Bool.or_eq_false_iff] at hnt
            simp [hnt.1, hnt.2]
          simp only [hnd, hnt, Bool.false_eq_true, if_false, pure, Except.pure] at hx
          cases hx; cases hrx

/-! ## forward direction (for completeness theorems) -/

theorem foldlM_append_each_ok {α β : Type} (f : α → R (List β)) : ∀ (l : List α) (init out : List β),
    l.foldlM (fun acc x => do let r ← f x; pure (acc ++ r)) init = .ok out → ∀ x ∈ l, ∃ r, f x = .ok r := by
  intro l
  induction l with
  | nil => intro _ _ _ x hx; cases hx
  | cons a rest ih =>
    intro init out h x hx
    simp only [List.foldlM, bind, Except.bind] at h
    cases hfa : f a with
    | error e => simp [hfa] at h
    | ok r =>
      simp only [hfa, pure, Except.pure] at h
      rcases List.mem_cons.mp hx with rfl | hx'
      · exact ⟨r, hfa⟩
      · exact ih _ _ h x hx'

theorem foldlM_append_each_ok' {α β : Type} (G : List β → α → R (List β)) (f : α → R (List β))
    (hG : ∀ acc x, G acc x = (do let r ← f x; pure (acc ++ r))) (l : List α) (init out : List β)
    (h : l.foldlM G init = .ok out) : ∀ x ∈ l, ∃ r, f x = .ok r := by
  have : G = fun acc x => (do let r ← f x; pure (acc ++ r)) := by funext acc x; exact hG acc x
  subst this
  exact foldlM_append_each_ok f l init out h

theorem mapM_each_ok {α β : Type} (f : α → R β) : ∀ (l : List α) (out : List β), l.mapM f = .ok out →
    ∀ x ∈ l, ∃ y, f x = .ok y ∧ y ∈ out := by
  intro l out h x hx
  have hm := mapM_ok_mem f l out h
  -- every element's image exists because the whole `mapM` succeeded
  induction l generalizing out with
  | nil => cases hx
  | cons a rest ih =>
    rw [List.mapM_cons] at h
    simp only [bind, Except.bind] at h
    cases hfa : f a with
    | error e => simp [hfa] at h
    | ok b =>
      simp only [hfa] at h
      cases hr : rest.mapM f with
      | error e => simp [hr] at h
      | ok bs =>
        simp only [hr, pure, Except.pure] at h
        cases h
        rcases List.mem_cons.mp hx with rfl | hx'
        · exact ⟨b, hfa, by simp⟩
        · obtain ⟨y, hy, hyo⟩ := ih bs hr hx' (mapM_ok_mem f rest bs hr)
          exact ⟨y, hy, by simp [hyo]⟩

/-- stage 1, forward: a duration candidate and a datetime constraint of the list always contribute their sum -/
theorem durStage_complete (cfg : Cfg) (cands : List Str) (tcs : List Timex) (a : List Str)
    (h : resolveDurations cfg cands tcs = .ok a) (c : Str) (hc : c ∈ cands) (hdk : DurKind (parse cfg c))
    (S : Timex) (hS : S ∈ tcs) (hdt : (infer S).datetime = true) :
    ∃ r1 s1, timexDatetimeAdd S (parse cfg c) = .ok r1 ∧ formatT r1 = .ok s1 ∧ s1 ∈ a := by
  rw [resolveDurations_eq] at h
  obtain ⟨rr, hrr⟩ := foldlM_append_each_ok' _ _ (stepD_eq cfg tcs) cands [] a h c hc
  have hrr' := hrr
  unfold contribD at hrr
  simp only [durKind_dur _ hdk, if_true, bind, Except.bind] at hrr
  cases hrd : resolveDuration (parse cfg c) tcs with
  | error e => simp [hrd] at hrr
  | ok rs =>
    simp only [hrd] at hrr
    cases hmm : rs.mapM formatT with
    | error e => simp [hmm] at hrr
    | ok ss =>
      simp only [hmm, pure, Except.pure] at hrr
      cases hrr
      have hrd' := hrd
      rw [resolveDuration_eq] at hrd
      obtain ⟨x, hx⟩ := foldlM_append_each_ok' _ _ (stepRD_eq (parse cfg c)) tcs [] rs hrd S hS
      have hx' := hx
      unfold contribRD at hx
      simp only [hdt, if_true, bind, Except.bind] at hx
      cases hadd : timexDatetimeAdd S (parse cfg c) with
      | error e => simp [hadd] at hx
      | ok r1 =>
        simp only [hadd, pure, Except.pure] at hx
        cases hx
        have hr1 : r1 ∈ rs :=
          (foldlM_append_mem' _ _ (stepRD_eq (parse cfg c)) tcs [] rs hrd r1).mpr
            (Or.inr ⟨S, hS, [r1], hx', by simp⟩)
        obtain ⟨s1, hf, hs1⟩ := mapM_each_ok formatT rs _ hmm r1 hr1
        exact ⟨r1, s1, rfl, hf, (foldlM_append_mem' _ _ (stepD_eq cfg tcs) cands [] a h s1).mpr
          (Or.inr ⟨c, hc, _, hrr', hs1⟩)⟩

/-- stage 2, forward: when the stage returned, every candidate was resolved against every collapsed range -/
theorem dateStage_each_ok (cfg : Cfg) (fuel : Nat) (cands : List Str) (tcs : List Timex) (out : List Str)
    (ranges collapsed : List DateRange)
    (h1 : (tcs.filter fun t => (infer t).daterange).mapM daterangeFromTimex = .ok ranges)
    (h2 : collapseDates fuel ranges = .ok collapsed) (h3 : collapsed.isEmpty = false)
    (hout : resolveByDateRangeConstraints cfg fuel cands tcs = .ok out) :
    ∀ c ∈ cands, ∀ k ∈ collapsed, ∃ x, resolveDateAgainstConstraint (parse cfg c) k = .ok x := by
  unfold resolveByDateRangeConstraints at hout
  simp only [h1, h2, h3, bind, Except.bind, Bool.false_eq_true, if_false] at hout
  let g : Str → R (List Str) := fun c =>
    collapsed.foldlM (fun acc2 k => do
      let x ← resolveDateAgainstConstraint (parse cfg c) k
      pure (acc2 ++ x)) []
  cases hres : cands.foldlM (fun acc c => do let r ← g c; pure (acc ++ r)) [] with
  | error e =>
    simp [g, bind, Except.bind, pure, Except.pure] at hres
    simp [hres, pure, Except.pure] at hout
  | ok res =>
    intro c hc k hk
    obtain ⟨r, hr⟩ := foldlM_append_each_ok g cands [] res hres c hc
    exact foldlM_append_each_ok (fun k => resolveDateAgainstConstraint (parse cfg c) k) collapsed [] r hr k hk

/-- stage 3, forward: a dated string that already has a time of day is handed on unchanged -/
theorem timeStage_keep (cfg : Cfg) (hc : CfgOK cfg) (b : List Str) (tcs : List Timex) (c : List Str)
    (h : resolveByTimeConstraints cfg b tcs = .ok c) (s : Str) (hs : s ∈ b) (d : Date) (tm : Time)
    (hd : Desc s d (some tm)) : s ∈ c := by
  rw [resolveByTimeConstraints_eq] at h
  simp only at h
  split at h
  · simp only [pure, Except.pure] at h; cases h; exact hs
  · simp only [bind, Except.bind] at h
    cases hres : b.foldlM (stepG cfg ((tcs.filter fun t => (infer t).time).map timeFromTimex)) [] with
    | error e => simp [hres] at h
    | ok res =>
      simp only [hres, pure, Except.pure] at h
      cases h
      rw [mem_removeDuplicates]
      refine (foldlM_append_mem' _ _ (stepG_eq cfg _) b [] res hres s).mpr (Or.inr ⟨s, hs, [s], ?_, by simp⟩)
      have hp : parse cfg s = dateTimex d (some tm) := by rw [hd.2.2]; exact reparse cfg hc d hd.1 _ hd.2.1
      have hi := infer_dateTimex d (some tm)
      unfold contribG
      simp only [hp, hi.1, hi.2.1, Option.isSome_some, Bool.not_true, Bool.and_false, Bool.false_eq_true, if_false, bind,
        Except.bind, format_dateTimex d hd.1, pure, Except.pure]
      rw [hd.2.2]

/-! ## stage 2 never raises for a month-day candidate (the general form of the `XXXX-02-29` regression) -/

/-- one year of the month-day loop always succeeds: an impossible date (`XXXX-02-29` in a non-leap year, `XXXX-02-30`)
counts as "not in the range", it does not raise -/
theorem resolveDefinite_monthday_ok (m dd : Int) (tmo : Option Time) (yy : Nat) (c : DateRange) :
    ∃ x, resolveDefiniteAgainstConstraint
      { ({ month := some (.int m), dayOfMonth := some (.int dd), time := tmo } : Timex) with
        year := some (.int (yy : Int)) } c = .ok x := by
  unfold resolveDefiniteAgainstConstraint
  simp only [dateFromTimex, toInt_int, mkDate]
  by_cases hpos : (0 : Int) ≤ yy ∧ 0 ≤ m ∧ 0 ≤ dd
  · by_cases hv : (⟨(yy : Int).toNat, m.toNat, dd.toNat⟩ : Date).valid = true
    · have e : ({ month := some (.int m), dayOfMonth := some (.int dd), time := tmo, year := some (.int (yy : Int)) } : Timex) =
          dateTimex ⟨(yy : Int).toNat, m.toNat, dd.toNat⟩ tmo := by
        simp [dateTimex, Timex.fromDate]; omega
      simp only [hpos, and_self, if_true, hv, pure, Except.pure, bind, Except.bind, e, format_dateTimex _ hv]
      split <;> exact ⟨_, rfl⟩
    · simp only [hpos, and_self, if_true, hv, Bool.false_eq_true, if_false, throw, throwThe, MonadExceptOf.throw,
        bind, Except.bind, pure, Except.pure]
      exact ⟨_, rfl⟩
  · simp only [hpos, if_false, throw, throwThe, MonadExceptOf.throw, bind, Except.bind, pure, Except.pure]
    exact ⟨_, rfl⟩

theorem yearsLoop_monthday_ok (m dd : Int) (tmo : Option Time) (c : DateRange) : ∀ (n y : Nat),
    ∃ x, yearsLoop { month := some (.int m), dayOfMonth := some (.int dd), time := tmo } c n y = .ok x := by
  intro n
  induction n with
  | zero => intro y; exact ⟨[], rfl⟩
  | succ n ih =>
    intro y
    obtain ⟨r, hr⟩ := resolveDefinite_monthday_ok m dd tmo y c
    obtain ⟨rest, hrest⟩ := ih (y + 1)
    exact ⟨r ++ rest, by simp only [yearsLoop, bind, Except.bind, hr, hrest, pure, Except.pure]⟩

/-- **monthday_stage_total** — for every month-day candidate (any month and day numbers, with or without a time) and
every range whose start year is not more than one year after its end year, `resolve_date_against_constraint` returns
(no exception: this is the general statement behind the `XXXX-02-29` regression) -/
theorem monthday_stage_total (m dd : Int) (tmo : Option Time) (c : DateRange)
    (hy : (Date.ofOrd c.s).y ≤ (Date.ofOrd c.e).y + 1) :
    ∃ x, resolveDateAgainstConstraint { month := some (.int m), dayOfMonth := some (.int dd), time := tmo } c = .ok x := by
  obtain ⟨r, hr⟩ := yearsLoop_monthday_ok m dd tmo c ((Date.ofOrd c.e).y + 1 - (Date.ofOrd c.s).y) (Date.ofOrd c.s).y
  refine ⟨r.filter (· ≠ []), ?_⟩
  have hmd : andChainNotNone [some (Num.int m), some (Num.int dd)] = true := by simp [andChainNotNone]
  simp only [resolveDateAgainstConstraint, hmd, if_true, hy, bind, Except.bind, hr, pure, Except.pure]

/-! ## every candidate string of the grammar satisfies the hypotheses of `evaluate_sound` -/

/-- time-of-day forms (not parts of day) -/
def IsTod : TimeForm → Prop
  | .pod _ => False
  | _ => True

/-- the candidate strings of C15 in the grammar of C14: `XXXX-WXX-d`, `XXXX-MM-DD`, each alone or followed by
`Thh[:mm[:ss]]`, and `Thh[:mm[:ss]]` alone -/
inductive CandForm
  | weekday (w : Dg) (g : Option TimeForm)
  | monthday (m1 m2 d1 d2 : Dg) (g : Option TimeForm)
  | time (g : TimeForm)

def CandForm.render : CandForm → Str
  | .weekday w none => renderD (.weekday w)
  | .weekday w (some g) => renderD (.weekday w) ++ renderT g
  | .monthday m1 m2 d1 d2 none => renderD (.openyear m1 m2 d1 d2)
  | .monthday m1 m2 d1 d2 (some g) => renderD (.openyear m1 m2 d1 d2) ++ renderT g
  | .time g => renderT g

def CandForm.ok : CandForm → Prop
  | .weekday w g => w.val ≠ 0 ∧ ∀ g', g = some g' → IsTod g'
  | .monthday _ _ _ _ g => ∀ g', g = some g' → IsTod g'
  | .time g => IsTod g

theorem clock_of_digits (a b c d e f : Dg) :
    ClockT ⟨.int ((a.val * 10 + b.val : Nat) : Int), .int ((c.val * 10 + d.val : Nat) : Int),
            .int ((e.val * 10 + f.val : Nat) : Int)⟩ := by
  have := a.isLt; have := b.isLt; have := c.isLt; have := d.isLt; have := e.isLt; have := f.isLt
  exact ⟨a.val * 10 + b.val, c.val * 10 + d.val, e.val * 10 + f.val, by omega, by omega, by omega, rfl⟩

/-- **candKind_of_grammar** — for EVERY candidate string of these forms (digits universally quantified) `Timex(s)` is of
a `CandKind` family and its time of day, if any, is clock-like: the hypotheses `cand` / `candClock` of `evaluate_sound`
hold for all of them, not only for the examples -/
theorem candKind_of_grammar (cfg : Cfg) (hc : CfgOK cfg) (w : CandForm) (hw : w.ok) :
    CandKind (parse cfg w.render) ∧ ∀ tm, (parse cfg w.render).time = some tm → ClockT tm := by
  have h88 : isDig cfg.dv 88 = false := by simp [isDig, hc.dv.2 88 (by decide)]
  have h45 : isDig cfg.dv 45 = false := by simp [isDig, hc.dv.2 45 (by decide)]
  have h87 : isDig cfg.dv 87 = false := by simp [isDig, hc.dv.2 87 (by decide)]
  have h58 : isDig cfg.dv 58 = false := by simp [isDig, hc.dv.2 58 (by decide)]
  have z := clock_of_digits
  cases w with
  | time g =>
    cases g with
    | pod p => exact absurd hw (by simp [CandForm.ok, IsTod])
    | h h1 h2 =>
      have e : parse cfg (CandForm.time (.h h1 h2)).render =
          { time := some ⟨.int ((h1.val * 10 + h2.val : Nat) : Int), .int ((0 * 10 + 0 : Nat) : Int), .int ((0 * 10 + 0 : Nat) : Int)⟩ } := by
        simp only [CandForm.render]
        rw [parse_renderT cfg hc, extract_date_nil cfg hc, hc.time]
        simp [extract, stdTime, firstSome, matchItems, renderT, isDig_dch cfg hc, dictMerge, dictSet, Timex.assign,
          parseNatDv, dv_dch cfg hc, Timex.setHour, h58, dch_ne, ne_dch]
      rw [e]
      exact ⟨CandKind.timeonly _, fun tm htm => by cases htm; exact z h1 h2 0 0 0 0⟩
    | hm h1 h2 m1 m2 =>
      have e : parse cfg (CandForm.time (.hm h1 h2 m1 m2)).render =
          { time := some ⟨.int ((h1.val * 10 + h2.val : Nat) : Int), .int ((m1.val * 10 + m2.val : Nat) : Int), .int ((0 * 10 + 0 : Nat) : Int)⟩ } := by
        simp only [CandForm.render]
        rw [parse_renderT cfg hc, extract_date_nil cfg hc, hc.time]
        simp [extract, stdTime, firstSome, matchItems, renderT, isDig_dch cfg hc, dictMerge, dictSet, Timex.assign,
          parseNatDv, dv_dch cfg hc, Timex.setHour, Timex.setMinute, h58, dch_ne, ne_dch]
      rw [e]
      exact ⟨CandKind.timeonly _, fun tm htm => by cases htm; exact z h1 h2 m1 m2 0 0⟩
    | hms h1 h2 m1 m2 s1 s2 =>
      have e : parse cfg (CandForm.time (.hms h1 h2 m1 m2 s1 s2)).render =
          { time := some ⟨.int ((h1.val * 10 + h2.val : Nat) : Int), .int ((m1.val * 10 + m2.val : Nat) : Int), .int ((s1.val * 10 + s2.val : Nat) : Int)⟩ } := by
        simp only [CandForm.render]
        rw [parse_renderT cfg hc, extract_date_nil cfg hc, hc.time]
        simp [extract, stdTime, firstSome, matchItems, renderT, isDig_dch cfg hc, dictMerge, dictSet, Timex.assign,
          parseNatDv, dv_dch cfg hc, Timex.setHour, Timex.setMinute, Timex.setSecond, h58, dch_ne, ne_dch]
      rw [e]
      exact ⟨CandKind.timeonly _, fun tm htm => by cases htm; exact z h1 h2 m1 m2 s1 s2⟩
  | weekday wd g =>
    cases g with
    | none =>
      have e : parse cfg (CandForm.weekday wd none).render = { dayOfWeek := some (.int ((wd.val : Nat) : Int)), time := none } := by
        simp only [CandForm.render]
        rw [parse_renderD cfg hc, hc.date]
        simp [extract, stdDate, stdTime, xxxx, firstSome, matchItems, renderD, renderT, isDig_dch cfg hc, startsWith, dictMerge,
          dictSet, Timex.assign, parseNatDv, dv_dch cfg hc, Timex.setHour, Timex.setMinute, Timex.setSecond, h88, h45, h87,
          h58, dch_ne, ne_dch, isDig, hc.dv.2]
      rw [e]
      exact ⟨CandKind.weekday _ _, fun tm htm => by cases htm⟩
    | some g =>
      have hcomb : Combinable (.weekday wd) := by
        simp only [Combinable]; exact hw.1
      cases g with
      | pod p => exact absurd ((hw.2 _ rfl)) (by simp [IsTod])
      | h h1 h2 =>
        have e : parse cfg (CandForm.weekday wd (some (.h h1 h2))).render = { dayOfWeek := some (.int ((wd.val : Nat) : Int)), time := some ⟨.int ((h1.val * 10 + h2.val : Nat) : Int), .int ((0 * 10 + 0 : Nat) : Int), .int ((0 * 10 + 0 : Nat) : Int)⟩ } := by
          simp only [CandForm.render]
          rw [parse_renderDT cfg hc _ _ hcomb, hc.date, hc.time]
          simp [extract, stdDate, stdTime, xxxx, firstSome, matchItems, renderD, renderT, isDig_dch cfg hc, startsWith, dictMerge,
          dictSet, Timex.assign, parseNatDv, dv_dch cfg hc, Timex.setHour, Timex.setMinute, Timex.setSecond, h88, h45, h87,
          h58, dch_ne, ne_dch, isDig, hc.dv.2]
        rw [e]
        exact ⟨CandKind.weekday _ _, fun tm htm => by cases htm; exact z h1 h2 0 0 0 0⟩
      | hm h1 h2 mi1 mi2 =>
        have e : parse cfg (CandForm.weekday wd (some (.hm h1 h2 mi1 mi2))).render = { dayOfWeek := some (.int ((wd.val : Nat) : Int)), time := some ⟨.int ((h1.val * 10 + h2.val : Nat) : Int), .int ((mi1.val * 10 + mi2.val : Nat) : Int), .int ((0 * 10 + 0 : Nat) : Int)⟩ } := by
          simp only [CandForm.render]
          rw [parse_renderDT cfg hc _ _ hcomb, hc.date, hc.time]
          simp [extract, stdDate, stdTime, xxxx, firstSome, matchItems, renderD, renderT, isDig_dch cfg hc, startsWith, dictMerge,
          dictSet, Timex.assign, parseNatDv, dv_dch cfg hc, Timex.setHour, Timex.setMinute, Timex.setSecond, h88, h45, h87,
          h58, dch_ne, ne_dch, isDig, hc.dv.2]
        rw [e]
        exact ⟨CandKind.weekday _ _, fun tm htm => by cases htm; exact z h1 h2 mi1 mi2 0 0⟩
      | hms h1 h2 mi1 mi2 s1 s2 =>
        have e : parse cfg (CandForm.weekday wd (some (.hms h1 h2 mi1 mi2 s1 s2))).render = { dayOfWeek := some (.int ((wd.val : Nat) : Int)), time := some ⟨.int ((h1.val * 10 + h2.val : Nat) : Int), .int ((mi1.val * 10 + mi2.val : Nat) : Int), .int ((s1.val * 10 + s2.val : Nat) : Int)⟩ } := by
          simp only [CandForm.render]
          rw [parse_renderDT cfg hc _ _ hcomb, hc.date, hc.time]
          simp [extract, stdDate, stdTime, xxxx, firstSome, matchItems, renderD, renderT, isDig_dch cfg hc, startsWith, dictMerge,
          dictSet, Timex.assign, parseNatDv, dv_dch cfg hc, Timex.setHour, Timex.setMinute, Timex.setSecond, h88, h45, h87,
          h58, dch_ne, ne_dch, isDig, hc.dv.2]
        rw [e]
        exact ⟨CandKind.weekday _ _, fun tm htm => by cases htm; exact z h1 h2 mi1 mi2 s1 s2⟩
  | monthday m1 m2 d1 d2 g =>
    cases g with
    | none =>
      have e : parse cfg (CandForm.monthday m1 m2 d1 d2 none).render = { month := some (.int ((m1.val * 10 + m2.val : Nat) : Int)), dayOfMonth := some (.int ((d1.val * 10 + d2.val : Nat) : Int)), time := none } := by
        simp only [CandForm.render]
        rw [parse_renderD cfg hc, hc.date]
        simp [extract, stdDate, stdTime, xxxx, firstSome, matchItems, renderD, renderT, isDig_dch cfg hc, startsWith, dictMerge,
          dictSet, Timex.assign, parseNatDv, dv_dch cfg hc, Timex.setHour, Timex.setMinute, Timex.setSecond, h88, h45, h87,
          h58, dch_ne, ne_dch, isDig, hc.dv.2]
      rw [e]
      exact ⟨CandKind.monthday _ _ _, fun tm htm => by cases htm⟩
    | some g =>
      have hcomb : Combinable (.openyear m1 m2 d1 d2) := by
        simp only [Combinable]
      cases g with
      | pod p => exact absurd ((hw _ rfl)) (by simp [IsTod])
      | h h1 h2 =>
        have e : parse cfg (CandForm.monthday m1 m2 d1 d2 (some (.h h1 h2))).render = { month := some (.int ((m1.val * 10 + m2.val : Nat) : Int)), dayOfMonth := some (.int ((d1.val * 10 + d2.val : Nat) : Int)), time := some ⟨.int ((h1.val * 10 + h2.val : Nat) : Int), .int ((0 * 10 + 0 : Nat) : Int), .int ((0 * 10 + 0 : Nat) : Int)⟩ } := by
          simp only [CandForm.render]
          rw [parse_renderDT cfg hc _ _ hcomb, hc.date, hc.time]
          simp [extract, stdDate, stdTime, xxxx, firstSome, matchItems, renderD, renderT, isDig_dch cfg hc, startsWith, dictMerge,
          dictSet, Timex.assign, parseNatDv, dv_dch cfg hc, Timex.setHour, Timex.setMinute, Timex.setSecond, h88, h45, h87,
          h58, dch_ne, ne_dch, isDig, hc.dv.2]
        rw [e]
        exact ⟨CandKind.monthday _ _ _, fun tm htm => by cases htm; exact z h1 h2 0 0 0 0⟩
      | hm h1 h2 mi1 mi2 =>
        have e : parse cfg (CandForm.monthday m1 m2 d1 d2 (some (.hm h1 h2 mi1 mi2))).render = { month := some (.int ((m1.val * 10 + m2.val : Nat) : Int)), dayOfMonth := some (.int ((d1.val * 10 + d2.val : Nat) : Int)), time := some ⟨.int ((h1.val * 10 + h2.val : Nat) : Int), .int ((mi1.val * 10 + mi2.val : Nat) : Int), .int ((0 * 10 + 0 : Nat) : Int)⟩ } := by
          simp only [CandForm.render]
          rw [parse_renderDT cfg hc _ _ hcomb, hc.date, hc.time]
          simp [extract, stdDate, stdTime, xxxx, firstSome, matchItems, renderD, renderT, isDig_dch cfg hc, startsWith, dictMerge,
          dictSet, Timex.assign, parseNatDv, dv_dch cfg hc, Timex.setHour, Timex.setMinute, Timex.setSecond, h88, h45, h87,
          h58, dch_ne, ne_dch, isDig, hc.dv.2]
        rw [e]
        exact ⟨CandKind.monthday _ _ _, fun tm htm => by cases htm; exact z h1 h2 mi1 mi2 0 0⟩
      | hms h1 h2 mi1 mi2 s1 s2 =>
        have e : parse cfg (CandForm.monthday m1 m2 d1 d2 (some (.hms h1 h2 mi1 mi2 s1 s2))).render = { month := some (.int ((m1.val * 10 + m2.val : Nat) : Int)), dayOfMonth := some (.int ((d1.val * 10 + d2.val : Nat) : Int)), time := some ⟨.int ((h1.val * 10 + h2.val : Nat) : Int), .int ((mi1.val * 10 + mi2.val : Nat) : Int), .int ((s1.val * 10 + s2.val : Nat) : Int)⟩ } := by
          simp only [CandForm.render]
          rw [parse_renderDT cfg hc _ _ hcomb, hc.date, hc.time]
          simp [extract, stdDate, stdTime, xxxx, firstSome, matchItems, renderD, renderT, isDig_dch cfg hc, startsWith, dictMerge,
          dictSet, Timex.assign, parseNatDv, dv_dch cfg hc, Timex.setHour, Timex.setMinute, Timex.setSecond, h88, h45, h87,
          h58, dch_ne, ne_dch, isDig, hc.dv.2]
        rw [e]
        exact ⟨CandKind.monthday _ _ _, fun tm htm => by cases htm; exact z h1 h2 mi1 mi2 s1 s2⟩

end RTV.Timex
