import RTV.Model.NumExtract
import RTV.Lemmas.ReHead
import RTV.Lemmas.Span
/-!
Lemmas for `RTV.NumExtract` (C03, extraction front end).

* the sweep: when every match lies inside `[a, a+n)` and one match is exactly `[a, a+n)`, `numExtract` reports
  exactly that span (`numExtract_single`);
* containment of all `finditer` matches of a regex whose matches must begin with a sign / digit / mark and end with a
  digit (`findAll_contained`);
* what the engine reports first for `BaseNumbers.IntegerRegexDefinition` / `DoubleRegexDefinition` on a grouped
  literal with ANY number of thousands groups (`integerDef_first`, `doubleDef_first_*`).
-/
namespace RTV.NumExtract
open RTV.Py RTV.Re RTV.Span

/-! ### the scan over an interval of marked positions -/

theorem runsGo_tail_nil (f : Nat → Bool) (N : Nat) :
    ∀ fuel i st, (∀ k, i ≤ k → f k = false) → runsGo f N fuel i st = [] := by
  intro fuel
  induction fuel with
  | zero => intro i st _; rfl
  | succ n ih =>
    intro i st h
    rw [runsGo]
    simp only [h i (Nat.le_refl _), Bool.not_false, ↓reduceIte]
    exact ih _ _ (fun k hk => h k (by omega))

theorem runsGo_inside (f : Nat → Bool) (N a n : Nat) (hN : a + n ≤ N)
    (hin : ∀ k, a ≤ k → k < a + n → f k = true) (hout : ∀ k, a + n ≤ k → f k = false) :
    ∀ fuel i, a ≤ i → i < a + n → i + fuel = N → runsGo f N fuel i a = [(a, n)] := by
  intro fuel
  induction fuel with
  | zero => intro i h1 h2 h3; omega
  | succ m ih =>
    intro i h1 h2 h3
    rw [runsGo]
    simp only [hin i h1 h2, Bool.not_true, Bool.false_eq_true, ↓reduceIte]
    by_cases hlast : i + 1 = a + n
    · have : (i + 1 == N || !f (i + 1)) = true := by
        simp [hout (i + 1) (by omega)]
      simp only [this, ↓reduceIte]
      rw [runsGo_tail_nil f N m (i + 1) a (fun k hk => hout k (by omega))]
      have : i + 1 - a = n := by omega
      rw [this]
    · have : (i + 1 == N || !f (i + 1)) = false := by
        have h4 : i + 1 ≠ N := by omega
        simp [h4, hin (i + 1) (by omega) (by omega)]
      simp only [this, Bool.false_eq_true, ↓reduceIte]
      exact ih (i + 1) (by omega) (by omega) (by omega)

theorem runsGo_before (f : Nat → Bool) (N a n : Nat) (hn : 0 < n) (hN : a + n ≤ N)
    (hpre : ∀ k, k < a → f k = false)
    (hin : ∀ k, a ≤ k → k < a + n → f k = true) (hout : ∀ k, a + n ≤ k → f k = false) :
    ∀ fuel i, i ≤ a → i + fuel = N → runsGo f N fuel i i = [(a, n)] := by
  intro fuel
  induction fuel with
  | zero => intro i h1 h2; omega
  | succ m ih =>
    intro i h1 h2
    by_cases hia : i = a
    · subst hia
      exact runsGo_inside f N i n hN hin hout (m + 1) i (Nat.le_refl _) (by omega) h2
    · rw [runsGo]
      simp only [hpre i (by omega), Bool.not_false, ↓reduceIte]
      exact ih (i + 1) (by omega) (by omega)

/-- the runs of the indicator of `[a, a+n)` -/
theorem runs_interval (f : Nat → Bool) (N a n : Nat) (hn : 0 < n) (hN : a + n ≤ N)
    (hf : ∀ k, f k = (decide (a ≤ k) && decide (k < a + n))) : runs f N = [(a, n)] := by
  unfold runs
  refine runsGo_before f N a n hn hN (fun k hk => ?_) (fun k h1 h2 => ?_) (fun k hk => ?_) N 0 (by omega) (by omega)
  · rw [hf]; simp; omega
  · rw [hf]; simp; omega
  · rw [hf]; simp; omega

/-! ### `strip` of a string with a non-blank character is not empty -/

theorem mem_stripLeft (sp : Nat → Bool) (c : Nat) (hc : sp c = false) : ∀ l : Str, c ∈ l → c ∈ stripLeft sp l := by
  intro l
  induction l with
  | nil => intro h; cases h
  | cons x r ih =>
    intro h
    rw [stripLeft]
    by_cases hx : sp x = true
    · simp only [hx, ↓reduceIte]
      rcases List.mem_cons.1 h with rfl | h
      · simp [hc] at hx
      · exact ih h
    · simp only [hx, Bool.false_eq_true, ↓reduceIte]
      exact h

theorem strip_nonempty (sp : Nat → Bool) (src : Str) (c : Nat) (hmem : c ∈ src) (hc : sp c = false) :
    (strip sp src).isEmpty = false := by
  have h1 := mem_stripLeft sp c hc src hmem
  have h2 := mem_stripLeft sp c hc (stripLeft sp src).reverse (by simpa using h1)
  unfold strip
  cases h : (stripLeft sp (stripLeft sp src).reverse) with
  | nil => rw [h] at h2; cases h2
  | cons x r => simp

/-! ### the sweep -/

theorem matchedAt_interval (ms : List M) (a n : Nat)
    (hall : ∀ m ∈ ms, a ≤ m.start ∧ m.start + m.len ≤ a + n)
    (hone : ∃ m ∈ ms, m.start = a ∧ m.len = n) (k : Nat) :
    matchedAt ms k = (decide (a ≤ k) && decide (k < a + n)) := by
  unfold matchedAt
  by_cases hk : a ≤ k ∧ k < a + n
  · have : (decide (a ≤ k) && decide (k < a + n)) = true := by simp [hk]
    rw [this, List.any_eq_true]
    obtain ⟨m, hm, h1, h2⟩ := hone
    exact ⟨m, hm, by simp; omega⟩
  · have : (decide (a ≤ k) && decide (k < a + n)) = false := by
      simp only [Bool.and_eq_false_iff, decide_eq_false_iff_not]; omega
    rw [this, List.any_eq_false]
    intro m hm
    have := hall m hm
    simp only [Bool.and_eq_true, decide_eq_true_eq, not_and, Nat.not_lt]
    omega

theorem filterAmbiguity_keep (ambs : List (List (Nat × Nat))) (x : ER)
    (h : ∀ amb ∈ ambs, filterItem amb x = true) : filterAmbiguity ambs [x] = [x] := by
  unfold filterAmbiguity
  induction ambs with
  | nil => rfl
  | cons amb rest ih =>
    simp only [List.foldl_cons]
    have : [x].filter (filterItem amb) = [x] := by simp [h amb (by simp)]
    rw [this]
    exact ih (fun b hb => h b (by simp [hb]))

/-- All matches inside `[a, a+n)`, one match exactly `[a, a+n)`, no negative term ending at `a`, no ambiguity match
meeting `[a, a+n)`: ONE result, spanning exactly `[a, a+n)`; its tag is that of the first regex (list order) with an
exact match. -/
theorem numExtract_single (sp : Nat → Bool) (src : Str) (ms : List M) (neg : Nat → Option (Nat × Nat))
    (ambs : List (List (Nat × Nat))) (a n : Nat) (hn : 0 < n)
    (hN : a + n ≤ src.length) (c : Nat) (hmem : c ∈ src) (hc : sp c = false)
    (hall : ∀ m ∈ ms, a ≤ m.start ∧ m.start + m.len ≤ a + n)
    (hone : ∃ m ∈ ms, m.start = a ∧ m.len = n) (hneg : neg a = none)
    (hamb : ∀ amb ∈ ambs, ∀ p ∈ amb, ¬ (p.1 < a + n ∧ p.2 > a)) :
    ∃ m ∈ ms, m.start = a ∧ m.len = n ∧
      numExtract sp src ms neg ambs = [⟨a, n, strip sp (sl src a n), m.tag⟩] := by
  have hruns : runs (matchedAt ms) src.length = [(a, n)] :=
    runs_interval _ _ a n hn hN (matchedAt_interval ms a n hall hone)
  obtain ⟨m0, hm0, h1, h2⟩ := hone
  have hfind : (ms.find? fun m => m.start == a && m.len == n).isSome = true := by
    rw [List.find?_isSome]
    exact ⟨m0, hm0, by simp [h1, h2]⟩
  obtain ⟨m, hm⟩ := Option.isSome_iff_exists.1 hfind
  have hmem' := List.mem_of_find?_eq_some hm
  have hp := List.find?_some hm
  simp only [Bool.and_eq_true, beq_iff_eq] at hp
  refine ⟨m, hmem', hp.1, hp.2, ?_⟩
  unfold numExtract
  simp only [strip_nonempty sp src c hmem hc, Bool.false_eq_true, ↓reduceIte, hruns, List.filterMap_cons,
    List.filterMap_nil, srcMatch, hm, hneg]
  apply filterAmbiguity_keep
  intro amb hamb'
  unfold filterItem
  simp only [Bool.not_eq_true', List.any_eq_false, Bool.and_eq_true, decide_eq_true_eq]
  intro p hp'
  exact hamb amb hamb' p hp'

/-! ### containment of the matches -/

/-- the characters a digit-family match can begin with: `-`, a digit, `.`, `,` -/
def startItems : List Item := [.range 45 45, .digit, .range 46 46, .range 44 44]
/-- … and end with: a digit -/
def endItems : List Item := [.digit]

theorem findAll_contained {T : Tables} {s : Array Nat} {r : RE} (hh : headS startItems r = true)
    (hl : lastS endItems r = true) {a e : Nat}
    (hpre : ∀ k, k < a → k < s.size → clsTest T startItems false (code s k) = false)
    (hpost : ∀ k, e ≤ k → k < s.size → T.digit (code s k) = false) :
    ∀ p ∈ findAll T s r, a ≤ p.1 ∧ p.2 ≤ e ∧ p.1 < p.2 := by
  intro p hp
  have hm : p.2 ∈ ends T s r p.1 := findAll_sound p hp
  obtain ⟨h1, h2, h3⟩ := headS_sound (T := T) (s := s) hh hm
  obtain ⟨_, h5, h6⟩ := lastS_sound (T := T) (s := s) hl hm
  refine ⟨?_, ?_, h1⟩
  · by_cases hlt : p.1 < a
    · have := hpre p.1 hlt h2; simp_all
    · omega
  · by_cases hgt : e ≤ p.2 - 1
    · have := hpost (p.2 - 1) hgt (by omega)
      simp [endItems, clsTest, Item.test] at h6
      simp_all
    · omega

/-- no attempt before `a` succeeds -/
theorem firstEnd_none_before {T : Tables} {s : Array Nat} {r : RE} (hh : headS startItems r = true) {a : Nat}
    (hpre : ∀ k, k < a → k < s.size → clsTest T startItems false (code s k) = false) :
    ∀ p, p < a → firstEnd T s r p = none :=
  fun p hp => firstEnd_none_of_nil (ends_nil_of_head hh (fun hlt => hpre p hp hlt))

/-! ### one literal, one result -/

theorem mem_matchesOf {T : Tables} {s : Array Nat} {fam : List (Nat × RE)} {m : M} :
    m ∈ matchesOf T s fam ↔ ∃ p ∈ fam, ∃ ab ∈ findAll T s p.2, m = ⟨ab.1, ab.2 - ab.1, p.1⟩ := by
  unfold matchesOf
  simp only [List.mem_flatMap, List.mem_map]
  constructor
  · rintro ⟨p, hp, ab, hab, rfl⟩; exact ⟨p, hp, ab, hab, rfl⟩
  · rintro ⟨p, hp, ab, hab, rfl⟩; exact ⟨p, hp, ab, hab, rfl⟩

/-- every regex of the family can only match something that starts with a sign / digit / mark and ends with a digit -/
def FamilyOK (fam : List (Nat × RE)) : Bool := fam.all fun p => headS startItems p.2 && lastS endItems p.2

/-- The generic extraction theorem: the family is `FamilyOK`, nothing before `a` can start a match, no digit from `e`
on, and SOME regex of the family reports `[a, e)` first at `a` — then the sweep returns exactly one result, `[a, e)`. -/
theorem extract_single {T : Tables} (sp : Nat → Bool) (src : Str) (fam : List (Nat × RE))
    (neg : Nat → Option (Nat × Nat)) (ambs : List (List (Nat × Nat))) (hfam : FamilyOK fam = true) {a e : Nat}
    (hae : a < e) (he : e ≤ src.length)
    (hpre : ∀ k, k < a → k < src.toArray.size → clsTest T startItems false (code src.toArray k) = false)
    (hpost : ∀ k, e ≤ k → k < src.toArray.size → T.digit (code src.toArray k) = false)
    (c : Nat) (hmem : c ∈ src) (hc : sp c = false)
    (hfirst : ∃ p ∈ fam, firstEnd T src.toArray p.2 a = some e)
    (hneg : neg a = none) (hamb : ∀ amb ∈ ambs, ∀ p ∈ amb, ¬ (p.1 < e ∧ p.2 > a)) :
    ∃ tag, tag ∈ fam.map (·.1) ∧
      numExtract sp src (matchesOf T src.toArray fam) neg ambs = [⟨a, e - a, strip sp (sl src a (e - a)), tag⟩] := by
  have hok : ∀ p ∈ fam, headS startItems p.2 = true ∧ lastS endItems p.2 = true := by
    intro p hp
    have := List.all_eq_true.1 hfam p hp
    simpa using this
  have hall : ∀ m ∈ matchesOf T src.toArray fam, a ≤ m.start ∧ m.start + m.len ≤ a + (e - a) := by
    intro m hm
    obtain ⟨p, hp, ab, hab, rfl⟩ := mem_matchesOf.1 hm
    have := findAll_contained (T := T) (hok p hp).1 (hok p hp).2 hpre hpost ab hab
    simp only
    omega
  have hone : ∃ m ∈ matchesOf T src.toArray fam, m.start = a ∧ m.len = e - a := by
    obtain ⟨p, hp, hf⟩ := hfirst
    refine ⟨⟨a, e - a, p.1⟩, mem_matchesOf.2 ⟨p, hp, (a, e), ?_, rfl⟩, rfl, rfl⟩
    exact findAll_mem_of_first hae (firstEnd_none_before (hok p hp).1 hpre) hf (by simp; omega)
  obtain ⟨m, hm, _, _, heq⟩ := numExtract_single sp src _ neg ambs a (e - a) (by omega) (by omega) c hmem hc hall hone
    hneg (by
      intro amb ha p hp
      have : a + (e - a) = e := by omega
      rw [this]
      exact hamb amb ha p hp)
  obtain ⟨p, hp, ab, _, rfl⟩ := mem_matchesOf.1 hm
  exact ⟨p.1, List.mem_map.2 ⟨p, hp, rfl⟩, heq⟩

end RTV.NumExtract
