import RTV.Model.Seq
import RTV.Lemmas.Ip
/-!
Lemmas about `RTV.Seq.dropLeadingZeros` (mirrors `BaseIpParser.drop_leading_zeros`): a functional specification
("every maximal run of non-separator characters is replaced by `normNumber` of it") and what `normNumber` preserves.
-/
namespace RTV.Seq
open RTV.Py RTV.Re

def isSep (c : Nat) : Bool := c = 46 || c = 58

/-- a text as its first group and the following (separator, group) pairs -/
def render (g0 : Str) : List (Nat × Str) → Str
  | [] => g0
  | (c, g) :: t => g0 ++ c :: render g t

/-- what the code does to one group: nothing for an empty group, `normNumber` otherwise -/
def nz (g : Str) : Str := if g = [] then [] else normNumber g

theorem dropGo_nil (result number : Str) : dropGo result number [] = result := by simp [dropGo]

/-- a run of non-separators up to the end of the text -/
theorem dropGo_final (g : Str) (hg : ∀ c ∈ g, isSep c = false) :
    ∀ result number, g ≠ [] → dropGo result number g = result ++ normNumber (number ++ g) := by
  induction g with
  | nil => intro _ _ h; exact absurd rfl h
  | cons x g' ih =>
    intro result number _
    have hx : ¬ (x = 46 ∨ x = 58) := by
      have := hg x (by simp); simp [isSep] at this; omega
    rw [dropGo]
    simp only [Bool.or_eq_true, decide_eq_true_eq, hx, if_false]
    by_cases he : g' = []
    · subst he; simp [dropGo_nil]
    · have : g'.isEmpty = false := by cases g' <;> simp_all
      simp only [this, Bool.false_eq_true, if_false]
      rw [ih (fun c hc => hg c (by simp [hc])) _ _ he]
      simp

/-- a run of non-separators followed by a separator -/
theorem dropGo_run (g : Str) (hg : ∀ c ∈ g, isSep c = false) (c : Nat) (hc : isSep c = true) (rest : Str) :
    ∀ result number, dropGo result number (g ++ c :: rest) =
      dropGo (result ++ nz (number ++ g) ++ [c]) [] rest := by
  induction g with
  | nil =>
    intro result number
    have hc' : (c = 46 ∨ c = 58) := by simpa [isSep] using hc
    simp only [List.nil_append, List.append_nil]
    rw [dropGo]
    simp only [Bool.or_eq_true, decide_eq_true_eq, hc', if_true]
    by_cases hn : number = [] <;> simp [nz, hn]
  | cons x g' ih =>
    intro result number
    have hx : ¬ (x = 46 ∨ x = 58) := by
      have := hg x (by simp); simp [isSep] at this; omega
    simp only [List.cons_append]
    rw [dropGo]
    simp only [Bool.or_eq_true, decide_eq_true_eq, hx, if_false]
    have : (g' ++ c :: rest).isEmpty = false := by cases g' <;> simp
    simp only [this, Bool.false_eq_true, if_false]
    rw [ih (fun c hc => hg c (by simp [hc]))]
    simp

theorem dropGo_render (gs : List (Nat × Str)) :
    ∀ (g0 result : Str), (∀ c ∈ g0, isSep c = false) → (∀ p ∈ gs, isSep p.1 = true ∧ ∀ c ∈ p.2, isSep c = false) →
      dropGo result [] (render g0 gs) = result ++ render (nz g0) (gs.map fun p => (p.1, nz p.2)) := by
  induction gs with
  | nil =>
    intro g0 result h0 _
    simp only [render, List.map_nil]
    by_cases he : g0 = []
    · subst he; simp [dropGo_nil, nz]
    · rw [dropGo_final g0 h0 _ _ he]; simp [nz, he]
  | cons p t ih =>
    intro g0 result h0 hs
    obtain ⟨c, g⟩ := p
    have hp := hs (c, g) (by simp)
    simp only [render, List.map_cons]
    rw [dropGo_run g0 h0 c hp.1, ih g _ hp.2 (fun q hq => hs q (by simp [hq]))]
    simp

/-- Functional specification of `drop_leading_zeros`: group-wise `normNumber`, separators and empty groups kept. -/
theorem dropLeadingZeros_render (g0 : Str) (gs : List (Nat × Str)) (h0 : ∀ c ∈ g0, isSep c = false)
    (hs : ∀ p ∈ gs, isSep p.1 = true ∧ ∀ c ∈ p.2, isSep c = false) :
    dropLeadingZeros (render g0 gs) = render (nz g0) (gs.map fun p => (p.1, nz p.2)) := by
  unfold dropLeadingZeros
  rw [dropGo_render gs g0 [] h0 hs]; simp

/-! ### `normNumber` -/

/-- canonical group: `0` itself or no leading zero -/
def Canon (g : Str) : Prop := g = [48] ∨ (g ≠ [] ∧ g.head? ≠ some 48)

theorem stripLeft_zero_head (g : Str) : (stripLeft (· == 48) g).head? ≠ some 48 := by
  induction g with
  | nil => simp [stripLeft]
  | cons x t ih =>
    unfold stripLeft
    by_cases hx : x = 48
    · simp [hx]; exact ih
    · simp [hx]

theorem normNumber_canon (g : Str) : Canon (normNumber g) := by
  unfold normNumber Canon
  by_cases h : g = [48]
  · simp [h]
  · simp only [h, if_false]
    by_cases he : (stripLeft (· == 48) g).isEmpty
    · simp [he]
    · simp only [he]
      right
      refine ⟨?_, by simpa using stripLeft_zero_head g⟩
      intro h0; simp at h0; simp [h0] at he

theorem stripLeft_mem (g : Str) : ∀ c ∈ stripLeft (· == 48) g, c ∈ g := by
  induction g with
  | nil => simp [stripLeft]
  | cons x t ih =>
    unfold stripLeft
    by_cases hx : x = 48
    · simp [hx]; intro c hc; exact .inr (ih c hc)
    · simp [hx]

theorem stripLeft_length (g : Str) : (stripLeft (· == 48) g).length ≤ g.length := by
  induction g with
  | nil => simp [stripLeft]
  | cons x t ih =>
    unfold stripLeft
    by_cases hx : x = 48
    · simp [hx]; omega
    · simp [hx]

/-- positional value in any base `B` with any digit valuation `v` that sends `'0'` to 0 -/
def posVal (B : Nat) (v : Nat → Nat) (w : Str) : Nat := w.foldl (fun a c => B * a + v c) 0

theorem posVal_stripLeft (B : Nat) (v : Nat → Nat) (hv : v 48 = 0) (g : Str) :
    posVal B v (stripLeft (· == 48) g) = posVal B v g := by
  induction g with
  | nil => simp [stripLeft]
  | cons x t ih =>
    unfold stripLeft
    by_cases hx : x = 48
    · subst hx; simp only [beq_self_eq_true, if_true]; rw [ih]; simp [posVal, hv]
    · simp [hx]

theorem normNumber_posVal (B : Nat) (v : Nat → Nat) (hv : v 48 = 0) (g : Str) :
    posVal B v (normNumber g) = posVal B v g := by
  unfold normNumber
  by_cases h : g = [48]
  · simp [h]
  · simp only [h, if_false]
    by_cases he : (stripLeft (· == 48) g).isEmpty
    · simp only [he, if_true]
      have := posVal_stripLeft B v hv g
      rw [List.isEmpty_iff.1 he] at this
      rw [← this]; simp [posVal, hv]
    · simp only [he]; exact posVal_stripLeft B v hv g

theorem decVal_eq_posVal (w : Str) : decVal w = posVal 10 (· - 48) w := rfl

theorem normNumber_mem (g : Str) (_hne : g ≠ []) : ∀ c ∈ normNumber g, c ∈ g ∨ c = 48 := by
  unfold normNumber
  by_cases h : g = [48]
  · simp [h]
  · simp only [h, if_false]
    by_cases he : (stripLeft (· == 48) g).isEmpty
    · simp [he]
    · simp only [he]; intro c hc; exact .inl (stripLeft_mem g c hc)

theorem normNumber_length (g : Str) (hne : g ≠ []) : 1 ≤ (normNumber g).length ∧ (normNumber g).length ≤ g.length := by
  unfold normNumber
  have hl : 1 ≤ g.length := by cases g <;> simp_all
  by_cases h : g = [48]
  · simp [h]
  · simp only [h, if_false]
    by_cases he : (stripLeft (· == 48) g).isEmpty
    · simp [he]; exact hl
    · simp only [he]
      refine ⟨?_, stripLeft_length g⟩
      cases hs : stripLeft (· == 48) g with
      | nil => simp [hs] at he
      | cons _ _ => simp

theorem normNumber_oct {a : Str} (h : Oct a) : Oct (normNumber a) ∧ decVal (normNumber a) = decVal a ∧
    Canon (normNumber a) := by
  obtain ⟨l1, l3, hd, hv⟩ := h
  have hne : a ≠ [] := by intro h0; simp [h0] at l1
  have hval : decVal (normNumber a) = decVal a := by
    rw [decVal_eq_posVal, decVal_eq_posVal]; exact normNumber_posVal 10 _ (by simp) a
  have hlen := normNumber_length a hne
  refine ⟨⟨hlen.1, by omega, ?_, by omega⟩, hval, normNumber_canon a⟩
  intro c hc
  rcases normNumber_mem a hne c hc with h | rfl
  · exact hd c h
  · omega

end RTV.Seq

/-! ### the sweep reports only spans of regex matches -/
namespace RTV.Seq
open RTV.Py RTV.Re RTV.Match

theorem srcMatch_some {ms : List Span} {start len : Nat} {v : String} (h : srcMatch ms start len = some v) :
    ∃ b, (start, b, v) ∈ ms ∧ len = b - start := by
  unfold srcMatch at h
  cases hf : ms.find? (fun x => match x with | (a, b, _) => a == start && b - a == len) with
  | none => simp [hf] at h
  | some m =>
    obtain ⟨a, b, v'⟩ := m
    simp [hf] at h
    subst h
    have hm := List.mem_of_find?_eq_some hf
    have hp := List.find?_some hf
    simp at hp
    obtain ⟨rfl, rfl⟩ := hp
    exact ⟨b, hm, rfl⟩

theorem emitAt_mem {skip : Bool} {ms : List Span} {start length : Nat} {sub : Str} {r : ER}
    (h : r ∈ emitAt skip ms start length sub) : ∃ b, (r.start, b, r.data) ∈ ms ∧ r.len = b - r.start := by
  unfold emitAt at h
  split at h
  · simp at h
  · split at h
    · rename_i v hv
      simp at h
      subst h
      exact srcMatch_some hv
    · simp at h

theorem sweepGo_mem (ip : Bool) (K : CharClass) (s : Str) (ms : List Span) (n : Nat) :
    ∀ i start r, r ∈ sweepGo ip K s ms n i start →
      ∃ b, (r.start, b, r.data) ∈ ms ∧ r.len = b - r.start := by
  induction n with
  | zero => intro i start r h; simp [sweepGo] at h
  | succ n ih =>
    intro i start r h
    rw [sweepGo] at h
    split at h
    · exact ih _ _ r h
    · split at h
      · simp only [List.mem_append] at h
        rcases h with h | h
        · exact emitAt_mem h
        · exact ih _ _ r h
      · exact ih _ _ r h

theorem tagged_mem {v : String} {l : List (Nat × Nat)} {a b : Nat} {w : String} (h : (a, b, w) ∈ tagged v l) :
    (a, b) ∈ l ∧ w = v := by
  unfold tagged at h
  simp at h
  obtain ⟨a', b', hm, rfl, rfl, rfl⟩ := h
  exact ⟨hm, rfl⟩

end RTV.Seq
