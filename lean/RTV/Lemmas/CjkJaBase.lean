import RTV.Model.SpellCjk
import RTV.Model.NumCfg
/-! CJK integer walk (`cjkIntValue`, `jaCjk`) on the numerals `spellJa n`: definitions shared by the chunk files. -/
namespace RTV.Num

/-- exact guard for Japanese below 10000: a bare 十 / 百 (digit 1 in that position) must not follow a higher
position whose digit is 2..9 — there `get_int_value` reuses the previous digit (`二百十八` ↦ 228; recorded finding
`ja-jp:cardinal:bare-ten:value` / `bare-unit:value`). -/
def jaGuard (n : Nat) : Bool :=
  let d3 := n / 1000
  let d2 := n / 100 % 10
  let d1 := n / 10 % 10
  !((d2 == 1 && decide (2 ≤ d3)) || (d1 == 1 && (decide (2 ≤ d2) || (d2 == 0 && decide (2 ≤ d3)))))

def jaCheck (n : Nat) : Bool := !jaGuard n || cjkIntValue asciiDigits jaCjk (spellJa n) == n

def jaChunk (k : Nat) : Bool := (List.range 100).all fun i => jaCheck (100 * k + i)

end RTV.Num
