import RTV.Lemmas.Choice
/-! Kernel evaluation of the polarity family (every negative alternative × letter case × context) on the regenerated data. -/
namespace RTV.Choice
set_option maxRecDepth 100000
theorem polarity_false_fast : polarityOK fastEnv false = true := by decide +kernel
end RTV.Choice
