import RTV.Model.Holiday
import RTV.Lemmas.WellFormed
/-!
Lemmas about `RTV.Holiday`: the "k-th <weekday> of the month" list depends only on the weekday of the 1st, the month
length and the asked weekday, so its behaviour is a finite table (`occ_table`, decided by the kernel over all
7 × 4 × 7 combinations) lifted to every year and month.
-/
namespace RTV.Holiday
open RTV.Cal RTV.WF

/-- the days `d ∈ 1..dim` with `(a + d + 6) % 7 = w`, where `a` = (ordinal of the day before the 1st) mod 7 -/
def occ (a dim w : Nat) : List Nat :=
  ((List.range dim).map (· + 1)).filter (fun d => (a + d + 6) % 7 == w)

theorem monthDaysOn_eq_occ (y m w : Nat) :
    monthDaysOn y m w = occ ((daysBeforeYear y + daysBeforeMonth y m) % 7) (daysInMonth y m) w := by
  unfold monthDaysOn occ
  apply List.filter_congr
  intro d _
  simp only [Date.weekday, weekdayOrd, Date.ord]
  have : (daysBeforeYear y + daysBeforeMonth y m + d + 6) % 7 = ((daysBeforeYear y + daysBeforeMonth y m) % 7 + d + 6) % 7 := by omega
  rw [this]

/-- what the finite table says about entry `k` (0-based) of `occ a dim w`: it exists for `k ≤ 3`, lies in the month, falls
on the asked weekday and is the only such day in `(7k, 7k + 7]` -/
def occOK (a dim w k : Nat) : Bool :=
  match (occ a dim w)[k]? with
  | some d => decide (1 ≤ d ∧ d ≤ dim ∧ (a + d + 6) % 7 = w ∧ 7 * k < d ∧ d ≤ 7 * k + 7)
  | none => false

def lastOK (a dim w : Nat) : Bool :=
  match RTV.Py.index (occ a dim w) (-1) with
  | some d => decide (1 ≤ d ∧ d ≤ dim ∧ (a + d + 6) % 7 = w ∧ dim < d + 7)
  | none => false

theorem occ_table : ∀ a ∈ List.range 7, ∀ dim ∈ [28, 29, 30, 31], ∀ w ∈ List.range 7,
    (∀ k ∈ List.range 4, occOK a dim w k = true) ∧ lastOK a dim w = true ∧ (occ a dim w).length ≤ 5 := by
  decide +kernel

theorem daysInMonth_cases (y m : Nat) (h1 : 1 ≤ m) (h2 : m ≤ 12) :
    daysInMonth y m = 28 ∨ daysInMonth y m = 29 ∨ daysInMonth y m = 30 ∨ daysInMonth y m = 31 := by
  have : m = 1 ∨ m = 2 ∨ m = 3 ∨ m = 4 ∨ m = 5 ∨ m = 6 ∨ m = 7 ∨ m = 8 ∨ m = 9 ∨ m = 10 ∨ m = 11 ∨ m = 12 := by omega
  rcases this with h | h | h | h | h | h | h | h | h | h | h | h <;> subst h <;> simp [daysInMonth]
  split <;> simp

theorem weekday_eq (y m d : Nat) :
    (Date.mk y m d).weekday = ((daysBeforeYear y + daysBeforeMonth y m) % 7 + d + 6) % 7 := by
  simp only [Date.weekday, weekdayOrd, Date.ord]; omega

/-- `get_day(y, m, k, dow)` for the list indices the shipped functions use (`k = 0..3`): it never raises, the day lies
in the month, falls on the asked weekday, and is the `(k+1)`-th such day (the one in `(7k, 7k+7]`). -/
theorem getDay_nth (y m k dow : Nat) (hm1 : 1 ≤ m) (hm2 : m ≤ 12) (hk : k ≤ 3) (hd1 : 1 ≤ dow) (hd2 : dow ≤ 7) :
    ∃ d, getDay y m (k : Int) dow = some d ∧ 1 ≤ d ∧ d ≤ daysInMonth y m ∧ (Date.mk y m d).weekday = dow - 1 ∧
      7 * k < d ∧ d ≤ 7 * k + 7 := by
  have ha : (daysBeforeYear y + daysBeforeMonth y m) % 7 ∈ List.range 7 := by simp; omega
  have hdim : daysInMonth y m ∈ [28, 29, 30, 31] := by
    rcases daysInMonth_cases y m hm1 hm2 with h | h | h | h <;> simp [h]
  have hw : dow - 1 ∈ List.range 7 := by simp; omega
  have hkk : k ∈ List.range 4 := by simp; omega
  have tb := (occ_table _ ha _ hdim _ hw).1 k hkk
  unfold occOK at tb
  have hne : dow ≠ 0 := by omega
  unfold getDay
  rw [if_neg hne, monthDaysOn_eq_occ]
  cases ho : (occ ((daysBeforeYear y + daysBeforeMonth y m) % 7) (daysInMonth y m) (dow - 1))[k]? with
  | none => rw [ho] at tb; simp at tb
  | some d =>
    rw [ho] at tb
    simp only [decide_eq_true_eq] at tb
    refine ⟨d, ?_, tb.1, tb.2.1, ?_, tb.2.2.2.1, tb.2.2.2.2⟩
    · simp [RTV.Py.index, ho]
    · rw [weekday_eq]; exact tb.2.2.1

/-- `get_last_day(y, m, dow)` = `get_day(y, m, -1, dow)`: never raises, the day is the last one of the month falling on the
asked weekday (a week later is past the month's end). -/
theorem getDay_last (y m dow : Nat) (hm1 : 1 ≤ m) (hm2 : m ≤ 12) (hd1 : 1 ≤ dow) (hd2 : dow ≤ 7) :
    ∃ d, getDay y m (-1) dow = some d ∧ 1 ≤ d ∧ d ≤ daysInMonth y m ∧ (Date.mk y m d).weekday = dow - 1 ∧
      daysInMonth y m < d + 7 := by
  have ha : (daysBeforeYear y + daysBeforeMonth y m) % 7 ∈ List.range 7 := by simp; omega
  have hdim : daysInMonth y m ∈ [28, 29, 30, 31] := by
    rcases daysInMonth_cases y m hm1 hm2 with h | h | h | h <;> simp [h]
  have hw : dow - 1 ∈ List.range 7 := by simp; omega
  have tb := (occ_table _ ha _ hdim _ hw).2.1
  unfold lastOK at tb
  have hne : dow ≠ 0 := by omega
  unfold getDay
  rw [if_neg hne, monthDaysOn_eq_occ]
  cases ho : RTV.Py.index (occ ((daysBeforeYear y + daysBeforeMonth y m) % 7) (daysInMonth y m) (dow - 1)) (-1) with
  | none => rw [ho] at tb; simp at tb
  | some d =>
    rw [ho] at tb
    simp only [decide_eq_true_eq] at tb
    refine ⟨d, rfl, tb.1, tb.2.1, ?_, tb.2.2.2⟩
    rw [weekday_eq]; exact tb.2.2.1

theorem mkDate_some {y m d : Nat} {x : Date} (h : mkDate y m d = some x) : x = ⟨y, m, d⟩ ∧ x.valid = true := by
  unfold mkDate at h
  split at h
  · rename_i hv; cases h; exact ⟨rfl, hv⟩
  · cases h

/-- whatever the function and the year: when it returns, it returns a date `datetime` accepts -/
theorem eval_valid (f : Fn) (y : Nat) (x : Date) (h : f.eval y = some x) : x.valid = true := by
  cases f with
  | fixed mo d => exact (mkDate_some h).2
  | nth mo mi k dow =>
    simp only [Fn.eval] at h
    split at h
    · cases hg : getDay y mi k dow with
      | none => rw [hg] at h; cases h
      | some d => rw [hg] at h; exact (mkDate_some h).2
    · cases h
  | last mo mi dow =>
    simp only [Fn.eval] at h
    split at h
    · cases hg : getDay y mi (-1) dow with
      | none => rw [hg] at h; cases h
      | some d => rw [hg] at h; exact (mkDate_some h).2
    · cases h
  | minValue => simp only [Fn.eval] at h; cases h; decide
  | unknown => cases h

/-- the table facts under which a function never raises for a year `datetime` accepts -/
def Fn.sane : Fn → Bool
  | .fixed mo d => decide (1 ≤ mo ∧ mo ≤ 12 ∧ 1 ≤ d ∧ d ≤ daysInMonth 1 mo)
  | .nth mo mi k dow => decide (mo = mi ∧ 1 ≤ mo ∧ mo ≤ 12 ∧ 0 ≤ k ∧ k ≤ 3 ∧ 1 ≤ dow ∧ dow ≤ 7)
  | .last mo mi dow => decide (mo = mi ∧ 1 ≤ mo ∧ mo ≤ 12 ∧ 1 ≤ dow ∧ dow ≤ 7)
  | .minValue => true
  | .unknown => false

theorem daysInMonth_year1_le (y m : Nat) : daysInMonth 1 m ≤ daysInMonth y m := by
  unfold daysInMonth
  split <;> simp [isLeap]
  split <;> simp

end RTV.Holiday
