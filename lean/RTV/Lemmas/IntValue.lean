import RTV.Model.Num
/-! Lemmas about `getIntValueF` (`__get_int_value`) used by `Props/C04`: stability in the fuel, the end-flag scan and
the segment walk over concatenations, and the round-number step (a block, an end word, the rest). -/
namespace RTV.Num
open RTV.Py

/-- `r'` is `r` or `r` ran out of fuel -/
def Res.le (r r' : Res) : Prop := r = .fuel ∨ r = r'

theorem Res.le_refl (r : Res) : Res.le r r := Or.inr rfl

theorem Res.add_stable {a a' b b' : Res} (ha : Res.le a a') (hb : Res.le b b') (h : Res.add a b ≠ .fuel) :
    Res.add a' b' = Res.add a b := by
  rcases ha with ha | ha
  · subst ha; cases b <;> simp [Res.add] at h
  · subst ha
    rcases hb with hb | hb
    · subst hb; cases a <;> simp [Res.add] at h ⊢
    · subst hb; rfl

theorem Res.scale_stable {a a' : Res} (m : Nat) (ha : Res.le a a') (h : Res.scale m a ≠ .fuel) :
    Res.scale m a' = Res.scale m a := by
  rcases ha with ha | ha
  · subst ha; simp [Res.scale] at h
  · subst ha; rfl

theorem Res.add_ne_fuel_left {a b : Res} (h : Res.add a b ≠ .fuel) : a ≠ .fuel := by
  intro e; subst e; cases b <;> simp [Res.add] at h

theorem Res.add_ne_fuel_right {a b : Res} (h : Res.add a b ≠ .fuel) : b ≠ .fuel ∨ ∃ e, a = .err e := by
  cases a with
  | ok x => left; intro e; subst e; simp [Res.add] at h
  | err e => right; exact ⟨e, rfl⟩
  | fuel => cases b <;> simp [Res.add] at h

theorem Res.scale_ne_fuel {m : Nat} {a : Res} (h : Res.scale m a ≠ .fuel) : a ≠ .fuel := by
  intro e; subst e; simp [Res.scale] at h

theorem segGo_stable (fx : Bool) (rec rec' : List Str → Res) (round : List (Str × Nat))
    (hr : ∀ l, Res.le (rec l) (rec' l)) :
    ∀ (z : List (Str × Bool)) (cur : List Str), segGo fx rec round z cur ≠ .fuel →
      segGo fx rec' round z cur = segGo fx rec round z cur := by
  intro z
  induction z with
  | nil =>
    intro cur h
    simp only [segGo] at h ⊢
    split
    · rfl
    · rename_i hc
      simp only [hc] at h
      rcases hr cur.reverse with e | e
      · simp [e] at h
      · exact e.symm
  | cons p rest ih =>
    intro cur h
    obtain ⟨t, b⟩ := p
    cases b
    · simp only [segGo] at h ⊢
      exact ih _ h
    · simp only [segGo] at h ⊢
      have hl := Res.add_ne_fuel_left h
      have hl2 := Res.scale_ne_fuel hl
      have e1 : (if (fx && cur.isEmpty) = true then Res.ok 1 else rec' cur.reverse) =
          (if (fx && cur.isEmpty) = true then Res.ok 1 else rec cur.reverse) := by
        split
        · rfl
        · rename_i hc
          simp only [hc] at hl2
          rcases hr cur.reverse with e | e
          · simp [e] at hl2
          · exact e.symm
      rw [e1]
      rcases Res.add_ne_fuel_right h with h2 | ⟨e, he⟩
      · rw [ih [] h2]
      · rw [he]; simp [Res.add]

/-- More fuel never changes a result that did not run out of fuel. -/
theorem getIntValueF_succ (fx : Bool) (tab : DigitTab) (c : LangCfg) :
    ∀ (f : Nat) (toks : List Str), Res.le (getIntValueF fx tab c f toks) (getIntValueF fx tab c (f + 1) toks) := by
  intro f
  induction f with
  | zero => intro toks; left; rfl
  | succ f ih =>
    intro toks
    by_cases h : getIntValueF fx tab c (f + 1) toks = .fuel
    · left; exact h
    · right
      rw [getIntValueF] at h ⊢
      rw [getIntValueF.eq_def fx tab c (f + 1 + 1)]
      simp only at h ⊢
      split
      · rfl
      · rename_i hne
        simp only [hne] at h
        exact (segGo_stable fx _ _ c.round (ih) _ _ h).symm

theorem getIntValueF_mono (fx : Bool) (tab : DigitTab) (c : LangCfg) (f f' : Nat) (toks : List Str) (x : Nat)
    (h : getIntValueF fx tab c f toks = .ok x) (hf : f ≤ f') : getIntValueF fx tab c f' toks = .ok x := by
  induction hf with
  | refl => exact h
  | step _ ih =>
    rcases getIntValueF_succ fx tab c _ toks with e | e
    · rw [ih] at e; cases e
    · rw [← e]; exact ih

/-! ### the end-flag scan and the segment walk over concatenations -/

theorem scanR_append (round : List (Str × Nat)) (A B : List Str) (ef : Nat) :
    scanR round (A ++ B) ef =
      ((scanR round A (scanR round B ef).2).1 ++ (scanR round B ef).1, (scanR round A (scanR round B ef).2).2) := by
  induction A with
  | nil => simp [scanR]
  | cons t ts ih =>
    simp only [List.cons_append, scanR, ih]
    cases lookup round t with
    | none => simp
    | some r => simp only; split <;> simp

theorem scanR_length (round : List (Str × Nat)) (A : List Str) (ef : Nat) : (scanR round A ef).1.length = A.length := by
  induction A with
  | nil => simp [scanR]
  | cons t ts ih =>
    simp only [scanR]
    cases lookup round t with
    | none => simp [ih]
    | some r => simp only; split <;> simp [ih]

/-- tokens that are not end words when the scan arrives with `e`: no round word, or a round word below `e` -/
def Inert (round : List (Str × Nat)) (e : Nat) (A : List Str) : Prop :=
  ∀ t ∈ A, lookup round t = none ∨ ∃ r, lookup round t = some r ∧ r < e

theorem scanR_inert (round : List (Str × Nat)) (e : Nat) (A : List Str) (h : Inert round e A) :
    scanR round A e = (A.map fun _ => false, e) := by
  induction A with
  | nil => simp [scanR]
  | cons t ts ih =>
    have := ih (fun x hx => h x (by simp [hx]))
    simp only [scanR, this]
    rcases h t (by simp) with h0 | ⟨r, h1, h2⟩
    · simp [h0]
    · simp [h1]; omega

theorem segGo_inert (fx : Bool) (rec : List Str → Res) (round : List (Str × Nat)) (A : List Str)
    (Z : List (Str × Bool)) (cur : List Str) :
    segGo fx rec round (A.zip (A.map fun _ => false) ++ Z) cur = segGo fx rec round Z (A.reverse ++ cur) := by
  induction A generalizing cur with
  | nil => simp
  | cons t ts ih =>
    simp only [List.map_cons, List.zip_cons_cons, List.cons_append, segGo, List.reverse_cons, List.append_assoc]
    exact ih (t :: cur)

/-- "the rest of the numeral": the scan over it (entered with 1 from the right) ends with `e`, and the segment walk
over it, started after an end word, yields `n`. -/
def Good (fx : Bool) (rec : List Str → Res) (round : List (Str × Nat)) (rest : List Str) (n e : Nat) : Prop :=
  (scanR round rest 1).2 = e ∧ segGo fx rec round (rest.zip (scanR round rest 1).1) [] = .ok n

/-- The round-number step: a block `A` worth `g`, the end word `w` worth `R`, then a good rest whose scan ends at
most at `R`: together `R * g + n`, and the scan ends with `R`. -/
theorem good_step (fx : Bool) (rec : List Str → Res) (round : List (Str × Nat)) (A : List Str) (w : Str) (R g : Nat)
    (rest : List Str) (n e : Nat) (hg : Good fx rec round rest n e) (he : e ≤ R) (hw : lookup round w = some R)
    (hA : A ≠ []) (hin : Inert round R A) (hrec : rec A = .ok g) :
    Good fx rec round (A ++ w :: rest) (R * g + n) R := by
  obtain ⟨h1, h2⟩ := hg
  have hs : scanR round (w :: rest) 1 = (true :: (scanR round rest 1).1, R) := by
    simp only [scanR, hw, h1]
    have : ¬ e > R := by omega
    simp [this]
  have hsA := scanR_inert round R A hin
  constructor
  · rw [scanR_append, hs]; simp [hsA]
  · rw [scanR_append, hs]
    simp only [hsA]
    rw [List.zip_append (by simp)]
    rw [segGo_inert]
    simp only [List.zip_cons_cons, segGo, hw, Option.getD_some, List.append_nil, List.reverse_reverse]
    have hne : A.reverse.isEmpty = false := by
      cases A with
      | nil => exact absurd rfl hA
      | cons a as => simp
    simp only [hne, Bool.and_false, Bool.false_eq_true, if_false, hrec, h2, Res.scale, Res.add]

end RTV.Num
