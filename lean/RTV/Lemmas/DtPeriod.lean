import RTV.Props.C10
import RTV.Lemmas.DateUtils
import RTV.Model.DtPeriod
/-!
Helper lemmas for `RTV/Props/C10DtPeriod.lean`: the general `(A,B,PT…)` lemma `tripleOK_PT` / `tripleOK_PT_false`
for two definite points (what `tripleOK` computes once the three components are isolated), how `parsePoint` reads the
date-time points the period parser writes (`YYYY-MM-DDTHH`, `YYYY-MM-DDTHH:MM:SS`), single-component durations
(`PT<n>H`), and `luisTimeSpanI` on non-negative spans.
-/
set_option linter.unusedVariables false
set_option linter.unusedSimpArgs false
namespace RTV.WF
open RTV.Cal

/-- how `tripleOK` prints a parsed point back -/
def fmtPoint (pt : Option Date × Option Nat) : Option Str :=
  match pt with
  | (some d, none) => some (formatDate d)
  | (none, some t) => some (formatTime (t / 3600) (t / 60 % 60) (t % 60))
  | (some d, some t) => some (formatDateTime d (t / 3600) (t / 60 % 60) (t % 60))
  | _ => none

theorem tripleOK_PT_eq (a b rest : Str) (pa pb : Option Date × Option Nat) (s e : Str)
    (ha : ∀ c ∈ a, c ≠ 44) (hb : ∀ c ∈ b, c ≠ 44) (hr : ∀ c ∈ rest, c ≠ 44)
    (hpa : parsePoint a = some pa) (hpb : parsePoint b = some pb) :
    tripleOK ([40] ++ a ++ [44] ++ b ++ [44] ++ (80 :: 84 :: rest) ++ [41]) (some s) (some e) =
      ((decide (fmtPoint pa = some s) && decide (fmtPoint pb = some e)) &&
        (match ptSeconds (rest.length + 4) rest, diffSeconds pa pb with
         | some (n, d), some secs => decide (rest ≠ [] ∧ secs * d = (n : Int))
         | some _, none => false
         | none, _ => rest.contains 88)) := by
  have hP : ∀ c ∈ (80 :: 84 :: rest : Str), c ≠ 44 := by
    intro c hc; simp only [List.mem_cons] at hc; rcases hc with hc | hc | hc
    · omega
    · omega
    · exact hr c hc
  have hs : splitOn 44 (a ++ 44 :: (b ++ 44 :: (80 :: 84 :: rest))) = [a, b, 80 :: 84 :: rest] := by
    rw [splitOn_append 44 _ _ ha, splitOn_append 44 _ _ hb, splitOn_no_sep 44 _ hP]
  have hshape : ([40] ++ a ++ [44] ++ b ++ [44] ++ (80 :: 84 :: rest) ++ [41] : Str) =
      40 :: ((a ++ 44 :: (b ++ 44 :: (80 :: 84 :: rest))) ++ [41]) := by simp
  rw [hshape]
  have hdrop : ((40 :: ((a ++ 44 :: (b ++ 44 :: (80 :: 84 :: rest))) ++ [41]) : Str).drop 1).dropLast =
      a ++ 44 :: (b ++ 44 :: (80 :: 84 :: rest)) := by
    rw [List.drop_one, List.tail_cons, List.dropLast_concat]
  have hhead : (40 :: ((a ++ 44 :: (b ++ 44 :: (80 :: 84 :: rest))) ++ [41]) : Str).head? = some 40 := rfl
  have hlast : (40 :: ((a ++ 44 :: (b ++ 44 :: (80 :: 84 :: rest))) ++ [41]) : Str).getLast? = some 41 := by
    rw [← List.cons_append, List.getLast?_concat]
  unfold tripleOK
  simp only [hhead, hlast, and_self, if_true, hdrop, hs, hpa, hpb]
  unfold fmtPoint
  rcases pa with ⟨_ | d1, _ | t1⟩ <;> rcases pb with ⟨_ | d2, _ | t2⟩ <;>
    (rcases ptSeconds (rest.length + 4) rest with _ | ⟨n, d⟩) <;> simp [diffSeconds]

/-- two definite points, a `PT…` duration that reads as `n` seconds, and the points are `n` seconds apart: consistent -/
theorem tripleOK_PT (a b rest : Str) (pa pb : Option Date × Option Nat) (s e : Str)
    (ha : ∀ c ∈ a, c ≠ 44) (hb : ∀ c ∈ b, c ≠ 44) (hr : ∀ c ∈ rest, c ≠ 44)
    (hpa : parsePoint a = some pa) (hpb : parsePoint b = some pb)
    (hs : fmtPoint pa = some s) (he : fmtPoint pb = some e)
    (n : Nat) (hpt : ptSeconds (rest.length + 4) rest = some (n, 1)) (hne : rest ≠ [])
    (hd : diffSeconds pa pb = some (n : Int)) :
    tripleOK ([40] ++ a ++ [44] ++ b ++ [44] ++ (80 :: 84 :: rest) ++ [41]) (some s) (some e) = true := by
  rw [tripleOK_PT_eq a b rest pa pb s e ha hb hr hpa hpb, hpt, hd]
  simp [hs, he, hne]

/-- … and when the points are NOT that far apart (in particular when the end lies before the begin), or the duration
text does not read as H/M/S components at all (`PT-21H`), the triple is rejected -/
theorem tripleOK_PT_wrong (a b rest : Str) (pa pb : Option Date × Option Nat) (s e : Str)
    (ha : ∀ c ∈ a, c ≠ 44) (hb : ∀ c ∈ b, c ≠ 44) (hr : ∀ c ∈ rest, c ≠ 44)
    (hpa : parsePoint a = some pa) (hpb : parsePoint b = some pb)
    (n : Nat) (hpt : ptSeconds (rest.length + 4) rest = some (n, 1)) (secs : Int)
    (hd : diffSeconds pa pb = some secs) (hne : secs ≠ (n : Int)) :
    tripleOK ([40] ++ a ++ [44] ++ b ++ [44] ++ (80 :: 84 :: rest) ++ [41]) (some s) (some e) = false := by
  rw [tripleOK_PT_eq a b rest pa pb s e ha hb hr hpa hpb, hpt, hd]
  simp [hne]

theorem tripleOK_PT_malformed (a b rest : Str) (pa pb : Option Date × Option Nat) (s e : Str)
    (ha : ∀ c ∈ a, c ≠ 44) (hb : ∀ c ∈ b, c ≠ 44) (hr : ∀ c ∈ rest, c ≠ 44)
    (hpa : parsePoint a = some pa) (hpb : parsePoint b = some pb)
    (hpt : ptSeconds (rest.length + 4) rest = none) (hx : rest.contains 88 = false) :
    tripleOK ([40] ++ a ++ [44] ++ b ++ [44] ++ (80 :: 84 :: rest) ++ [41]) (some s) (some e) = false := by
  rw [tripleOK_PT_eq a b rest pa pb s e ha hb hr hpa hpb, hpt]
  simp only [hx, Bool.and_false]

/-! ### how `parsePoint` reads `YYYY-MM-DDT…` -/

theorem formatDate_length (d : Date) : (formatDate d).length = 10 := by simp [formatDate, pad4, pad2]

theorem parseDate_len (s : Str) (h : s.length ≠ 10) : parseDate s = none := by
  unfold parseDate
  split
  · simp at h
  · rfl

theorem timexTime_head (s : Str) (h : s.head? ≠ some 84) : timexTime s = none := by
  unfold timexTime
  split
  · simp at h
  · rfl

theorem parsePoint_dt (d : Date) (hv : d.valid = true) (tt full : Str) (hl : 2 ≤ tt.length)
    (htt : timexTime (84 :: tt) = some full) :
    parsePoint (formatDate d ++ 84 :: tt) = some (some d, parseTime full) := by
  have h1 : parseDate (formatDate d ++ 84 :: tt) = none :=
    parseDate_len _ (by simp only [List.length_append, formatDate_length, List.length_cons]; omega)
  have h2 : timexTime (formatDate d ++ 84 :: tt) = none := by
    apply timexTime_head
    simp only [formatDate, pad4, List.cons_append, List.head?_cons, ne_eq, Option.some.injEq]
    omega
  have h3 : (formatDate d ++ 84 :: tt).length ≥ 13 := by
    simp only [List.length_append, formatDate_length, List.length_cons]; omega
  have h4 : (formatDate d ++ 84 :: tt).getD 10 0 = 84 := by
    simp [formatDate, pad4, pad2]
  have h5 : (formatDate d ++ 84 :: tt).take 10 = formatDate d := by
    rw [List.take_append_of_le_length (by rw [formatDate_length]; omega), List.take_of_length_le (by rw [formatDate_length]; omega)]
  have h6 : (formatDate d ++ 84 :: tt).drop 10 = 84 :: tt := by
    rw [List.drop_append_of_le_length (by rw [formatDate_length]; omega), List.drop_of_length_le (by rw [formatDate_length]; omega)]
    rfl
  unfold parsePoint
  simp only [h1, h2, h3, h4, h5, h6, and_self, if_true, parseDate_formatDate d hv, htt]

/-- `THH` -/
theorem timexTime_hour (h : Nat) (hh : h < 24) :
    timexTime (84 :: pad2 h) = some (formatTime h 0 0) ∧ parseTime (formatTime h 0 0) = some (h * 3600) := by
  have e := parseTime_formatTime h 0 0 hh (by omega) (by omega)
  refine ⟨?_, by simpa using e⟩
  simp only [formatTime, pad2, List.cons_append, List.nil_append] at e
  simp [timexTime, formatTime, pad2, e]

/-- `THH:MM:SS` -/
theorem timexTime_hms (h m s : Nat) (hh : h < 24) (hm : m < 60) (hs : s < 60) :
    timexTime (84 :: formatTime h m s) = some (formatTime h m s) ∧
    parseTime (formatTime h m s) = some (h * 3600 + m * 60 + s) := by
  have e := parseTime_formatTime h m s hh hm hs
  refine ⟨?_, e⟩
  simp only [formatTime, pad2, List.cons_append, List.nil_append] at e
  simp [timexTime, formatTime, pad2, e]

theorem no_comma_formatDate_T (d : Date) (tt : Str) (h : ∀ c ∈ tt, c ≠ 44) : ∀ c ∈ formatDate d ++ 84 :: tt, c ≠ 44 := by
  intro c hc
  simp only [List.mem_append, List.mem_cons] at hc
  rcases hc with hc | hc | hc
  · exact formatDate_no_comma d c hc
  · omega
  · exact h c hc

theorem no_comma_pad2 (n : Nat) : ∀ c ∈ pad2 n, c ≠ 44 := by
  intro c hc; simp [pad2] at hc; omega

theorem no_comma_formatTime (h m s : Nat) : ∀ c ∈ formatTime h m s, c ≠ 44 := by
  intro c hc; simp [formatTime, pad2] at hc; omega

/-- `PT<n>H` / `PT<n>M` / `PT<n>S` read as `n × unit` seconds -/
theorem ptSeconds_single (n k u : Nat)
    (hu : (if u = 72 then some 3600 else if u = 77 then some 60 else if u = 83 then some 1 else none) = some k) :
    ptSeconds ((natStr n ++ [u]).length + 4) (natStr n ++ [u]) = some (n * k, 1) := by
  have hud : isDigit u = false := by
    split at hu
    · next h => subst h; decide
    · split at hu
      · next h => subst h; decide
      · split at hu
        · next h => subst h; decide
        · simp at hu
  have h46 : u ≠ 46 := by
    intro h; subst h; simp at hu
  have := ptSeconds_component ((natStr n ++ [u]).length + 3) n k u [] 0 hu hud h46 (ptSeconds_nil _)
  simpa using this

end RTV.WF

/-! ### bridges between the date-time period model and the C10 predicate -/
namespace RTV.DtPeriod
open RTV.Cal RTV.DateUtils RTV.WF RTV.Periods

/-- what `BaseDateTimePeriodParser.parse` writes into the resolution: `format_date_time(value)` -/
def fmtDT (x : DateTime) : Str := formatDateTime x.date (hourOf x) (minuteOf x) (secondOf x)

/-- a proper Python datetime: valid date, time of day below 24 h -/
def proper (x : DateTime) : Prop := x.date.valid = true ∧ x.secs < 86400

/-- seconds since 0001-01-01 00:00 (+ one day) -/
def val (x : DateTime) : Int := (x.date.ord : Int) * 86400 + x.secs

theorem diffSecs_val (b e : DateTime) : diffSecs b e = val e - val b := by unfold diffSecs val; omega

theorem withTime_ok (d : Date) (hv : d.valid = true) (h mi s : Nat) (hh : h < 24) (hm : mi < 60) :
    withTime d h mi s = ⟨d, h * 3600 + mi * 60 + s⟩ := by
  simp [withTime, hv, hh, hm]

theorem hms_secs (x : DateTime) : hourOf x * 3600 + minuteOf x * 60 + secondOf x = x.secs := by
  unfold hourOf minuteOf secondOf; omega

theorem hms_bounds (x : DateTime) (h : x.secs < 86400) : hourOf x < 24 ∧ minuteOf x < 60 ∧ secondOf x < 60 := by
  unfold hourOf minuteOf secondOf; omega

/-- `safe_create(d, t.hour, t.minute, t.second)` puts the time of day of `t` on the date `d` -/
theorem withTime_of (d : Date) (hv : d.valid = true) (t : DateTime) (ht : t.secs < 86400) :
    withTime d (hourOf t) (minuteOf t) (secondOf t) = ⟨d, t.secs⟩ := by
  have b := hms_bounds t ht
  rw [withTime_ok d hv _ _ _ b.1 b.2.1, hms_secs]

theorem intStr_natCast (n : Nat) : intStr (n : Int) = natStr n := by
  unfold intStr
  rw [if_neg (by omega)]
  simp

/-- on a non-negative span `luis_time_span` is the function of Props/C10 -/
theorem luisTimeSpanI_nonneg (n : Nat) : luisTimeSpanI (n : Int) = luisTimeSpan n := by
  unfold luisTimeSpanI luisTimeSpan
  simp only [Int.fdiv_eq_ediv_of_nonneg _ (show (0:Int) ≤ 86400 by omega),
    Int.fmod_eq_emod_of_nonneg _ (show (0:Int) ≤ 86400 by omega)]
  have e1 : ((n : Int) / 86400) = ((n / 86400 : Nat) : Int) := by omega
  have e2 : ((n : Int) % 86400).toNat = n % 86400 := by omega
  rw [e1, e2]
  have e3 : (((n / 86400 : Nat) : Int) * 24 + ((n % 86400 / 3600 : Nat) : Int)) = ((n / 86400 * 24 + n % 86400 / 3600 : Nat) : Int) := by
    omega
  rw [e3, intStr_natCast]
  have e4 : (((n / 86400 : Nat) : Int) > 0 ∨ n % 86400 / 3600 > 0) ↔ (n / 86400 > 0 ∨ n % 86400 / 3600 > 0) := by omega
  simp only [e4]

/-- `YYYY-MM-DDTHH:MM:SS` (what `luis_date_from_datetime + 'T' + luis_time_from_datetime` writes) reads back -/
theorem luisPoint_parse (x : DateTime) (hx : proper x) :
    parsePoint (luisPoint x) = some (some x.date, some x.secs) ∧
    fmtPoint (some x.date, some x.secs) = some (fmtDT x) ∧ (∀ c ∈ luisPoint x, c ≠ 44) := by
  have b := hms_bounds x hx.2
  have t := timexTime_hms (hourOf x) (minuteOf x) (secondOf x) b.1 b.2.1 b.2.2
  have p := parsePoint_dt x.date hx.1 (formatTime (hourOf x) (minuteOf x) (secondOf x)) _ (by simp [formatTime, pad2]) t.1
  rw [t.2, hms_secs] at p
  refine ⟨p, ?_, no_comma_formatDate_T _ _ (no_comma_formatTime _ _ _)⟩
  unfold fmtPoint fmtDT hourOf minuteOf secondOf
  have e : x.secs / 60 % 60 = x.secs % 3600 / 60 := by omega
  simp only [e]

/-- `YYYY-MM-DDTHH` (what the hour-pair and the date-time parsers write for a full hour) reads back -/
theorem hourPoint_parse (d : Date) (hv : d.valid = true) (h : Nat) (hh : h < 24) :
    parsePoint (formatDate d ++ [84] ++ pad2 h) = some (some d, some (h * 3600)) ∧
    fmtPoint (some d, some (h * 3600)) = some (formatDateTime d h 0 0) ∧ (∀ c ∈ formatDate d ++ [84] ++ pad2 h, c ≠ 44) := by
  have t := timexTime_hour h hh
  have p := parsePoint_dt d hv (pad2 h) _ (by simp [pad2]) t.1
  rw [t.2] at p
  have e : formatDate d ++ [84] ++ pad2 h = formatDate d ++ 84 :: pad2 h := by simp
  rw [e]
  refine ⟨p, ?_, no_comma_formatDate_T _ _ (no_comma_pad2 _)⟩
  unfold fmtPoint
  have e1 : h * 3600 / 3600 = h := by omega
  have e2 : h * 3600 / 60 % 60 = 0 := by omega
  have e3 : h * 3600 % 60 = 0 := by omega
  simp only [e1, e2, e3]

/-- the general positive statement: two definite points written so that `parsePoint` reads them as `b`, `e`, with
`b` strictly before `e`, and the duration written by `luis_time_span`: a consistent triple -/
theorem span_triple_ok (a c : Str) (b e : DateTime) (sb se : Str)
    (ha : ∀ x ∈ a, x ≠ 44) (hc : ∀ x ∈ c, x ≠ 44)
    (hpa : parsePoint a = some (some b.date, some b.secs)) (hpc : parsePoint c = some (some e.date, some e.secs))
    (hsb : fmtPoint (some b.date, some b.secs) = some sb) (hse : fmtPoint (some e.date, some e.secs) = some se)
    (hlt : val b < val e) :
    tripleOK (triple a c (luisSpan b e)) (some sb) (some se) = true := by
  obtain ⟨n, hn⟩ : ∃ n : Nat, diffSecs b e = (n : Int) := ⟨(diffSecs b e).toNat, by rw [diffSecs_val]; omega⟩
  have hpos : 0 < n := by rw [diffSecs_val] at hn; omega
  unfold luisSpan
  rw [hn, luisTimeSpanI_nonneg]
  have hP : luisTimeSpan n = 80 :: 84 :: (luisTimeSpan n).drop 2 := by simp [luisTimeSpan]
  have hrest : (luisTimeSpan n).drop 2 ≠ [] := by
    intro h
    have := ptSeconds_luisTimeSpan n 0
    rw [h] at this
    simp [ptSeconds] at this
    omega
  have hcP : ∀ x ∈ (luisTimeSpan n).drop 2, x ≠ 44 := fun x hx => luisTimeSpan_no_comma n x (List.mem_of_mem_drop hx)
  have key := tripleOK_PT a c ((luisTimeSpan n).drop 2) _ _ sb se ha hc hcP hpa hpc hsb hse n
    (ptSeconds_luisTimeSpan n _) hrest (by
      unfold diffSeconds; simp only; rw [diffSecs] at hn; rw [← hn])
  rw [← hP] at key
  simpa [triple] using key

end RTV.DtPeriod

namespace RTV.DtPeriod
open RTV.Cal RTV.DateUtils RTV.WF RTV.Periods

theorem no_comma_unit (n u : Nat) (hu : u ≠ 44) : ∀ c ∈ (natStr n ++ [u] : Str), c ≠ 44 := by
  intro c hc; simp only [List.mem_append, List.mem_singleton] at hc
  rcases hc with hc | hc
  · have := natStr_digits _ c hc; simp [isDigit] at this; omega
  · omega

/-- two full `YYYY-MM-DDTHH:MM:SS` points and a single-unit duration `PT<n><U>`: consistent exactly when the points are
`n` units apart -/
theorem points_triple (b e : DateTime) (hb : proper b) (he : proper e) (n k u : Nat)
    (hu : (if u = 72 then some 3600 else if u = 77 then some 60 else if u = 83 then some 1 else none) = some k) :
    tripleOK (triple (luisPoint b) (luisPoint e) ([80, 84] ++ natStr n ++ [u])) (some (fmtDT b)) (some (fmtDT e)) =
      decide (val e - val b = ((n * k : Nat) : Int)) := by
  have lb := luisPoint_parse b hb
  have le := luisPoint_parse e he
  have pt := ptSeconds_single n k u hu
  have hu44 : u ≠ 44 := by intro h; subst h; simp at hu
  have hr := no_comma_unit n u hu44
  have hshape : triple (luisPoint b) (luisPoint e) ([80, 84] ++ natStr n ++ [u]) =
      [40] ++ luisPoint b ++ [44] ++ luisPoint e ++ [44] ++ (80 :: 84 :: (natStr n ++ [u])) ++ [41] := by simp [triple]
  rw [hshape]
  have hd : diffSeconds (some b.date, some b.secs) (some e.date, some e.secs) = some (val e - val b) := by
    unfold diffSeconds val; simp only; congr 1; omega
  by_cases c : val e - val b = ((n * k : Nat) : Int)
  · rw [decide_eq_true c]
    exact tripleOK_PT _ _ _ _ _ _ _ lb.2.2 le.2.2 hr lb.1 le.1 lb.2.1 le.2.1 (n * k) pt (by simp) (by rw [hd, c])
  · rw [decide_eq_false c]
    exact tripleOK_PT_wrong _ _ _ _ _ _ _ lb.2.2 le.2.2 hr lb.1 le.1 (n * k) pt _ hd c

theorem fmtPoint_dt (d : Date) (s : Nat) : fmtPoint (some d, some s) = some (fmtDT ⟨d, s⟩) := by
  unfold fmtPoint fmtDT hourOf minuteOf secondOf
  have e : s / 60 % 60 = s % 3600 / 60 := by omega
  simp only [e]

/-- `timex.split('T')[0]` of a date-time TIMEX is its date -/
theorem splitT_formatDate (d : Date) (tt : Str) : splitT (formatDate d ++ 84 :: tt) = formatDate d := by
  unfold splitT
  have h : ∀ c ∈ formatDate d, (decide (c ≠ 84)) = true := by
    intro c hc
    simp [formatDate, pad4, pad2] at hc
    simp only [ne_eq, decide_not, Bool.not_eq_eq_eq_not, Bool.not_true, decide_eq_false_iff_not]
    omega
  rw [List.takeWhile_append_of_pos h]
  simp

end RTV.DtPeriod

/-! ### `parse_duration` flag by flag (equation lemmas; proofs kept to `if`-reduction + `rfl` so that the kernel check is
cheap) -/
namespace RTV.DtPeriod
open RTV.Cal RTV.DateUtils RTV.WF RTV.Periods

def pastRes (R : DateTime) (s : Nat) (tx : Str) : Res :=
  ofOpt ((addSeconds R (-(s : Int))).bind fun b => some (.ok (triple (luisPoint b) (luisPoint R) tx) b R b R))
def futureRes (R : DateTime) (s : Nat) (tx : Str) : Res :=
  ofOpt ((addSeconds R (s : Int)).bind fun e => some (.ok (triple (luisPoint R) (luisPoint e) tx) R e R e))

theorem some_bind' {α β} (a : α) (f : α → Option β) : (some a >>= f) = f a := rfl

theorem pd_prevBefore (R : DateTime) (s : Nat) (tx : Str) :
    parseDuration R s tx ⟨true, false, false, false, false, false, false⟩ = pastRes R s tx := by
  unfold parseDuration pastRes
  simp only [Bool.false_eq_true, if_false, if_true]
  cases addSeconds R (-(s : Int)) <;> rfl
theorem pd_prevAfter (R : DateTime) (s : Nat) (tx : Str) :
    parseDuration R s tx ⟨false, false, false, false, true, false, false⟩ = pastRes R s tx := by
  unfold parseDuration pastRes
  simp only [Bool.false_eq_true, if_false, if_true]
  repeat rw [some_bind']
  cases addSeconds R (-(s : Int)) <;> rfl
theorem pd_within (R : DateTime) (s : Nat) (tx : Str) :
    parseDuration R s tx ⟨false, true, false, false, false, false, false⟩ = futureRes R s tx := by
  unfold parseDuration futureRes
  simp only [Bool.false_eq_true, if_false, if_true]
  repeat rw [some_bind']
  cases addSeconds R (s : Int) <;> rfl
theorem pd_future (R : DateTime) (s : Nat) (tx : Str) :
    parseDuration R s tx ⟨false, false, false, true, false, false, false⟩ = futureRes R s tx := by
  unfold parseDuration futureRes
  simp only [Bool.false_eq_true, if_false, if_true]
  repeat rw [some_bind']
  cases addSeconds R (s : Int) <;> rfl
theorem pd_futureAfter (R : DateTime) (s : Nat) (tx : Str) :
    parseDuration R s tx ⟨false, false, false, false, false, true, false⟩ = futureRes R s tx := by
  unfold parseDuration futureRes
  simp only [Bool.false_eq_true, if_false, if_true]
  repeat rw [some_bind']
  cases addSeconds R (s : Int) <;> rfl
theorem pd_futureSuffix (R : DateTime) (s : Nat) (tx : Str) :
    parseDuration R s tx ⟨false, false, false, false, false, false, true⟩ = futureRes R s tx := by
  unfold parseDuration futureRes
  simp only [Bool.false_eq_true, if_false, if_true]
  repeat rw [some_bind']
  cases addSeconds R (s : Int) <;> rfl
theorem pd_withinNext (R : DateTime) (s : Nat) (tx : Str) :
    parseDuration R s tx ⟨false, true, false, true, false, false, false⟩ = futureRes R s tx := by
  unfold parseDuration futureRes
  simp only [Bool.false_eq_true, if_false, if_true]
  repeat rw [some_bind']
  cases addSeconds R (s : Int) <;> rfl
theorem pd_none (R : DateTime) (s : Nat) (tx : Str) :
    parseDuration R s tx ⟨false, false, false, false, false, false, false⟩ =
      .ok (triple (luisPoint R) (luisPoint R) tx) R R R R := by
  unfold parseDuration
  simp only [Bool.false_eq_true, if_false]
  rfl

end RTV.DtPeriod

/-! ### `get_range_timex_components` on a clean triple -/
namespace RTV.DtPeriod
open RTV.Cal RTV.DateUtils RTV.WF RTV.Periods

/-- no parenthesis, no comma -/
def clean (s : Str) : Prop := ∀ x ∈ s, x ≠ 40 ∧ x ≠ 41 ∧ x ≠ 44

theorem removeCh_id (c : Nat) (s : Str) (h : ∀ x ∈ s, x ≠ c) : removeCh c s = s := by
  unfold removeCh
  rw [List.filter_eq_self]
  intro x hx
  simp [h x hx]

theorem rangeComponents_triple (a b p : Str) (ha : clean a) (hb : clean b) (hp : clean p) :
    rangeComponents (triple a b p) = some (a, b, p) := by
  have e1 : removeCh 40 (triple a b p) = a ++ [44] ++ b ++ [44] ++ p ++ [41] := by
    unfold triple
    simp only [removeCh, List.filter_append]
    have fa := removeCh_id 40 a (fun x hx => (ha x hx).1)
    have fb := removeCh_id 40 b (fun x hx => (hb x hx).1)
    have fp := removeCh_id 40 p (fun x hx => (hp x hx).1)
    unfold removeCh at fa fb fp
    rw [fa, fb, fp]
    simp
  have e2 : removeCh 41 (a ++ [44] ++ b ++ [44] ++ p ++ [41]) = a ++ [44] ++ b ++ [44] ++ p := by
    simp only [removeCh, List.filter_append]
    have fa := removeCh_id 41 a (fun x hx => (ha x hx).2.1)
    have fb := removeCh_id 41 b (fun x hx => (hb x hx).2.1)
    have fp := removeCh_id 41 p (fun x hx => (hp x hx).2.1)
    unfold removeCh at fa fb fp
    rw [fa, fb, fp]
    simp
  unfold rangeComponents
  rw [e1, e2]
  have hs : splitOn 44 (a ++ [44] ++ b ++ [44] ++ p) = [a, b, p] := by
    have : a ++ [44] ++ b ++ [44] ++ p = a ++ 44 :: (b ++ 44 :: p) := by simp
    rw [this, splitOn_append 44 _ _ (fun x hx => (ha x hx).2.2), splitOn_append 44 _ _ (fun x hx => (hb x hx).2.2),
      splitOn_no_sep 44 _ (fun x hx => (hp x hx).2.2)]
  rw [hs]

end RTV.DtPeriod

namespace RTV.DtPeriod
open RTV.Cal RTV.DateUtils RTV.WF RTV.Periods

theorem clean_natStr_unit (n u : Nat) (hu : u ≠ 40 ∧ u ≠ 41 ∧ u ≠ 44) : clean (natStr n ++ [u]) := by
  intro c hc; simp only [List.mem_append, List.mem_singleton] at hc
  rcases hc with hc | hc
  · have := natStr_digits _ c hc; simp [isDigit] at this; omega
  · omega

theorem clean_append (a b : Str) (ha : clean a) (hb : clean b) : clean (a ++ b) := by
  intro c hc; simp only [List.mem_append] at hc
  rcases hc with hc | hc
  · exact ha c hc
  · exact hb c hc

theorem clean_nil : clean [] := by intro c hc; simp at hc

/-- what `luis_time_span` writes contains no parenthesis and no comma -/
theorem clean_luisTimeSpan (n : Nat) : clean (luisTimeSpan n) := by
  unfold luisTimeSpan
  simp only
  refine clean_append _ _ (clean_append _ _ (clean_append _ _ ?_ ?_) ?_) ?_
  · intro c hc; simp at hc; omega
  · split
    · exact clean_natStr_unit _ 72 (by omega)
    · exact clean_nil
  · split
    · exact clean_natStr_unit _ 77 (by omega)
    · exact clean_nil
  · split
    · exact clean_natStr_unit _ 83 (by omega)
    · exact clean_nil

/-- the span between two proper points a non-negative number of seconds apart is `luis_time_span` of that number -/
theorem luisSpan_of (b e : DateTime) (n : Nat) (h : val e - val b = (n : Int)) : luisSpan b e = luisTimeSpan n := by
  unfold luisSpan
  rw [diffSecs_val, h, luisTimeSpanI_nonneg]

end RTV.DtPeriod
