import RTV.Lemmas.Timex
/-! Stage lemmas for `TimexRangeResolver.evaluate` (C15): list plumbing in the `Except` monad, soundness of
`collapse` (every point of a collapsed range lies in a supplied range), `dates_matching_day`, and the date-range
stage for weekday candidates. -/
namespace RTV.Timex
open RTV.Py RTV.Cal
set_option linter.unusedSimpArgs false
set_option linter.unusedVariables false

/-! ## plumbing -/

theorem foldlM_append_mem {α β : Type} (f : α → R (List β)) :
    ∀ (l : List α) (init out : List β),
      l.foldlM (fun acc x => do let r ← f x; pure (acc ++ r)) init = .ok out →
      ∀ s, s ∈ out ↔ (s ∈ init ∨ ∃ x ∈ l, ∃ r, f x = .ok r ∧ s ∈ r) := by
  intro l
  induction l with
  | nil =>
    intro init out h s
    simp [List.foldlM, pure, Except.pure] at h
    subst h; simp
  | cons a rest ih =>
    intro init out h s
    simp only [List.foldlM, bind, Except.bind] at h
    cases hfa : f a with
    | error e => simp [hfa] at h
    | ok r =>
      simp only [hfa, pure, Except.pure] at h
      have := ih (init ++ r) out h s
      rw [this]
      constructor
      · rintro (h1 | ⟨x, hx, r', hr', hs⟩)
        · rcases List.mem_append.mp h1 with h2 | h2
          · exact Or.inl h2
          · exact Or.inr ⟨a, by simp, r, hfa, h2⟩
        · exact Or.inr ⟨x, by simp [hx], r', hr', hs⟩
      · rintro (h1 | ⟨x, hx, r', hr', hs⟩)
        · exact Or.inl (List.mem_append.mpr (Or.inl h1))
        · rcases List.mem_cons.mp hx with rfl | hx
          · rw [hfa] at hr'; cases hr'
            exact Or.inl (List.mem_append.mpr (Or.inr hs))
          · exact Or.inr ⟨x, hx, r', hr', hs⟩

theorem mapM_ok_mem {α β : Type} (f : α → R β) :
    ∀ (l : List α) (out : List β), l.mapM f = .ok out →
      ∀ y, y ∈ out ↔ ∃ x ∈ l, f x = .ok y := by
  intro l
  induction l with
  | nil => intro out h y; simp [List.mapM_nil, pure, Except.pure] at h; subst h; simp
  | cons a rest ih =>
    intro out h y
    rw [List.mapM_cons] at h
    simp only [bind, Except.bind] at h
    cases hfa : f a with
    | error e => simp [hfa] at h
    | ok b =>
      simp only [hfa] at h
      cases hr : rest.mapM f with
      | error e => simp [hr] at h
      | ok bs =>
        simp only [hr, pure, Except.pure] at h
        cases h
        have := ih bs hr y
        simp only [List.mem_cons, this]
        constructor
        · rintro (rfl | ⟨x, hx, hfx⟩)
          · exact ⟨a, Or.inl rfl, hfa⟩
          · exact ⟨x, Or.inr hx, hfx⟩
        · rintro ⟨x, rfl | hx, hfx⟩
          · rw [hfa] at hfx; cases hfx; exact Or.inl rfl
          · exact Or.inr ⟨x, hx, hfx⟩

theorem mem_removeDuplicates (l : List Str) (s : Str) : s ∈ removeDuplicates l ↔ s ∈ l := by
  induction l with
  | nil => simp [removeDuplicates]
  | cons a rest ih =>
    simp only [removeDuplicates, List.mem_cons, List.mem_filter, ih]
    constructor
    · rintro (h | ⟨h, _⟩)
      · exact Or.inl h
      · exact Or.inr h
    · intro h
      by_cases hs : s = a
      · exact Or.inl hs
      · rcases h with h | h
        · exact Or.inl h
        · exact Or.inr ⟨h, by simpa using hs⟩

/-! ## `collapse` only ever intersects -/

section collapse
variable {α : Type}

theorem findJ_mem (ov : α → α → Bool) (r : α) : ∀ (rs : List α) (k j : Nat) (r2 : α),
    findJ ov r rs k = some (j, r2) → r2 ∈ rs := by
  intro rs
  induction rs with
  | nil => intro k j r2 h; simp [findJ] at h
  | cons a rest ih =>
    intro k j r2 h
    unfold findJ at h
    split at h
    · cases h; simp
    · exact List.mem_cons_of_mem _ (ih _ _ _ h)

theorem firstPair_mem (ov : α → α → Bool) : ∀ (rs : List α) (k i j : Nat) (r1 r2 : α),
    firstPair ov rs k = some (i, j, r1, r2) → r1 ∈ rs ∧ r2 ∈ rs := by
  intro rs
  induction rs with
  | nil => intro k i j r1 r2 h; simp [firstPair] at h
  | cons a rest ih =>
    intro k i j r1 r2 h
    unfold firstPair at h
    split at h
    · rename_i j' r2' hj
      cases h
      exact ⟨by simp, List.mem_cons_of_mem _ (findJ_mem ov _ rest _ _ _ hj)⟩
    · have := ih _ _ _ _ _ h
      exact ⟨List.mem_cons_of_mem _ this.1, List.mem_cons_of_mem _ this.2⟩

/-- the invariant `P`: a property of ranges that holds for the supplied ranges and is inherited by
`collapse_overlapping r1 r2` from `r1` and `r2` -/
theorem innerCollapse_inv (ov : α → α → Bool) (inter : α → α → α) (P : α → Prop)
    (hinter : ∀ a b, P a → P b → P (inter a b)) (rs rs' : List α)
    (h : innerCollapse ov inter rs = some rs') (hP : ∀ r ∈ rs, P r) : ∀ r ∈ rs', P r := by
  unfold innerCollapse at h
  split at h
  · cases h
  · split at h
    · cases h
    · rename_i i j r1 r2 hp
      cases h
      have hm := firstPair_mem ov rs 0 i j r1 r2 hp
      intro r hr
      rcases List.mem_append.mp hr with h1 | h1
      · exact hP r (List.mem_of_mem_eraseIdx (List.mem_of_mem_eraseIdx h1))
      · simp at h1; subst h1; exact hinter _ _ (hP _ hm.1) (hP _ hm.2)

theorem collapseLoop_inv (ov : α → α → Bool) (inter : α → α → α) (P : α → Prop)
    (hinter : ∀ a b, P a → P b → P (inter a b)) :
    ∀ (fuel : Nat) (rs out : List α), collapseLoop ov inter fuel rs = some out → (∀ r ∈ rs, P r) → ∀ r ∈ out, P r := by
  intro fuel
  induction fuel with
  | zero => intro rs out h; simp [collapseLoop] at h
  | succ f ih =>
    intro rs out h hP
    unfold collapseLoop at h
    cases hc : innerCollapse ov inter rs with
    | none => simp [hc] at h; subst h; exact hP
    | some rs' =>
      simp only [hc] at h
      exact ih rs' out h (innerCollapse_inv ov inter P hinter rs rs' hc hP)

theorem mem_insertBy (key : α → Int) (x y : α) (l : List α) : y ∈ insertBy key x l ↔ y = x ∨ y ∈ l := by
  induction l with
  | nil => simp [insertBy]
  | cons a rest ih =>
    unfold insertBy
    split
    · simp
    · simp [ih]; constructor
      · rintro (h | h | h) <;> simp [h]
      · rintro (h | h | h) <;> simp [h]

theorem mem_sortBy (key : α → Int) (l : List α) (y : α) : y ∈ sortBy key l ↔ y ∈ l := by
  induction l with
  | nil => simp [sortBy]
  | cons a rest ih =>
    simp only [sortBy, List.foldr] at ih ⊢
    rw [mem_insertBy, ih]; simp

end collapse

/-- every ordinal inside a range is inside one of the ranges of `rs` -/
def CoveredBy (rs : List DateRange) (r : DateRange) : Prop :=
  ∀ o, r.s ≤ o → o < r.e → ∃ r0 ∈ rs, r0.s ≤ o ∧ o < r0.e

/-- **collapse_sound** — `TimexConstraintsHelper.collapse` on date ranges returns only ranges all of whose days lie
in a supplied range (whatever `is_overlapping` decides, `collapse_overlapping` is an intersection). -/
theorem collapseDates_sound (fuel : Nat) (rs out : List DateRange) (h : collapseDates fuel rs = .ok out) :
    ∀ r ∈ out, CoveredBy rs r := by
  unfold collapseDates at h
  cases hc : collapseLoop DateRange.isOverlapping DateRange.collapseOverlapping fuel rs with
  | none => simp [hc] at h
  | some l =>
    simp only [hc, pure, Except.pure] at h
    cases h
    intro r hr
    rw [mem_sortBy] at hr
    refine collapseLoop_inv _ _ (CoveredBy rs) ?_ fuel rs l hc ?_ r hr
    · intro a b ha hb o h1 h2
      apply ha o
      · simp [DateRange.collapseOverlapping] at h1; omega
      · simp [DateRange.collapseOverlapping] at h2; omega
    · intro r0 hr0 o h1 h2
      exact ⟨r0, hr0, h1, h2⟩

/-! ## `dates_matching_day` -/

/-- **dates_matching_day** is sound and complete: exactly the days of `[s, e)` that fall on the asked weekday -/
theorem datesMatchingDay_spec (day : Int) (s e : Nat) (l : List Nat) (h : datesMatchingDay day s e = .ok l) (o : Nat) :
    o ∈ l ↔ s ≤ o ∧ o < e ∧ ((weekdayOrd o : Nat) : Int) = day := by
  unfold datesMatchingDay at h
  split at h
  · simp only [pure, Except.pure] at h
    cases h
    simp only [List.mem_filterMap, List.mem_range]
    constructor
    · rintro ⟨k, hk, hv⟩
      split at hv
      · cases hv; refine ⟨by omega, by omega, by assumption⟩
      · cases hv
    · rintro ⟨h1, h2, h3⟩
      refine ⟨o - s, by omega, ?_⟩
      have : s + (o - s) = o := by omega
      simp [this, h3]
  · cases h

/-! ## the stages of `evaluate` for a weekday candidate and date-range constraints -/

theorem mkDate_valid (y m d : Option Num) (x : Date) (h : mkDate y m d = .ok x) : x.valid = true := by
  unfold mkDate at h
  split at h
  · split at h
    · simp only at h
      split at h
      · simp only [pure, Except.pure] at h; cases h; assumption
      · cases h
    · cases h
  · cases h

theorem dateFromTimex_valid (t : Timex) (x : Date) (h : dateFromTimex t = .ok x) : x.valid = true := by
  unfold dateFromTimex at h
  exact mkDate_valid _ _ _ x h

theorem daterangeFromTimex_bounds (t : Timex) (r : DateRange) (h : daterangeFromTimex t = .ok r) :
    1 ≤ r.s ∧ r.s ≤ maxOrd ∧ 1 ≤ r.e ∧ r.e ≤ maxOrd := by
  unfold daterangeFromTimex at h
  simp only [bind, Except.bind] at h
  cases hx : expandDatetimeRange t with
  | error e => simp [hx] at h
  | ok x =>
    simp only [hx] at h
    cases ha : dateFromTimex x.start with
    | error e => simp [ha] at h
    | ok a =>
      simp only [ha] at h
      cases hb : dateFromTimex x.end with
      | error e => simp [hb] at h
      | ok b =>
        simp only [hb, pure, Except.pure] at h
        cases h
        have va := dateFromTimex_valid _ a ha
        have vb := dateFromTimex_valid _ b hb
        have := ord_range a va
        have := ord_range b vb
        simp; omega

/-- the weekday branch of `resolve_date_against_constraint` -/
theorem resolveWeekday_eq (k : Int) (c : DateRange) :
    resolveDateAgainstConstraint { dayOfWeek := some (.int k) } c =
      (do let ds ← datesMatchingDay (k - 1) c.s c.e
          ds.mapM fun o => formatT (Timex.fromDate (Date.ofOrd o))) := by
  simp [resolveDateAgainstConstraint, andChainNotNone, Timex.fromDate, bind, Except.bind, pure, Except.pure]

theorem filter_all {α : Type} (p : α → Bool) (l : List α) (h : ∀ x ∈ l, p x = true) : l.filter p = l := by
  induction l with
  | nil => rfl
  | cons a r ih => simp [List.filter, h a (by simp), ih (fun x hx => h x (by simp [hx]))]

theorem filter_none {α : Type} (p : α → Bool) (l : List α) (h : ∀ x ∈ l, p x = false) : l.filter p = [] := by
  induction l with
  | nil => rfl
  | cons a r ih => simp [List.filter, h a (by simp), ih (fun x hx => h x (by simp [hx]))]

theorem resolveByTimeConstraints_none (cfg : Cfg) (cands : List Str) (tcs : List Timex)
    (h : ∀ t ∈ tcs, (infer t).time = false) : resolveByTimeConstraints cfg cands tcs = .ok cands := by
  simp [resolveByTimeConstraints, filter_none _ tcs h, pure, Except.pure]

theorem resolveByTimerangeConstraints_none (cfg : Cfg) (fuel : Nat) (cands : List Str) (tcs : List Timex)
    (h : ∀ t ∈ tcs, (infer t).timerange = false) :
    resolveByTimerangeConstraints cfg (fuel + 1) cands tcs = .ok cands := by
  simp [resolveByTimerangeConstraints, filter_none _ tcs h, collapseTimes, collapseLoop, innerCollapse, firstPair, sortBy,
    bind, Except.bind, pure, Except.pure]

theorem collapseLoop_ne_nil {α : Type} (ov : α → α → Bool) (inter : α → α → α) :
    ∀ (fuel : Nat) (rs out : List α), collapseLoop ov inter fuel rs = some out → rs ≠ [] → out ≠ [] := by
  intro fuel
  induction fuel with
  | zero => intro rs out h; simp [collapseLoop] at h
  | succ f ih =>
    intro rs out h hne
    unfold collapseLoop at h
    cases hc : innerCollapse ov inter rs with
    | none => simp [hc] at h; subst h; exact hne
    | some rs' =>
      simp only [hc] at h
      refine ih rs' out h ?_
      unfold innerCollapse at hc
      split at hc
      · cases hc
      · split at hc
        · cases hc
        · cases hc; simp

theorem sortBy_ne_nil {α : Type} (key : α → Int) (l : List α) (h : l ≠ []) : sortBy key l ≠ [] := by
  cases l with
  | nil => exact absurd rfl h
  | cons a r =>
    intro hn
    have : a ∈ sortBy key (a :: r) := (mem_sortBy key (a :: r) a).mpr (by simp)
    rw [hn] at this; cases this

/-- the date-range stage: with a non-empty collapsed list the result holds exactly what
`resolve_date_against_constraint` gives for some candidate and some collapsed range -/
theorem dateStage_mem (cfg : Cfg) (fuel : Nat) (cands : List Str) (tcs : List Timex) (out : List Str)
    (ranges collapsed : List DateRange)
    (h1 : (tcs.filter fun t => (infer t).daterange).mapM daterangeFromTimex = .ok ranges)
    (h2 : collapseDates fuel ranges = .ok collapsed) (h3 : collapsed.isEmpty = false)
    (hout : resolveByDateRangeConstraints cfg fuel cands tcs = .ok out) (s : Str) :
    s ∈ out ↔ ∃ c ∈ cands, ∃ k ∈ collapsed, ∃ x, resolveDateAgainstConstraint (parse cfg c) k = .ok x ∧ s ∈ x := by
  unfold resolveByDateRangeConstraints at hout
  simp only [h1, h2, h3, bind, Except.bind, Bool.false_eq_true, if_false] at hout
  let g : Str → R (List Str) := fun c =>
    collapsed.foldlM (fun acc2 k => do
      let x ← resolveDateAgainstConstraint (parse cfg c) k
      pure (acc2 ++ x)) []
  cases hres : cands.foldlM (fun acc c => do let r ← g c; pure (acc ++ r)) [] with
  | error e =>
    simp [g, bind, Except.bind, pure, Except.pure] at hres
    simp [hres, pure, Except.pure] at hout
  | ok res =>
    have hm := foldlM_append_mem g cands [] res hres s
    have hres' := hres
    simp [g, bind, Except.bind, pure, Except.pure] at hres'
    simp [hres', pure, Except.pure] at hout
    subst hout
    rw [mem_removeDuplicates, hm]
    simp only [List.not_mem_nil, false_or]
    constructor
    · rintro ⟨c, hc, r, hr, hs⟩
      have := (foldlM_append_mem (fun k => resolveDateAgainstConstraint (parse cfg c) k) collapsed [] r hr s).mp hs
      simp only [List.not_mem_nil, false_or] at this
      obtain ⟨k, hk, x, hx, hsx⟩ := this
      exact ⟨c, hc, k, hk, x, hx, hsx⟩
    · rintro ⟨c, hc, k, hk, x, hx, hsx⟩
      cases hr : g c with
      | error e =>
        -- the candidate's own fold succeeded (the whole fold did), so this case is impossible
        exfalso
        have : ∀ (l : List Str) (init : List Str), c ∈ l →
            l.foldlM (fun acc c => do let r ← g c; pure (acc ++ r)) init ≠ .ok res ∨ True := fun _ _ _ => Or.inr trivial
        clear this
        have key : ∀ (l : List Str) (init out' : List Str), c ∈ l →
            l.foldlM (fun acc c => do let r ← g c; pure (acc ++ r)) init = .ok out' → False := by
          intro l
          induction l with
          | nil => intro _ _ hc; cases hc
          | cons a rest ih =>
            intro init out' hc hf
            simp only [List.foldlM, bind, Except.bind] at hf
            rcases List.mem_cons.mp hc with rfl | hc'
            · simp [hr] at hf
            · cases ha : g a with
              | error e => simp [ha] at hf
              | ok ra => simp only [ha, pure, Except.pure] at hf; exact ih _ _ hc' hf
        exact key cands [] res hc hres
      | ok r =>
        refine ⟨c, hc, r, hr, ?_⟩
        exact (foldlM_append_mem (fun k => resolveDateAgainstConstraint (parse cfg c) k) collapsed [] r hr s).mpr
          (Or.inr ⟨k, hk, x, hx, hsx⟩)

theorem collapseDates_ne_nil (fuel : Nat) (rs out : List DateRange) (h : collapseDates fuel rs = .ok out)
    (hne : rs ≠ []) : out.isEmpty = false := by
  unfold collapseDates at h
  cases hl : collapseLoop DateRange.isOverlapping DateRange.collapseOverlapping fuel rs with
  | none => simp [hl] at h
  | some l =>
    simp only [hl, pure, Except.pure] at h
    cases h
    have := sortBy_ne_nil (fun r : DateRange => (r.s : Int)) l (collapseLoop_ne_nil _ _ _ _ _ hl hne)
    cases hs : sortBy (fun r : DateRange => (r.s : Int)) l with
    | nil => exact absurd hs this
    | cons a r => rfl

theorem mapM_ne_nil {α β : Type} (f : α → R β) (l : List α) (out : List β) (h : l.mapM f = .ok out) (hne : l ≠ []) :
    out ≠ [] := by
  cases l with
  | nil => exact absurd rfl hne
  | cons a rest =>
    intro ho
    have := (mapM_ok_mem f (a :: rest) out h)
    cases hfa : f a with
    | error e =>
      rw [List.mapM_cons] at h
      simp [hfa, bind, Except.bind] at h
    | ok b =>
      have hb := (this b).mpr ⟨a, by simp, hfa⟩
      rw [ho] at hb; cases hb

/-- the weekday branch, spelled out: the ISO texts of exactly the days of the range on the asked weekday -/
theorem resolveWeekday_mem (k : Int) (c : DateRange) (x : List Str) (hc1 : 1 ≤ c.s) (hc2 : c.e ≤ maxOrd + 1)
    (h : resolveDateAgainstConstraint { dayOfWeek := some (.int k) } c = .ok x) (s : Str) :
    s ∈ x ↔ ∃ o, c.s ≤ o ∧ o < c.e ∧ ((weekdayOrd o : Nat) : Int) = k - 1 ∧ s = isoDateStr (Date.ofOrd o) := by
  rw [resolveWeekday_eq] at h
  simp only [bind, Except.bind] at h
  cases hd : datesMatchingDay (k - 1) c.s c.e with
  | error e => simp [hd] at h
  | ok ds =>
    simp only [hd] at h
    have hm := mapM_ok_mem (fun o => formatT (Timex.fromDate (Date.ofOrd o))) ds x h s
    rw [hm]
    constructor
    · rintro ⟨o, ho, hf⟩
      have hs := (datesMatchingDay_spec _ _ _ _ hd o).mp ho
      have hv := (ord_ofOrd o (by omega) (by omega)).2
      rw [format_fromDate _ hv] at hf
      cases hf
      exact ⟨o, hs.1, hs.2.1, hs.2.2, rfl⟩
    · rintro ⟨o, h1, h2, h3, rfl⟩
      refine ⟨o, (datesMatchingDay_spec _ _ _ _ hd o).mpr ⟨h1, h2, h3⟩, ?_⟩
      exact format_fromDate _ (ord_ofOrd o (by omega) (by omega)).2

/-! ## the other branches and stages -/

theorem yearsLoop_sound (t : Timex) (c : DateRange) : ∀ (n y : Nat) (out : List Str),
    yearsLoop t c n y = .ok out → ∀ s ∈ out, s ≠ [] →
      ∃ yy d, y ≤ yy ∧ yy < y + n ∧ dateFromTimex { t with year := some (.int yy) } = .ok d ∧
        c.s ≤ d.ord ∧ d.ord < c.e ∧ formatT { t with year := some (.int yy) } = .ok s := by
  intro n
  induction n with
  | zero => intro y out h s hs; simp [yearsLoop, pure, Except.pure] at h; subst h; cases hs
  | succ n ih =>
    intro y out h s hs hne
    simp only [yearsLoop, bind, Except.bind] at h
    cases h1 : resolveDefiniteAgainstConstraint { t with year := some (.int y) } c with
    | error e => simp [h1] at h
    | ok r =>
      simp only [h1] at h
      cases h2 : yearsLoop t c n (y + 1) with
      | error e => simp [h2] at h
      | ok rest =>
        simp only [h2, pure, Except.pure] at h
        cases h
        rcases List.mem_append.mp hs with hs | hs
        · -- this year
          unfold resolveDefiniteAgainstConstraint at h1
          cases hd : dateFromTimex { t with year := some (.int y) } with
          | error e =>
            cases e <;> simp [hd, bind, Except.bind, pure, Except.pure] at h1
            subst h1; simp at hs; exact absurd hs hne
          | ok d =>
            simp only [hd, bind, Except.bind, pure, Except.pure] at h1
            split at h1
            · rename_i hin
              cases hf : formatT { t with year := some (.int y) } with
              | error e => simp [hf] at h1
              | ok v =>
                simp only [hf] at h1
                cases h1
                simp at hs; subst hs
                exact ⟨y, d, by omega, by omega, hd, hin.1, hin.2, hf⟩
            · cases h1; simp at hs; exact absurd hs hne
        · obtain ⟨yy, d, h3, h4, h5⟩ := ih (y + 1) rest h2 s hs hne
          exact ⟨yy, d, by omega, by omega, h5⟩

/-- the month-day branch of `resolve_date_against_constraint` is sound: every result is the formatted candidate
with some year filled in, and that date lies inside the range -/
theorem resolveMonthDay_sound (t : Timex) (c : DateRange) (out : List Str)
    (hmd : andChainNotNone [t.month, t.dayOfMonth] = true)
    (h : resolveDateAgainstConstraint t c = .ok out) :
    ∀ s ∈ out, ∃ (yy : Nat) (d : Date), dateFromTimex { t with year := some (.int yy) } = .ok d ∧
      c.s ≤ d.ord ∧ d.ord < c.e ∧ formatT { t with year := some (.int yy) } = .ok s := by
  unfold resolveDateAgainstConstraint at h
  simp only [hmd, if_true, bind, Except.bind] at h
  split at h
  · cases hy : yearsLoop t c ((Date.ofOrd c.e).y + 1 - (Date.ofOrd c.s).y) (Date.ofOrd c.s).y with
    | error e => simp [hy] at h
    | ok r =>
      simp only [hy, pure, Except.pure] at h
      cases h
      intro s hs
      rw [List.mem_filter] at hs
      obtain ⟨yy, d, _, _, h5⟩ := yearsLoop_sound t c _ _ r hy s hs.1 (by simpa using hs.2)
      exact ⟨yy, d, h5⟩
  · cases h

/-- every millisecond count inside a range is inside one of the ranges of `rs` -/
def CoveredByT (rs : List TimeRange) (r : TimeRange) : Prop :=
  ∀ o : Int, r.s ≤ o → o < r.e → ∃ r0 ∈ rs, r0.s ≤ o ∧ o < r0.e

theorem collapseTimes_sound (fuel : Nat) (rs out : List TimeRange) (h : collapseTimes fuel rs = .ok out) :
    ∀ r ∈ out, CoveredByT rs r := by
  unfold collapseTimes at h
  cases hc : collapseLoop TimeRange.isOverlapping TimeRange.collapseOverlapping fuel rs with
  | none => simp [hc] at h
  | some l =>
    simp only [hc, pure, Except.pure] at h
    cases h
    intro r hr
    rw [mem_sortBy] at hr
    refine collapseLoop_inv _ _ (CoveredByT rs) ?_ fuel rs l hc ?_ r hr
    · intro a b ha hb o h1 h2
      apply ha o
      · simp [TimeRange.collapseOverlapping] at h1; omega
      · simp [TimeRange.collapseOverlapping] at h2; omega
    · intro r0 hr0 o h1 h2
      exact ⟨r0, hr0, h1, h2⟩

/-- the time-range stage for a candidate with a time (`resolve_time`): every result is the candidate's own TIMEX and
its time of day lies inside one of the (collapsed) time ranges -/
theorem resolveTime_sound (t : Timex) (ks : List TimeRange) (out : List Str) (h : resolveTime t ks = .ok out) :
    ∀ s ∈ out, ∃ k ∈ ks, ∃ tm ms, t.time = some tm ∧ msOf tm.hour tm.minute tm.second = .ok ms ∧
      k.s ≤ ms ∧ ms < k.e ∧ formatT t = .ok s := by
  unfold resolveTime at h
  intro s hs
  let f : TimeRange → R (List Str) := fun k => do
    let ms ← match t.time with
      | some tm => msOf tm.hour tm.minute tm.second
      | none => throw .typeError
    if k.s ≤ ms ∧ ms < k.e then
      let v ← formatT t
      pure [v]
    else pure []
  have h' : ks.foldlM (fun acc k => do let r ← f k; pure (acc ++ r)) [] = .ok out := by
    rw [← h]
    congr 1
    funext acc k
    simp only [f, bind, Except.bind, pure, Except.pure]
    cases t.time with
    | none => rfl
    | some tm =>
      simp only
      cases msOf tm.hour tm.minute tm.second with
      | error e => rfl
      | ok ms =>
        by_cases hin : k.s ≤ ms ∧ ms < k.e
        · simp only [hin, and_self, if_true]; cases formatT t <;> simp
        · simp [hin]
  have := (foldlM_append_mem f ks [] out h' s).mp hs
  simp only [List.not_mem_nil, false_or] at this
  obtain ⟨k, hk, r, hr, hsr⟩ := this
  simp only [f, bind, Except.bind] at hr
  cases htm : t.time with
  | none => simp [htm] at hr
  | some tm =>
    simp only [htm] at hr
    cases hms : msOf tm.hour tm.minute tm.second with
    | error e => simp [hms] at hr
    | ok ms =>
      simp only [hms] at hr
      split at hr
      · rename_i hin
        cases hf : formatT t with
        | error e => simp [hf] at hr
        | ok v =>
          simp only [hf, pure, Except.pure] at hr
          cases hr
          simp at hsr; subst hsr
          exact ⟨k, hk, tm, ms, rfl, hms, hin.1, hin.2, rfl⟩
      · simp only [pure, Except.pure] at hr; cases hr; cases hsr

end RTV.Timex
