import RTV.Lemmas.DateFrontCover
import RTV.Model.TimeFront
/-!
From kernel-evaluated facts about ABSTRACT time texts to the front end (`RTV.TimeFront.parseTime`) on every concrete time
text of a layout.  The matcher, its monotonicity in the oracle (`matchK_mono`, `searchO_mono`, `stepO_mono`) and
`abs_refines_conc` are those of the date front end (Lemmas/DateFront, DateFrontCover); here:

* `exactO_mono`, `loopO_of_steps`: `RegExpUtility.exact_match` and the loop over `time_regexes`;
* a layout is a token list (`Tok`); `absLT L ah am as` is its abstract text when the hour / minute / second token is
  replaced by the abstract strings `ah am as` (literals and the designator stay concrete); `CoverTokT`;
* `atRej` / `rejOneT` / `accOneT` / `descOK`: the Bool checks `decide +kernel` evaluates — `at_regex` hands nothing over
  (on the text and on prefix + text), regex `j` has no exact match, regex `k` has one with the groups `hour`, `min`, `sec`,
  `desc` lying exactly on the tokens and no other group of the seventeen taking part, the description regexes classify the
  designator as am / pm;
* `front_time`: then `parse_basic_regex_match` on the rendered time hands `match_to_time` exactly the rendered tokens;
* `CertT`, `coverBT`, `front_time_all`: the same for ALL hours of a range, minutes and seconds 0..59 from finitely many
  abstract texts.
-/
namespace RTV.TimeFront
open RTV.Re RTV.Py RTV.DtRes
open RTV.DateFront hiding Tok Names renderL absTok absL CoverTok spanOf Cert coverB rejOne accOne rejAll accAll spanPair

/-! ### `exact_match` and the loop -/

theorem exactO_mono {O O' : Oracle} (h : Refines O O') (len : Nat) (r : RE) (x : Option MatchG)
    (hx : exactO O len r = some x) : exactO O' len r = some x := by
  unfold exactO at hx ⊢
  cases h1 : searchO O r with
  | none => simp [h1] at hx
  | some m1 => rw [searchO_mono h r _ h1]; simpa [h1] using hx

/-- the loop answers the first regex with an exact match when all earlier ones have none -/
theorem loopO_of_steps (O : Oracle) (len : Nat) :
    ∀ (rs : List (Option RE)) (k0 idx : Nat) (r : RE) (m : MatchG),
      (∀ j, j < idx → ∃ rj, rs[j]? = some (some rj) ∧ exactO O len rj = some none) →
      rs[idx]? = some (some r) → exactO O len r = some (some m) →
      loopO O len rs k0 = some (some (k0 + idx, m)) := by
  intro rs
  induction rs with
  | nil => intro k0 idx r m _ h; simp at h
  | cons r0 rest ih =>
    intro k0 idx r m hrej hget hacc
    cases idx with
    | zero =>
      simp only [List.getElem?_cons_zero, Option.some.injEq] at hget
      subst hget
      simp [loopO, hacc]
    | succ idx =>
      obtain ⟨rj, h0, hs0⟩ := hrej 0 (by omega)
      simp only [List.getElem?_cons_zero, Option.some.injEq] at h0
      subst h0
      simp only [loopO, hs0]
      have := ih (k0 + 1) idx r m (fun j hj => by simpa using hrej (j + 1) (by omega)) (by simpa using hget) hacc
      rw [this]
      congr 3
      omega

/-! ### lower-casing and the number-word table on a digit text -/

/-- what the theorems assume of `str.lower`: ASCII characters other than `A`–`Z` are unchanged -/
def LowerAscii (lowerC : Nat → Str) : Prop := ∀ c, c < 128 → ¬ (65 ≤ c ∧ c ≤ 90) → lowerC c = [c]

def lowC (c : Nat) : Bool := c < 128 && !(65 ≤ c && c ≤ 90)

theorem lower_id {lowerC : Nat → Str} (hl : LowerAscii lowerC) : ∀ (s : Str), s.all lowC = true → lower lowerC s = s
  | [], _ => rfl
  | c :: s, h => by
    simp only [List.all_cons, Bool.and_eq_true] at h
    have hc : lowerC c = [c] := by
      have := h.1
      simp only [lowC, Bool.and_eq_true, decide_eq_true_eq, Bool.not_eq_true', Bool.and_eq_false_iff, decide_eq_false_iff_not] at this
      exact hl c this.1 (by omega)
    have ih := lower_id hl s h.2
    simp only [lower, List.flatMap_cons] at ih ⊢
    rw [hc, ih]; rfl

/-- every candidate is an ASCII character other than `A`–`Z` -/
def lowAbs (A : AStr) : Bool := A.all fun a => a.all lowC

theorem conc_all : ∀ {A : AStr} {s : Str} (p : Nat → Bool), Conc A s → (A.all fun a => a.all p) = true → s.all p = true
  | [], [], _, _, _ => rfl
  | [], _ :: _, _, h, _ => by simp [Conc] at h
  | _ :: _, [], _, h, _ => by simp [Conc] at h
  | a :: A, c :: s, p, h, ha => by
    simp only [Conc] at h
    simp only [List.all_cons, Bool.and_eq_true] at ha ⊢
    refine ⟨?_, conc_all p h.2 ha.2⟩
    have := ha.1
    simp only [List.all_eq_true] at this
    exact this c h.1

def isDigitC (c : Nat) : Bool := 48 ≤ c && c ≤ 57

/-- no key of the table begins with an ASCII digit -/
def noDigitKeys (tbl : List (Str × Nat)) : Bool :=
  tbl.all fun p => match p.1.head? with | some c => !isDigitC c | none => true

theorem lookup_digit_none (tbl : List (Str × Nat)) (h : noDigitKeys tbl = true) (c : Nat) (s : Str) (hc : isDigitC c = true) :
    lookup tbl (c :: s) = none := by
  unfold lookup
  rw [List.find?_eq_none.2]
  · rfl
  · intro p hp
    unfold noDigitKeys at h
    simp only [List.all_eq_true] at h
    have := h p hp
    intro he
    simp only [beq_iff_eq] at he
    rw [he] at this
    simp [hc] at this

/-- all candidates of the first position are ASCII digits -/
def firstDigits (A : AStr) : Bool := match A.head? with | some a => a.all isDigitC | none => false

theorem conc_firstDigit {A : AStr} {s : Str} (hc : Conc A s) (h : firstDigits A = true) :
    ∃ c r, s = c :: r ∧ isDigitC c = true := by
  cases A with
  | nil => simp [firstDigits] at h
  | cons a A =>
    cases s with
    | nil => simp [Conc] at hc
    | cons c r =>
      simp only [Conc] at hc
      simp only [firstDigits, List.head?_cons, List.all_eq_true] at h
      exact ⟨c, r, rfl, h c hc.1⟩

/-! ### layouts -/

/-- the abstract text of a token: literals and the designator are themselves, the hour / minute / second token is
`ah` / `am` / `as` -/
def absTokT (ah am as : AStr) : Tok → AStr
  | .lit c => [[c]]
  | .desc d => d.map fun c => [c]
  | .H => ah
  | .HH => ah
  | .MM => am
  | .SS => as

def absLT (L : List Tok) (ah am as : AStr) : AStr := L.flatMap (absTokT ah am as)

/-- the renderings of the time's hour / minute / second tokens of `L` are drawn from `ah` / `am` / `as` -/
def CoverTokT (L : List Tok) (h m s : Nat) (ah am as : AStr) : Prop :=
  ∀ t ∈ L, (t.kind = 1 → Conc ah (t.render h m s)) ∧ (t.kind = 2 → Conc am (t.render h m s)) ∧
    (t.kind = 3 → Conc as (t.render h m s))

theorem conc_tokT (h m s : Nat) (ah am as : AStr) (t : Tok)
    (hh : (t.kind = 1 → Conc ah (t.render h m s)) ∧ (t.kind = 2 → Conc am (t.render h m s)) ∧
      (t.kind = 3 → Conc as (t.render h m s))) : Conc (absTokT ah am as t) (t.render h m s) := by
  cases t with
  | lit c => simp [absTokT, Tok.render, Conc]
  | desc d => simpa [absTokT, Tok.render] using Conc.sing d
  | H => exact hh.1 rfl
  | HH => exact hh.1 rfl
  | MM => exact hh.2.1 rfl
  | SS => exact hh.2.2 rfl

theorem conc_layoutT (h m s : Nat) (ah am as : AStr) :
    ∀ (L : List Tok), CoverTokT L h m s ah am as → Conc (absLT L ah am as) (renderT L h m s) := by
  intro L
  induction L with
  | nil => intro _; simp [absLT, renderT, Conc]
  | cons t L ih =>
    intro hc
    simp only [absLT, renderT, List.flatMap_cons]
    exact Conc.append (ih (fun t' ht' => hc t' (by simp [ht']))) (conc_tokT h m s ah am as t (hc t (by simp)))

/-- the first token of kind `g`: its offset, its end and the token, given the token lengths -/
def spanOfT (len : Tok → Nat) (g : Nat) : List Tok → Nat → Option (Nat × Nat × Tok)
  | [], _ => none
  | t :: L, off => if t.kind = g then some (off, off + len t, t) else spanOfT len g L (off + len t)

theorem spanOfT_congr (len len' : Tok → Nat) (g : Nat) :
    ∀ (L : List Tok) (off : Nat), (∀ t ∈ L, len t = len' t) → spanOfT len g L off = spanOfT len' g L off := by
  intro L
  induction L with
  | nil => intro _ _; rfl
  | cons t L ih =>
    intro off h
    simp only [spanOfT, h t (by simp)]
    rw [ih _ (fun t' ht' => h t' (by simp [ht']))]

/-- slicing the rendered layout at the span of a token gives the token's rendering -/
theorem spanOfT_slice (h m s : Nat) (g : Nat) :
    ∀ (L : List Tok) (pre : Str) (a b : Nat) (t : Tok),
      spanOfT (fun t => (t.render h m s).length) g L pre.length = some (a, b, t) →
      ((pre ++ renderT L h m s).drop a).take (b - a) = t.render h m s := by
  intro L
  induction L with
  | nil => intro pre a b t h; simp [spanOfT] at h
  | cons t0 L ih =>
    intro pre a b t hh
    simp only [spanOfT] at hh
    by_cases hk : t0.kind = g
    · simp only [hk, if_true, Option.some.injEq, Prod.mk.injEq] at hh
      obtain ⟨rfl, rfl, rfl⟩ := hh
      simp [renderT, List.flatMap_cons]
    · simp only [hk, if_false] at hh
      have := ih (pre ++ t0.render h m s) a b t (by simpa using hh)
      simpa [renderT, List.flatMap_cons, List.append_assoc] using this

/-- the first token of kind `g` -/
def firstTok (g : Nat) : List Tok → Option Tok
  | [] => none
  | t :: L => if t.kind = g then some t else firstTok g L

/-- the text of the first token of kind `g` (`''` when the layout has none): what the group must hold -/
def tokText (L : List Tok) (g : Nat) (h m s : Nat) : Str :=
  match firstTok g L with
  | some t => t.render h m s
  | none => []

theorem spanOfT_first (len : Tok → Nat) (g : Nat) :
    ∀ (L : List Tok) (off : Nat), (spanOfT len g L off).map (·.2.2) = firstTok g L := by
  intro L
  induction L with
  | nil => intro _; rfl
  | cons t L ih =>
    intro off
    simp only [spanOfT, firstTok]
    by_cases hk : t.kind = g
    · simp [hk]
    · simp only [hk, if_false]; exact ih _

def spanPairT (x : Option (Nat × Nat × Tok)) : Option (Nat × Nat) := x.map fun p => (p.1, p.2.1)

theorem groupText_span (h m s : Nat) (g gi : Nat) (L : List Tok) (env : Env)
    (hcap : capOf env gi = spanPairT (spanOfT (fun t => (t.render h m s).length) g L 0)) :
    groupText (renderT L h m s) env gi = tokText L g h m s := by
  have hf := spanOfT_first (fun t => (t.render h m s).length) g L 0
  unfold groupText tokText
  cases hs : spanOfT (fun t => (t.render h m s).length) g L 0 with
  | none =>
    rw [hs] at hf
    simp only [Option.map_none] at hf
    simp [hcap, hs, spanPairT, ← hf]
  | some p =>
    obtain ⟨a, b, t⟩ := p
    rw [hs] at hf
    simp only [Option.map_some] at hf
    have := spanOfT_slice h m s g L [] a b t (by simpa using hs)
    simp only [List.nil_append] at this
    simp [hcap, hs, spanPairT, this, ← hf]

theorem firstTok_kind (g : Nat) : ∀ (L : List Tok) (t : Tok), firstTok g L = some t → t.kind = g := by
  intro L
  induction L with
  | nil => intro t h; simp [firstTok] at h
  | cons t0 L ih =>
    intro t h
    simp only [firstTok] at h
    by_cases hk : t0.kind = g
    · simp only [hk, if_true, Option.some.injEq] at h; subst h; exact hk
    · simp only [hk, if_false] at h; exact ih t h

/-- the designator text of a layout (`''` when it has none) -/
def descText (L : List Tok) : Str := tokText L 4 0 0 0

theorem tokText_desc (L : List Tok) (h m s : Nat) : tokText L 4 h m s = descText L := by
  unfold descText tokText
  cases hf : firstTok 4 L with
  | none => rfl
  | some t =>
    have := firstTok_kind 4 L t hf
    cases t <;> simp_all [Tok.kind, Tok.render]

/-! ### the Bool checks evaluated by the kernel -/

def preAbs (F : Cfg) (A : AStr) : AStr := (F.pre.map fun c => [c]) ++ A

/-- `at_regex` hands nothing over: no match at all, or a match that does not start at the offset / is not the whole text —
on the abstract text and on prefix + text -/
def atRej (F : Cfg) (A : AStr) : Bool :=
  asciiAbs A && F.pre.all (· < 128) &&
  match F.atRe with
  | some r => stepO (absO asciiTables A.toArray) (absO asciiTables (preAbs F A).toArray) F.pre.length r == some none
  | none => false

/-- `time_regexes[j]` has no exact match on the abstract text -/
def rejOneT (F : Cfg) (j : Nat) (A : AStr) : Bool :=
  asciiAbs A &&
  match F.rs[j]? with
  | some (some r) => exactO (absO asciiTables A.toArray) A.length r == some none
  | _ => false

/-- the group numbers `match_to_time` reads besides hour 10, min 11, sec 12, desc 13 -/
def otherGroups : List Nat := [1, 2, 3, 4, 5, 6, 7, 8, 9, 14, 15, 16, 17]

/-- `time_regexes[k]` has an exact match on the abstract text of the layout, the groups `hour` / `min` / `sec` / `desc` lie
exactly on the hour / minute / second / designator tokens (or did not take part when the layout has no such token), no
other group took part -/
def accOneT (F : Cfg) (k : Nat) (L : List Tok) (ah am as : AStr) : Bool :=
  let A := absLT L ah am as
  let len : Tok → Nat := fun t => (absTokT ah am as t).length
  asciiAbs A && visibleEnds A && lowAbs A && firstDigits A &&
  match F.rs[k]? with
  | some (some r) =>
    match exactO (absO asciiTables A.toArray) A.length r with
    | some (some mt) =>
      capOf mt.env 10 == spanPairT (spanOfT len 1 L 0) && capOf mt.env 11 == spanPairT (spanOfT len 2 L 0) &&
      capOf mt.env 12 == spanPairT (spanOfT len 3 L 0) && capOf mt.env 13 == spanPairT (spanOfT len 4 L 0) &&
      otherGroups.all fun g => capOf mt.env g == none
    | _ => false
  | _ => false

/-- `regex.search(rx, desc) is not None` evaluated on the (concrete) designator with the ASCII tables -/
def absFlag (r : Option RE) (d : Str) : Option Bool :=
  match r with
  | none => none
  | some r => (searchO (absO asciiTables (d.map fun c => [c]).toArray) r).map Option.isSome

/-- the three description regexes classify the layout's designator as am (`amD`) / pm (`pmD`), never `ampm` -/
def descOK (F : Cfg) (L : List Tok) (amD pmD : Bool) : Bool :=
  let d := descText L
  d.all lowC && absFlag F.amDesc d == some amD && absFlag F.amPmDesc d == some false && absFlag F.pmDesc d == some pmD

theorem asciiAbs_of_lowC (d : Str) (h : d.all lowC = true) : asciiAbs (d.map fun c => [c]) = true := by
  apply asciiAbs_sing
  simp only [List.all_eq_true] at h ⊢
  intro c hc
  have := h c hc
  simp only [lowC, Bool.and_eq_true, decide_eq_true_eq] at this
  simpa using this.1

theorem absFlag_sound {T : Tables} (hT : AsciiAgree T) (r : Option RE) (d : Str) (hd : d.all lowC = true) (b : Bool)
    (h : absFlag r d = some b) : descFlag T r d = some b := by
  unfold absFlag at h
  unfold descFlag
  cases r with
  | none => simp at h
  | some r =>
    simp only at h ⊢
    cases hs : searchO (absO asciiTables (d.map fun c => [c]).toArray) r with
    | none => simp [hs] at h
    | some x =>
      have href := abs_refines_conc hT (Conc.sing d) (asciiAbs_of_lowC d hd)
      rw [searchO_mono href r x hs]
      simpa [hs] using h

/-! ### the front end on a rendered time, from abstract facts that cover it -/

/-- the groups of a digit clock time: `hour` / `min` / `sec` hold the tokens' texts, the description flags are `amD` /
`pmD`, every other group is empty (this is `Clock.groups`) -/
def clockGroups (L : List Tok) (h m s : Nat) (amD pmD : Bool) : TimeGroups :=
  { hour := tokText L 1 h m s, min := tokText L 2 h m s, sec := tokText L 3 h m s, amDesc := amD, pmDesc := pmD }

theorem capOf_none_text (s : Str) (env : Env) (g : Nat) (h : capOf env g = none) : groupText s env g = [] := by
  simp [groupText, h]

/-- The front end on a rendered time, from abstract facts that cover it: `at_regex` hands nothing over, the text is no
key of the number-word table (it begins with a digit), the regexes before `k` have no exact match, regex `k` has one with the
groups on the tokens; then `parse_basic_regex_match` hands `match_to_time` exactly the rendered hour / minute / second
tokens and the designator's am / pm classification. -/
theorem front_time {T : Tables} (hT : AsciiAgree T) {u : Uni} (hu : TextUni u) {lowerC : Nat → Str}
    (hl : LowerAscii lowerC) (F : Cfg) (numbers : List (Str × Nat)) (hnum : noDigitKeys numbers = true)
    (L : List Tok) (amD pmD : Bool) (k : Nat) (h m s : Nat)
    (hat : ∃ ah am as, CoverTokT L h m s ah am as ∧ atRej F (absLT L ah am as) = true)
    (hrej : ∀ j, j < k → ∃ ah am as, CoverTokT L h m s ah am as ∧ rejOneT F j (absLT L ah am as) = true)
    (hacc : ∃ ah am as, CoverTokT L h m s ah am as ∧ accOneT F k L ah am as = true)
    (hdesc : descOK F L amD pmD = true) :
    ∃ mt, parseTime T u lowerC F numbers (renderT L h m s) =
      some (.toTime (.rx k) mt (clockGroups L h m s amD pmD)) := by
  obtain ⟨ah, am, as, hcov, hk⟩ := hacc
  have hc := conc_layoutT h m s ah am as L hcov
  unfold accOneT at hk
  simp only [Bool.and_eq_true] at hk
  obtain ⟨⟨⟨⟨ha, hv⟩, hlow⟩, hfd⟩, hk⟩ := hk
  cases hr : F.rs[k]? with
  | none => simp [hr] at hk
  | some o =>
  cases o with
  | none => simp [hr] at hk
  | some r =>
  simp only [hr] at hk
  cases hst : exactO (absO asciiTables (absLT L ah am as).toArray) (absLT L ah am as).length r with
  | none => simp [hst] at hk
  | some o2 =>
  cases o2 with
  | none => simp [hst] at hk
  | some mt =>
  simp only [hst, Bool.and_eq_true, beq_iff_eq] at hk
  obtain ⟨⟨⟨⟨hg1, hg2⟩, hg3⟩, hg4⟩, hoth⟩ := hk
  -- the text is its own `strip().lower()`
  have hstrip := strip_conc hu hc hv
  have hlower : lower lowerC (renderT L h m s) = renderT L h m s :=
    lower_id hl _ (conc_all lowC hc (by simpa [lowAbs] using hlow))
  have hprep : prep u lowerC (renderT L h m s) = renderT L h m s := by simp [prep, hstrip, hlower]
  -- at_regex
  obtain ⟨bh, bm, bs, hcovA, hatr⟩ := hat
  have hcA := conc_layoutT h m s bh bm bs L hcovA
  unfold atRej at hatr
  simp only [Bool.and_eq_true] at hatr
  obtain ⟨⟨haA, hpre⟩, hatr⟩ := hatr
  cases hatre : F.atRe with
  | none => simp [hatre] at hatr
  | some atRe =>
  simp only [hatre, beq_iff_eq] at hatr
  have hatc := stepO_mono (abs_refines_conc hT hcA haA)
    (abs_refines_conc hT (Conc.append hcA (Conc.sing F.pre)) (asciiAbs_append (asciiAbs_sing F.pre hpre) haA)) _ atRe _ hatr
  -- the number-word table
  obtain ⟨c0, r0, hs0, hd0⟩ := conc_firstDigit hc hfd
  have hlook : lookup numbers (renderT L h m s) = none := by rw [hs0]; exact lookup_digit_none numbers hnum c0 r0 hd0
  -- the loop
  have hlen : (absLT L ah am as).length = (renderT L h m s).length := hc.length
  have hstep := exactO_mono (abs_refines_conc hT hc ha) _ r _ hst
  rw [hlen] at hstep
  have hrej' : ∀ j, j < k → ∃ rj, F.rs[j]? = some (some rj) ∧
      exactO (conc T (renderT L h m s).toArray) (renderT L h m s).length rj = some none := by
    intro j hj
    obtain ⟨ch, cm, cs, hcov', hrj⟩ := hrej j hj
    have hc' := conc_layoutT h m s ch cm cs L hcov'
    unfold rejOneT at hrj
    simp only [Bool.and_eq_true] at hrj
    obtain ⟨ha', hrj⟩ := hrj
    cases hrr : F.rs[j]? with
    | none => simp [hrr] at hrj
    | some o =>
      cases o with
      | none => simp [hrr] at hrj
      | some rj =>
        simp only [hrr, beq_iff_eq] at hrj
        refine ⟨rj, rfl, ?_⟩
        have := exactO_mono (abs_refines_conc hT hc' ha') _ rj _ hrj
        rwa [hc'.length] at this
  have hloop := loopO_of_steps _ _ F.rs 0 k r mt hrej' hr hstep
  -- spans: abstract token lengths = concrete token lengths
  have hlenT : ∀ t ∈ L, (absTokT ah am as t).length = (t.render h m s).length :=
    fun t ht => (conc_tokT h m s ah am as t (hcov t ht)).length
  have hsp : ∀ g, spanOfT (fun t => (absTokT ah am as t).length) g L 0 =
      spanOfT (fun t => (t.render h m s).length) g L 0 := fun g => spanOfT_congr _ _ g L 0 hlenT
  rw [hsp 1] at hg1
  rw [hsp 2] at hg2
  rw [hsp 3] at hg3
  rw [hsp 4] at hg4
  have t1 := groupText_span h m s 1 10 L mt.env hg1
  have t2 := groupText_span h m s 2 11 L mt.env hg2
  have t3 := groupText_span h m s 3 12 L mt.env hg3
  have t4 := groupText_span h m s 4 13 L mt.env hg4
  rw [tokText_desc] at t4
  simp only [otherGroups, List.all_cons, List.all_nil, Bool.and_true, Bool.and_eq_true, beq_iff_eq] at hoth
  obtain ⟨o1, o2, o3, o4, o5, o6, o7, o8, o9, o14, o15, o16, o17⟩ := hoth
  -- the description flags
  unfold descOK at hdesc
  simp only [Bool.and_eq_true, beq_iff_eq] at hdesc
  obtain ⟨⟨⟨hdl, hfa⟩, hfap⟩, hfp⟩ := hdesc
  have hdlow : lower lowerC (descText L) = descText L := lower_id hl _ hdl
  have fa := absFlag_sound hT F.amDesc _ hdl _ hfa
  have fap := absFlag_sound hT F.amPmDesc _ hdl _ hfap
  have fp := absFlag_sound hT F.pmDesc _ hdl _ hfp
  refine ⟨mt, ?_⟩
  unfold parseTime
  simp only [hprep, hatre, hatc, hlook, hstrip, hloop, Nat.zero_add]
  simp [timeGroupsOf, t1, t2, t3, t4, hdlow, fa, fap, fp, clockGroups, capOf_none_text _ _ _ o1, capOf_none_text _ _ _ o2,
    capOf_none_text _ _ _ o3, capOf_none_text _ _ _ o4, capOf_none_text _ _ _ o5, capOf_none_text _ _ _ o6,
    capOf_none_text _ _ _ o7, capOf_none_text _ _ _ o8, capOf_none_text _ _ _ o9, capOf_none_text _ _ _ o14,
    capOf_none_text _ _ _ o15, capOf_none_text _ _ _ o16, capOf_none_text _ _ _ o17]

/-! ### all times of the ranges from finitely many abstract texts -/

/-- abstract strings for the hour, minute and second token -/
structure CertT where
  hs : List AStr
  ms : List AStr
  ss : List AStr

/-- every hour `lo..hi`, every minute and every second 0..59, rendered by the layout's tokens, is drawn from one of the
certificate's abstract strings -/
def coverBT (L : List Tok) (lo hi : Nat) (c : CertT) : Bool :=
  (List.range (hi + 1 - lo)).all (fun i => c.hs.any fun ah => L.all fun t => t.kind != 1 || concB ah (t.render (lo + i) 0 0)) &&
  (List.range 60).all (fun i => c.ms.any fun am => L.all fun t => t.kind != 2 || concB am (t.render 0 i 0)) &&
  (List.range 60).all (fun i => c.ss.any fun as => L.all fun t => t.kind != 3 || concB as (t.render 0 0 i))

def atRejAll (F : Cfg) (L : List Tok) (c : CertT) : Bool :=
  c.hs.all fun ah => c.ms.all fun am => c.ss.all fun as => atRej F (absLT L ah am as)

def rejAllT (F : Cfg) (j : Nat) (L : List Tok) (c : CertT) : Bool :=
  c.hs.all fun ah => c.ms.all fun am => c.ss.all fun as => rejOneT F j (absLT L ah am as)

def accAllT (F : Cfg) (k : Nat) (L : List Tok) (c : CertT) : Bool :=
  c.hs.all fun ah => c.ms.all fun am => c.ss.all fun as => accOneT F k L ah am as

theorem renderT_kind1 (t : Tok) (hk : t.kind = 1) (h m s m' s' : Nat) : t.render h m s = t.render h m' s' := by
  cases t <;> simp_all [Tok.kind, Tok.render]

theorem renderT_kind2 (t : Tok) (hk : t.kind = 2) (h m s h' s' : Nat) : t.render h m s = t.render h' m s' := by
  cases t <;> simp_all [Tok.kind, Tok.render]

theorem renderT_kind3 (t : Tok) (hk : t.kind = 3) (h m s h' m' : Nat) : t.render h m s = t.render h' m' s := by
  cases t <;> simp_all [Tok.kind, Tok.render]

theorem cover_of_coverBT (L : List Tok) (lo hi : Nat) (c : CertT) (hcv : coverBT L lo hi c = true) (h m s : Nat)
    (hh : lo ≤ h ∧ h ≤ hi) (hm : m < 60) (hs : s < 60) :
    ∃ ah, ah ∈ c.hs ∧ ∃ am, am ∈ c.ms ∧ ∃ as, as ∈ c.ss ∧ CoverTokT L h m s ah am as := by
  unfold coverBT at hcv
  simp only [Bool.and_eq_true, List.all_eq_true, List.any_eq_true, List.mem_range, Bool.or_eq_true, bne_iff_ne, ne_eq,
    concB_iff] at hcv
  obtain ⟨⟨h1, h2⟩, h3⟩ := hcv
  obtain ⟨ah, hah, hh'⟩ := h1 (h - lo) (by omega)
  obtain ⟨am, ham, hm'⟩ := h2 m hm
  obtain ⟨as, has, hs'⟩ := h3 s hs
  have e1 : lo + (h - lo) = h := by omega
  rw [e1] at hh'
  refine ⟨ah, hah, am, ham, as, has, fun t ht => ⟨fun hk => ?_, fun hk => ?_, fun hk => ?_⟩⟩
  · rcases hh' t ht with hx | hx
    · exact absurd hk hx
    · rw [renderT_kind1 t hk h m s 0 0]; exact hx
  · rcases hm' t ht with hx | hx
    · exact absurd hk hx
    · rw [renderT_kind2 t hk h m s 0 0]; exact hx
  · rcases hs' t ht with hx | hx
    · exact absurd hk hx
    · rw [renderT_kind3 t hk h m s 0 0]; exact hx

/-- The front end on EVERY time of the ranges, in a layout: one certificate for `at_regex`, one per earlier regex, one for
the accepting regex, each covering the ranges and each checked by evaluation on its abstract texts. -/
theorem front_time_all {T : Tables} (hT : AsciiAgree T) {u : Uni} (hu : TextUni u) {lowerC : Nat → Str}
    (hl : LowerAscii lowerC) (F : Cfg) (numbers : List (Str × Nat)) (hnum : noDigitKeys numbers = true)
    (L : List Tok) (lo hi : Nat) (amD pmD : Bool) (k : Nat) (atc : CertT) (rc : Nat → CertT) (ac : CertT)
    (hat : coverBT L lo hi atc = true ∧ atRejAll F L atc = true)
    (hrej : ∀ j, j < k → coverBT L lo hi (rc j) = true ∧ rejAllT F j L (rc j) = true)
    (hacc : coverBT L lo hi ac = true ∧ accAllT F k L ac = true)
    (hdesc : descOK F L amD pmD = true)
    (h m s : Nat) (hh : lo ≤ h ∧ h ≤ hi) (hm : m < 60) (hs : s < 60) :
    ∃ mt, parseTime T u lowerC F numbers (renderT L h m s) =
      some (.toTime (.rx k) mt (clockGroups L h m s amD pmD)) := by
  apply front_time hT hu hl F numbers hnum L amD pmD k h m s
  · obtain ⟨hc, hr⟩ := hat
    obtain ⟨ah, hah, am, ham, as, has, hcov⟩ := cover_of_coverBT L lo hi atc hc h m s hh hm hs
    refine ⟨ah, am, as, hcov, ?_⟩
    unfold atRejAll at hr
    simp only [List.all_eq_true] at hr
    exact hr ah hah am ham as has
  · intro j hj
    obtain ⟨hc, hr⟩ := hrej j hj
    obtain ⟨ah, hah, am, ham, as, has, hcov⟩ := cover_of_coverBT L lo hi (rc j) hc h m s hh hm hs
    refine ⟨ah, am, as, hcov, ?_⟩
    unfold rejAllT at hr
    simp only [List.all_eq_true] at hr
    exact hr ah hah am ham as has
  · obtain ⟨hc, hr⟩ := hacc
    obtain ⟨ah, hah, am, ham, as, has, hcov⟩ := cover_of_coverBT L lo hi ac hc h m s hh hm hs
    refine ⟨ah, am, as, hcov, ?_⟩
    unfold accAllT at hr
    simp only [List.all_eq_true] at hr
    exact hr ah hah am ham as has
  · exact hdesc

end RTV.TimeFront
