import RTV.Lemmas.NumCjk
/-! kernel evaluation of the typed `get_int_value` walk (int / binary64), numerals 6000..6999 -/
namespace RTV.NumCjk
theorem zh_l60 : zhLoopChunk 60 = true := by decide +kernel
theorem zh_l61 : zhLoopChunk 61 = true := by decide +kernel
theorem zh_l62 : zhLoopChunk 62 = true := by decide +kernel
theorem zh_l63 : zhLoopChunk 63 = true := by decide +kernel
theorem zh_l64 : zhLoopChunk 64 = true := by decide +kernel
theorem zh_l65 : zhLoopChunk 65 = true := by decide +kernel
theorem zh_l66 : zhLoopChunk 66 = true := by decide +kernel
theorem zh_l67 : zhLoopChunk 67 = true := by decide +kernel
theorem zh_l68 : zhLoopChunk 68 = true := by decide +kernel
theorem zh_l69 : zhLoopChunk 69 = true := by decide +kernel
end RTV.NumCjk
