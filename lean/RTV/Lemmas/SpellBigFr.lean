import RTV.Lemmas.SpellBigG
import RTV.Lemmas.SpellFr
/-! French: the side facts of the guarded lift `top_value` for every group 1..999 (kernel evaluation on the regenerated
maps in chunks of 100), the scale-word table, the numerals with a group of exactly one million / one milliard (the
tokeniser yields the single tokens `un million`, `un milliard`, which are cardinal words, not end words: such a numeral
is read back only when nothing but a flat remainder follows — evaluated by the kernel), and the lift to every
`n < 10^12` under the exact guard `frBigGuard`. -/
namespace RTV.Num
open RTV.Py

def frAll (_ : Nat) : Bool := true

def frTChunk (j : Nat) : Bool :=
  (List.range 100).all fun i =>
    (100 * j + i == 0 || !frGuard (100 * j + i) ||
      (lastFact frTop fr.lang (100 * j + i) &&
        (decide (100 * j + i < 2) || multSFact frTop fr.lang (100 * j + i)))) &&
    (decide (100 * j + i < 2) || multKFact frTop fr.lang (100 * j + i))

theorem fr_t0 : frTChunk 0 = true := by decide +kernel
theorem fr_t1 : frTChunk 1 = true := by decide +kernel
theorem fr_t2 : frTChunk 2 = true := by decide +kernel
theorem fr_t3 : frTChunk 3 = true := by decide +kernel
theorem fr_t4 : frTChunk 4 = true := by decide +kernel
theorem fr_t5 : frTChunk 5 = true := by decide +kernel
theorem fr_t6 : frTChunk 6 = true := by decide +kernel
theorem fr_t7 : frTChunk 7 = true := by decide +kernel
theorem fr_t8 : frTChunk 8 = true := by decide +kernel
theorem fr_t9 : frTChunk 9 = true := by decide +kernel

theorem fr_tchunks (j : Nat) (hj : j < 10) : frTChunk j = true := by
  match j, hj with
  | 0, _ => exact fr_t0
  | 1, _ => exact fr_t1
  | 2, _ => exact fr_t2
  | 3, _ => exact fr_t3
  | 4, _ => exact fr_t4
  | 5, _ => exact fr_t5
  | 6, _ => exact fr_t6
  | 7, _ => exact fr_t7
  | 8, _ => exact fr_t8
  | 9, _ => exact fr_t9
  | j + 10, h => omega

theorem fr_tfacts (x : Nat) (h1 : 1 ≤ x) (h2 : x < 1000) :
    (frGuard x = true → lastFact frTop fr.lang x = true ∧ (2 ≤ x → multSFact frTop fr.lang x = true)) ∧
    (2 ≤ x → multKFact frTop fr.lang x = true) := by
  have hc := fr_tchunks (x / 100) (by omega)
  simp only [frTChunk, List.all_eq_true, List.mem_range] at hc
  have := hc (x % 100) (Nat.mod_lt _ (by decide))
  have e : 100 * (x / 100) + x % 100 = x := Nat.div_add_mod x 100
  rw [e] at this
  have hz : (x == 0) = false := by simp; omega
  simp only [hz, Bool.false_or, Bool.and_eq_true, Bool.or_eq_true, Bool.not_eq_true', decide_eq_true_eq] at this
  obtain ⟨a, b⟩ := this
  refine ⟨fun hg => ?_, fun h2' => ?_⟩
  · rcases a with a | ⟨a1, a2⟩
    · rw [hg] at a; cases a
    · refine ⟨a1, fun h2' => ?_⟩
      rcases a2 with a2 | a2
      · omega
      · exact a2
  · rcases b with b | b
    · omega
    · exact b

theorem fr_word_mille : lookup fr.lang.round frTop.wordK = some 1000 := by decide +kernel

theorem fr_topHyps : TopHyps frTop fr.lang frGuard frAll frGuard where
  zero := fr_all 0 (by decide) rfl
  last := fun u h1 h2 hg => ((fr_tfacts u h1 h2).1 hg).1
  multK := fun k h1 h2 _ => (fr_tfacts k (by omega) h2).2 h1
  multS := fun g h1 h2 hg => ((fr_tfacts g (by omega) h2).1 hg).2 h1
  wordK := fr_word_mille
  oneK := ⟨_, rfl, fr_word_mille⟩

theorem fr_scales_reg : scales2OK fr.lang 1000000000000 frScalesReg = true := by decide +kernel

/-- every numeral below 10^12, with `un` + noun as two tokens (what the tokeniser yields when no group is exactly 1) -/
theorem fr_reg_value (n : Nat) (hn : n < 1000000000000)
    (hg : restGuard frGuard frAll frGuard frScalesReg n = true) :
    getIntValue true asciiDigits fr.lang (spellTop frTop frScalesReg n).2 = .ok n :=
  top_value frTop fr.lang frGuard frAll frGuard 1000000000000 frScalesReg fr_topHyps fr_scales_reg n hn hg

theorem fr_sameNouns : sameNouns frScales frScalesReg := ⟨rfl, rfl, rfl, rfl, trivial⟩

/-! ### the numerals with the single tokens `un million` / `un milliard` -/

/-- `un milliard [un million] [1..99]`: evaluated -/
def frFlatA (m : Nat) : Bool :=
  (List.range 100).all fun u =>
    okRes (getIntValue true asciiDigits fr.lang (spellTop frTop frScales (1000000000 + m * 1000000 + u)).2)
      (1000000000 + m * 1000000 + u)

theorem fr_flatA0 : frFlatA 0 = true := by decide +kernel
theorem fr_flatA1 : frFlatA 1 = true := by decide +kernel

/-- `un million [1..99]` alone, and as what follows the milliards: not empty, no round word, its value -/
def frFlatB : Bool :=
  (List.range 100).all fun u =>
    okRes (getIntValue true asciiDigits fr.lang (spellTop frTop frScales (1000000 + u)).2) (1000000 + u) &&
    (let R := (topRest frTop (frScales.drop 1) (1000000 + u)).2
     !R.isEmpty && (R.all fun t => (lookup fr.lang.round t).isNone) &&
       okRes (getIntValue true asciiDigits fr.lang R) (1000000 + u))

theorem fr_flatB : frFlatB = true := by decide +kernel

theorem fr_milliards : lookup fr.lang.round [109, 105, 108, 108, 105, 97, 114, 100, 115] = some 1000000000 := by
  decide +kernel

/-- the exact guard: no last group / million multiplier / milliard multiplier is a round hundred `deux cents` …
`neuf cents`; after `un million` only a remainder below 100; after `un milliard` only `un million` and a remainder
below 100 -/
def frBigGuard (n : Nat) : Bool :=
  frGuard (n % 1000) && frGuard (n / 1000000 % 1000) && frGuard (n / 1000000000) &&
  (n / 1000000 % 1000 != 1 || (n / 1000 % 1000 == 0 && decide (n % 1000 < 100))) &&
  (n / 1000000000 != 1 || (decide (n / 1000000 % 1000 ≤ 1) && n / 1000 % 1000 == 0 && decide (n % 1000 < 100)))

/-- **French**, every `n < 10^12` under the guard -/
theorem fr_big (n : Nat) (hn : n < 1000000000000) (hg : frBigGuard n = true) :
    getIntValue true asciiDigits fr.lang (spellTop frTop frScales n).2 = .ok n := by
  simp only [frBigGuard, Bool.and_eq_true, Bool.or_eq_true, bne_iff_ne, ne_eq, beq_iff_eq, decide_eq_true_eq] at hg
  obtain ⟨⟨⟨⟨gu, gm⟩, gb⟩, hm1⟩, hb1⟩ := hg
  by_cases hb : n / 1000000000 = 1
  · -- `un milliard …`
    rcases hb1 with h0 | ⟨⟨hm, hk⟩, hu⟩
    · exact absurd hb h0
    · have hA : ∀ m, m < 2 → frFlatA m = true := by
        intro m hm2
        match m, hm2 with
        | 0, _ => exact fr_flatA0
        | 1, _ => exact fr_flatA1
        | m + 2, h => omega
      have := hA (n / 1000000 % 1000) (by omega)
      simp only [frFlatA, List.all_eq_true, List.mem_range, okRes, decide_eq_true_eq] at this
      have := this (n % 1000) hu
      have e : 1000000000 + n / 1000000 % 1000 * 1000000 + n % 1000 = n := by omega
      rw [e] at this
      exact this
  · by_cases hm : n / 1000000 % 1000 = 1
    · -- `[b milliards] un million [1..99]`
      rcases hm1 with h0 | ⟨hk, hu⟩
      · exact absurd hm h0
      · have hB := fr_flatB
        simp only [frFlatB, List.all_eq_true, List.mem_range, Bool.and_eq_true, okRes, decide_eq_true_eq,
          Bool.not_eq_true', Option.isNone_iff_eq_none] at hB
        obtain ⟨v0, ⟨rne, rflat⟩, rval⟩ := hB (n % 1000) hu
        by_cases hb0 : n / 1000000000 = 0
        · have e : 1000000 + n % 1000 = n := by omega
          rw [e] at v0
          exact v0
        · -- block `b`, end word `milliards`, the flat rest
          have hbb : 2 ≤ n / 1000000000 := by omega
          have hb2 : n / 1000000000 < 1000 := by omega
          have hmod : n % 1000000000 = 1000000 + n % 1000 := by omega
          have hne0 : (n / 1000000000 == 0) = false := by simp [hb0]
          have hne1 : (n / 1000000000 == 1) = false := by simp [hb]
          have htoks : (spellTop frTop frScales n).2 =
              (frTop.multS (n / 1000000000)).2 ++ [109, 105, 108, 108, 105, 97, 114, 100, 115] ::
                (topRest frTop (frScales.drop 1) (1000000 + n % 1000)).2 := by
            simp [spellTop, frScales, topTop, topGroup, hne0, hne1, hmod]
          rw [htoks]
          generalize hR : (topRest frTop (frScales.drop 1) (1000000 + n % 1000)).2 = R at rne rflat rval ⊢
          obtain ⟨mne, min, mval⟩ := multS_facts frTop fr.lang _
            (((fr_tfacts (n / 1000000000) (by omega) hb2).1 gb).2 hbb)
          have hRne : R ≠ [] := by
            intro e; rw [e] at rne; simp at rne
          have hscan : scanR fr.lang.round R 1 = (R.map fun _ => false, 1) :=
            scanR_inert fr.lang.round 1 R (fun t ht => Or.inl (rflat t ht))
          generalize hF : ((frTop.multS (n / 1000000000)).2 ++ [109, 105, 108, 108, 105, 97, 114, 100, 115] :: R).length + 2 = F
          have hlen : ((frTop.multS (n / 1000000000)).2 ++ [109, 105, 108, 108, 105, 97, 114, 100, 115] :: R).length =
              (frTop.multS (n / 1000000000)).2.length + R.length + 1 := by simp; omega
          have halen : 1 ≤ (frTop.multS (n / 1000000000)).2.length := by
            cases hq : (frTop.multS (n / 1000000000)).2 with
            | nil => exact absurd hq mne
            | cons a as => simp
          have g0 := good_of_value asciiDigits fr.lang R (1000000 + n % 1000) (R.length + 3) F hRne (by omega) rval
            (fun _ => rflat)
          rw [hscan] at g0
          have hrec : getIntValueF true asciiDigits fr.lang F (frTop.multS (n / 1000000000)).2 =
              .ok (n / 1000000000) := by
            unfold getIntValue at mval
            exact getIntValueF_mono true asciiDigits fr.lang _ F _ _ mval (by omega)
          have key := good_step true _ fr.lang.round _ _ 1000000000 (n / 1000000000) R (1000000 + n % 1000) 1 g0
            (by omega) fr_milliards mne (Inert.mono min (by omega)) hrec
          have hv : 1000000000 * (n / 1000000000) + (1000000 + n % 1000) = n := by omega
          rw [hv] at key
          unfold getIntValue
          have hF' : ((frTop.multS (n / 1000000000)).2 ++ [109, 105, 108, 108, 105, 97, 114, 100, 115] :: R).length + 3 =
              F + 1 := by omega
          rw [hF']
          exact eval_of_good asciiDigits fr.lang F _ n 1000000000 key (by simp) (by omega)
    · -- no group of exactly one: both scale tables give the same tokens
      have hno : noOne frScales n := by
        refine ⟨hb, ?_, trivial⟩
        show n % 1000000000 / 1000000 ≠ 1
        omega
      have hc : spellTop frTop frScales n = spellTop frTop frScalesReg n :=
        topTop_congr frTop frScales frScalesReg n fr_sameNouns hno
      rw [hc]
      refine fr_reg_value n hn ?_
      have e1 : n % 1000000000 / 1000000 = n / 1000000 % 1000 := by omega
      have e2 : n % 1000000000 % 1000000 % 1000 = n % 1000 := by omega
      simp only [restGuard, lowGuard, frScalesReg, frAll, e1, e2, Bool.or_true, Bool.and_true, Bool.and_eq_true,
        Bool.or_eq_true, decide_eq_true_eq, beq_iff_eq]
      exact ⟨Or.inr gb, Or.inr gm, Or.inr gu⟩

end RTV.Num
