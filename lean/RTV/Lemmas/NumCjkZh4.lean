import RTV.Lemmas.NumCjk
/-! kernel evaluation of the typed `get_int_value` walk (int / binary64), numerals 4000..4999 -/
namespace RTV.NumCjk
theorem zh_l40 : zhLoopChunk 40 = true := by decide +kernel
theorem zh_l41 : zhLoopChunk 41 = true := by decide +kernel
theorem zh_l42 : zhLoopChunk 42 = true := by decide +kernel
theorem zh_l43 : zhLoopChunk 43 = true := by decide +kernel
theorem zh_l44 : zhLoopChunk 44 = true := by decide +kernel
theorem zh_l45 : zhLoopChunk 45 = true := by decide +kernel
theorem zh_l46 : zhLoopChunk 46 = true := by decide +kernel
theorem zh_l47 : zhLoopChunk 47 = true := by decide +kernel
theorem zh_l48 : zhLoopChunk 48 = true := by decide +kernel
theorem zh_l49 : zhLoopChunk 49 = true := by decide +kernel
end RTV.NumCjk
